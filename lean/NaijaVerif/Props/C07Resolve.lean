/-
C07 (resolver part) — the spans of the resolver's diagnostics come from the AST.

Every span the resolver model attaches to a diagnostic (the diagnostic's own span and the spans of
its labels) is a span occurring in the program it resolved (`Parse.blockSpans`: statement, block,
expression, variable-name, function-name, parameter, index and member spans).  The resolver builds
no span of its own, so the span-safety facts the parser theorems establish for the AST carry over to
the resolver's diagnostics (`Props/C07.lean`).  The real resolver's diagnostic spans are compared with
the model's by the `resolve` correspondence stream (label spans are not part of that stream's
canonical form: they are `*span` / `*var_span` / `*name_span` / `*param_span` / `*index_span` copies
in `resolver.rs`, modelled one for one in `Model/Resolve.lean`).
-/
import NaijaVerif.Lemmas.ResolveSpans

namespace NaijaVerif.C07Resolve
open NaijaVerif NaijaVerif.Resolve

/-- Every diagnostic span and label span emitted by `Resolve.resolve p` is a span of `p`. -/
theorem resolve_diag_spans_from_ast (p : Block) :
    ∀ d ∈ (resolve p).diags, ∀ s ∈ Parse.diagSpans d, s ∈ Parse.blockSpans p := by
  intro d hd s hs
  simp only [resolve, resolveWith, List.mem_map] at hd
  obtain ⟨r, hr, rfl⟩ := hd
  apply checkBlock_spans (rootEnv true) none p rootFacts s
  simp only [spansOf, List.mem_flatMap]
  exact ⟨r, hr, by simpa [Parse.diagSpans, RDiag.toDiag] using hs⟩

/-- The same for either way `locals_len` is computed (the diagnostics do not depend on it). -/
theorem resolveWith_diag_spans_from_ast (spanLen : Bool) (p : Block) :
    ∀ d ∈ (resolveWith spanLen p).diags, ∀ s ∈ Parse.diagSpans d, s ∈ Parse.blockSpans p := by
  intro d hd s hs
  simp only [resolveWith, List.mem_map] at hd
  obtain ⟨r, hr, rfl⟩ := hd
  apply checkBlock_spans (rootEnv spanLen) none p rootFacts s
  simp only [spansOf, List.mem_flatMap]
  exact ⟨r, hr, by simpa [Parse.diagSpans, RDiag.toDiag] using hs⟩

/-- Non-vacuity: a duplicate definition is reported at the second name span with a label at the
first one; both are spans of the program. -/
example :
    let p : Block := .mk [.fnDef (b!"f") ⟨3, 4⟩ [] (.mk [] ⟨8, 17⟩) none none ⟨0, 17⟩,
                          .fnDef (b!"f") ⟨21, 22⟩ [] (.mk [] ⟨26, 35⟩) none none ⟨18, 35⟩] ⟨0, 35⟩
    (resolve p).diags.map Parse.diagSpans = [[⟨21, 22⟩, ⟨3, 4⟩, ⟨21, 22⟩]] := by
  decide +kernel

end NaijaVerif.C07Resolve
