import NaijaVerif.Lemmas.LexLayout
/-
C10, lexer part: layout is insignificant for the lexer.

Vocabulary (`Lemmas/LexLayout.lean`): `Sep` — separator texts (space, TAB, LF, FF, CR and `#` comments
ended by the first LF or CR); `Trail` — nothing or an unfinished comment at the very end; `Lexeme t text`
— `text` is a spelling of token `t` (multi-word keywords: any non-empty whitespace, but no comment,
between the words; strings: any quoting/escaping that scans to the content); `FollowOK t rest` — `t`
does not merge with what follows; `Layout` / `render` / `Valid`.

All theorems are for every token sequence, every layout and every length (no bound).
-/
namespace NaijaVerif.Props.C10Lex
open NaijaVerif NaijaVerif.Lex

/-- **Separators are skipped** whatever follows: the loop of `next_token` gets from `s ++ X` to `X`
without producing a token or a diagnostic (and without running out of fuel). -/
theorem c10_lex_sep_skipped {s : Bytes} (hs : Sep s) (X : Bytes) (f pos : Nat) (hf : (s ++ X).length < f) :
    ∃ f' pos', X.length < f' ∧ lexGo f ⟨pos, s ++ X⟩ = lexGo f' ⟨pos', X⟩ :=
  lexGo_sep hs X f pos hf

/-- **One-token step**: any spelling of `t` followed by anything `t` does not merge with is lexed as
exactly `t`, with no diagnostic, leaving the cursor directly behind the spelling. -/
theorem c10_lex_one_token {t : Tok} {text : Bytes} (hl : Lexeme t text) (pos : Nat) (rest : Bytes)
    (hf : FollowOK t rest) :
    ∃ lo hi pos', step ⟨pos, text ++ rest⟩ = .tok ⟨t, ⟨lo, hi⟩⟩ ⟨pos', rest⟩ [] :=
  (step_lexeme hl pos rest hf).1

/-- **Round trip**: every valid layout of a token sequence lexes to exactly that sequence followed by
the parser's EOF, and the lexer reports nothing. -/
theorem c10_lex_roundtrip {lead tr : Bytes} (hlead : Sep lead) (htr : Trail tr) (l : Layout) (hv : Valid tr l) :
    (lex (lead ++ render tr l)).1.map (·.tok) = l.toks ++ [.eof] ∧ (lex (lead ++ render tr l)).2 = [] :=
  lex_layout hlead htr l hv

/-- **Layout is insignificant**: two valid layouts of the same token sequence — different separators,
comments, line ends, spellings of the multi-word keywords — give the parser the same tokens. -/
theorem c10_lex_layout_insensitive {lead₁ tr₁ lead₂ tr₂ : Bytes} (l₁ l₂ : Layout)
    (h₁ : Sep lead₁) (t₁ : Trail tr₁) (v₁ : Valid tr₁ l₁) (h₂ : Sep lead₂) (t₂ : Trail tr₂) (v₂ : Valid tr₂ l₂)
    (same : l₁.toks = l₂.toks) :
    (lex (lead₁ ++ render tr₁ l₁)).1.map (·.tok) = (lex (lead₂ ++ render tr₂ l₂)).1.map (·.tok) ∧
    (lex (lead₁ ++ render tr₁ l₁)).2 = [] ∧ (lex (lead₂ ++ render tr₂ l₂)).2 = [] := by
  have a := lex_layout h₁ t₁ l₁ v₁
  have b := lex_layout h₂ t₂ l₂ v₂
  exact ⟨by rw [a.1, b.1, same], a.2, b.2⟩

/-- token sequences some text produces without a lexer diagnostic (a sufficient, constructive form:
they have a valid layout) -/
def Canonical (ts : List Tok) : Prop := ∃ lead tr l, Sep lead ∧ Trail tr ∧ Valid tr l ∧ l.toks = ts

theorem c10_canonical_sound {ts : List Tok} (h : Canonical ts) :
    ∃ src, (lex src).1.map (·.tok) = ts ++ [.eof] ∧ (lex src).2 = [] := by
  obtain ⟨lead, tr, l, h1, h2, h3, rfl⟩ := h
  exact ⟨_, lex_layout h1 h2 l h3⟩

/-- Sufficient condition for the extra requirement on the identifiers `if` / `small`: a comment (or any
byte that is neither whitespace nor the first letter of the next word) directly after the identifier's
whitespace stops the look-ahead.  Here: the separator starts with `#`. -/
theorem c10_ident_follow_comment (w : Bytes) (X : Bytes) :
    FollowOK (.ident w) (35 :: X) := by
  refine ⟨firstNot_cons (by decide), ?_⟩
  intro alts hl p
  have hm := lookup_mem _ _ _ hl
  have hmiss : ∀ (wd : Bytes) (c : Cur), c.rest = 35 :: X → wd.isPrefixOf (35 :: X) = false → tryWord wd c = none := by
    intro wd c hc hp
    have hs : skipWs c = c := by
      cases c with
      | mk pos rest => simp only [] at hc; subst hc; exact skipWs_stop pos _ (firstNot_cons (by decide))
    simp [tryWord, hs, hc, hp]
  simp [multiWord] at hm
  rcases hm with ⟨_, rfl⟩ | ⟨_, rfl⟩
  · simp [tryAlts, tryWords, hmiss (b!"to") ⟨p, 35 :: X⟩ rfl (by simp [List.isPrefixOf]),
      hmiss (b!"not") ⟨p, 35 :: X⟩ rfl (by simp [List.isPrefixOf])]
  · simp [tryAlts, tryWords, hmiss (b!"pass") ⟨p, 35 :: X⟩ rfl (by simp [List.isPrefixOf])]

/-! ## non-vacuity -/

/-- a concrete valid layout: `make x get 1.5` with a blank, a line end, a CR-terminated comment, no
separator before the final unfinished comment -/
example :
    let l : Layout := [((.make, b!"make"), b!" "), ((.ident (b!"x"), b!"x"), b!"\n"),
      ((.get, b!"get"), b!"# c\r"), ((.num (b!"1.5"), b!"1.5"), [])]
    Valid (b!"# end") l ∧ (lex (render (b!"# end") l)).1.map (·.tok) = [.make, .ident (b!"x"), .get, .num (b!"1.5"), .eof] := by
  refine ⟨⟨Lexeme.kw _ _ (by decide), Sep.ws 32 [] (by decide) Sep.nil, ?_, Lexeme.ident _ (by decide) (by decide),
    Sep.ws 10 [] (by decide) Sep.nil, ⟨?_, ?_⟩, Lexeme.kw _ _ (by decide),
    Sep.comment (b!" c") 13 [] (by decide) (by decide) Sep.nil, ?_,
    Lexeme.numFrac (b!"1") (b!"5") (by decide) (by decide) (by decide) (by decide), Sep.nil, ⟨?_, ?_, ?_⟩, trivial⟩, by decide⟩
  · intro b r h; cases h; decide
  · intro b r h; cases h; decide
  · intro alts h; have hn : multiWord.lookup (b!"x") = none := by decide
    rw [hn] at h; cases h
  · intro b r h; cases h; decide
  · intro b r h; cases h; decide
  · intro b r h; cases h; decide
  · exact Or.inl (by decide)

/-- why `Valid` must constrain the identifier `if`: the same three words are one keyword when only
whitespace separates them and three identifiers when a comment does -/
example : (lex (b!"if to say")).1.map (·.tok) = [.ifToSay, .eof] := by decide
example : (lex (b!"if # c\n to say")).1.map (·.tok) = [.ident (b!"if"), .ident (b!"to"), .ident (b!"say"), .eof] := by
  decide
/-- a digit ends the last word of a multi-word keyword -/
example : (lex (b!"if to say2")).1.map (·.tok) = [.ifToSay, .num (b!"2"), .eof] := by decide
/-- CR alone ends a comment; CRLF, FF and TAB are whitespace between the words of `small pass` -/
example : (lex (b!"#c\rsmall\r\n\x0c\tpass")).1.map (·.tok) = [.smallPass, .eof] := by decide

end NaijaVerif.Props.C10Lex
