import NaijaVerif.Lemmas.RenderTotal
import NaijaVerif.Lemmas.RenderSpec
import NaijaVerif.Gen.Render
import NaijaVerif.Props.C07Lex
/-
C07, renderer part: the whole set of diagnostics can be rendered to the terminal format without failure.

All theorems are about `NaijaVerif.Render.renderAnsi` (`Model/Render.lean`, the model of
`Diagnostics::render_ansi` in `src/diagnostics.rs`, in which every `&src[a..b]`, every `usize - 1` and
every vector index is checked and a failed check is the result `none` = the Rust code panics).  They hold
for **every** valid UTF-8 text (a Rust `&str`) of any length, every file name and every list of
diagnostics whose spans and label spans are `SafeSpan`s — exactly what `Props/C07Lex.lean`,
`Props/C07Parse.lean` and `Props/C07.lean` deliver for the lexer, the parser and the resolver.
The first block ties the model's constants and conventions to the source of this run.
-/
namespace NaijaVerif.Props.C07Render
open NaijaVerif NaijaVerif.Render NaijaVerif.Utf8
open NaijaVerif.Bytes (isBoundary)
open NaijaVerif.Props.C07Lex (SafeSpan)

/-! ## the constants and conventions of `diagnostics.rs` (extracted on every run) are the model's -/

theorem gen_constants :
    Gen.Render.bold = bold ∧ Gen.Render.reset = reset ∧ Gen.Render.tabWidth = tabWidth ∧
    Gen.Render.colors = [color .error, color .warning, color .note] ∧
    Gen.Render.sevLabels = [sevLabel .error, sevLabel .warning, sevLabel .note] := by decide

/-- `compute_line_starts`: `memchr2('\r', '\n')`; `"\r\n"` pushes `idx + 2`, a lone `'\r'` and a `'\n'`
push `idx + 1` — the rule of `lineStartsFrom` -/
theorem gen_lineStartRule :
    Gen.Render.lineBreakNeedles = [cr, nl] ∧ Gen.Render.lineStartRule = [cr, nl, 2, 1, 1] ∧
    lineStartsFrom 0 [cr, nl] = [Gen.Render.lineStartRule[2]!] ∧
    lineStartsFrom 0 [cr] = [Gen.Render.lineStartRule[3]!] ∧
    lineStartsFrom 0 [nl] = [Gen.Render.lineStartRule[4]!] := by decide

/-- the `+ 1` / `- 1` / `.max(1)` conventions the model hard-codes, the number of tab-stop sites and of
`src[..]` slice expressions (7: one in `line_col_from_span`, six in `render_diagnostic` — the seven
`slice?` of the model) -/
theorem gen_conventions :
    Gen.Render.searchMissMinus = 1 ∧ Gen.Render.lineEndMinus = 1 ∧ Gen.Render.colPlus = 1 ∧
    Gen.Render.linePlus = 1 ∧ Gen.Render.caretMin = 1 ∧ Gen.Render.labelColPlus = 1 ∧
    Gen.Render.dashMins = [1, 1] ∧ Gen.Render.caretIndentMinus = 1 ∧ Gen.Render.labelIndentMinus = 1 ∧
    Gen.Render.maxLineInit = 1 ∧ Gen.Render.tabStopSites = 2 ∧ Gen.Render.sliceSites = 7 := by decide

theorem gen_chars :
    Gen.Render.caretChar = 94 ∧ Gen.Render.dashChar = 45 ∧ Gen.Render.caretIndentChar = space ∧
    Gen.Render.labelIndentChar = space ∧
    renderCaretLine 2 2 [] [] = some ([Gen.Render.caretIndentChar] ++ bold ++ [Gen.Render.caretChar, Gen.Render.caretChar] ++ reset) ∧
    renderLabelLine 2 2 [] [] [] = some ([Gen.Render.labelIndentChar] ++ bold ++ [Gen.Render.dashChar, Gen.Render.dashChar] ++ reset ++ [space] ++ bold ++ reset) := by
  decide

/-- the four format strings, the pushes of the caret and label lines and the order of the lines written
are the ones the model was written from -/
theorem gen_formats :
    Gen.Render.headerFmt = b!"{BOLD}{color}{}[{code}]{RESET}: {BOLD}{message}{RESET}" ∧
    Gen.Render.locationFmt = b!" {BOLD}{color}-->{RESET} {filename}:{line}:{col}" ∧
    Gen.Render.gutterFmt = b!"{BOLD}{color}{line:>width$} |{RESET} " ∧
    Gen.Render.plainGutterFmt = b!"{BOLD}{color}{:>width$} |{RESET} " ∧
    Gen.Render.caretLinePushes = [b!"plain_gutter", b!"' '", b!"BOLD", b!"color", b!"'^'", b!"RESET"] ∧
    Gen.Render.labelLinePushes = [b!"plain_gutter", b!"' '", b!"BOLD", b!"color", b!"'-'", b!"RESET",
      b!"' '", b!"BOLD", b!"message", b!"RESET"] ∧
    Gen.Render.writeOrder = [b!"&header", b!"&location", b!"&plain_gutter", b!"line_display",
      b!"label_underline", b!"&plain_gutter", b!"&format!(\"{gutter}{src_line}\")", b!"&caret_line", b!"l"] := by
  decide

/-- what the COMPILED renderer printed when probed at the start of this run is what the model computes:
the column after a tab (tab stops every `TAB_WIDTH`), `BOLD ++ color` in front of a header, `RESET` at
its end -/
theorem gen_probes :
    (lineColFromSpan (b!"\tx") 1).map (·.col) = some Gen.Render.probeColAfterTab ∧
    (lineColFromSpan (b!"a\tx") 2).map (·.col) = some Gen.Render.probeColAfterATab ∧
    Gen.Render.probeHeaderPrefix = [bold ++ color .error, bold ++ color .warning, bold ++ color .note] ∧
    Gen.Render.probeHeaderTail = [reset, reset, reset] := by decide

/-! ## (1) rendering never fails on safe spans -/

/-- every span and label span of the diagnostic is a `SafeSpan` -/
def DiagSafe (src : Bytes) (d : RDiag) : Prop :=
  SafeSpan src d.span ∧ ∀ l ∈ d.labels, SafeSpan src l.span

theorem DiagSafe.safe {src : Bytes} {d : RDiag} (h : DiagSafe src d) : d.Safe src := h

/-- **No panic**: for every valid UTF-8 text, file name and list of diagnostics with safe spans,
`render_ansi` returns: no slice is out of range, reversed or off a character boundary, no `- 1`
underflows (`col ≥ 1`, the binary search never misses below index 0), no index is out of bounds. -/
theorem c07_render_total (src file : Bytes) (ds : List RDiag) (h : ValidUtf8 src)
    (hd : ∀ d ∈ ds, DiagSafe src d) : renderAnsi src file ds ≠ none := by
  obtain ⟨out, hout, _⟩ := renderAnsi_some h file (fun d hdm => (hd d hdm).safe)
  simp [hout]

/-- a front-end diagnostic (`Model/Diag.lean`) as the renderer sees it, with arbitrary texts -/
def ofDiag (code msg : Diag → Bytes) (labelMsg : Diag → Nat → Bytes) (d : Diag) : RDiag :=
  { sev := d.sev, code := code d, msg := msg d, span := d.span,
    labels := d.labels.zipIdx.map fun p => ⟨labelMsg d p.2, p.1⟩ }

/-- **the chain closes**: the diagnostics of the lexer / parser / resolver models (their span theorems
give exactly this hypothesis), with whatever code / message / label texts, render without failure. -/
theorem c07_render_front_end (src file : Bytes) (ds : List Diag) (code msg : Diag → Bytes)
    (labelMsg : Diag → Nat → Bytes) (h : ValidUtf8 src)
    (hd : ∀ d ∈ ds, SafeSpan src d.span ∧ ∀ l ∈ d.labels, SafeSpan src l) :
    renderAnsi src file (ds.map (ofDiag code msg labelMsg)) ≠ none := by
  apply c07_render_total src file _ h
  intro rd hrd
  obtain ⟨d, hdm, rfl⟩ := List.mem_map.mp hrd
  refine ⟨(hd d hdm).1, ?_⟩
  intro l hl
  simp only [ofDiag, List.mem_map] at hl
  obtain ⟨p, hp, rfl⟩ := hl
  exact (hd d hdm).2 p.1 (List.fst_mem_of_mem_zipIdx hp)

/-- each single diagnostic renders, whatever the gutter width -/
theorem c07_render_diagnostic_total (src file : Bytes) (width : Nat) (d : RDiag) (h : ValidUtf8 src)
    (hd : DiagSafe src d) : renderDiagnostic src file width d ≠ none := by
  obtain ⟨out, hout, _⟩ := renderDiagnostic_some h file width hd.safe
  simp [hout]

/-! ## (2) line starts and line bounds -/

/-- **Line starts** are strictly increasing, inside the text and on character boundaries: each is `0` or
follows an ASCII `'\n'` / `'\r'`. -/
theorem c07_render_line_starts (src : Bytes) (h : ValidUtf8 src) :
    (computeLineStarts src).Pairwise (· < ·) ∧
    ∀ p ∈ computeLineStarts src, p ≤ src.length ∧ isBoundary src p = true ∧
      (p = 0 ∨ src[p - 1]? = some nl ∨ src[p - 1]? = some cr) := by
  refine ⟨computeLineStarts_sorted src, fun p hp => ⟨lineStart_bound hp, lineStart_boundary h hp, ?_⟩⟩
  rcases (mem_computeLineStarts src p).mp hp with rfl | ⟨k, rfl, ht⟩
  · exact Or.inl rfl
  · right
    rcases ht with ht | ⟨ht, _⟩
    · left; simpa using ht
    · right; simpa using ht

/-- **`line_col_from_span`** succeeds on every boundary position inside the text, with
`line_start ≤ start ≤ line_end ≤ len`, both on character boundaries, `line ≥ 1` and `col ≥ 1`
(so `col - 1` cannot underflow). -/
theorem c07_render_line_bounds (src : Bytes) (start : Nat) (h : ValidUtf8 src) (hs : start ≤ src.length)
    (hb : isBoundary src start = true) :
    ∃ lc, lineColFromSpan src start = some lc ∧ 1 ≤ lc.line ∧ 1 ≤ lc.col ∧
      lc.lineStart ≤ start ∧ start ≤ lc.lineEnd ∧ lc.lineEnd ≤ src.length ∧
      isBoundary src lc.lineStart = true ∧ isBoundary src lc.lineEnd = true := by
  obtain ⟨lc, hlc, ok⟩ := lineColFromSpan_ok h hs hb
  exact ⟨lc, hlc, ok.line_pos, ok.col_pos, ok.ls_le, ok.le_ge, ok.le_len, ok.ls_bnd, ok.le_bnd⟩

/-! ## (3) the output is valid UTF-8 -/

/-- **Valid output**: if the file name, the codes and the messages are valid UTF-8 (they are `&str`s), so is
everything `render_ansi` writes (slices between character boundaries, tab expansion, ASCII framing). -/
theorem c07_render_utf8 (src file : Bytes) (ds : List RDiag) (h : ValidUtf8 src)
    (hd : ∀ d ∈ ds, DiagSafe src d) (hf : ValidUtf8 file) (ht : ∀ d ∈ ds, d.TextValid) :
    ∃ out, renderAnsi src file ds = some out ∧ ValidUtf8 out := by
  obtain ⟨out, hout, hv⟩ := renderAnsi_some h file (fun d hdm => (hd d hdm).safe)
  exact ⟨out, hout, hv hf ht⟩

/-! ## (4) `line:col` is correct -/

/-- **The vector of line starts** is the increasing enumeration of the declared line starts: position `0`
and every position right after a line terminator, where `"\r\n"` is ONE terminator (the position between
its two bytes is not a line start), and `'\n'` and a lone `'\r'` are terminators. -/
theorem c07_render_line_starts_exact (src : Bytes) :
    computeLineStarts src = (List.range (src.length + 1)).filter (isLineStart src) :=
  computeLineStarts_eq src

/-- **`line_col_from_span` is correct.** For a boundary position `start` inside a valid text:
`line` = the number of line starts at or before `start` (= 1 + the number of line terminators that end at
or before `start`, CRLF counted once); the reported line begins at the last line start `≤ start`; it ends
right in front of the last byte of the terminator that makes the next line start, or at the end of the
text; `col` = 1 + the visual width (tabs to the next multiple of `TAB_WIDTH`, every other character 1) of
the text between the line start and `start`. -/
theorem c07_render_line_col_correct (src : Bytes) (start : Nat) (h : ValidUtf8 src) (hs : start ≤ src.length)
    (hb : isBoundary src start = true) :
    ∃ lc, lineColFromSpan src start = some lc ∧
      lc.line = ((List.range (start + 1)).filter (isLineStart src)).length ∧
      isLineStart src lc.lineStart = true ∧ lc.lineStart ≤ start ∧
      (∀ p, lc.lineStart < p → p ≤ start → isLineStart src p = false) ∧
      (∀ p, start < p → p ≤ lc.lineEnd → isLineStart src p = false) ∧
      (isLineStart src (lc.lineEnd + 1) = true ∨
        (lc.lineEnd = src.length ∧ ∀ p, start < p → isLineStart src p = false)) ∧
      lc.col = 1 + visualCol ((src.drop lc.lineStart).take (start - lc.lineStart)) := by
  obtain ⟨lc, hlc, ok⟩ := lineColFromSpan_ok h hs hb
  refine ⟨lc, hlc, ?_, (isLineStart_iff src _).mpr ok.ls_mem, ok.ls_le, ok.no_start_before,
    ok.no_start_after, ok.line_end, ?_⟩
  · rw [ok.line_eq]; exact cntLE_lineStarts src start
  · rw [ok.col_eq]; omega

/-- the column computed by `visual_col` is the width `expand_tabs` gives the same text: the caret lands
under the right character of the displayed line -/
theorem c07_render_caret_column (t : Bytes) : charCount (expandTabs t) = visualCol t :=
  charCount_expandTabs t

/-! ## the converse: what makes the renderer panic -/

/-- a slice fails exactly when it is reversed, out of range or off a character boundary -/
theorem c07_render_slice_none_iff (src : Bytes) (a b : Nat) :
    slice? src a b = none ↔
      ¬ (a ≤ b ∧ b ≤ src.length ∧ isBoundary src a = true ∧ isBoundary src b = true) := by
  unfold slice?
  split <;> simp_all

/-! ## non-vacuity -/

example : ValidUtf8 (b!"a\nbé\t c d\r\ne") := by decide
example : DiagSafe (b!"a\nbé\t c d\r\ne") ⟨.error, b!"syntax", b!"m", ⟨3, 5⟩, [⟨b!"x", ⟨8, 9⟩⟩, ⟨b!"y", ⟨0, 1⟩⟩]⟩ := by
  simp only [DiagSafe, SafeSpan]; decide
/-- a diagnostic on line 2 with a same-line label and a cross-line label -/
example : (renderAnsi (b!"a\nbé\t c d\r\ne") (b!"f.ns")
    [⟨.error, b!"syntax", b!"m", ⟨3, 5⟩, [⟨b!"x", ⟨8, 9⟩⟩, ⟨b!"y", ⟨0, 1⟩⟩]⟩]).isSome = true := by decide
/-- positions at `'\n'`, between `'\r'` and `'\n'`, after a trailing newline, in the empty text -/
example : (lineColFromSpan (b!"ab\ncd") 2) = some ⟨1, 3, 0, 2⟩ := by decide
example : (lineColFromSpan (b!"ab\r\ncd") 3) = some ⟨1, 4, 0, 3⟩ := by decide
example : (lineColFromSpan (b!"ab\r\ncd") 4) = some ⟨2, 1, 4, 6⟩ := by decide
example : (lineColFromSpan (b!"ab\n") 3) = some ⟨2, 1, 3, 3⟩ := by decide
example : (lineColFromSpan [] 0) = some ⟨1, 1, 0, 0⟩ := by decide
example : (lineColFromSpan (b!"a\rb") 2) = some ⟨2, 1, 2, 3⟩ := by decide
/-- the unit tests of `diagnostics.rs` -/
example : (lineColFromSpan (b!"áé你😆") 7).map (·.col) = some 4 := by decide
example : (lineColFromSpan (b!"foó\nbár") 6).map (fun lc => (lc.line, lc.col)) = some (2, 2) := by decide
example : expandTabs (b!"a\tb\tc") = b!"a   b   c" ∧ visualCol (b!"a\tb\tc") = 9 := by decide
/-- D-07b (before the lexer fix `"a\€b"` produced the span 2..4, which ends inside the euro sign): the
renderer panics -/
example : renderAnsi (b!"\"a\\€b\"") (b!"f.ns") [⟨.error, b!"lexical", b!"Invalid string escape", ⟨2, 4⟩, []⟩] = none := by
  decide
/-- … and with the span the fixed lexer reports it does not -/
example : (renderAnsi (b!"\"a\\€b\"") (b!"f.ns") [⟨.error, b!"lexical", b!"Invalid string escape", ⟨2, 6⟩, []⟩]).isSome = true := by
  decide
/-- a reversed span panics; an end beyond the text does NOT (it is clipped by `.min(line_end)`), a start
beyond the text does -/
example : renderAnsi (b!"ab") [] [⟨.error, [], [], ⟨2, 1⟩, []⟩] = none := by decide
example : (renderAnsi (b!"ab") [] [⟨.error, [], [], ⟨0, 9⟩, []⟩]).isSome = true := by decide
example : renderAnsi (b!"ab") [] [⟨.error, [], [], ⟨3, 3⟩, []⟩] = none := by decide
/-- a label span inside a character panics too -/
example : renderAnsi (b!"é\nx") [] [⟨.error, [], [], ⟨3, 4⟩, [⟨[], ⟨1, 2⟩⟩]⟩] = none := by decide

end NaijaVerif.Props.C07Render
