/-
C08 — running out of depth is reported, not a native crash  (partial).

What a theorem can carry is *guard coverage*: on which call paths of the interpreter the native
stack is probed against `STACK_BUDGET`.  Frame sizes are symbolic (`c : Fn → Nat`); the check
measures them on the real binaries and does the arithmetic `budget + G + headroom ≤ 8 MiB` there.

* `Gen/Stack.lean` (regenerated from /repo on every run) lists the guard sites, the recursive
  functions and the call edges; the `gen_*` theorems tie the hand-annotated graph of
  `Model/Depth.lean` to it, so a new recursive helper, a new edge, a moved or removed
  `check_stack`, or a changed budget breaks an obligation.
* `runtime_depth_bound*`: on every execution of the evaluator the native depth stays within
  `budget + G`, where `G` is the largest guard-free gap — with the folded unguarded recursion of the
  value helpers as an explicit proviso (data nesting `d`).
* `exec_stmt_descents_probed_on_every_path`: the `If`/`Loop` arm of `exec_stmt` has no probe of its own — it is
  covered because evaluating the condition enters `eval_expr`.  That implicit dependency is an explicit
  obligation: on the straight-line prefix of every arm that descends into a nested block a probe is certain
  (`mustProbe` over the extracted table `Gen.Stack.straightCalls`), so no path reaches the body without one —
  not even a path on which nothing has to be evaluated; `cond_arm_probe_is_necessary` shows what fails otherwise.
* negative results (finding D-08): the unfolded evaluator graph (value helpers), the parser, the
  resolver and the CFG builder each contain a cycle without any guard, so no bound exists there.
  (The unprobed `Stmt::Block` cycle of the evaluator was fixed in a3b6c8a; the lexer recursion D-07c too.)
-/
import NaijaVerif.Lemmas.Depth
import NaijaVerif.Gen.Stack

namespace NaijaVerif.Depth
open NaijaVerif

/-! ### Tie of the extracted tables to the model -/

/-- The stack is probed in exactly two functions: `eval_expr`, where the probe is the first statement,
and `exec_stmt` (in its `Block` arm, see `gen_exec_stmt_arms`). -/
theorem gen_guard_sites : Gen.Stack.guardSites = [(b!"eval_expr", true), (b!"exec_stmt", false)] := by decide

theorem gen_guard_sites_modelled : Gen.Stack.guardSites.map (·.1) = probeSites := by decide

theorem gen_guard_fn : Gen.Stack.guardFns = [b!"check_stack"] := by decide

/-- **Arithmetic obligation** on the extracted budget: the budget, the allowed overshoot past the budget
line (measured by the check on the real binaries and required to stay within `overshootAllowance`), an
ARG_MAX-scale environment block at the top of the main-thread stack, and the headroom fit into the
default 8 MiB; `dataAllowance` covers one traversal of a maximally nested value by the unprobed value
helpers.  (With the pinned 4 MiB budget 960 KiB are to spare; a budget above 5056 KiB fails.)
The parser and the resolver use the same budget one after the other from the same caller, so the same
inequality covers them. -/
theorem budget_fits_main_stack :
    Gen.Stack.stackBudget + overshootAllowance + dataAllowance + envAllowance + headroom ≤ mainStack := by
  decide

/-- The budget is not degenerate: it leaves the evaluator at least 1 MiB. -/
theorem budget_not_tiny : 1024 * 1024 ≤ Gen.Stack.stackBudget := by decide

/-- Every function on a call cycle of runtime.rs (and every recursive builtin) is a frame of the model. -/
theorem gen_recursive_fns_modelled :
    Gen.Stack.recursiveFns.all (fun n => (Fn.all.map Fn.rust).contains n) = true := by decide

/-- Model edges seen as edges between Rust functions. -/
def projectedEdges : List (Bytes × Bytes) := runtimeEdges.map (fun e => (e.1.rust, e.2.rust))

/-- Every extracted call edge is an edge of the model, or the self-recursion of a folded frame. -/
theorem gen_edges_modelled :
    (flatten Gen.Stack.runtimeCalls).all
      (fun e => projectedEdges.contains e || foldedLoops.contains e) = true := by decide

/-- The split of `exec_stmt`: `If`, `Loop` (condition first) and `Block` (`check_stack` first) descend
into a block only after a probe; no arm descends without one; no other arm descends. -/
theorem gen_exec_stmt_arms :
    (Gen.Stack.execStmtArms.filter (fun a => a.2.1 && a.2.2)).map (·.1) = [b!"If", b!"Loop", b!"Block"] ∧
    (Gen.Stack.execStmtArms.filter (fun a => a.2.1 && !a.2.2)).map (·.1) = [] := by decide

/-- **A probe on every path to a descent.**  The arms of `exec_stmt` that descend into a nested block are `If`,
`Loop` and `Block`, and each of them calls a probe on its straight-line prefix — before it can branch and before
the descent: `Block` calls `check_stack` itself; `If` and `Loop` call `eval_expr`, whose own straight-line prefix
is the probe.  So no path reaches the body of a nested statement without a probe, not even one on which nothing
has to be evaluated.  (A shortcut that returns a condition without entering `eval_expr` on some path — a helper
that branches before it probes — makes this false.) -/
theorem exec_stmt_descents_probed_on_every_path :
    Gen.Stack.execStmtDescents = [armName (b!"If"), armName (b!"Loop"), armName (b!"Block")] ∧
    Gen.Stack.execStmtDescents.all (mustProbe Gen.Stack.straightCalls Gen.Stack.guardFns 4) = true := by decide

/-- The guard annotation of the model's three `exec_stmt` frames is exactly that fact: a frame is annotated as
guarded iff the arm it stands for descends and is certain to have probed; the leaf arms do not descend. -/
theorem exec_stmt_guard_annotation_justified :
    ([b!"If", b!"Loop", b!"Block"].all fun k =>
      (stmtKindFrame k).map runtimeGuarded ==
        some (mustProbe Gen.Stack.straightCalls Gen.Stack.guardFns 4 (armName k))) = true ∧
    (Gen.Stack.execStmtArms.all fun a =>
      match stmtKindFrame a.1 with
      | some f => runtimeEdges.contains (f, Fn.exec_block) == a.2.1
      | none => false) = true := by decide

/-- The scan really saw runtime.rs (guards against an extractor that silently finds nothing). -/
theorem gen_scan_sane : 40 ≤ Gen.Stack.runtimeFnCount ∧ 15 ≤ Gen.Stack.recursiveFns.length := by decide

/-! ### Guard coverage of the evaluator -/

/-- The real content: in the (folded) evaluator graph every cycle passes through a guarded frame —
certified by a rank that decreases along every edge into an unguarded function. -/
theorem runtime_guard_free_acyclic : rankOK runtimeGraph runtimeRank = true := by decide

/-- **Depth bound.** On every execution (any interleaving of calls and returns allowed by the guard
discipline) the native depth stays within the budget plus the largest guard-free gap `G`.
`c` are the per-function frame costs, `d` bounds the nesting of values; a folded value-helper frame
costs `(d+1)·c`. -/
theorem runtime_depth_bound (c : Fn → Nat) (d : Nat) (s : List Fn)
    (h : Exec runtimeGraph (costFolded c d) Gen.Stack.stackBudget .run_inner s) :
    depth (costFolded c d) s ≤
      Gen.Stack.stackBudget + gap runtimeGraph (costFolded c d) runtimeRank .run_inner :=
  reachable_depth_le _ _ _ _ _ runtime_guard_free_acyclic (exec_reachable _ _ _ _ h)

/-- `G` is monotone in the costs. -/
theorem pot_mono_cost (g : Graph Fn) (c c' : Fn → Nat) (hc : ∀ f, c f ≤ c' f) :
    ∀ (n : Nat) (f : Fn), pot g c n f ≤ pot g c' n f := by
  intro n
  induction n with
  | zero => intro f; simpa [pot] using hc f
  | succ n ih =>
    intro f
    have e1 : pot g c (n + 1) f = c f + listMax ((g.succ f).map
        (fun h => if g.guarded h then c h else pot g c n h)) := rfl
    have e2 : pot g c' (n + 1) f = c' f + listMax ((g.succ f).map
        (fun h => if g.guarded h then c' h else pot g c' n h)) := rfl
    rw [e1, e2]
    have := listMax_map_mono (g.succ f)
      (fun h => if g.guarded h then c h else pot g c n h)
      (fun h => if g.guarded h then c' h else pot g c' n h)
      (by
        intro x _
        by_cases hx : g.guarded x = true
        · simp [hx]; exact hc x
        · simp only [hx]; exact ih x)
    have := hc f
    omega

theorem gap_mono_cost (g : Graph Fn) (c c' : Fn → Nat) (r : Fn → Nat) (root : Fn)
    (hc : ∀ f, c f ≤ c' f) : gap g c r root ≤ gap g c' r root := by
  unfold gap
  exact listMax_map_mono _ _ _ (fun x _ => pot_mono_cost g c c' hc _ x)

/-- Costs with the folded frames capped: a traversal of a value costs at most `H`. -/
def costCapped (c : Fn → Nat) (H : Nat) (f : Fn) : Nat :=
  if f.isData then H else c f

/-- **Depth bound with the explicit proviso**: if the value-recursive helpers fit into `H` for the data
nesting at hand (`(d+1)·c_data ≤ H`), the depth stays within `budget + G(H)`; nothing in the code
enforces the proviso (finding D-08, data nesting). -/
theorem runtime_depth_bound_proviso (c : Fn → Nat) (d H : Nat) (s : List Fn)
    (hdata : ∀ f : Fn, f.isData = true → (d + 1) * c f ≤ H)
    (h : Exec runtimeGraph (costFolded c d) Gen.Stack.stackBudget .run_inner s) :
    depth (costFolded c d) s ≤
      Gen.Stack.stackBudget + gap runtimeGraph (costCapped c H) runtimeRank .run_inner := by
  have h1 := runtime_depth_bound c d s h
  have h2 : gap runtimeGraph (costFolded c d) runtimeRank .run_inner ≤
      gap runtimeGraph (costCapped c H) runtimeRank .run_inner := by
    apply gap_mono_cost
    intro f
    unfold costFolded costCapped
    by_cases hf : f.isData = true
    · simp [hf]; exact hdata f hf
    · simp [hf]
  omega

/-- In frames: the longest guard-free chain of the evaluator (no data nesting) is seven frames long —
e.g. `eval_expr → eval_function_call → eval_member_call → eval_array_member_call_mut →
get_mutable_array → eval_index_value → eval_expr`, or `eval_expr → eval_function_call →
exec_block_with_flow → exec_stmt → assign_index → eval_index_value → eval_expr`.
(Unit costs; `decide` evaluates `G`.) -/
theorem runtime_gap_in_frames :
    gap runtimeGraph (costFolded (fun _ => 1) 0) runtimeRank .run_inner = 7 := by decide

/-- Non-vacuity: a real execution — `run_inner → exec_block_with_flow → exec_stmt → eval_expr →
eval_function_call → exec_block_with_flow`, then a return — exists. -/
example : Exec runtimeGraph (costFolded (fun _ => 1) 0) Gen.Stack.stackBudget .run_inner
    [.eval_function_call, .eval_expr, .exec_stmt_leaf, .exec_block, .run_inner] := by
  have e0 : Exec runtimeGraph (costFolded (fun _ => 1) 0) Gen.Stack.stackBudget .run_inner [.run_inner] := .start
  have e1 := Exec.step e0 (Step.push (h := .exec_block) (by decide) (by decide))
  have e2 := Exec.step e1 (Step.push (h := .exec_stmt_leaf) (by decide) (by decide))
  have e3 := Exec.step e2 (Step.push (h := .eval_expr) (by decide) (by decide))
  have e4 := Exec.step e3 (Step.push (h := .eval_function_call) (by decide) (by intro _; decide))
  have e5 := Exec.step e4 (Step.push (h := .exec_block) (by decide) (by decide))
  exact Exec.step e5 Step.pop

/-- The guard does fire: once the stack below an `eval_expr` frame exceeds the budget, that frame
cannot call anything (it is the `Stack overflow` leaf). -/
theorem guard_blocks_calls (c : Fn → Nat) (budget : Nat) (s : List Fn) (h : Fn)
    (hover : budget < depth c s) : ¬ Step runtimeGraph c budget (.eval_expr :: s) (h :: .eval_expr :: s) := by
  intro st
  cases st with
  | push _ hg => have := hg rfl; omega

/-! ### Data nesting is bounded where it is created (fix D-08) -/

/-- Arrays nest at most 512 deep: `MAX_ARRAY_NESTING`, enforced by `check_nesting` at the three places
where nesting is created — array literals (`eval_expr`), `push` (`eval_array_member_call_mut`) and index
assignment (`assign_index`).  (That no other place creates nesting is read off the code and tested by
the data shapes of the check; it is not proved.) -/
theorem gen_array_nesting_bound :
    Gen.Stack.maxArrayNesting = some 512 ∧
    Gen.Stack.nestingCheckSites =
      [b!"assign_index", b!"eval_array_member_call_mut", b!"eval_expr"] := by decide

/-- The depth bound with the data proviso discharged: every value has nesting `d ≤ 512`. -/
theorem runtime_depth_bound_max_nesting (c : Fn → Nat) (s : List Fn)
    (h : Exec runtimeGraph (costFolded c 512) Gen.Stack.stackBudget .run_inner s) :
    depth (costFolded c 512) s ≤
      Gen.Stack.stackBudget + gap runtimeGraph (costFolded c 512) runtimeRank .run_inner :=
  runtime_depth_bound c 512 s h

/-! ### Front end: every cycle of the parser and of the resolver is probed (fix D-08) -/

def Bounded {α : Type} [DecidableEq α] (g : Graph α) (root : α) : Prop :=
  ∀ (c : α → Nat) (budget : Nat), ∃ B, ∀ s, Reachable g c budget root s → depth c s ≤ B

/-- Some stage has no bound at all. -/
def Unbounded {α : Type} [DecidableEq α] (g : Graph α) (root : α) : Prop :=
  ∀ (c : α → Nat), (∀ f, 0 < c f) → ∀ (budget B : Nat), ∃ s, Reachable g c budget root s ∧ B < depth c s

theorem unbounded_of_free_cycle {α : Type} [DecidableEq α] (g : Graph α) (root f : α) (init pre : List α)
    (hpre : freeWalk g root (pre ++ [f]) = true) (hcyc : freeWalk g f (init ++ [f]) = true) :
    Unbounded g root := by
  intro c hc budget B
  have h0 : Reachable g c budget root ((pre ++ [f]).reverse ++ [root]) :=
    reachable_walk g c budget root (pre ++ [f]) root [] .root hpre
  have h0' : Reachable g c budget root (f :: (pre.reverse ++ [root])) := by simpa using h0
  obtain ⟨s, hs, hd⟩ := pump g c budget root f init hcyc _ h0' (B + 1)
  refine ⟨f :: s, hs, ?_⟩
  have hpos : 1 ≤ depth c (init ++ [f]) := by
    rw [depth_append]; simp [depth]; have := hc f; omega
  have : B + 1 ≤ (B + 1) * depth c (init ++ [f]) := Nat.le_mul_of_pos_right _ hpos
  omega

theorem bounded_of_rank {α : Type} [DecidableEq α] (g : Graph α) (r : α → Nat) (root : α)
    (hr : rankOK g r = true) : Bounded g root := by
  intro c budget
  exact ⟨budget + gap g c r root, fun s hs => reachable_depth_le g c r budget root hr hs⟩

theorem not_bounded_of_unbounded {α : Type} [DecidableEq α] (g : Graph α) (root : α)
    (h : Unbounded g root) : ¬ Bounded g root := by
  intro hb
  obtain ⟨B, hB⟩ := hb (fun _ => 1) 0
  obtain ⟨s, hs, hd⟩ := h (fun _ => 1) (by intro _; decide) 0 B
  have := hB s hs
  omega

def lexerGraph := frontGraph Gen.Stack.lexerCalls Gen.Stack.lexerGuardSites
def parserGraph := frontGraph Gen.Stack.parserCalls Gen.Stack.parserGuardSites
def resolverGraph := frontGraph Gen.Stack.resolverCalls Gen.Stack.resolverGuardSites
def cfgGraph := frontGraph Gen.Stack.cfgCalls Gen.Stack.cfgGuardSites

/-- D-07c is fixed: no function of scanner.rs lies on a call cycle any more (the invalid-number path
used to re-enter `next_token`), so the lexer's native depth is constant. -/
theorem lexer_is_iterative : Gen.Stack.lexerCalls = [] := by decide

theorem lexer_bounded : Bounded lexerGraph (b!"next_token") := by
  intro c budget
  refine ⟨c (b!"next_token"), ?_⟩
  intro s hs
  have hnil : lexerGraph.edges = [] := by decide
  cases hs with
  | root => simp [depth]
  | call _ he _ => rw [hnil] at he; cases he

/-- The probed functions of the parser and of the resolver, as extracted. -/
theorem gen_front_end_guard_sites :
    Gen.Stack.parserGuardSites = [b!"parse_expression", b!"parse_statement"] ∧
    Gen.Stack.resolverGuardSites =
      [b!"check_block", b!"check_expr", b!"classify_expr", b!"collect_return_types",
       b!"infer_expr_type", b!"literal_expr_type"] := by decide

/-- Every cycle of the parser passes through `parse_expression` or `parse_statement`. -/
theorem parser_guard_free_acyclic : rankOK parserGraph parserRank = true := by decide

/-- Every cycle of the resolver passes through a probed walk. -/
theorem resolver_guard_free_acyclic : rankOK resolverGraph resolverRank = true := by decide

/-- **Parser depth bound**: whatever the source, the recursive descent stays within `budget + G`. -/
theorem parser_depth_bound (c : Bytes → Nat) (s : List Bytes)
    (h : Exec parserGraph c Gen.Stack.stackBudget (b!"parse_statement") s) :
    depth c s ≤ Gen.Stack.stackBudget + gap parserGraph c parserRank (b!"parse_statement") :=
  reachable_depth_le _ _ _ _ _ parser_guard_free_acyclic (exec_reachable _ _ _ _ h)

/-- **Resolver depth bound.** -/
theorem resolver_depth_bound (c : Bytes → Nat) (s : List Bytes)
    (h : Exec resolverGraph c Gen.Stack.stackBudget (b!"check_block") s) :
    depth c s ≤ Gen.Stack.stackBudget + gap resolverGraph c resolverRank (b!"check_block") :=
  reachable_depth_le _ _ _ _ _ resolver_guard_free_acyclic (exec_reachable _ _ _ _ h)

/-- In frames: at most four parser frames and four resolver frames from one probe to the next. -/
theorem front_end_gap_in_frames :
    gap parserGraph (fun _ => 1) parserRank (b!"parse_statement") = 4 ∧
    gap resolverGraph (fun _ => 1) resolverRank (b!"check_block") = 4 := by decide

theorem parser_bounded : Bounded parserGraph (b!"parse_statement") :=
  bounded_of_rank _ _ _ parser_guard_free_acyclic

theorem resolver_bounded : Bounded resolverGraph (b!"check_block") :=
  bounded_of_rank _ _ _ resolver_guard_free_acyclic

/-! ### The analyses (cfg) have no probe of their own: bounded through the resolver's block walk -/

/-- The counting and the lowering pass of the CFG builder recurse on statement nesting without a probe. -/
theorem cfg_has_no_probe_of_its_own :
    Gen.Stack.cfgGuardSites = [] ∧ Unbounded cfgGraph (b!"count_block") ∧
    Unbounded cfgGraph (b!"lower_block") :=
  ⟨by decide,
   unbounded_of_free_cycle cfgGraph _ (b!"count_stmt") [b!"count_block"] [] (by decide) (by decide),
   unbounded_of_free_cycle cfgGraph _ (b!"lower_stmt") [b!"lower_block"] [] (by decide) (by decide)⟩

/-- … but `resolve` runs them only when its own block walk (`check_block`, at the same nesting) used at
most `STACK_BUDGET / 4` of native stack. -/
theorem gen_analysis_stack_rule : Gen.Stack.analysisStackDivisor = some 4 := by decide

/-- Hence, with `n` the statement nesting, `cWalk` the resolver's cost per nesting level and `cCfg` the
analyses' cost per level: if the analyses' frames are at most `k` times the resolver's (a proviso about
compiled frame sizes; the check runs nests right below the rule's threshold in both profiles), the
analyses use at most `k · budget / 4`. -/
theorem cfg_depth_bound_proviso (n cWalk cCfg k : Nat)
    (hrule : n * cWalk ≤ Gen.Stack.stackBudget / 4) (hk : cCfg ≤ k * cWalk) :
    n * cCfg ≤ k * (Gen.Stack.stackBudget / 4) := by
  calc n * cCfg ≤ n * (k * cWalk) := Nat.mul_le_mul_left _ hk
    _ = k * (n * cWalk) := by rw [Nat.mul_left_comm]
    _ ≤ k * (Gen.Stack.stackBudget / 4) := Nat.mul_le_mul_left _ hrule

/-! ### History: the graphs before the fixes, with their unguarded cycles (findings D-08, now fixed) -/

/-- The front-end graphs without their probes (the edges are unchanged by the fix). -/
def parserGraphUnguarded := frontGraph Gen.Stack.parserCalls []
def resolverGraphUnguarded := frontGraph Gen.Stack.resolverCalls []

/-- Before the fix: expressions — parentheses, `not`, unary `minus`, array literals, call arguments,
index expressions all re-enter `parse_expression`. -/
theorem parser_expression_unbounded_without_probe : Unbounded parserGraphUnguarded (b!"parse_statement") :=
  unbounded_of_free_cycle _ _ (b!"parse_expression") [] [] (by decide) (by decide)

theorem parser_statement_unbounded_without_probe : Unbounded parserGraphUnguarded (b!"parse_statement") :=
  unbounded_of_free_cycle _ _ (b!"parse_block_body") [b!"parse_statement"] [] (by decide) (by decide)

theorem resolver_expression_unbounded_without_probe : Unbounded resolverGraphUnguarded (b!"check_block") :=
  unbounded_of_free_cycle _ _ (b!"check_expr") [] [b!"check_stmt"] (by decide) (by decide)

theorem resolver_infer_unbounded_without_probe : Unbounded resolverGraphUnguarded (b!"check_block") :=
  unbounded_of_free_cycle _ _ (b!"infer_expr_type") [] [b!"check_stmt"] (by decide) (by decide)

theorem resolver_classify_unbounded_without_probe : Unbounded resolverGraphUnguarded (b!"check_block") :=
  unbounded_of_free_cycle _ _ (b!"classify_expr") [] [b!"check_stmt"] (by decide) (by decide)

theorem resolver_statement_unbounded_without_probe : Unbounded resolverGraphUnguarded (b!"check_block") :=
  unbounded_of_free_cycle _ _ (b!"check_block") [b!"check_stmt"] [b!"check_stmt"] (by decide) (by decide)

/-- The evaluator with the self-recursion of the value helpers unfolded: without the nesting bound the
helpers recurse for as long as the data nests (Display shown; `clone_into`, `promote`, `join`, drop glue
alike). -/
def runtimeGraphRaw : Graph Fn :=
  { edges := runtimeEdges ++
      [(.clone_into, .clone_into), (.promote, .promote), (.fmt, .fmt), (.join, .join),
       (.drop_glue, .drop_glue)],
    guarded := runtimeGuarded }

theorem runtime_raw_not_acyclic (r : Fn → Nat) : rankOK runtimeGraphRaw r = false := by
  cases h : rankOK runtimeGraphRaw r with
  | false => rfl
  | true =>
    have h1 := List.all_eq_true.mp h (.drop_glue, .drop_glue) (by decide)
    simp [runtimeGraphRaw, runtimeGuarded] at h1

theorem runtime_data_nesting_unbounded_without_bound :
    ∀ (c : Fn → Nat), (∀ f, 0 < c f) → ∀ (budget B : Nat),
      ∃ s, Reachable runtimeGraphRaw c budget .run_inner (.fmt :: s) ∧ B < depth c (.fmt :: s) := by
  intro c hc budget B
  have h0 : Reachable runtimeGraphRaw c budget .run_inner [.fmt, .run_inner] :=
    .call .root (by decide) (by intro h; exact absurd h (by decide))
  obtain ⟨s, hs, hd⟩ := pump runtimeGraphRaw c budget .run_inner .fmt [] (by decide) _ h0 (B + 1)
  refine ⟨s, hs, ?_⟩
  have hpos : 1 ≤ depth c ([] ++ [Fn.fmt]) := by simp [depth]; have := hc .fmt; omega
  have : B + 1 ≤ (B + 1) * depth c ([] ++ [Fn.fmt]) := Nat.le_mul_of_pos_right _ hpos
  omega

/-- Nested block statements are probed (fix a3b6c8a): a `Block` frame that sits above the budget cannot
descend. -/
theorem block_guard_blocks_descent (c : Fn → Nat) (budget : Nat) (s : List Fn) (h : Fn)
    (hover : budget < depth c s) :
    ¬ Step runtimeGraph c budget (.exec_stmt_block :: s) (h :: .exec_stmt_block :: s) := by
  intro st
  cases st with
  | push _ hg => have := hg rfl; omega

/-- The obligation `exec_stmt_descents_probed_on_every_path` is load-bearing: were there a path through the
`If`/`Loop` arm that reaches the body without a probe (the frame `exec_stmt_cond` unguarded), the cycle
`exec_block_with_flow → exec_stmt → exec_block_with_flow` would be probe-free and the evaluator's native depth
would have no bound — only the height of the tower of nested statements the parser accepts limits it then, and
that tower may start right below the budget line. -/
theorem cond_arm_probe_is_necessary : Unbounded runtimeGraphCondUnprobed .run_inner :=
  unbounded_of_free_cycle _ _ .exec_block [.exec_stmt_cond] [] (by decide) (by decide)

theorem cond_arm_unprobed_not_acyclic (r : Fn → Nat) : rankOK runtimeGraphCondUnprobed r = false := by
  cases h : rankOK runtimeGraphCondUnprobed r with
  | false => rfl
  | true =>
    have h1 := List.all_eq_true.mp h (.exec_block, .exec_stmt_cond) (by decide)
    have h2 := List.all_eq_true.mp h (.exec_stmt_cond, .exec_block) (by decide)
    simp [runtimeGraphCondUnprobed, runtimeGuarded] at h1 h2
    omega

/-! ### The full statement and what holds of the fixed code -/

/-- C08 at full strength in the call-graph reading: every stage keeps its native depth bounded *by probes
of its own*, whatever the program and whatever the frame sizes. -/
def c08_full : Prop :=
  Bounded lexerGraph (b!"next_token") ∧ Bounded parserGraph (b!"parse_statement") ∧
  Bounded resolverGraph (b!"check_block") ∧ Bounded cfgGraph (b!"count_block") ∧
  Bounded runtimeGraphRaw .run_inner

/-- Still false in that reading, and only for the two stages that are bounded indirectly: the analyses
(through the resolver's stack rule, `cfg_depth_bound_proviso`) and the value helpers (through the nesting
bound at construction, `gen_array_nesting_bound`). -/
theorem c08_full_is_false : ¬ c08_full := by
  intro h
  exact not_bounded_of_unbounded _ _ cfg_has_no_probe_of_its_own.2.1 h.2.2.2.1

/-- **What holds of the fixed code**: lexer, parser and resolver are bounded by their own probes, and the
evaluator by its probes together with the nesting bound. -/
theorem c08_front_end :
    Bounded lexerGraph (b!"next_token") ∧ Bounded parserGraph (b!"parse_statement") ∧
    Bounded resolverGraph (b!"check_block") :=
  ⟨lexer_bounded, parser_bounded, resolver_bounded⟩

theorem c08_partial (c : Fn → Nat) (d : Nat) :
    ∀ s, Exec runtimeGraph (costFolded c d) Gen.Stack.stackBudget .run_inner s →
      depth (costFolded c d) s ≤
        Gen.Stack.stackBudget + gap runtimeGraph (costFolded c d) runtimeRank .run_inner :=
  fun s h => runtime_depth_bound c d s h

end NaijaVerif.Depth
