/-
C08 — running out of depth is reported, not a native crash  (partial).

What a theorem can carry is *guard coverage*: on which call paths of the interpreter the native
stack is probed against `STACK_BUDGET`.  Frame sizes are symbolic (`c : Fn → Nat`); the check
measures them on the real binaries and does the arithmetic `budget + G + headroom ≤ 8 MiB` there.

* `Gen/Stack.lean` (regenerated from /repo on every run) lists the guard sites, the recursive
  functions and the call edges; the `gen_*` theorems tie the hand-annotated graph of
  `Model/Depth.lean` to it, so a new recursive helper, a new edge, a moved or removed
  `check_stack`, or a changed budget breaks an obligation.
* `runtime_depth_bound*`: on every execution of the evaluator the native depth stays within
  `budget + G`, where `G` is the largest guard-free gap — with the folded unguarded recursion of the
  value helpers as an explicit proviso (data nesting `d`).
* negative results (finding D-08): the unfolded evaluator graph (value helpers), the parser, the
  resolver and the CFG builder each contain a cycle without any guard, so no bound exists there.
  (The unprobed `Stmt::Block` cycle of the evaluator was fixed in a3b6c8a; the lexer recursion D-07c too.)
-/
import NaijaVerif.Lemmas.Depth
import NaijaVerif.Gen.Stack

namespace NaijaVerif.Depth
open NaijaVerif

/-! ### Tie of the extracted tables to the model -/

/-- The stack is probed in exactly two functions: `eval_expr`, where the probe is the first statement,
and `exec_stmt` (in its `Block` arm, see `gen_exec_stmt_arms`). -/
theorem gen_guard_sites : Gen.Stack.guardSites = [(b!"eval_expr", true), (b!"exec_stmt", false)] := by decide

theorem gen_guard_sites_modelled : Gen.Stack.guardSites.map (·.1) = probeSites := by decide

theorem gen_guard_fn : Gen.Stack.guardFns = [b!"check_stack"] := by decide

/-- **Arithmetic obligation** on the extracted budget: the budget, the allowed overshoot past the budget
line (measured by the check on the real binaries and required to stay within `overshootAllowance`), an
ARG_MAX-scale environment block at the top of the main-thread stack, and the headroom fit into the
default 8 MiB.  (With the pinned 4 MiB budget 1472 KiB are to spare; a budget above 5568 KiB fails.) -/
theorem budget_fits_main_stack :
    Gen.Stack.stackBudget + overshootAllowance + envAllowance + headroom ≤ mainStack := by decide

/-- The budget is not degenerate: it leaves the evaluator at least 1 MiB. -/
theorem budget_not_tiny : 1024 * 1024 ≤ Gen.Stack.stackBudget := by decide

/-- Every function on a call cycle of runtime.rs (and every recursive builtin) is a frame of the model. -/
theorem gen_recursive_fns_modelled :
    Gen.Stack.recursiveFns.all (fun n => (Fn.all.map Fn.rust).contains n) = true := by decide

/-- Model edges seen as edges between Rust functions. -/
def projectedEdges : List (Bytes × Bytes) := runtimeEdges.map (fun e => (e.1.rust, e.2.rust))

/-- Every extracted call edge is an edge of the model, or the self-recursion of a folded frame. -/
theorem gen_edges_modelled :
    (flatten Gen.Stack.runtimeCalls).all
      (fun e => projectedEdges.contains e || foldedLoops.contains e) = true := by decide

/-- The split of `exec_stmt`: `If`, `Loop` (condition first) and `Block` (`check_stack` first) descend
into a block only after a probe; no arm descends without one; no other arm descends. -/
theorem gen_exec_stmt_arms :
    (Gen.Stack.execStmtArms.filter (fun a => a.2.1 && a.2.2)).map (·.1) = [b!"If", b!"Loop", b!"Block"] ∧
    (Gen.Stack.execStmtArms.filter (fun a => a.2.1 && !a.2.2)).map (·.1) = [] := by decide

/-- The scan really saw runtime.rs (guards against an extractor that silently finds nothing). -/
theorem gen_scan_sane : 40 ≤ Gen.Stack.runtimeFnCount ∧ 15 ≤ Gen.Stack.recursiveFns.length := by decide

/-! ### Guard coverage of the evaluator -/

/-- The real content: in the (folded) evaluator graph every cycle passes through a guarded frame —
certified by a rank that decreases along every edge into an unguarded function. -/
theorem runtime_guard_free_acyclic : rankOK runtimeGraph runtimeRank = true := by decide

/-- **Depth bound.** On every execution (any interleaving of calls and returns allowed by the guard
discipline) the native depth stays within the budget plus the largest guard-free gap `G`.
`c` are the per-function frame costs, `d` bounds the nesting of values; a folded value-helper frame
costs `(d+1)·c`. -/
theorem runtime_depth_bound (c : Fn → Nat) (d : Nat) (s : List Fn)
    (h : Exec runtimeGraph (costFolded c d) Gen.Stack.stackBudget .run_inner s) :
    depth (costFolded c d) s ≤
      Gen.Stack.stackBudget + gap runtimeGraph (costFolded c d) runtimeRank .run_inner :=
  reachable_depth_le _ _ _ _ _ runtime_guard_free_acyclic (exec_reachable _ _ _ _ h)

/-- `G` is monotone in the costs. -/
theorem pot_mono_cost (g : Graph Fn) (c c' : Fn → Nat) (hc : ∀ f, c f ≤ c' f) :
    ∀ (n : Nat) (f : Fn), pot g c n f ≤ pot g c' n f := by
  intro n
  induction n with
  | zero => intro f; simpa [pot] using hc f
  | succ n ih =>
    intro f
    have e1 : pot g c (n + 1) f = c f + listMax ((g.succ f).map
        (fun h => if g.guarded h then c h else pot g c n h)) := rfl
    have e2 : pot g c' (n + 1) f = c' f + listMax ((g.succ f).map
        (fun h => if g.guarded h then c' h else pot g c' n h)) := rfl
    rw [e1, e2]
    have := listMax_map_mono (g.succ f)
      (fun h => if g.guarded h then c h else pot g c n h)
      (fun h => if g.guarded h then c' h else pot g c' n h)
      (by
        intro x _
        by_cases hx : g.guarded x = true
        · simp [hx]; exact hc x
        · simp only [hx]; exact ih x)
    have := hc f
    omega

theorem gap_mono_cost (g : Graph Fn) (c c' : Fn → Nat) (r : Fn → Nat) (root : Fn)
    (hc : ∀ f, c f ≤ c' f) : gap g c r root ≤ gap g c' r root := by
  unfold gap
  exact listMax_map_mono _ _ _ (fun x _ => pot_mono_cost g c c' hc _ x)

/-- Costs with the folded frames capped: a traversal of a value costs at most `H`. -/
def costCapped (c : Fn → Nat) (H : Nat) (f : Fn) : Nat :=
  if f.isData then H else c f

/-- **Depth bound with the explicit proviso**: if the value-recursive helpers fit into `H` for the data
nesting at hand (`(d+1)·c_data ≤ H`), the depth stays within `budget + G(H)`; nothing in the code
enforces the proviso (finding D-08, data nesting). -/
theorem runtime_depth_bound_proviso (c : Fn → Nat) (d H : Nat) (s : List Fn)
    (hdata : ∀ f : Fn, f.isData = true → (d + 1) * c f ≤ H)
    (h : Exec runtimeGraph (costFolded c d) Gen.Stack.stackBudget .run_inner s) :
    depth (costFolded c d) s ≤
      Gen.Stack.stackBudget + gap runtimeGraph (costCapped c H) runtimeRank .run_inner := by
  have h1 := runtime_depth_bound c d s h
  have h2 : gap runtimeGraph (costFolded c d) runtimeRank .run_inner ≤
      gap runtimeGraph (costCapped c H) runtimeRank .run_inner := by
    apply gap_mono_cost
    intro f
    unfold costFolded costCapped
    by_cases hf : f.isData = true
    · simp [hf]; exact hdata f hf
    · simp [hf]
  omega

/-- In frames: the longest guard-free chain of the evaluator (no data nesting) is seven frames long —
e.g. `eval_expr → eval_function_call → eval_member_call → eval_array_member_call_mut →
get_mutable_array → eval_index_value → eval_expr`, or `eval_expr → eval_function_call →
exec_block_with_flow → exec_stmt → assign_index → eval_index_value → eval_expr`.
(Unit costs; `decide` evaluates `G`.) -/
theorem runtime_gap_in_frames :
    gap runtimeGraph (costFolded (fun _ => 1) 0) runtimeRank .run_inner = 7 := by decide

/-- Non-vacuity: a real execution — `run_inner → exec_block_with_flow → exec_stmt → eval_expr →
eval_function_call → exec_block_with_flow`, then a return — exists. -/
example : Exec runtimeGraph (costFolded (fun _ => 1) 0) Gen.Stack.stackBudget .run_inner
    [.eval_function_call, .eval_expr, .exec_stmt_leaf, .exec_block, .run_inner] := by
  have e0 : Exec runtimeGraph (costFolded (fun _ => 1) 0) Gen.Stack.stackBudget .run_inner [.run_inner] := .start
  have e1 := Exec.step e0 (Step.push (h := .exec_block) (by decide) (by decide))
  have e2 := Exec.step e1 (Step.push (h := .exec_stmt_leaf) (by decide) (by decide))
  have e3 := Exec.step e2 (Step.push (h := .eval_expr) (by decide) (by decide))
  have e4 := Exec.step e3 (Step.push (h := .eval_function_call) (by decide) (by intro _; decide))
  have e5 := Exec.step e4 (Step.push (h := .exec_block) (by decide) (by decide))
  exact Exec.step e5 Step.pop

/-- The guard does fire: once the stack below an `eval_expr` frame exceeds the budget, that frame
cannot call anything (it is the `Stack overflow` leaf). -/
theorem guard_blocks_calls (c : Fn → Nat) (budget : Nat) (s : List Fn) (h : Fn)
    (hover : budget < depth c s) : ¬ Step runtimeGraph c budget (.eval_expr :: s) (h :: .eval_expr :: s) := by
  intro st
  cases st with
  | push _ hg => have := hg rfl; omega

/-! ### Negative results: recursion without any guard (finding D-08) -/

def Bounded {α : Type} [DecidableEq α] (g : Graph α) (root : α) : Prop :=
  ∀ (c : α → Nat) (budget : Nat), ∃ B, ∀ s, Reachable g c budget root s → depth c s ≤ B

/-- Some stage has no bound at all. -/
def Unbounded {α : Type} [DecidableEq α] (g : Graph α) (root : α) : Prop :=
  ∀ (c : α → Nat), (∀ f, 0 < c f) → ∀ (budget B : Nat), ∃ s, Reachable g c budget root s ∧ B < depth c s

theorem unbounded_of_free_cycle {α : Type} [DecidableEq α] (g : Graph α) (root f : α) (init pre : List α)
    (hpre : freeWalk g root (pre ++ [f]) = true) (hcyc : freeWalk g f (init ++ [f]) = true) :
    Unbounded g root := by
  intro c hc budget B
  have h0 : Reachable g c budget root ((pre ++ [f]).reverse ++ [root]) :=
    reachable_walk g c budget root (pre ++ [f]) root [] .root hpre
  have h0' : Reachable g c budget root (f :: (pre.reverse ++ [root])) := by simpa using h0
  obtain ⟨s, hs, hd⟩ := pump g c budget root f init hcyc _ h0' (B + 1)
  refine ⟨f :: s, hs, ?_⟩
  have hpos : 1 ≤ depth c (init ++ [f]) := by
    rw [depth_append]; simp [depth]; have := hc f; omega
  have : B + 1 ≤ (B + 1) * depth c (init ++ [f]) := Nat.le_mul_of_pos_right _ hpos
  omega

/-- The evaluator as the source has it: the value helpers call themselves. -/
def runtimeGraphRaw : Graph Fn :=
  { edges := runtimeEdges ++
      [(.clone_into, .clone_into), (.promote, .promote), (.fmt, .fmt), (.join, .join),
       (.drop_glue, .drop_glue)],
    guarded := runtimeGuarded }

/-- Nested block statements are bounded now (fix a3b6c8a): a `Block` frame that sits above the budget
cannot descend. -/
theorem block_guard_blocks_descent (c : Fn → Nat) (budget : Nat) (s : List Fn) (h : Fn)
    (hover : budget < depth c s) :
    ¬ Step runtimeGraph c budget (.exec_stmt_block :: s) (h :: .exec_stmt_block :: s) := by
  intro st
  cases st with
  | push _ hg => have := hg rfl; omega

/-- … and no rank certificate can exist for the raw graph. -/
theorem runtime_raw_not_acyclic (r : Fn → Nat) : rankOK runtimeGraphRaw r = false := by
  cases h : rankOK runtimeGraphRaw r with
  | false => rfl
  | true =>
    have h1 := List.all_eq_true.mp h (.drop_glue, .drop_glue) (by decide)
    simp [runtimeGraphRaw, runtimeGuarded] at h1

/-- D-08 (runtime, data): the value helpers recurse on data nesting without a probe (here: Display,
reachable from the root frame; `clone_into`, `promote`, `join` and the drop glue alike). -/
theorem runtime_data_nesting_unguarded :
    ∀ (c : Fn → Nat), (∀ f, 0 < c f) → ∀ (budget B : Nat),
      ∃ s, Reachable runtimeGraphRaw c budget .run_inner (.fmt :: s) ∧ B < depth c (.fmt :: s) := by
  intro c hc budget B
  have h0 : Reachable runtimeGraphRaw c budget .run_inner [.fmt, .run_inner] :=
    .call .root (by decide) (by intro h; exact absurd h (by decide))
  obtain ⟨s, hs, hd⟩ := pump runtimeGraphRaw c budget .run_inner .fmt [] (by decide) _ h0 (B + 1)
  refine ⟨s, hs, ?_⟩
  have hpos : 1 ≤ depth c ([] ++ [Fn.fmt]) := by simp [depth]; have := hc .fmt; omega
  have : B + 1 ≤ (B + 1) * depth c ([] ++ [Fn.fmt]) := Nat.le_mul_of_pos_right _ hpos
  omega

def lexerGraph := frontGraph Gen.Stack.lexerCalls Gen.Stack.lexerGuardSites
def parserGraph := frontGraph Gen.Stack.parserCalls Gen.Stack.parserGuardSites
def resolverGraph := frontGraph Gen.Stack.resolverCalls Gen.Stack.resolverGuardSites
def cfgGraph := frontGraph Gen.Stack.cfgCalls Gen.Stack.cfgGuardSites

/-- D-07c is fixed: no function of scanner.rs lies on a call cycle any more (the invalid-number path
used to re-enter `next_token`), so the lexer's native depth is constant. -/
theorem lexer_is_iterative : Gen.Stack.lexerCalls = [] := by decide

theorem lexer_bounded : Bounded lexerGraph (b!"next_token") := by
  intro c budget
  refine ⟨c (b!"next_token"), ?_⟩
  intro s hs
  have hnil : lexerGraph.edges = [] := by decide
  cases hs with
  | root => simp [depth]
  | call _ he _ => rw [hnil] at he; cases he

/-- D-08 (parser): expressions — parentheses, `not`, unary `minus`, array literals, call arguments,
index expressions all re-enter `parse_expression`. -/
theorem parser_expression_unbounded : Unbounded parserGraph (b!"parse_statement") :=
  unbounded_of_free_cycle parserGraph _ (b!"parse_expression") [] [] (by decide) (by decide)

/-- D-08 (parser): statements — blocks, `if`, `jasi`, function bodies re-enter `parse_statement`. -/
theorem parser_statement_unbounded : Unbounded parserGraph (b!"parse_statement") :=
  unbounded_of_free_cycle parserGraph _ (b!"parse_block_body") [b!"parse_statement"] [] (by decide) (by decide)

/-- D-08 (resolver): `check_expr`, and with it `infer_expr_type` and `classify_expr`, recurse on
expression nesting — also on the left-nested chains (`a add b add …`, `a[0][0]…`, `s.f().g()…`)
that the parser builds iteratively. -/
theorem resolver_expression_unbounded : Unbounded resolverGraph (b!"check_block") :=
  unbounded_of_free_cycle resolverGraph _ (b!"check_expr") [] [b!"check_stmt"] (by decide) (by decide)

theorem resolver_infer_unbounded : Unbounded resolverGraph (b!"check_block") :=
  unbounded_of_free_cycle resolverGraph _ (b!"infer_expr_type") [] [b!"check_stmt"] (by decide) (by decide)

theorem resolver_classify_unbounded : Unbounded resolverGraph (b!"check_block") :=
  unbounded_of_free_cycle resolverGraph _ (b!"classify_expr") [] [b!"check_stmt"] (by decide) (by decide)

/-- D-08 (resolver): statement nesting, `check_block ↔ check_stmt`. -/
theorem resolver_statement_unbounded : Unbounded resolverGraph (b!"check_block") :=
  unbounded_of_free_cycle resolverGraph _ (b!"check_block") [b!"check_stmt"] [b!"check_stmt"]
    (by decide) (by decide)

/-- D-08 (cfg): the counting pass and the lowering pass recurse on statement nesting. -/
theorem cfg_count_unbounded : Unbounded cfgGraph (b!"count_block") :=
  unbounded_of_free_cycle cfgGraph _ (b!"count_stmt") [b!"count_block"] [] (by decide) (by decide)

theorem cfg_lower_unbounded : Unbounded cfgGraph (b!"lower_block") :=
  unbounded_of_free_cycle cfgGraph _ (b!"lower_stmt") [b!"lower_block"] [] (by decide) (by decide)

/-- No stage of the front end checks a depth or stack limit anywhere on its cycles. -/
theorem front_end_has_no_guard :
    Gen.Stack.lexerGuardSites = [] ∧ Gen.Stack.parserGuardSites = [] ∧
    Gen.Stack.resolverGuardSites = [] ∧ Gen.Stack.cfgGuardSites = [] := by decide

/-! ### The full statement, its refutation, and the part that holds -/

/-- C08 at full strength, as far as a call-graph model can say it: every stage of the pipeline keeps
its native depth bounded, whatever the program and whatever the frame sizes. -/
def c08_full : Prop :=
  Bounded lexerGraph (b!"next_token") ∧ Bounded parserGraph (b!"parse_statement") ∧
  Bounded resolverGraph (b!"check_block") ∧ Bounded cfgGraph (b!"count_block") ∧
  Bounded runtimeGraphRaw .run_inner

theorem not_bounded_of_unbounded {α : Type} [DecidableEq α] (g : Graph α) (root : α)
    (h : Unbounded g root) : ¬ Bounded g root := by
  intro hb
  obtain ⟨B, hB⟩ := hb (fun _ => 1) 0
  obtain ⟨s, hs, hd⟩ := h (fun _ => 1) (by intro _; decide) 0 B
  have := hB s hs
  omega

/-- The full statement is false of the current code (already the parser refutes it; so do
the resolver, the CFG builder, and the evaluator on nested data). -/
theorem c08_full_is_false : ¬ c08_full := by
  intro h
  exact not_bounded_of_unbounded _ _ parser_expression_unbounded h.2.1

/-- What holds: the evaluator, with the unguarded recursion on data nesting folded into frames whose
size is the explicit proviso, is bounded by `budget + G`. -/
theorem c08_partial (c : Fn → Nat) (d : Nat) :
    ∀ s, Exec runtimeGraph (costFolded c d) Gen.Stack.stackBudget .run_inner s →
      depth (costFolded c d) s ≤
        Gen.Stack.stackBudget + gap runtimeGraph (costFolded c d) runtimeRank .run_inner :=
  fun s h => runtime_depth_bound c d s h

end NaijaVerif.Depth
