import NaijaVerif.Lemmas.EvalFuel
import NaijaVerif.Lemmas.EvalBasic
import NaijaVerif.Lemmas.EvalToy
/-
C01 (evaluator part) — the laws of the documented semantics, each for ALL sub-terms, states,
configurations and fuel, over the abstract number type:

* operands are evaluated LEFT BEFORE RIGHT (`binary_order`), arguments and array elements left to
  right (`evalSel_cons`);
* `and` with a `false` / `null` left value yields `false` and THE STATE AFTER THE LEFT OPERAND ONLY
  (`and_short_circuit`); with any other left value the right operand decides (`and_continue`);
  dually `or` stops exactly on `true` (`or_short_circuit`, `or_continue`);
* `null` is falsy in `if to say`, `jasi`, `not` (`if_null`, `loop_null`, `not_null`);
* `jasi` UNROLLING (`loop_unroll`): one iteration = condition, body, then the loop again — `comot`
  ends the loop, `next` and normal completion continue it, `return` leaves it with the value;
* a CALL (`call_law`) looks the function up, evaluates the arguments left to right, binds them in a
  fresh parameter scope, runs the body block, and yields the `return` value or `null`;
* string `add` is concatenation, with numbers formatted by Display on either side (`add_str_*`);
* INTERPOLATION substitutes the Display form of the bound variable (`interp_var`, `interp_lit`);
* FUEL MONOTONICITY (`run_fuel_mono`): a result other than `fuelOut` is the result for every larger
  fuel, so the fuel is not part of the semantics.
-/
namespace NaijaVerif.Props.C01Eval
open NaijaVerif NaijaVerif.Eval

variable {N : Type} [NumOps N]

/-- Left operand first, then the right operand in the state the left one produced, then the
operator — for every operator that is not `and` / `or`. -/
theorem binary_order (cfg : RunCfg) (f : Nat) (op : BinOp) (aop : ArithOp) (l r : Expr) (sp : Span)
    (st : State N) (hop : ArithOp.ofBin op = some aop) :
    evalExpr cfg (f + 1) (.binary op l r sp) st =
      (evalExpr cfg f l st).bind fun lv st1 =>
        (evalExpr cfg f r st1).bind fun rv st2 => Res.ofExcept cfg (arith aop lv rv sp) sp st2 := by
  cases op <;> simp [ArithOp.ofBin] at hop <;> subst hop <;> simp only [evalExpr]

/-- Lists of expressions (arguments, array elements) are evaluated left to right, each in the
state its predecessor produced. -/
theorem evalSel_cons (cfg : RunCfg) (f : Nat) (e : Expr) (rest : List (Except (PanicSite × Span) Expr)) (st : State N) :
    evalSel cfg (f + 1) (.ok e :: rest) st =
      (evalExpr cfg f e st).bind fun v st1 =>
        (evalSel cfg f rest st1).bind fun vs st2 => .ok (v :: vs) st2 := by
  simp only [evalSel]

/-- `andStops` is exactly "`false` or `null`". -/
theorem andStops_iff (v : Value N) : andStops v = true ↔ v = .bool false ∨ v = .null := by
  cases v with
  | bool b => cases b <;> simp [andStops]
  | null => simp [andStops]
  | _ => simp [andStops]

/-- `orStops` is exactly "`true`". -/
theorem orStops_iff (v : Value N) : orStops v = true ↔ v = .bool true := by
  cases v with
  | bool b => cases b <;> simp [orStops]
  | _ => simp [orStops]

/-- SHORT CIRCUIT of `and`: the right operand is not evaluated — the state is the one after the
left operand. -/
theorem and_short_circuit (cfg : RunCfg) (f : Nat) (l r : Expr) (sp : Span) (st st1 : State N) (lv : Value N)
    (hl : evalExpr cfg f l st = .ok lv st1) (hstop : lv = .bool false ∨ lv = .null) :
    evalExpr cfg (f + 1) (.binary .and l r sp) st = .ok (.bool false) st1 := by
  simp only [evalExpr, hl, Res.bind, (andStops_iff lv).2 hstop, if_true]

/-- Otherwise the right operand is evaluated after the left one and must be a boolean or `null`. -/
theorem and_continue (cfg : RunCfg) (f : Nat) (l r : Expr) (sp : Span) (st st1 : State N) (lv : Value N)
    (hl : evalExpr cfg f l st = .ok lv st1) (hgo : ¬ (lv = .bool false ∨ lv = .null)) :
    evalExpr cfg (f + 1) (.binary .and l r sp) st =
      (evalExpr cfg f r st1).bind fun rv st2 => Res.ofExcept cfg (logicRhs .andRhs rv) r.span st2 := by
  have : andStops lv = false := by
    cases h : andStops lv with
    | false => rfl
    | true => exact absurd ((andStops_iff lv).1 h) hgo
  simp only [evalExpr, hl, Res.bind, this]
  rfl

theorem or_short_circuit (cfg : RunCfg) (f : Nat) (l r : Expr) (sp : Span) (st st1 : State N)
    (hl : evalExpr cfg f l st = .ok (.bool true) st1) :
    evalExpr cfg (f + 1) (.binary .or l r sp) st = .ok (.bool true) st1 := by
  simp only [evalExpr, hl, Res.bind, orStops, if_true]

theorem or_continue (cfg : RunCfg) (f : Nat) (l r : Expr) (sp : Span) (st st1 : State N) (lv : Value N)
    (hl : evalExpr cfg f l st = .ok lv st1) (hgo : lv ≠ .bool true) :
    evalExpr cfg (f + 1) (.binary .or l r sp) st =
      (evalExpr cfg f r st1).bind fun rv st2 => Res.ofExcept cfg (logicRhs .orRhs rv) r.span st2 := by
  have : orStops lv = false := by
    cases h : orStops lv with
    | false => rfl
    | true => exact absurd ((orStops_iff lv).1 h) hgo
  simp only [evalExpr, hl, Res.bind, this]
  rfl

/-- The right operand of `and` / `or`: a boolean is itself, `null` is `false`. -/
theorem logicRhs_bool (site : PanicSite) (b : Bool) : logicRhs (N := N) site (.bool b) = .ok (.bool b) := rfl
theorem logicRhs_null (site : PanicSite) : logicRhs (N := N) site .null = .ok (.bool false) := rfl

/-! ### Truthiness of null -/

theorem not_null : unary (N := N) .not .null = .ok (.bool true) := rfl

theorem truthy_null (site : PanicSite) : truthy (N := N) site .null = .ok false := rfl

/-- `if to say (c)` with `c` evaluating to `null` runs the else branch (or nothing). -/
theorem if_null (cfg : RunCfg) (f : Nat) (c : Expr) (t : Block) (e : Option Block) (sid : Option Nat)
    (sp : Span) (st st1 : State N) (hc : evalExpr cfg f c st = .ok .null st1) :
    execStmt cfg (f + 1) (.ifS c t e sid sp) st =
      (match e with | some eb => execBlock cfg f eb st1 | none => .ok .cont st1) := by
  simp only [execStmt, hc, Res.bind, truthy, Res.ofExcept]
  rfl

/-- `jasi (c)` with `c` evaluating to `null` (or `false`) ends at once, in the state after `c`. -/
theorem loop_null (cfg : RunCfg) (f : Nat) (c : Expr) (b : Block) (sp : Span) (st st1 : State N)
    (v : Value N) (hc : evalExpr cfg f c st = .ok v st1) (hv : v = .null ∨ v = .bool false) :
    loopW cfg (f + 1) c b sp st = .ok .cont st1 := by
  rcases hv with rfl | rfl <;> simp only [loopW, hc, Res.bind, truthy, Res.ofExcept] <;> rfl

/-! ### Loop unrolling -/

/-- One turn of `jasi`: with a true condition the body block runs; `comot` ends the loop normally,
`return v` leaves it, normal completion and `next` run the loop again from the new state. -/
theorem loop_unroll (cfg : RunCfg) (f : Nat) (c : Expr) (b : Block) (sid : Option Nat) (sp : Span)
    (st st1 : State N) (hc : evalExpr cfg f c st = .ok (.bool true) st1) :
    execStmt cfg (f + 2) (.loop c b sid sp) st =
      (execBlock cfg f b st1).bind fun flow st2 =>
        match flow with
        | .brk => .ok .cont st2
        | .ret v => .ok (.ret v) st2
        | .cont => execStmt cfg (f + 1) (.loop c b sid sp) st2
        | .next => execStmt cfg (f + 1) (.loop c b sid sp) st2 := by
  simp only [execStmt, loopW, hc, Res.bind, truthy, Res.ofExcept, if_true]
  cases execBlock cfg f b st1 with
  | ok flow st2 => cases flow <;> rfl
  | _ => rfl

/-- The loop statement is the loop. -/
theorem loop_stmt (cfg : RunCfg) (f : Nat) (c : Expr) (b : Block) (sid : Option Nat) (sp : Span) (st : State N) :
    execStmt cfg (f + 1) (.loop c b sid sp) st = loopW cfg f c b c.span st := by
  simp only [execStmt]

/-! ### Calls -/

/-- A call of a user function: look the callee up (by the resolver's id, else by name), evaluate
the arguments left to right, bind them to the parameters in a fresh scope on the callee's static
chain, run the body block, pop the scope; the value is the `return` value, or `null` when the
body ends without `return`. -/
theorem call_law (cfg : RunCfg) (f : Nat) (name : Bytes) (b0 : Option Nat) (s0 : Span) (args : List Expr)
    (fnAnn : Option Nat) (sp : Span) (st : State N) (fd : FnEntry) (ids : List (Option Nat))
    (hname : GlobalB.ofName name = none) (hfd : lookupFn cfg st fnAnn name = some fd)
    (hids : paramIds fd = some ids) :
    evalExpr cfg (f + 1) (.call (.var name b0 s0) args fnAnn sp) st =
      (evalSel cfg f (args.map .ok) st).bind fun vs st1 =>
        if vs.length ≠ fd.params.length then trap cfg .callArity sp st1
        else
          (execBlock cfg f fd.body
              (pushScope st1 (.params fd.id) fd.chain (paramSlots fd.params ids vs)
                (ids.filterMap id))).bind fun flow st3 =>
            match flow with
            | .cont => .ok .null (popScope st3 st1.chain)
            | .ret v => .ok v (popScope st3 st1.chain)
            | .brk => trap cfg .flowEscape sp (popScope st3 st1.chain)
            | .next => trap cfg .flowEscape sp (popScope st3 st1.chain) := by
  simp only [evalExpr, hname, hfd, hids]
  rfl

/-- The parameter scope binds the i-th parameter to the i-th argument value. -/
theorem paramSlots_length (params : List Param) (ids : List (Option Nat)) (vs : List (Value N))
    (h1 : ids.length = params.length) (h2 : vs.length = params.length) :
    (paramSlots params ids vs).length = params.length := by
  simp [paramSlots, h1, h2]

/-- `shout` appends its argument to the output and yields `null`. -/
theorem shout_law (cfg : RunCfg) (v : Value N) (sp : Span) (st : State N) :
    globalCall cfg .shout v sp st = .ok .null { st with out := st.out ++ [v] } := rfl

/-! ### Strings -/

theorem add_str_str (a b : Bytes) (sp : Span) : arith (N := N) .add (.str a) (.str b) sp = .ok (.str (a ++ b)) := rfl

theorem add_str_num (a : Bytes) (n : N) (sp : Span) :
    arith .add (.str a) (.num n) sp = .ok (.str (a ++ NumOps.fmt n)) := rfl

theorem add_num_str (n : N) (b : Bytes) (sp : Span) :
    arith .add (.num n) (.str b) sp = .ok (.str (NumOps.fmt n ++ b)) := rfl

/-- A literal segment is copied. -/
theorem interp_lit (cfg : RunCfg) (st : State N) (s : Bytes) (rest : List Seg) (acc : Bytes) :
    interp cfg st (.lit s :: rest) acc = interp cfg st rest (acc ++ s) := rfl

/-- A `{name}` segment is replaced by the Display form of the variable it is bound to. -/
theorem interp_var (cfg : RunCfg) (st : State N) (name : Bytes) (bind : Option Nat) (rest : List Seg)
    (acc : Bytes) (v : Value N) (hv : lookupVal cfg st bind name = some v) :
    interp cfg st (.var name bind :: rest) acc = interp cfg st rest (acc ++ v.display) := by
  simp only [interp, hv]

/-- Display quotes strings inside arrays and only there. -/
theorem display_str (s : Bytes) : (Value.str s : Value N).display = s := by simp [Value.display]

theorem display_arr_str (s : Bytes) :
    (Value.arr [.str s] : Value N).display = b!"[" ++ (b!"\"" ++ s ++ b!"\"") ++ b!"]" := by
  simp [Value.display, Value.displayItems]

/-! ### Division -/

/-- Division and remainder by a zero divisor are the runtime error `DivisionByZero` at the span of
the operation, never a value. -/
theorem div_by_zero (a b : N) (sp : Span) (hz : NumOps.isZero b = true) :
    arith .divide (.num a) (.num b) sp = .error (.rt .divisionByZero sp) ∧
    arith .mod (.num a) (.num b) sp = .error (.rt .divisionByZero sp) := by
  simp [arith, hz]

/-! ### Fuel -/

/-- FUEL MONOTONICITY: if a run with fuel `f` ends otherwise than by exhausting the fuel, every
run with more fuel ends the same way with the same output. -/
theorem run_fuel_mono (cfg : RunCfg) (f g : Nat) (hfg : f ≤ g) (prog : Block) (r : Outcome N)
    (h : run cfg f prog = r) (hne : r ≠ .fuelOut) : run cfg g prog = r :=
  run_mono cfg hfg prog r h hne

theorem run_fuel_succ (cfg : RunCfg) (f : Nat) (prog : Block) (r : Outcome N)
    (h : run cfg f prog = r) (hne : r ≠ .fuelOut) : run cfg (f + 1) prog = r :=
  run_mono cfg (Nat.le_succ f) prog r h hne

/-! ### Non-vacuity: the laws at work on a concrete program (toy numbers)

`do say(x) start shout(x) return true end  shout(false and say(1))  shout(null or say(2))
 make i get 0  jasi (i small pass 5) start i get i add 1  if to say (i na 2) start next end
 if to say (i na 4) start comot end  shout("i={i}") end  shout("s" add 1 add 2)`
prints `false` (say(1) not called), `2`, `true`, `i=1`, `i=3`, `s12`. -/
def lawsProg : Block := (.mk [(.fnDef [115, 97, 121] ⟨0, 9⟩ [{ name := [120], span := ⟨7, 8⟩, bind := (some 0) }] (.mk [(.expr (.call (.var [115, 104, 111, 117, 116] none ⟨16, 21⟩) [(.var [120] (some 0) ⟨22, 23⟩)] none ⟨16, 31⟩) (some 1) ⟨16, 31⟩), (.ret (some (.bool true ⟨32, 36⟩)) (some 2) ⟨25, 40⟩)] ⟨16, 40⟩) (some 1) (some 0) ⟨0, 46⟩), (.expr (.call (.var [115, 104, 111, 117, 116] none ⟨41, 46⟩) [(.binary .and (.bool false ⟨47, 52⟩) (.call (.var [115, 97, 121] none ⟨57, 60⟩) [(.num [49] ⟨61, 62⟩)] (some 1) ⟨57, 64⟩) ⟨47, 64⟩)] none ⟨41, 70⟩) (some 3) ⟨41, 70⟩), (.expr (.call (.var [115, 104, 111, 117, 116] none ⟨65, 70⟩) [(.binary .or (.null ⟨71, 75⟩) (.call (.var [115, 97, 121] none ⟨79, 82⟩) [(.num [50] ⟨83, 84⟩)] (some 1) ⟨79, 86⟩) ⟨71, 86⟩)] none ⟨65, 91⟩) (some 4) ⟨65, 91⟩), (.assign [105] ⟨92, 93⟩ (.num [48] ⟨98, 99⟩) (some 1) (some 5) ⟨87, 104⟩), (.loop (.binary .lt (.var [105] (some 1) ⟨106, 107⟩) (.num [53] ⟨119, 120⟩) ⟨106, 121⟩) (.mk [(.assignExisting [105] ⟨128, 129⟩ (.binary .add (.var [105] (some 1) ⟨134, 135⟩) (.num [49] ⟨140, 141⟩) ⟨134, 151⟩) (some 1) (some 7) ⟨128, 151⟩), (.ifS (.binary .eq (.var [105] (some 1) ⟨153, 154⟩) (.num [50] ⟨158, 159⟩) ⟨153, 160⟩) (.mk [(.cont (some 9) ⟨167, 175⟩)] ⟨167, 175⟩) none (some 8) ⟨142, 185⟩), (.ifS (.binary .eq (.var [105] (some 1) ⟨187, 188⟩) (.num [52] ⟨192, 193⟩) ⟨187, 194⟩) (.mk [(.brk (some 11) ⟨201, 210⟩)] ⟨201, 210⟩) none (some 10) ⟨176, 216⟩), (.expr (.call (.var [115, 104, 111, 117, 116] none ⟨211, 216⟩) [(.str (.interp [.lit [105, 61], .var [105] (some 1)]) ⟨217, 224⟩)] none ⟨211, 229⟩) (some 12) ⟨211, 229⟩)] ⟨128, 229⟩) (some 6) ⟨100, 235⟩), (.expr (.call (.var [115, 104, 111, 117, 116] none ⟨230, 235⟩) [(.binary .add (.binary .add (.str (.static [115]) ⟨236, 239⟩) (.num [49] ⟨244, 245⟩) ⟨236, 249⟩) (.num [50] ⟨250, 251⟩) ⟨236, 252⟩)] none ⟨230, 252⟩) (some 13) ⟨230, 252⟩)] ⟨0, 252⟩)

example : Toy.summary (run Toy.cfg 40 lawsProg) =
    ([b!"false", b!"2", b!"true", b!"i=1", b!"i=3", b!"s12"], 0) := by decide +kernel

example : Toy.summary (run Toy.cfg 3 lawsProg) = ([], 3) := by decide +kernel

end NaijaVerif.Props.C01Eval
