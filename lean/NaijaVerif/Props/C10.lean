/-
C10 — layout is insignificant: whitespace and comments never change meaning.

Assembly of the lexer part (`Props/C10Lex.lean`: any two valid layouts of one token sequence lex to
the same tokens, with no diagnostics) and the parser part (`Props/C10Parse.lean`: parsing depends
on the tokens only, not on their spans; redundant parentheses are erased).  Everything downstream of
the parser (resolver, analyses, evaluator models) takes the AST and never reads a span for a
decision, so equal span-erased ASTs mean equal acceptance and equal behaviour; for the *code* that
last step rests on the re-layout differential of the tie.
-/
import NaijaVerif.Props.C10Lex
import NaijaVerif.Props.C10Parse

namespace NaijaVerif.C10
open NaijaVerif NaijaVerif.Lex NaijaVerif.Parse NaijaVerif.Props.C10Lex NaijaVerif.C10Parse

/-- **C10 (lexer + parser)**: two texts that are valid layouts of the same token sequence — any
separators (spaces, tabs, LF, CR, CRLF, FF, `#` comments), any spelling of the multi-word keywords —
produce the same AST up to spans, no lexical diagnostics, and the same syntax diagnostics up to
spans; in particular one is accepted by the front end iff the other is. -/
theorem layout_insignificant {lead₁ tr₁ lead₂ tr₂ : Bytes} (l₁ l₂ : Layout)
    (h₁ : Sep lead₁) (t₁ : Trail tr₁) (v₁ : Valid tr₁ l₁)
    (h₂ : Sep lead₂) (t₂ : Trail tr₂) (v₂ : Valid tr₂ l₂) (same : l₁.toks = l₂.toks) :
    let s₁ := lead₁ ++ render tr₁ l₁
    let s₂ := lead₂ ++ render tr₂ l₂
    eraseSpans (parseProgram (lex s₁).1).1 = eraseSpans (parseProgram (lex s₂).1).1 ∧
      (lex s₁).2 = [] ∧ (lex s₂).2 = [] ∧
      (parseProgram (lex s₁).1).2.map eraseDiag = (parseProgram (lex s₂).1).2.map eraseDiag ∧
      ((parseProgram (lex s₁).1).2 = [] ↔ (parseProgram (lex s₂).1).2 = []) := by
  intro s₁ s₂
  obtain ⟨htoks, hd1, hd2⟩ := c10_lex_layout_insensitive l₁ l₂ h₁ t₁ v₁ h₂ t₂ v₂ same
  obtain ⟨hast, _, hdiag⟩ := layout_insensitive (lex s₁).1 (lex s₂).1 htoks
  exact ⟨hast, hd1, hd2, hdiag, acceptance_layout_insensitive _ _ htoks⟩

end NaijaVerif.C10
