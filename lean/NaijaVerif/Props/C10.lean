/-
C10 — layout is insignificant: whitespace and comments never change meaning.

Assembly of the lexer part (`Props/C10Lex.lean`: any two valid layouts of one token sequence lex to
the same tokens, with no diagnostics), the parser part (`Props/C10Parse.lean`: parsing depends
on the tokens only, not on their spans; redundant parentheses are erased) and the part behind the
parser (`Lemmas/SpanErase{Resolve,Analysis,Eval,Pipeline}.lean`): the resolver, the limit preflight,
the analyses and the evaluator *commute with span erasure* — run on the span-erased program they give
the span-erased annotated program, the same facts, the same plan, the same diagnostics / warnings /
runtime error up to the positions attached to them.  No decision anywhere behind the parser reads a
span; a span is only ever copied into a diagnostic, a warning or a runtime error.

End to end (`c10_pipeline`): two texts that are valid layouts of one token sequence have the same
span-insensitive observation `obs` of the shipped pipeline `Pipeline.runSource` — the stage they stop
at, the diagnostics / warnings (severity, kind, number of labels, order), the printed values, the class
of the ending and the runtime-error kind — for every limit configuration, run configuration and
fuel.  `c10_redundant_parentheses_run` is the same for two parenthesisations of one program.
-/
import NaijaVerif.Props.C10Lex
import NaijaVerif.Props.C10Parse
import NaijaVerif.Props.C01Parse
import NaijaVerif.Lemmas.SpanErasePipeline
import NaijaVerif.Lemmas.EvalToy

namespace NaijaVerif.C10
open NaijaVerif NaijaVerif.Lex NaijaVerif.Parse NaijaVerif.Props.C10Lex NaijaVerif.C10Parse
open NaijaVerif.SpanErase

/-- **C10 (lexer + parser)**: two texts that are valid layouts of the same token sequence — any
separators (spaces, tabs, LF, CR, CRLF, FF, `#` comments), any spelling of the multi-word keywords —
produce the same AST up to spans, no lexical diagnostics, and the same syntax diagnostics up to
spans; in particular one is accepted by the front end iff the other is. -/
theorem layout_insignificant {lead₁ tr₁ lead₂ tr₂ : Bytes} (l₁ l₂ : Layout)
    (h₁ : Sep lead₁) (t₁ : Trail tr₁) (v₁ : Valid tr₁ l₁)
    (h₂ : Sep lead₂) (t₂ : Trail tr₂) (v₂ : Valid tr₂ l₂) (same : l₁.toks = l₂.toks) :
    let s₁ := lead₁ ++ render tr₁ l₁
    let s₂ := lead₂ ++ render tr₂ l₂
    eraseSpans (parseProgram (lex s₁).1).1 = eraseSpans (parseProgram (lex s₂).1).1 ∧
      (lex s₁).2 = [] ∧ (lex s₂).2 = [] ∧
      (parseProgram (lex s₁).1).2.map eraseDiag = (parseProgram (lex s₂).1).2.map eraseDiag ∧
      ((parseProgram (lex s₁).1).2 = [] ↔ (parseProgram (lex s₂).1).2 = []) := by
  intro s₁ s₂
  obtain ⟨htoks, hd1, hd2⟩ := c10_lex_layout_insensitive l₁ l₂ h₁ t₁ v₁ h₂ t₂ v₂ same
  obtain ⟨hast, _, hdiag⟩ := layout_insensitive (lex s₁).1 (lex s₂).1 htoks
  exact ⟨hast, hd1, hd2, hdiag, acceptance_layout_insensitive _ _ htoks⟩

/-! ## Behind the parser, stage by stage

`p`, `q` are two programs that are equal up to spans (`eraseSpans p = eraseSpans q`): what the parser
delivers for two layouts of one token sequence. -/

/-- **Resolver**: the same diagnostics up to spans (same rules in the same order, same number of
labels), the same binding annotations (the annotated programs are equal up to spans) and THE SAME
facts — `Facts` holds ids, names, classes and id ranges, no source span, so there is nothing to
erase in them.  (`localsLen` / `resolveWith spanLen` speak about spans of *local ids*.) -/
theorem span_independent_resolver {p q : Block} (h : eraseSpans p = eraseSpans q) :
    (Resolve.resolve p).diags.map eraseDiag = (Resolve.resolve q).diags.map eraseDiag ∧
    eraseSpans (Resolve.resolve p).root = eraseSpans (Resolve.resolve q).root ∧
    (Resolve.resolve p).facts = (Resolve.resolve q).facts ∧
    (hasErrors (Resolve.resolve p).diags = hasErrors (Resolve.resolve q).diags) := by
  obtain ⟨r1, d1, f1, _⟩ := resolveWith_erase true p
  obtain ⟨r2, d2, f2, _⟩ := resolveWith_erase true q
  rw [h] at r1 d1 f1
  have hd : (Resolve.resolve p).diags.map eraseDiag = (Resolve.resolve q).diags.map eraseDiag :=
    d1.symm.trans d2
  refine ⟨hd, r1.symm.trans r2, f1.symm.trans f2, ?_⟩
  rw [← hasErrors_eraseDiag (Resolve.resolve p).diags, hd, hasErrors_eraseDiag]

/-- **Limit preflight and analyses**: on two annotated programs that are equal up to spans, with the
same facts: the same counts (hence the same limit decision), the same verdicts and optimisation plan,
the same warnings in the same order up to their spans, and the same outcome of
`emit_analysis_warnings` up to the span of the limit warning. -/
theorem span_independent_analyses {r₁ r₂ : Block} (facts : Facts) (h : eraseSpans r₁ = eraseSpans r₂) :
    CfgCount.countProgram r₁ facts = CfgCount.countProgram r₂ facts ∧
    (Analysis.analyse r₁ facts).plan = (Analysis.analyse r₂ facts).plan ∧
    (Analysis.analyse r₁ facts).unreach = (Analysis.analyse r₂ facts).unreach ∧
    (Analysis.analyse r₁ facts).unusedAsg = (Analysis.analyse r₂ facts).unusedAsg ∧
    (Analysis.analyse r₁ facts).unusedVar = (Analysis.analyse r₂ facts).unusedVar ∧
    (Analysis.analyse r₁ facts).unusedFn = (Analysis.analyse r₂ facts).unusedFn ∧
    (Analysis.analyse r₁ facts).warns.map eraseWarn = (Analysis.analyse r₂ facts).warns.map eraseWarn ∧
    ∀ (caps : Limits.Caps) (c : Limits.Counts) (sp₁ sp₂ : Span) (planOf : Eval.Plan) (w₁ w₂ : List Diag),
      w₁.map eraseDiag = w₂.map eraseDiag →
      (Limits.emitAnalysis caps c sp₁ planOf w₁).plan = (Limits.emitAnalysis caps c sp₂ planOf w₂).plan ∧
      (Limits.emitAnalysis caps c sp₁ planOf w₁).warnings.map eraseDiag
        = (Limits.emitAnalysis caps c sp₂ planOf w₂).warnings.map eraseDiag := by
  have hc : CfgCount.countProgram r₁ facts = CfgCount.countProgram r₂ facts := by
    rw [← countProgram_erase r₁, ← countProgram_erase r₂]
    exact congrArg (fun b => CfgCount.countProgram b facts) h
  have ha := analyse_erase r₁ facts
  rw [show eraseBlock r₁ = eraseBlock r₂ from h, analyse_erase r₂ facts] at ha
  refine ⟨hc, (congrArg Analysis.Result.plan ha).symm, (congrArg Analysis.Result.unreach ha).symm,
    (congrArg Analysis.Result.unusedAsg ha).symm, (congrArg Analysis.Result.unusedVar ha).symm,
    (congrArg Analysis.Result.unusedFn ha).symm, (congrArg Analysis.Result.warns ha).symm, ?_⟩
  intro caps c sp₁ sp₂ planOf w₁ w₂ hw
  have e1 := emitAnalysis_erase caps c sp₁ planOf w₁
  have e2 := emitAnalysis_erase caps c sp₂ planOf w₂
  rw [hw] at e1
  rw [e2] at e1
  exact ⟨(congrArg Limits.AnalysisOut.plan e1).symm, (congrArg Limits.AnalysisOut.warnings e1).symm⟩

/-- **Evaluator**: two programs that are equal up to spans (annotations included) behave
identically under every configuration, plan and fuel: the same printed values, the same class of
ending, the same runtime-error kind, the same panic site (`eraseOutcome` drops only the span of the
runtime error). -/
theorem span_independent_eval {N : Type} [NumOps N] (cfg : Eval.RunCfg) (fuel : Nat) {p q : Block}
    (h : eraseSpans p = eraseSpans q) :
    eraseOutcome (Eval.run cfg fuel p : Eval.Outcome N) = eraseOutcome (Eval.run cfg fuel q) := by
  rw [← run_erase cfg fuel p, ← run_erase cfg fuel q]
  exact congrArg (fun b => (Eval.run cfg fuel b : Eval.Outcome N)) h

/-- The three stages composed as the shipped pipeline composes them (stop on a resolver error; limit
preflight; analyses; run with the analyses' plan): two parses that are equal up to spans have the
same observation from the resolver on. -/
theorem span_independent_back_end {N : Type} [NumOps N] (caps : Limits.Caps) (cfg : Eval.RunCfg)
    (fuel : Nat) {p q : Block} (h : eraseSpans p = eraseSpans q) :
    (obs (runParsed caps cfg fuel p) : Pipeline.Result N) = obs (runParsed caps cfg fuel q) :=
  runParsed_congr caps cfg fuel h

/-! ## End to end -/

/-- What `obs` keeps decides the exit status. -/
theorem exitOk_of_obs {N : Type} {r₁ r₂ : Pipeline.Result N} (h : obs r₁ = obs r₂) :
    Pipeline.exitOk r₁ = Pipeline.exitOk r₂ := by
  cases r₁ with
  | «syntax» d1 => cases r₂ <;> simp [obs] at h <;> rfl
  | semantic d1 => cases r₂ <;> simp [obs] at h <;> rfl
  | ran w1 o1 =>
    cases r₂ with
    | «syntax» d2 => simp [obs] at h
    | semantic d2 => simp [obs] at h
    | ran w2 o2 =>
      simp only [obs, Pipeline.Result.ran.injEq] at h
      cases o1 <;> cases o2 <;> simp [eraseOutcome] at h <;> rfl

/-- **C10 for the shipped pipeline, from the tokens on**: two texts that the lexer turns into the
same token kinds and payloads without a lexical diagnostic have the same observation. -/
theorem c10_pipeline_tokens {N : Type} [NumOps N] (s₁ s₂ : Bytes)
    (h₁ : (lex s₁).2 = []) (h₂ : (lex s₂).2 = [])
    (htoks : (lex s₁).1.map (·.tok) = (lex s₂).1.map (·.tok))
    (caps : Limits.Caps) (cfg : Eval.RunCfg) (fuel : Nat) :
    (obs (Pipeline.runSource caps cfg fuel s₁) : Pipeline.Result N)
      = obs (Pipeline.runSource caps cfg fuel s₂) := by
  obtain ⟨hast, _, hdiag⟩ := layout_insensitive (lex s₁).1 (lex s₂).1 htoks
  have hacc := acceptance_layout_insensitive (lex s₁).1 (lex s₂).1 htoks
  rw [runSource_eq, runSource_eq, h₁, h₂]
  simp only [List.nil_append]
  by_cases hp : (parseProgram (lex s₁).1).2 = []
  · have hp2 := hacc.1 hp
    simp only [hp, hp2, List.isEmpty_nil, Bool.not_true, Bool.false_eq_true, if_false]
    exact runParsed_congr caps cfg fuel hast
  · have hp2 : ¬ (parseProgram (lex s₂).1).2 = [] := fun h => hp (hacc.2 h)
    have e1 : (!(parseProgram (lex s₁).1).2.isEmpty) = true := by
      cases h : (parseProgram (lex s₁).1).2 with
      | nil => exact absurd h hp
      | cons _ _ => rfl
    have e2 : (!(parseProgram (lex s₂).1).2.isEmpty) = true := by
      cases h : (parseProgram (lex s₂).1).2 with
      | nil => exact absurd h hp2
      | cons _ _ => rfl
    simp only [e1, e2, if_true, obs, hdiag]

/-- **C10, end to end**: two source texts that are valid layouts of the same token sequence —
differing only in spaces, tabs, line breaks (LF, CR, CRLF), form feeds, `#` comments between tokens
and the spelling of the whitespace inside multi-word keywords — are accepted or rejected alike and
behave identically when run: for every limit configuration, run configuration and fuel the shipped
pipeline stops at the same stage with the same diagnostics up to positions, or runs with the same
warnings up to positions, prints the same values and ends in the same way (normally / with the same
kind of runtime error / at the same panic site / out of fuel). -/
theorem c10_pipeline {N : Type} [NumOps N] {lead₁ tr₁ lead₂ tr₂ : Bytes} (l₁ l₂ : Layout)
    (h₁ : Sep lead₁) (t₁ : Trail tr₁) (v₁ : Valid tr₁ l₁)
    (h₂ : Sep lead₂) (t₂ : Trail tr₂) (v₂ : Valid tr₂ l₂) (same : l₁.toks = l₂.toks)
    (caps : Limits.Caps) (cfg : Eval.RunCfg) (fuel : Nat) :
    (obs (Pipeline.runSource caps cfg fuel (lead₁ ++ render tr₁ l₁)) : Pipeline.Result N)
      = obs (Pipeline.runSource caps cfg fuel (lead₂ ++ render tr₂ l₂)) := by
  obtain ⟨htoks, hd1, hd2⟩ := c10_lex_layout_insensitive l₁ l₂ h₁ t₁ v₁ h₂ t₂ v₂ same
  exact c10_pipeline_tokens _ _ hd1 hd2 htoks caps cfg fuel

/-- … in particular the same exit status. -/
theorem c10_exit_status {N : Type} [NumOps N] {lead₁ tr₁ lead₂ tr₂ : Bytes} (l₁ l₂ : Layout)
    (h₁ : Sep lead₁) (t₁ : Trail tr₁) (v₁ : Valid tr₁ l₁)
    (h₂ : Sep lead₂) (t₂ : Trail tr₂) (v₂ : Valid tr₂ l₂) (same : l₁.toks = l₂.toks)
    (caps : Limits.Caps) (cfg : Eval.RunCfg) (fuel : Nat) :
    Pipeline.exitOk (Pipeline.runSource caps cfg fuel (lead₁ ++ render tr₁ l₁) : Pipeline.Result N)
      = Pipeline.exitOk (Pipeline.runSource caps cfg fuel (lead₂ ++ render tr₂ l₂) : Pipeline.Result N) :=
  exitOk_of_obs (c10_pipeline l₁ l₂ h₁ t₁ v₁ h₂ t₂ v₂ same caps cfg fuel)

/-- **Redundant parentheses, end to end, up to the `escaped` flag** (the counterpart of
`C10Parse.redundant_parentheses` / `C01Parse.program_round_trip` for whole programs): let `b` be a
canonical program and `p`, `q` two choices of redundant parentheses (any number of pairs around any
sub-expressions).  Two texts — in any layout — that lex without a diagnostic to the tokens of `b` printed
with `p` resp. `q`, up to the `escaped` flag of the string tokens without `{` (`Parse.flagErase`: the
printer prints a static string as the escaped token, a literal without an escape sequence lexes to the
unescaped one, and the parser does not tell them apart — `C10Parse.parse_ignores_str_flag`), are both
accepted by the parser, parse to `b` up to spans, and have the same observation of the shipped pipeline:
same acceptance, same warnings, same printed values, same ending. -/
theorem c10_redundant_parentheses_run_anyflag {N : Type} [NumOps N] (p q : Expr → Nat) (b : Block)
    (hp : CanonBlock p b) (hq : CanonBlock q b) (s₁ s₂ : Bytes)
    (h₁ : (lex s₁).2 = []) (h₂ : (lex s₂).2 = [])
    (t₁ : (lex s₁).1.map (fun t => flagErase t.tok) = (programToks p b).map (fun t => flagErase t.tok))
    (t₂ : (lex s₂).1.map (fun t => flagErase t.tok) = (programToks q b).map (fun t => flagErase t.tok))
    (caps : Limits.Caps) (cfg : Eval.RunCfg) (fuel : Nat) :
    (parseProgram (lex s₁).1).2 = [] ∧ (parseProgram (lex s₂).1).2 = [] ∧
    eraseSpans (parseProgram (lex s₁).1).1 = eraseSpans b ∧
    eraseSpans (parseProgram (lex s₂).1).1 = eraseSpans b ∧
    (obs (Pipeline.runSource caps cfg fuel s₁) : Pipeline.Result N)
      = obs (Pipeline.runSource caps cfg fuel s₂) := by
  have key : ∀ (r : Expr → Nat) (s : Bytes), CanonBlock r b →
      (lex s).1.map (fun t => flagErase t.tok) = (programToks r b).map (fun t => flagErase t.tok) →
      (parseProgram (lex s).1).2 = [] ∧ eraseSpans (parseProgram (lex s).1).1 = eraseSpans b := by
    intro r s hr ht
    obtain ⟨hast, _, hdiag⟩ := layout_insensitive_anyflag (lex s).1 (programToks r b) ht
    rw [C01Parse.program_round_trip r b hr] at hast hdiag
    exact ⟨by simpa using hdiag, hast⟩
  obtain ⟨d1, a1⟩ := key p s₁ hp t₁
  obtain ⟨d2, a2⟩ := key q s₂ hq t₂
  refine ⟨d1, d2, a1, a2, ?_⟩
  rw [runSource_eq, runSource_eq, h₁, h₂, d1, d2]
  simp only [List.append_nil, List.isEmpty_nil, Bool.not_true, Bool.false_eq_true, if_false]
  exact runParsed_congr caps cfg fuel (a1.trans a2.symm)

/-- **Redundant parentheses, end to end**: the same for two texts that lex to exactly the printed tokens. -/
theorem c10_redundant_parentheses_run {N : Type} [NumOps N] (p q : Expr → Nat) (b : Block)
    (hp : CanonBlock p b) (hq : CanonBlock q b) (s₁ s₂ : Bytes)
    (h₁ : (lex s₁).2 = []) (h₂ : (lex s₂).2 = [])
    (t₁ : (lex s₁).1.map (·.tok) = (programToks p b).map (·.tok))
    (t₂ : (lex s₂).1.map (·.tok) = (programToks q b).map (·.tok))
    (caps : Limits.Caps) (cfg : Eval.RunCfg) (fuel : Nat) :
    (parseProgram (lex s₁).1).2 = [] ∧ (parseProgram (lex s₂).1).2 = [] ∧
    eraseSpans (parseProgram (lex s₁).1).1 = eraseSpans b ∧
    eraseSpans (parseProgram (lex s₂).1).1 = eraseSpans b ∧
    (obs (Pipeline.runSource caps cfg fuel s₁) : Pipeline.Result N)
      = obs (Pipeline.runSource caps cfg fuel s₂) :=
  c10_redundant_parentheses_run_anyflag p q b hp hq s₁ s₂ h₁ h₂ (toks_anyflag t₁) (toks_anyflag t₂) caps cfg fuel

/-- What a layout lexes to, up to the flag: the tokens of the layout with the parser's end marker. -/
theorem layout_toks_anyflag {toks : List SpTok} {ltoks : List Tok} (p : Expr → Nat) (b : Block)
    (a : toks.map (·.tok) = ltoks ++ [.eof]) (k : ltoks.map flagErase = (printBlock p b).map flagErase) :
    toks.map (fun t => flagErase t.tok) = (programToks p b).map (fun t => flagErase t.tok) := by
  have e : (programToks p b).map (·.tok) = printBlock p b ++ [.eof] := by
    simp [programToks, mkTok, List.map_map, Function.comp_def]
  have h1 : toks.map (fun t => flagErase t.tok) = (toks.map (·.tok)).map flagErase := by
    simp [List.map_map, Function.comp_def]
  have h2 : (programToks p b).map (fun t => flagErase t.tok) = ((programToks p b).map (·.tok)).map flagErase := by
    simp [List.map_map, Function.comp_def]
  rw [h1, h2, a, e, List.map_append, List.map_append, k]

/-- The same for texts given as valid layouts of the two printed token sequences, up to the `escaped`
flag of the string tokens without `{`: a static string may be spelled with or without escape sequences. -/
theorem c10_redundant_parentheses_layouts_anyflag {N : Type} [NumOps N] (p q : Expr → Nat) (b : Block)
    (hp : CanonBlock p b) (hq : CanonBlock q b) {lead₁ tr₁ lead₂ tr₂ : Bytes} (l₁ l₂ : Layout)
    (h₁ : Sep lead₁) (t₁ : Trail tr₁) (v₁ : Valid tr₁ l₁)
    (h₂ : Sep lead₂) (t₂ : Trail tr₂) (v₂ : Valid tr₂ l₂)
    (k₁ : l₁.toks.map flagErase = (printBlock p b).map flagErase)
    (k₂ : l₂.toks.map flagErase = (printBlock q b).map flagErase)
    (caps : Limits.Caps) (cfg : Eval.RunCfg) (fuel : Nat) :
    (obs (Pipeline.runSource caps cfg fuel (lead₁ ++ render tr₁ l₁)) : Pipeline.Result N)
      = obs (Pipeline.runSource caps cfg fuel (lead₂ ++ render tr₂ l₂)) := by
  obtain ⟨a1, a2⟩ := c10_lex_roundtrip h₁ t₁ l₁ v₁
  obtain ⟨b1, b2⟩ := c10_lex_roundtrip h₂ t₂ l₂ v₂
  exact (c10_redundant_parentheses_run_anyflag p q b hp hq _ _ a2 b2 (layout_toks_anyflag p b a1 k₁)
    (layout_toks_anyflag q b b1 k₂) caps cfg fuel).2.2.2.2

/-- The same for texts given as valid layouts of exactly the two printed token sequences. -/
theorem c10_redundant_parentheses_layouts {N : Type} [NumOps N] (p q : Expr → Nat) (b : Block)
    (hp : CanonBlock p b) (hq : CanonBlock q b) {lead₁ tr₁ lead₂ tr₂ : Bytes} (l₁ l₂ : Layout)
    (h₁ : Sep lead₁) (t₁ : Trail tr₁) (v₁ : Valid tr₁ l₁)
    (h₂ : Sep lead₂) (t₂ : Trail tr₂) (v₂ : Valid tr₂ l₂)
    (k₁ : l₁.toks = printBlock p b) (k₂ : l₂.toks = printBlock q b)
    (caps : Limits.Caps) (cfg : Eval.RunCfg) (fuel : Nat) :
    (obs (Pipeline.runSource caps cfg fuel (lead₁ ++ render tr₁ l₁)) : Pipeline.Result N)
      = obs (Pipeline.runSource caps cfg fuel (lead₂ ++ render tr₂ l₂)) :=
  c10_redundant_parentheses_layouts_anyflag p q b hp hq l₁ l₂ h₁ t₁ v₁ h₂ t₂ v₂ (by rw [k₁]) (by rw [k₂])
    caps cfg fuel


/-! ## Non-vacuity (toy `Int` numbers of `Lemmas/EvalToy.lean`, limits nothing trips on) -/

section Examples
open NaijaVerif.Eval

/-- Limits nothing trips on. -/
def roomyCaps : Limits.Caps :=
  { maxFunctions := 1000, maxLocals := 1000, maxScopes := 1000, maxStatements := 1000, maxTotalOps := 100000,
    maxOpsPerFunction := 100000, maxTotalBlocks := 100000, maxBlocksPerFunction := 100000,
    maxDirectUserCalls := 1000, maxSummaryEvents := 100000, maxLivenessEvents := 100000 }

/-- What a pipeline result with the toy numbers shows: stage (0 syntax, 1 semantic, 2 ran), the
diagnostic / warning kinds, the printed texts, the ending (0 normal, 1 runtime error, 2 panic,
3 out of fuel), the runtime-error kind. -/
def shown : Pipeline.Result Int → Nat × List DiagKind × List Bytes × Nat × Option RtKind
  | .syntax ds => (0, ds.map (·.kind), [], 0, none)
  | .semantic ds => (1, ds.map (·.kind), [], 0, none)
  | .ran ws o => (2, ws.map (·.kind), (Toy.summary o).1, (Toy.summary o).2, Toy.rtKind o)

/-- Every position a pipeline result carries. -/
def positions : Pipeline.Result Int → List Span
  | .syntax ds => ds.map (·.span)
  | .semantic ds => ds.map (·.span)
  | .ran ws (.rt _ sp _) => ws.map (·.span) ++ [sp]
  | .ran ws _ => ws.map (·.span)

/-- a program that prints, on one line … -/
def printsA : Bytes := b!"make x get 1 add 2 shout(x) shout(x times x)"
/-- … and with a leading blank line, comments, tabs, CRLF, a statement per line, an unfinished
comment at the end -/
def printsB : Bytes :=
  b!"\n# sum\nmake x get 1 add 2   # three\r\nshout ( x )\n\tshout(x\ttimes\n x)\n# end"

-- two layouts of one token sequence (at different positions), no lexical diagnostics
example : (lex printsA).2 = [] ∧ (lex printsB).2 = [] ∧
    (lex printsA).1.map (·.tok) = (lex printsB).1.map (·.tok) ∧
    (lex printsA).1.map (·.span) ≠ (lex printsB).1.map (·.span) := by decide +kernel

/-- an instance of `c10_pipeline_tokens`: whatever the limits, the configuration and the fuel -/
example (caps : Limits.Caps) (cfg : RunCfg) (fuel : Nat) :
    (obs (Pipeline.runSource caps cfg fuel printsA) : Pipeline.Result Int)
      = obs (Pipeline.runSource caps cfg fuel printsB) :=
  c10_pipeline_tokens printsA printsB (by decide +kernel) (by decide +kernel) (by decide +kernel) caps cfg fuel

-- … and what is observed is a run that prints `3` and `9` and ends normally
example : shown (Pipeline.runSource roomyCaps Toy.cfg 30 printsA) = (2, [], [b!"3", b!"9"], 0, none) ∧
    shown (Pipeline.runSource roomyCaps Toy.cfg 30 printsB) = (2, [], [b!"3", b!"9"], 0, none) := by
  decide +kernel

/-- a program with an unused variable that prints and then divides by zero, in two layouts -/
def failsA : Bytes := b!"make u get 5 shout(7) shout(1 divide 0) shout(8)"
def failsB : Bytes := b!"make u get 5 # unused\nshout(7)\n\nshout( 1\n  divide 0 )\nshout(8)\n"

example : (lex failsA).2 = [] ∧ (lex failsB).2 = [] ∧
    (lex failsA).1.map (·.tok) = (lex failsB).1.map (·.tok) := by decide +kernel

example (caps : Limits.Caps) (cfg : RunCfg) (fuel : Nat) :
    (obs (Pipeline.runSource caps cfg fuel failsA) : Pipeline.Result Int)
      = obs (Pipeline.runSource caps cfg fuel failsB) :=
  c10_pipeline_tokens failsA failsB (by decide +kernel) (by decide +kernel) (by decide +kernel) caps cfg fuel

-- both runs warn about `u` (unused assignment, unused variable), print `7`, and end with
-- `DivisionByZero` — reported at different positions, which `obs` leaves out
example :
    shown (Pipeline.runSource roomyCaps Toy.cfg 30 failsA)
      = (2, [.unusedAssignment, .unusedVariable], [b!"7"], 1, some .divisionByZero) ∧
    shown (Pipeline.runSource roomyCaps Toy.cfg 30 failsB)
      = (2, [.unusedAssignment, .unusedVariable], [b!"7"], 1, some .divisionByZero) := by
  decide +kernel

example : positions (Pipeline.runSource roomyCaps Toy.cfg 30 failsA)
    ≠ positions (Pipeline.runSource roomyCaps Toy.cfg 30 failsB) := by
  decide +kernel

/-- a text the resolver rejects, in two layouts: rejected alike -/
def rejectedA : Bytes := b!"shout(y)"
def rejectedB : Bytes := b!"shout # what?\n(\ty )"

example (caps : Limits.Caps) (cfg : RunCfg) (fuel : Nat) :
    (obs (Pipeline.runSource caps cfg fuel rejectedA) : Pipeline.Result Int)
      = obs (Pipeline.runSource caps cfg fuel rejectedB) :=
  c10_pipeline_tokens rejectedA rejectedB (by decide +kernel) (by decide +kernel) (by decide +kernel) caps cfg fuel

example : shown (Pipeline.runSource roomyCaps Toy.cfg 30 rejectedA) = (1, [.undeclaredIdentifier], [], 0, none) ∧
    shown (Pipeline.runSource roomyCaps Toy.cfg 30 rejectedB) = (1, [.undeclaredIdentifier], [], 0, none) := by
  decide +kernel


/-! ### `c10_pipeline` itself, on two explicit layouts of `shout ( 1 )` -/

/-- `shout(1)` without any separator -/
def tightL : Layout :=
  [((.ident (b!"shout"), b!"shout"), []), ((.lparen, b!"("), []), ((.num (b!"1"), b!"1"), []),
   ((.rparen, b!")"), [])]

/-- the same tokens with a comment, a TAB, a CRLF and a line end between them -/
def looseL : Layout :=
  [((.ident (b!"shout"), b!"shout"), b!" # c\n"), ((.lparen, b!"("), b!"\t"), ((.num (b!"1"), b!"1"), b!"\r\n"),
   ((.rparen, b!")"), b!"\n")]

theorem shout_not_multiword : ∀ alts, multiWord.lookup (b!"shout") = some alts →
    ∀ (p : Nat) (rest : Bytes), tryAlts alts ⟨p, rest⟩ = none := by
  intro alts h
  have hn : multiWord.lookup (b!"shout") = none := by decide
  rw [hn] at h; cases h

theorem tightL_valid : Valid [] tightL := by
  refine ⟨Lexeme.ident _ (by decide) (by decide), Sep.nil, ⟨?_, fun alts h p => shout_not_multiword alts h p _⟩,
    Lexeme.punct 40 _ (by decide), Sep.nil, trivial,
    Lexeme.numInt _ (by decide) (by decide), Sep.nil, ⟨?_, ?_, ?_⟩,
    Lexeme.punct 41 _ (by decide), Sep.nil, trivial, trivial⟩
  · intro b r h; cases h; decide
  · intro b r h; cases h; decide
  · intro b r h; cases h; decide
  · exact Or.inr (by intro b r h; cases h; decide)

theorem looseL_valid : Valid (b!"# end") looseL := by
  refine ⟨Lexeme.ident _ (by decide) (by decide),
    Sep.ws 32 _ (by decide) (Sep.comment (b!" c") 10 [] (by decide) (by decide) Sep.nil),
    ⟨?_, fun alts h p => shout_not_multiword alts h p _⟩,
    Lexeme.punct 40 _ (by decide), Sep.ws 9 [] (by decide) Sep.nil, trivial,
    Lexeme.numInt _ (by decide) (by decide), Sep.ws 13 _ (by decide) (Sep.ws 10 [] (by decide) Sep.nil),
    ⟨?_, ?_, ?_⟩,
    Lexeme.punct 41 _ (by decide), Sep.ws 10 [] (by decide) Sep.nil, trivial, trivial⟩
  · intro b r h; cases h; decide
  · intro b r h; cases h; decide
  · intro b r h; cases h; decide
  · exact Or.inr (by intro b r h; cases h; decide)

example : render [] tightL = b!"shout(1)" ∧
    b!"\n" ++ render (b!"# end") looseL = b!"\nshout # c\n(\t1\r\n)\n# end" := by decide

/-- an instance of `c10_pipeline`: every hypothesis is satisfied -/
example (caps : Limits.Caps) (cfg : RunCfg) (fuel : Nat) :
    (obs (Pipeline.runSource caps cfg fuel ([] ++ render [] tightL)) : Pipeline.Result Int)
      = obs (Pipeline.runSource caps cfg fuel (b!"\n" ++ render (b!"# end") looseL)) :=
  c10_pipeline tightL looseL Sep.nil (Or.inl rfl) tightL_valid
    (Sep.ws 10 [] (by decide) Sep.nil) (Or.inr ⟨b!" end", rfl, by decide⟩) looseL_valid rfl caps cfg fuel

example : shown (Pipeline.runSource roomyCaps Toy.cfg 30 ([] ++ render [] tightL)) = (2, [], [b!"1"], 0, none) ∧
    shown (Pipeline.runSource roomyCaps Toy.cfg 30 (b!"\n" ++ render (b!"# end") looseL))
      = (2, [], [b!"1"], 0, none) := by
  decide +kernel

/-! ### redundant parentheses -/

/-- `make x get 1 add 2 times 3  shout(x)` as a canonical tree -/
def parProg : Block :=
  .mk [.assign (b!"x") zspan
          (.binary .add (.num (b!"1") zspan)
            (.binary .times (.num (b!"2") zspan) (.num (b!"3") zspan) zspan) zspan) none none zspan,
       .expr (.call (.var (b!"shout") none zspan) [.var (b!"x") none zspan] none zspan) none zspan] zspan

/-- one pair around every number and around `x`, two pairs around the product -/
def parQ : Expr → Nat
  | .num _ _ => 1
  | .binary .times _ _ _ => 2
  | .var [120] _ _ => 1
  | _ => 0

def parA : Bytes := b!"make x get 1 add 2 times 3 shout(x)"
def parB : Bytes := b!"make x get (1) add (((2) times (3)))\nshout((x)) # same"

theorem parProg_canon (r : Expr → Nat) (hr : r (.call (.var (b!"shout") none zspan) [.var (b!"x") none zspan] none zspan) = 0)
    (hv : r (.var (b!"shout") none zspan) = 0) : CanonBlock r parProg := by
  simp only [parProg, CanonBlock, CanonStmts, CanonStmt, WF, WFs, isBareRet, and_self, true_and]
  refine ⟨b!"shout", ?_⟩
  have n1 : needs 0 (.call (.var (b!"shout") none zspan) [.var (b!"x") none zspan] none zspan) = false := by
    decide
  have n2 : needs postfixLevel (.var (b!"shout") none zspan) = false := by decide
  simp only [printAt, wrap, wrapN, hr, hv, n1, n2, Bool.false_eq_true, if_false]
  exact ⟨_, rfl⟩

example : (lex parA).1.map (·.tok) = (programToks (fun _ => 0) parProg).map (·.tok) ∧
    (lex parB).1.map (·.tok) = (programToks parQ parProg).map (·.tok) ∧
    (lex parA).1.map (·.tok) ≠ (lex parB).1.map (·.tok) := by decide +kernel

/-- an instance of `c10_redundant_parentheses_run` -/
example (caps : Limits.Caps) (cfg : RunCfg) (fuel : Nat) :
    (obs (Pipeline.runSource caps cfg fuel parA) : Pipeline.Result Int)
      = obs (Pipeline.runSource caps cfg fuel parB) :=
  (c10_redundant_parentheses_run (fun _ => 0) parQ parProg (parProg_canon _ rfl rfl) (parProg_canon _ rfl rfl)
    parA parB (by decide +kernel) (by decide +kernel) (by decide +kernel) (by decide +kernel) caps cfg fuel).2.2.2.2

-- both print `7`
example : shown (Pipeline.runSource roomyCaps Toy.cfg 30 parA) = (2, [], [b!"7"], 0, none) ∧
    shown (Pipeline.runSource roomyCaps Toy.cfg 30 parB) = (2, [], [b!"7"], 0, none) := by
  decide +kernel

end Examples

end NaijaVerif.C10
