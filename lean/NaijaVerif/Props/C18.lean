/-
C18 — exceeding an analysis budget only disables optimisation, never correctness.

Property theorems about `Model/Limits.lean` (the staged preflight `first_exceeded_limit`, the two
derived event bounds, the decision of `emit_analysis_warnings`) and `Model/CfgCount.lean` (the
block / op counting pass).  `Gen/Caps.lean` is regenerated from the crate on every run and related
to the pinned `Spec/DocCaps.lean` by `decide`.

Modelled: caps, counts, saturating arithmetic, stage order, the pipeline decision (plan kept or
dropped, which warnings), and the interprocedural summary fixpoint with its event budget
(`src/analysis/summary.rs`; section "summary events": below the limits the budget cannot run out).  Abstract: the plan itself and the warnings of the passes that run below
the limits (C03 / C09), and the evaluator (`Model/Eval.lean`, family `run`): the run-equivalence
statement is proved against an abstract `run` with its two hypotheses spelled out.
-/
import NaijaVerif.Model.Limits
import NaijaVerif.Model.CfgCount
import NaijaVerif.Gen.Caps
import NaijaVerif.Spec.DocCaps
import NaijaVerif.Lemmas.Limits
import NaijaVerif.Lemmas.LimitsSummaryFix

namespace NaijaVerif.Limits
open NaijaVerif NaijaVerif.CfgCount

/-! ### Tie of the generated tables to the pinned configuration -/

/-- The compiled crate's `DEFAULT_CAPS` are the pinned ones. -/
theorem gen_caps_eq_doc : Gen.Caps.defaults = Doc.caps := by decide

/-- The `metric: "…"` literals of `first_exceeded_limit`, in source order, are the model's stages. -/
theorem gen_stage_order : Gen.Caps.stageNames = stages.map Doc.metricText := by decide

/-- Every stage compares against the cap field the model pairs it with, in the same order. -/
theorem gen_stage_caps : Gen.Caps.stageCaps = stages.map Doc.capField := by decide

/-- Every stage guards its `return` with a strict `>`. -/
theorem gen_stage_ops : Gen.Caps.stageOps = stages.map (fun _ => b!">") := by decide

/-- Declared widths of the cap fields (nine `u32`, two `u64`). -/
theorem gen_widths : Gen.Caps.widths = stages.map Doc.capWidth := by decide

/-- The pinned caps fit their declared widths. -/
theorem doc_caps_in_range : ∀ m ∈ stages, Doc.caps.get m < 2 ^ Doc.capWidth m := by decide

/-- The stage list names every metric exactly once. -/
theorem stages_complete (m : Metric) : m ∈ stages := by cases m <;> decide

theorem stages_nodup : stages.Nodup := by decide

/-! ### The derived event bounds: saturating arithmetic is `min` with `u64::MAX` -/

/-- `summary_event_bound` is the exact product `f · (f + 2l + 2)`, clamped to `u64::MAX`.  The guard
is the no-overflow condition of the one non-saturating addition in the code (`… + 2`). -/
theorem summaryBound_exact (f l : Nat) (hl : l < 2 ^ 62) :
    summaryBound f l = min (f * (f + 2 * l + 2)) u64Max := by
  unfold summaryBound satMul satAdd u64Max
  have h2 : min (l * 2) (2 ^ 64 - 1) = 2 * l := by omega
  rw [h2]
  by_cases hs : f + (2 * l + 2) ≤ 2 ^ 64 - 1
  · rw [Nat.min_eq_left hs, Nat.add_assoc]
  · have hs' : 2 ^ 64 - 1 < f + (2 * l + 2) := Nat.lt_of_not_le hs
    rw [Nat.min_eq_right (Nat.le_of_lt hs')]
    have hf : 1 ≤ f := by omega
    have h1 : 2 ^ 64 - 1 ≤ f * (2 ^ 64 - 1) := Nat.le_mul_of_pos_left _ hf
    have h3 : 2 ^ 64 - 1 ≤ f * (f + 2 * l + 2) := by
      have : f * (2 ^ 64 - 1) ≤ f * (f + 2 * l + 2) := Nat.mul_le_mul_left f (by omega)
      omega
    rw [Nat.min_eq_right h1, Nat.min_eq_right h3]

/-- One function's liveness events are `(2·blocks + ops) · locals` clamped; for `u32` block and op
counts the two inner saturating operations never clamp. -/
theorem fnEvents_exact (f : FnCount) (hb : f.blocks < 2 ^ 32) (ho : f.ops < 2 ^ 32) :
    fnEvents f = min ((2 * f.blocks + f.ops) * f.locals) u64Max := by
  unfold fnEvents satMul satAdd u64Max
  have h1 : min (f.blocks * 2) (2 ^ 64 - 1) = 2 * f.blocks := by omega
  rw [h1]
  have h2 : min (2 * f.blocks + f.ops) (2 ^ 64 - 1) = 2 * f.blocks + f.ops := by omega
  rw [h2]

/-- `liveness_event_bound`: the saturating left fold is the exact sum of the per-function events,
clamped once. -/
theorem livenessBound_eq (fs : List FnCount) :
    livenessBound fs = min ((fs.map fnEvents).sum) u64Max := by
  unfold livenessBound
  rw [foldl_satAdd fs 0 (Nat.zero_le _)]
  simp

/-! ### The staged check is "the first metric in stage order that exceeds its cap" -/

/-- **Main characterisation.**  `first_exceeded_limit` returns the first metric, in the documented
stage order, whose observed value is strictly above its cap, with that observed value and cap. -/
theorem firstExceeded_eq_find (caps : Caps) (c : Counts) :
    firstExceeded caps c =
      (stages.find? (fun m => decide (observed c m > caps.get m))).map
        (fun m => ⟨m, observed c m, caps.get m⟩) := by
  rw [firstExceeded_eq_firstOf, firstOf_eq_find]

/-- No limit is reported iff every metric is within its cap (each boundary exact: `≤`). -/
theorem firstExceeded_none_iff (caps : Caps) (c : Counts) :
    firstExceeded caps c = none ↔ ∀ m, observed c m ≤ caps.get m := by
  rw [firstExceeded_eq_find]
  simp only [Option.map_eq_none_iff, List.find?_eq_none, decide_eq_true_eq, Nat.not_lt]
  exact ⟨fun h m => h m (stages_complete m), fun h m _ => h m⟩

/-- The same, spelled out field by field (per-function caps: every function). -/
theorem firstExceeded_none_iff_fields (caps : Caps) (c : Counts) :
    firstExceeded caps c = none ↔
      c.functions ≤ caps.maxFunctions ∧ c.locals ≤ caps.maxLocals ∧ c.scopes ≤ caps.maxScopes ∧
      c.statements ≤ caps.maxStatements ∧ c.totalOps ≤ caps.maxTotalOps ∧
      (∀ f ∈ c.perFn, f.ops ≤ caps.maxOpsPerFunction) ∧ c.totalBlocks ≤ caps.maxTotalBlocks ∧
      (∀ f ∈ c.perFn, f.blocks ≤ caps.maxBlocksPerFunction) ∧
      c.directUserCalls ≤ caps.maxDirectUserCalls ∧
      summaryBound c.functions c.locals ≤ caps.maxSummaryEvents ∧
      livenessBound c.perFn ≤ caps.maxLivenessEvents := by
  rw [firstExceeded_none_iff]
  constructor
  · intro h
    have ho := h .opsInOneFunction
    have hb := h .blocksInOneFunction
    simp only [observed, Caps.get, maxList_getD_le_iff, List.mem_map, forall_exists_index, and_imp,
      forall_apply_eq_imp_iff₂] at ho hb
    exact ⟨h .functions, h .locals, h .scopes, h .statements, h .cfgOps, ho, h .cfgBlocks, hb,
      h .directUserCalls, h .summaryEvents, h .livenessEvents⟩
  · rintro ⟨h1, h2, h3, h4, h5, h6, h7, h8, h9, h10, h11⟩ m
    cases m <;> simp only [observed, Caps.get] <;> try assumption
    · rw [maxList_getD_le_iff]; intro x hx
      obtain ⟨f, hf, rfl⟩ := List.mem_map.mp hx
      exact h6 f hf
    · rw [maxList_getD_le_iff]; intro x hx
      obtain ⟨f, hf, rfl⟩ := List.mem_map.mp hx
      exact h8 f hf

/-- A reported limit is the **first** stage above its cap: every earlier stage is within its cap,
the reported stage is strictly above, and the report carries the observed value and the cap. -/
theorem firstExceeded_some_iff (caps : Caps) (c : Counts) (l : Limit) :
    firstExceeded caps c = some l ↔
      ∃ pre post, stages = pre ++ l.metric :: post ∧
        (∀ m ∈ pre, observed c m ≤ caps.get m) ∧
        caps.get l.metric < observed c l.metric ∧
        l.observed = observed c l.metric ∧ l.limit = caps.get l.metric := by
  rw [firstExceeded_eq_find]
  simp only [Option.map_eq_some_iff, List.find?_eq_some_iff_append, decide_eq_true_eq]
  constructor
  · rintro ⟨m, ⟨hm, pre, post, hst, hpre⟩, rfl⟩
    exact ⟨pre, post, hst, fun m' hm' => by simpa using hpre m' hm', hm, rfl, rfl⟩
  · rintro ⟨pre, post, hst, hpre, hm, ho, hl⟩
    refine ⟨l.metric, ⟨hm, pre, post, hst, fun m' hm' => by simpa using hpre m' hm'⟩, ?_⟩
    cases l; simp_all

/-- What is reported really exceeds. -/
theorem firstExceeded_exceeds (caps : Caps) (c : Counts) (l : Limit)
    (h : firstExceeded caps c = some l) : l.limit < l.observed := by
  obtain ⟨_, _, _, _, hm, ho, hl⟩ := (firstExceeded_some_iff caps c l).mp h
  omega

/-- Boundary, lower side: a program that sits exactly **at** every cap trips nothing. -/
theorem boundary_at (caps : Caps) (c : Counts) (h : ∀ m, observed c m = caps.get m) :
    firstExceeded caps c = none :=
  (firstExceeded_none_iff caps c).mpr fun m => Nat.le_of_eq (h m)

/-- Boundary, upper side: one above the cap of a metric, with every earlier stage within its cap,
reports exactly that metric with `observed = cap + 1`. -/
theorem boundary_above (caps : Caps) (c : Counts) (m : Metric) (pre post : List Metric)
    (hst : stages = pre ++ m :: post) (hpre : ∀ m' ∈ pre, observed c m' ≤ caps.get m')
    (hm : observed c m = caps.get m + 1) :
    firstExceeded caps c = some ⟨m, caps.get m + 1, caps.get m⟩ :=
  (firstExceeded_some_iff caps c _).mpr ⟨pre, post, hst, hpre, by simp [hm], by simp [hm], rfl⟩

/-- Raising caps never turns "no limit" into a limit. -/
theorem firstExceeded_mono (caps caps' : Caps) (c : Counts) (hle : caps.le caps')
    (h : firstExceeded caps c = none) : firstExceeded caps' c = none := by
  rw [firstExceeded_none_iff] at h ⊢
  exact fun m => Nat.le_trans (h m) (hle m)

/-- A smaller program (metric-wise) never trips a limit the larger one did not. -/
theorem firstExceeded_mono_counts (caps : Caps) (c c' : Counts)
    (hle : ∀ m, observed c' m ≤ observed c m) (h : firstExceeded caps c = none) :
    firstExceeded caps c' = none := by
  rw [firstExceeded_none_iff] at h ⊢
  exact fun m => Nat.le_trans (hle m) (h m)

/-! ### The pipeline decision (`emit_analysis_warnings`) -/

section Pipeline
variable {Plan : Type}

/-- A limit tripped ⇒ no plan, and the analysis stage emits exactly the one resource-limit warning
(on the root body span). -/
theorem emitAnalysis_tripped (caps : Caps) (c : Counts) (sp : Span) (p : Plan) (ws : List Diag)
    (h : firstExceeded caps c ≠ none) :
    (emitAnalysis caps c sp p ws).plan = none ∧
      (emitAnalysis caps c sp p ws).warnings = [limitWarning sp] := by
  unfold emitAnalysis
  cases hf : firstExceeded caps c with
  | none => exact absurd hf h
  | some l => exact ⟨rfl, rfl⟩

/-- … so there is exactly one warning of kind `analysisLimit`, it is a warning on the root span, and
there is no warning of any other kind (no unreachable-code / unused-… warning). -/
theorem emitAnalysis_tripped_only (caps : Caps) (c : Counts) (sp : Span) (p : Plan) (ws : List Diag)
    (h : firstExceeded caps c ≠ none) :
    ((emitAnalysis caps c sp p ws).warnings.filter (·.kind == .analysisLimit)).length = 1 ∧
      ∀ d ∈ (emitAnalysis caps c sp p ws).warnings,
        d.kind = .analysisLimit ∧ d.sev = .warning ∧ d.span = sp ∧ d.labels = [sp] := by
  rw [(emitAnalysis_tripped caps c sp p ws h).2]
  simp [limitWarning]

/-- Within every cap ⇒ the plan of the passes is kept and the warnings are exactly the passes'
warnings ("just below a limit the analyses run as usual"). -/
theorem emitAnalysis_within (caps : Caps) (c : Counts) (sp : Span) (p : Plan) (ws : List Diag)
    (h : firstExceeded caps c = none) :
    (emitAnalysis caps c sp p ws).plan = some p ∧ (emitAnalysis caps c sp p ws).warnings = ws := by
  unfold emitAnalysis
  rw [h]
  exact ⟨rfl, rfl⟩

/-- The plan is absent iff some metric is above its cap. -/
theorem emitAnalysis_plan_none_iff (caps : Caps) (c : Counts) (sp : Span) (p : Plan)
    (ws : List Diag) :
    (emitAnalysis caps c sp p ws).plan = none ↔ ∃ m, caps.get m < observed c m := by
  by_cases h : firstExceeded caps c = none
  · rw [(emitAnalysis_within caps c sp p ws h).1]
    have := (firstExceeded_none_iff caps c).mp h
    constructor
    · intro h'; cases h'
    · rintro ⟨m, hm⟩; exact absurd (this m) (Nat.not_le.mpr hm)
  · rw [(emitAnalysis_tripped caps c sp p ws h).1]
    refine ⟨fun _ => ?_, fun _ => rfl⟩
    rw [firstExceeded_none_iff] at h
    have ⟨m, hm⟩ := Classical.not_forall.mp h
    exact ⟨m, Nat.lt_of_not_le hm⟩

/-- The resource-limit warning appears iff a limit tripped (the passes themselves never produce a
warning of that kind). -/
theorem emitAnalysis_limit_warning_iff (caps : Caps) (c : Counts) (sp : Span) (p : Plan)
    (ws : List Diag) (hws : ∀ d ∈ ws, d.kind ≠ .analysisLimit) :
    (∃ d ∈ (emitAnalysis caps c sp p ws).warnings, d.kind = .analysisLimit) ↔
      firstExceeded caps c ≠ none := by
  by_cases h : firstExceeded caps c = none
  · rw [(emitAnalysis_within caps c sp p ws h).2]
    constructor
    · rintro ⟨d, hd, hk⟩; exact absurd hk (hws d hd)
    · intro h'; exact absurd h h'
  · rw [(emitAnalysis_tripped caps c sp p ws h).2]
    exact ⟨fun _ => h, fun _ => ⟨limitWarning sp, by simp, rfl⟩⟩

/-- **Run equivalence across every limit**, against an abstract evaluator.  `run plan prog` is the
observable outcome of running `prog` with `plan` (the evaluator model `Model/Eval.lean` of family
`run` instantiates it).  Two hypotheses, both about the evaluator and the analyses, not about the
limit logic:

* `hEmpty` — running without a plan is running with a plan that prunes nothing
  (`stmt_is_pruned` / `function_is_pruned` are `is_some_and(..)`: `None` skips nothing);
* `hSound` — C03: the plan the passes build does not change the outcome.

Conclusion: whatever the caps, the program runs to the same outcome — tripping a limit changes the
plan and the warnings, never the run. -/
theorem run_same_across_limits {Prog Out : Type} (run : Option Plan → Prog → Out) (empty : Plan)
    (prog : Prog) (p : Plan)
    (hEmpty : run none prog = run (some empty) prog)
    (hSound : run (some p) prog = run (some empty) prog)
    (caps caps' : Caps) (c : Counts) (sp : Span) (ws : List Diag) :
    run (emitAnalysis caps c sp p ws).plan prog = run (emitAnalysis caps' c sp p ws).plan prog := by
  have key : ∀ k : Caps, run (emitAnalysis k c sp p ws).plan prog = run (some empty) prog := by
    intro k
    by_cases h : firstExceeded k c = none
    · rw [(emitAnalysis_within k c sp p ws h).1]; exact hSound
    · rw [(emitAnalysis_tripped k c sp p ws h).1]; exact hEmpty
  rw [key caps, key caps']

end Pipeline

/-! ### Consequences at the default configuration (observations, not defects) -/

/-- At the default caps the function cap (16 384) is never the binding one: a program the preflight
lets through has at most 4 095 functions, because the summary-event bound `f·(f+2l+2) ≤ 2^24`
is tighter.  (Above 16 384 functions the *reported* metric is `functions`, as the stage order
says; between 4 096 and 16 384 it is `summary events`.) -/
theorem default_functions_cap_shadowed (c : Counts) (h : firstExceeded Doc.caps c = none) :
    c.functions ≤ 4095 := by
  have hs := (firstExceeded_none_iff Doc.caps c).mp h .summaryEvents
  simp only [observed, Caps.get, Doc.caps] at hs
  have hge := summaryBound_ge c.functions c.locals
  apply Nat.le_of_not_lt
  intro hf
  have h1 : 4096 * (4096 + 2) ≤ c.functions * (c.functions + 2) :=
    Nat.mul_le_mul (by omega) (by omega)
  unfold u64Max at hge
  omega

/-- When the op total does not exceed the statement count (the counting pass makes them equal) and
`max_statements ≤ max_total_ops ≤ max_ops_per_function` (true of the default caps), the two op
stages can never be the reported ones: the statement stage comes first. -/
theorem ops_stages_shadowed (caps : Caps) (c : Counts) (l : Limit)
    (hcap1 : caps.maxStatements ≤ caps.maxTotalOps) (hcap2 : caps.maxTotalOps ≤ caps.maxOpsPerFunction)
    (hops : c.totalOps ≤ c.statements) (hfn : ∀ f ∈ c.perFn, f.ops ≤ c.totalOps)
    (h : firstExceeded caps c = some l) :
    l.metric ≠ .cfgOps ∧ l.metric ≠ .opsInOneFunction := by
  have hmax : (maxList (c.perFn.map (·.ops))).getD 0 ≤ c.totalOps := by
    rw [maxList_getD_le_iff]
    intro x hx
    obtain ⟨f, hf, rfl⟩ := List.mem_map.mp hx
    exact hfn f hf
  rw [firstExceeded_eq_find] at h
  simp only [stages] at h
  rw [List.find?_cons] at h
  by_cases h1 : caps.get .functions < observed c .functions
  · simp only [gt_iff_lt, h1, decide_true, Option.map_some, Option.some.injEq] at h
    subst h; simp
  simp only [gt_iff_lt, h1, decide_false] at h
  rw [List.find?_cons] at h
  by_cases h2 : caps.get .locals < observed c .locals
  · simp only [h2, decide_true, Option.map_some, Option.some.injEq] at h
    subst h; simp
  simp only [h2, decide_false] at h
  rw [List.find?_cons] at h
  by_cases h3 : caps.get .scopes < observed c .scopes
  · simp only [h3, decide_true, Option.map_some, Option.some.injEq] at h
    subst h; simp
  simp only [h3, decide_false] at h
  rw [List.find?_cons] at h
  by_cases h4 : caps.get .statements < observed c .statements
  · simp only [h4, decide_true, Option.map_some, Option.some.injEq] at h
    subst h; simp
  simp only [h4, decide_false] at h
  have h5 : ¬ caps.get .cfgOps < observed c .cfgOps := by
    simp only [observed, Caps.get] at h4 ⊢; omega
  have h6 : ¬ caps.get .opsInOneFunction < observed c .opsInOneFunction := by
    simp only [observed, Caps.get] at h4 ⊢; omega
  rw [List.find?_cons] at h
  simp only [h5, decide_false] at h
  rw [List.find?_cons] at h
  simp only [h6, decide_false] at h
  obtain ⟨m, hfind, rfl⟩ := Option.map_eq_some_iff.mp h
  have hmem := List.mem_of_find?_eq_some hfind
  simp only [List.mem_cons, List.not_mem_nil, or_false] at hmem
  rcases hmem with rfl | rfl | rfl | rfl | rfl <;> simp

/-! ### The counting pass: what each statement shape contributes (for every length) -/

/-- A statement that neither branches nor ends the sequence. -/
def Simple : Stmt → Prop
  | .assign .. | .assignExisting .. | .assignIndex .. | .expr .. | .fnDef .. => True
  | _ => False

/-- `n` plain statements on a live cursor: `n` ops, no new block — whatever `n`. -/
theorem countStmts_simple (ss : List Stmt) (fb : FB) (h : ∀ s ∈ ss, Simple s) :
    countStmts ss fb true = ({ fb with ops := fb.ops + ss.length }, true) := by
  induction ss generalizing fb with
  | nil => simp [countStmts]
  | cons s ss ih =>
    have hs := h s (by simp)
    have hrest : ∀ s' ∈ ss, Simple s' := fun s' hs' => h s' (by simp [hs'])
    have h1 : countStmt s fb true = ({ fb with ops := fb.ops + 1 }, true) := by
      cases s <;> simp_all [Simple, countStmt, ensure]
    simp only [countStmts, h1, ih _ hrest, List.length_cons]
    congr 1
    simp; omega

/-- An `if` whose then-branch is a block of plain statements and that has no `else`. -/
def PlainIf : Stmt → Prop
  | .ifS _ (.mk ts _) none _ _ => ∀ s ∈ ts, Simple s
  | _ => False

/-- The body size of a plain `if`. -/
def thenLen : Stmt → Nat
  | .ifS _ (.mk ts _) _ _ _ => ts.length
  | _ => 0

/-- `k` such `if`s on a live cursor: `3k` blocks (then entry, else entry, join), `k` ops plus the
bodies' — whatever `k`. -/
theorem countStmts_plainIfs (ss : List Stmt) (fb : FB) (h : ∀ s ∈ ss, PlainIf s) :
    countStmts ss fb true =
      ({ blocks := fb.blocks + 3 * ss.length,
         ops := fb.ops + ss.length + (ss.map thenLen).sum }, true) := by
  induction ss generalizing fb with
  | nil => simp [countStmts]
  | cons s ss ih =>
    have hs := h s (by simp)
    have hrest : ∀ s' ∈ ss, PlainIf s' := fun s' hs' => h s' (by simp [hs'])
    have h1 : countStmt s fb true =
        ({ blocks := fb.blocks + 3, ops := fb.ops + 1 + thenLen s }, true) := by
      cases s with
      | ifS c t e sid sp =>
        cases t with
        | mk ts tsp =>
          cases e with
          | some e => simp [PlainIf] at hs
          | none =>
            simp only [PlainIf] at hs
            simp only [countStmt, ensure, countBlock, countElse, countStmts_simple ts _ hs, thenLen]
            simp
      | _ => simp [PlainIf] at hs
    simp only [countStmts, h1, ih _ hrest, List.length_cons, List.map_cons, List.sum_cons]
    congr 1
    simp; omega

/-- A statement after `return` / `comot` / `next` opens one more block: the dead-tail rule. -/
theorem countStmts_dead_tail (s : Stmt) (fb : FB) (hs : Simple s) :
    countStmts [.ret none none default, s] fb true =
      ({ blocks := fb.blocks + 1, ops := fb.ops + 2 }, true) := by
  cases s <;> simp_all [Simple, countStmts, countStmt, ensure]

/-- A straight-line body of `n` plain statements: 2 blocks, `n` ops — the shape of the
statement-cap boundary programs, for every `n`. -/
theorem countBody_simple (ss : List Stmt) (sp : Span) (h : ∀ s ∈ ss, Simple s) :
    countBody (.mk ss sp) = (2, ss.length) := by
  simp [countBody, countBlock, countStmts_simple ss _ h]

/-- A body of `k` plain `if`s: `2 + 3k` blocks — the shape of the per-function block-cap boundary
programs, for every `k`. -/
theorem countBody_plainIfs (ss : List Stmt) (sp : Span) (h : ∀ s ∈ ss, PlainIf s) :
    countBody (.mk ss sp) = (2 + 3 * ss.length, ss.length + (ss.map thenLen).sum) := by
  simp [countBody, countBlock, countStmts_plainIfs ss _ h]

/-- Every function body counts at least two blocks (entry and exit). -/
theorem countBody_blocks_ge_two (body : Block) : 2 ≤ (countBody body).1 := by
  unfold countBody
  exact countBlock_blocks_mono body { blocks := 2, ops := 0 } true

/-! ### Non-vacuity: every boundary of the default configuration, below / at / above -/

/-- A count vector that is within every default cap. -/
def small : Counts :=
  { functions := 2, locals := 3, scopes := 5, statements := 7, totalOps := 7, totalBlocks := 9,
    directUserCalls := 1, perFn := [⟨6, 5, 2⟩, ⟨3, 2, 1⟩] }

example : firstExceeded Doc.caps small = none := by decide
example : summaryBound 2 3 = 20 ∧ livenessBound small.perFn = 42 := by decide

-- each count cap: at the cap nothing trips, one above trips exactly that stage
example : firstExceeded Doc.caps { small with functions := 63, locals := 131072 } = none := by decide
example : firstExceeded Doc.caps { small with functions := 63, locals := 131073 } =
    some ⟨.locals, 131073, 131072⟩ := by decide
example : firstExceeded Doc.caps { small with scopes := 131072 } = none := by decide
example : firstExceeded Doc.caps { small with scopes := 131073 } =
    some ⟨.scopes, 131073, 131072⟩ := by decide
example : firstExceeded Doc.caps { small with statements := 262144, totalOps := 262144 } = none := by
  decide
example : firstExceeded Doc.caps { small with statements := 262145, totalOps := 262145 } =
    some ⟨.statements, 262145, 262144⟩ := by decide
example : firstExceeded Doc.caps { small with totalOps := 262145 } =
    some ⟨.cfgOps, 262145, 262144⟩ := by decide
example : firstExceeded Doc.caps { small with perFn := [⟨2, 262144, 0⟩] } = none := by decide
example : firstExceeded Doc.caps { small with perFn := [⟨2, 1, 0⟩, ⟨2, 262145, 0⟩] } =
    some ⟨.opsInOneFunction, 262145, 262144⟩ := by decide
example : firstExceeded Doc.caps { small with totalBlocks := 524288 } = none := by decide
example : firstExceeded Doc.caps { small with totalBlocks := 524289 } =
    some ⟨.cfgBlocks, 524289, 524288⟩ := by decide
example : firstExceeded Doc.caps { small with perFn := [⟨65536, 1, 0⟩] } = none := by decide
example : firstExceeded Doc.caps { small with perFn := [⟨65537, 1, 0⟩] } =
    some ⟨.blocksInOneFunction, 65537, 65536⟩ := by decide
example : firstExceeded Doc.caps { small with directUserCalls := 262144 } = none := by decide
example : firstExceeded Doc.caps { small with directUserCalls := 262145 } =
    some ⟨.directUserCalls, 262145, 262144⟩ := by decide
-- the function cap: 16 384 functions pass the `functions` stage and trip `summary events`;
-- 16 385 trip `functions` (stage order)
example : firstExceeded Doc.caps { small with functions := 16384, locals := 0 } =
    some ⟨.summaryEvents, 268468224, 16777216⟩ := by decide
example : firstExceeded Doc.caps { small with functions := 16385, locals := 0 } =
    some ⟨.functions, 16385, 16384⟩ := by decide
-- summary events: 64 · (64 + 2·131039 + 2) = 2^24 exactly (at), one more local is above;
-- 4095 · 4097 = 2^24 − 1 (below), 4096 · 4098 above
example : firstExceeded Doc.caps { small with functions := 64, locals := 131039 } = none := by decide
example : firstExceeded Doc.caps { small with functions := 64, locals := 131040 } =
    some ⟨.summaryEvents, 16777344, 16777216⟩ := by decide
example : firstExceeded Doc.caps { small with functions := 4095, locals := 0 } = none := by decide
example : firstExceeded Doc.caps { small with functions := 4096, locals := 0 } =
    some ⟨.summaryEvents, 16785408, 16777216⟩ := by decide
-- liveness events: (2·2 + 8188) · 4096 = 2^25 exactly (at); one more op is above
def liveAt (ops : Nat) : Counts :=
  { small with functions := 1, locals := 4096, statements := ops, totalOps := ops,
               perFn := [⟨2, ops, 4096⟩] }
example : firstExceeded Doc.caps (liveAt 8188) = none := by decide
example : firstExceeded Doc.caps (liveAt 8189) =
    some ⟨.livenessEvents, 33558528, 33554432⟩ := by decide
-- stage order: several metrics above their caps at once → the earliest stage is reported
def several : Counts := { small with scopes := 200000, statements := 300000, directUserCalls := 300000 }
example : firstExceeded Doc.caps several = some ⟨.scopes, 200000, 131072⟩ := by decide
-- saturation: the liveness bound clamps at u64::MAX instead of wrapping
example : livenessBound [⟨4294967295, 4294967295, 4294967295⟩, ⟨4294967295, 4294967295, 4294967295⟩] =
    u64Max := by decide
example : summaryBound (2 ^ 40) 0 = u64Max := by decide

-- the pipeline decision on both sides of a cap
example : (emitAnalysis Doc.caps { small with scopes := 131072 } ⟨0, 10⟩ "plan" []).plan =
    some "plan" := by decide
example : (emitAnalysis Doc.caps { small with scopes := 131073 } ⟨0, 10⟩ "plan"
    [⟨.warning, .unusedVariable, ⟨3, 4⟩, []⟩]).plan = none := by decide
example : (emitAnalysis Doc.caps { small with scopes := 131073 } ⟨0, 10⟩ "plan"
    [⟨.warning, .unusedVariable, ⟨3, 4⟩, []⟩]).warnings = [limitWarning ⟨0, 10⟩] := by decide

-- the counting pass on concrete shapes (spans and annotations irrelevant)
section CountExamples
private def sp0 : Span := ⟨0, 0⟩
private def num1 : Expr := .num (b!"1") sp0
private def asg : Stmt := .assignExisting (b!"x") sp0 num1 none none sp0
private def blk (ss : List Stmt) : Block := .mk ss sp0

-- straight line: 2 blocks, one op per statement
example : countBody (blk [asg, asg, asg]) = (2, 3) := by decide
-- `if` without else: +3 blocks; with both branches returning: +2 and a dead cursor, so the next
-- statement opens a block
example : countBody (blk [.ifS num1 (blk [asg]) none none sp0, asg]) = (5, 3) := by decide
example : countBody (blk [.ifS num1 (blk [.ret none none sp0]) (some (blk [.ret none none sp0])) none sp0,
    asg]) = (5, 4) := by decide
-- loop: +3 blocks whatever the body does; `comot` then a dead statement: +1
example : countBody (blk [.loop num1 (blk [asg]) none sp0]) = (5, 2) := by decide
example : countBody (blk [.loop num1 (blk [.brk none sp0, asg]) none sp0, asg]) = (6, 4) := by decide
-- nested block continues in the same basic block
example : countBody (blk [.block (blk [asg, asg]) none sp0, asg]) = (2, 4) := by decide
-- a function definition is one op of the enclosing function and a function of its own; a second
-- definition the resolver did not bind (`fn = none`) is not counted at all
example : (countFunctions (blk [.fnDef (b!"f") sp0 [] (blk [asg, .ret none none sp0, asg]) (some 1) none sp0,
    .fnDef (b!"f") sp0 [] (blk [asg]) none none sp0, asg]) 2).map (fun pb => (pb.fnBlocks, pb.fnOps)) =
    some ([2, 3], [3, 3]) := by decide
-- a function id outside the vectors is the code's index panic
example : countFunctions (blk [.fnDef (b!"f") sp0 [] (blk []) (some 5) none sp0]) 2 = none := by decide
end CountExamples

/-! ### Summary events: below the limits the fixpoint's event budget cannot run out

"Just below a limit the analyses run as usual" has a hidden obligation.  The interprocedural
summary fixpoint (`compute_summaries_with_max_events`) runs with an event budget
(`max_summary_events`); when it runs out, summaries silently become *unavailable* — fewer warnings,
less pruning, and no resource-limit warning.  The preflight stage `summary events` compares
`f·(f + 2l + 2)` with that budget; the theorems below show that this is indeed enough, for every
call graph, every list of components in every order and every fuel.  Hypotheses on the direct facts
(`Summary.DirectsOK nl ds`, what the resolver records): the three direct lists of every function
are duplicate free, callee ids are below the number of functions `ds.length`, captured local ids
below `nl`, statement classes are one of the three levels.  The call graph `g` the sweeps walk may
be any graph over the functions (`Summary.GraphOK`: one entry per function, callee ids in range);
the code uses `Summary.graph ds`.

Why it holds: every event is paid for by an element pushed onto a duplicate-free list of ids below
a known bound (callees `< f`, reads `< l`, writes `< l`) or by a strict increase of a class level
`≤ 2` — the latter needs an invariant of the whole state, because the code charges an event whenever
the recomputed class *differs* from the stored one (`Lemmas/LimitsSummaryFix.lean`). -/
section SummaryEvents
open Summary

deriving instance DecidableEq for Except

/-- **(T1, any components)** With a budget of at least `f·(f + 2l + 2)` events no component ever
fails for lack of budget, nor because a callee's summary is unavailable — whatever the list of
components and their order.  (The only failure left is the index panic of a "component" that names
something that is not a function.) -/
theorem summary_budget_never_runs_out (ds : List Direct) (nl : Nat) (g comps : List (List Nat))
    (fuel budget : Nat) (hd : DirectsOK nl ds) (hg : GraphOK ds.length g)
    (hb : ds.length * (ds.length + 2 * nl + 2) ≤ budget) :
    firstFailure g fuel comps (initial ds) budget ≠ some .budget ∧
      firstFailure g fuel comps (initial ds) budget ≠ some .unavailable := by
  have hroom := roomAll_initial_le nl ds
  rcases firstFailure_sufficient hg fuel comps (initial ds) budget (initial_ok hd g)
    (initial_available ds) (by omega) with h | ⟨h, _⟩ <;> rw [h] <;> simp

/-- **(T1)** … so when the components are lists of function ids, every component is summarised
and **every summary stays available**.  No hypothesis on the order of the components is needed:
a summary becomes unavailable only after a failure, and there is none. -/
theorem summary_budget_suffices (ds : List Direct) (nl : Nat) (g comps : List (List Nat))
    (fuel budget : Nat) (hd : DirectsOK nl ds) (hg : GraphOK ds.length g)
    (hc : ∀ comp ∈ comps, ∀ i ∈ comp, i < ds.length)
    (hb : ds.length * (ds.length + 2 * nl + 2) ≤ budget) :
    firstFailure g fuel comps (initial ds) budget = none ∧
      ∃ st, runGlobal g fuel comps (initial ds) budget = .ok st ∧ st.length = ds.length ∧
        ∀ s ∈ st, s.available = true := by
  have hroom := roomAll_initial_le nl ds
  have hok := initial_ok hd g
  rcases firstFailure_sufficient hg fuel comps (initial ds) budget hok (initial_available ds)
    (by omega) with h | ⟨_, c, hcm, i, hi, hle⟩
  · obtain ⟨st, h1, h2, h3⟩ := runGlobal_of_noFailure fuel comps (initial ds) budget hok
      (initial_available ds) h
    exact ⟨h, st, h1, h2.len, h3⟩
  · have := hc c hcm i hi; omega

/-- **(T1, the whole function)** `compute` is the model of `compute_summaries_with_max_events`
including its own scheduling (`schedule`, tied to the code by correspondence only).  Whenever it
returns — `none` is a panic of the code — every summary is available. -/
theorem summary_compute_all_available (ds : List Direct) (nl fuel budget : Nat) (st : List Summ)
    (hd : DirectsOK nl ds) (hb : ds.length * (ds.length + 2 * nl + 2) ≤ budget)
    (h : compute ds budget fuel = some st) : ∀ s ∈ st, s.available = true := by
  unfold compute at h
  cases hs : schedule (graph ds) with
  | none => simp [hs] at h
  | some comps =>
    simp only [hs] at h
    have hroom := roomAll_initial_le nl ds
    have hok := initial_ok hd (graph ds)
    rcases firstFailure_sufficient (graph_ok hd) fuel comps (initial ds) budget hok
      (initial_available ds) (by omega) with hf | ⟨hf, _⟩
    · obtain ⟨st', h1, _, h3⟩ := runGlobal_of_noFailure fuel comps (initial ds) budget hok
        (initial_available ds) hf
      rw [h1] at h
      cases h
      exact h3
    · rw [runGlobal_of_index fuel comps _ _ hf] at h
      cases h

/-- The preflight's saturating bound is the exact product when the function and local caps are
below `2^31` (the defaults are `2^14` and `2^17`). -/
theorem summaryBound_covers (caps : Caps) (c : Counts) (hf : caps.maxFunctions < 2 ^ 31)
    (hl : caps.maxLocals < 2 ^ 31) (h : firstExceeded caps c = none) :
    c.functions * (c.functions + 2 * c.locals + 2) ≤ caps.maxSummaryEvents := by
  have hall := (firstExceeded_none_iff caps c).mp h
  have h1 := hall .functions
  have h2 := hall .locals
  have h3 := hall .summaryEvents
  simp only [observed, Caps.get] at h1 h2 h3
  rw [summaryBound_exact _ _ (by omega)] at h3
  have hprod : c.functions * (c.functions + 2 * c.locals + 2) ≤ (2 ^ 31 - 1) * 2 ^ 33 :=
    Nat.mul_le_mul (by omega) (by omega)
  have : c.functions * (c.functions + 2 * c.locals + 2) ≤ u64Max := by
    unfold u64Max; omega
  rw [Nat.min_eq_left this] at h3
  exact h3

/-- **(T2)** In terms of the preflight: a program that `first_exceeded_limit` lets through
(`firstExceeded caps c = none`, with `c.functions` / `c.locals` the sizes of the direct facts) is
summarised completely with `caps.maxSummaryEvents` as the event budget — no budget failure, every
summary available. -/
theorem summary_budget_suffices_below_limits (caps : Caps) (c : Counts) (ds : List Direct)
    (g comps : List (List Nat)) (fuel : Nat) (hf : caps.maxFunctions < 2 ^ 31)
    (hl : caps.maxLocals < 2 ^ 31) (hcf : c.functions = ds.length) (hd : DirectsOK c.locals ds)
    (hg : GraphOK ds.length g) (hc : ∀ comp ∈ comps, ∀ i ∈ comp, i < ds.length)
    (h : firstExceeded caps c = none) :
    firstFailure g fuel comps (initial ds) caps.maxSummaryEvents = none ∧
      ∃ st, runGlobal g fuel comps (initial ds) caps.maxSummaryEvents = .ok st ∧
        st.length = ds.length ∧ ∀ s ∈ st, s.available = true := by
  have := summaryBound_covers caps c hf hl h
  rw [hcf] at this
  exact summary_budget_suffices ds c.locals g comps fuel _ hd hg hc this

/-- **(T2, the crate's configuration)** At `DEFAULT_CAPS` (`Gen.Caps.defaults`, regenerated from the
crate on every run) with the crate's own budget `DEFAULT_CAPS.max_summary_events`
(`compute_summaries`). -/
theorem summary_budget_suffices_default (c : Counts) (ds : List Direct) (g comps : List (List Nat))
    (fuel : Nat) (hcf : c.functions = ds.length) (hd : DirectsOK c.locals ds)
    (hg : GraphOK ds.length g) (hc : ∀ comp ∈ comps, ∀ i ∈ comp, i < ds.length)
    (h : firstExceeded Gen.Caps.defaults c = none) :
    firstFailure g fuel comps (initial ds) Gen.Caps.defaults.maxSummaryEvents = none ∧
      ∃ st, runGlobal g fuel comps (initial ds) Gen.Caps.defaults.maxSummaryEvents = .ok st ∧
        st.length = ds.length ∧ ∀ s ∈ st, s.available = true :=
  summary_budget_suffices_below_limits Gen.Caps.defaults c ds g comps fuel (by decide) (by decide)
    hcf hd hg hc h

/-- **(T4)** The `while changed` loop of `summarize_component` needs no fuel beyond the room: with
more than `f·(f + 2l + 2)` sweeps allowed per component the fuel never decides the result of the
run (any two such fuels agree, for every call graph, component list and budget — also when the
budget runs out) … -/
theorem summary_fuel_irrelevant (ds : List Direct) (nl : Nat) (g comps : List (List Nat))
    (budget fuel₁ fuel₂ : Nat) (hd : DirectsOK nl ds)
    (h1 : ds.length * (ds.length + 2 * nl + 2) < fuel₁)
    (h2 : ds.length * (ds.length + 2 * nl + 2) < fuel₂) :
    runGlobal g fuel₁ comps (initial ds) budget = runGlobal g fuel₂ comps (initial ds) budget := by
  have hroom := roomAll_initial_le nl ds
  exact runGlobal_fuel comps (initial ds) budget (initial_ok hd g) (by omega) (by omega)

/-- **(T4)** … and each component's loop ends by itself (the model's "ended by itself" flag is
`true`): every sweep that changes something pays at least one event out of the room of the
state, which is at most `f·(f + 2l + 2)` in every state the fixpoint reaches (`StOK`). -/
theorem summarize_component_terminates (nf nl : Nat) (g : List (List Nat)) (comp : List Nat)
    (fuel : Nat) (st : List Summ) (b : Nat) (hok : StOK nf nl g st)
    (hfuel : nf * (nf + 2 * nl + 2) < fuel) (st' : List Summ) (b' : Nat) (fl : Bool)
    (h : summarizeComponent g comp fuel st b = .ok (st', b', fl)) : fl = true := by
  have := roomAll_le nf nl st
  rw [hok.len] at this
  exact summarizeComponent_flag fuel st b hok (by omega) h

/-! #### Non-vacuity: a call graph with a real cycle

`0` (the root, impure) calls `1` and `4`; `1 → 2 → 3 → 1` is a cycle whose members read and write
captured locals; `4` calls itself; `5` is never called.  6 functions, 3 locals: the preflight
bound is `6·(6 + 6 + 2) = 84`, the run needs 19 events. -/


def exDirects : List Direct :=
  [⟨[1, 4], [], [], [2]⟩, ⟨[2], [0], [], [0]⟩, ⟨[3], [], [1], [0]⟩, ⟨[1], [2], [], [1]⟩,
   ⟨[4], [], [], []⟩, ⟨[], [0, 1], [2], []⟩]

theorem exDirects_ok : DirectsOK 3 exDirects :=
  ⟨by decide, by decide, by decide, by decide, by decide, by decide, by decide⟩

/-- the code's own schedule: callee components first -/
example : schedule (graph exDirects) = some [[5], [4], [1, 2, 3], [0]] := by decide

/-- with the bound as budget: everything available, the cycle's members know each other and each
other's captures, the class of the cycle is the join -/
example : compute exDirects 84 85 = some
    [⟨true, [1, 4, 2, 3], [0, 2], [1], 2, 2⟩, ⟨true, [2, 3, 1], [0, 2], [1], 0, 2⟩,
     ⟨true, [3, 1, 2], [2, 0], [1], 2, 2⟩, ⟨true, [1, 2, 3], [2, 0], [1], 1, 2⟩,
     ⟨true, [4], [], [], 0, 0⟩, ⟨true, [], [0, 1], [2], 2, 2⟩] := by decide

/-- the theorem's conclusion on it, for a component order that is NOT callee-first -/
example : firstFailure (graph exDirects) 85 [[0], [1, 2, 3], [4], [5]] (initial exDirects) 84 = none := by
  decide

/-- the run needs 19 events (14 for the cycle, 5 for the root): with 18 the root is lost, with 13
the cycle and the root (scheduled after it) — the fallback the theorems exclude is real -/
example : eventsPerComponent (graph exDirects) 85 [[5], [4], [1, 2, 3], [0]] (initial exDirects) 84 =
    [0, 0, 14, 5] := by decide
example : (compute exDirects 19 85).map (·.map (·.available)) =
    some [true, true, true, true, true, true] := by decide
example : (compute exDirects 18 85).map (·.map (·.available)) =
    some [false, true, true, true, true, true] := by decide
example : (compute exDirects 13 85).map (·.map (·.available)) =
    some [false, false, false, false, true, true] := by decide
example : firstFailure (graph exDirects) 85 [[5], [4], [1, 2, 3], [0]] (initial exDirects) 12 =
    some .budget := by decide

/-- the preflight lets the program through at the default caps … -/
example : firstExceeded Gen.Caps.defaults { small with functions := 6, locals := 3 } = none := by decide

/-- … fuel: one sweep too few is visible (the flag), more than the room never is -/
example : (summarizeComponent (graph exDirects) [1, 2, 3] 2 (initial exDirects) 84).map (·.2.2) =
    .ok false := by decide
example : (summarizeComponent (graph exDirects) [1, 2, 3] 85 (initial exDirects) 84).map (·.2.2) =
    .ok true := by decide
example : runGlobal (graph exDirects) 85 [[5], [4], [1, 2, 3], [0]] (initial exDirects) 16 =
    runGlobal (graph exDirects) 1000 [[5], [4], [1, 2, 3], [0]] (initial exDirects) 16 := by decide

/-! #### (T3) The split design is refuted

`runSplit` is the fixpoint with the budget divided evenly between the components (and continuing
after a failure).  A ring of five functions, one of them impure, next to five leaves: ten functions,
no locals, preflight bound `10·12 = 120`.  Six components, so a share is 20 events; the ring needs
24 (each member learns four more callees, four members change class). -/

def splitWitness : List Direct :=
  [⟨[1], [], [], [2]⟩, ⟨[2], [], [], []⟩, ⟨[3], [], [], []⟩, ⟨[4], [], [], []⟩, ⟨[0], [], [], []⟩,
   ⟨[], [], [], []⟩, ⟨[], [], [], []⟩, ⟨[], [], [], []⟩, ⟨[], [], [], []⟩, ⟨[], [], [], []⟩]

theorem splitWitness_ok : DirectsOK 0 splitWitness :=
  ⟨by decide, by decide, by decide, by decide, by decide, by decide, by decide⟩

/-- **(T3)** A program below every limit (budget = the preflight bound = the configured cap) that
an equal share per component leaves with unavailable summaries, while the single budget of the
code summarises it completely.  The hypotheses of `summary_budget_suffices` hold of it. -/
theorem split_budget_is_unsound :
    ∃ (ds : List Direct) (nl budget : Nat) (comps : List (List Nat)),
      DirectsOK nl ds ∧ schedule (graph ds) = some comps ∧
      budget = ds.length * (ds.length + 2 * nl + 2) ∧
      firstExceeded { Gen.Caps.defaults with maxSummaryEvents := budget }
        { small with functions := ds.length, locals := nl } = none ∧
      (∃ st, runGlobal (graph ds) (budget + 1) comps (initial ds) budget = .ok st ∧
        ∀ s ∈ st, s.available = true) ∧
      (∃ st, runSplit (graph ds) (budget + 1) (budget / comps.length) comps (initial ds) = .ok st ∧
        ∃ s ∈ st, s.available = false) := by
  refine ⟨splitWitness, 0, 120, [[9], [8], [7], [6], [5], [0, 1, 2, 3, 4]], splitWitness_ok,
    by decide, by decide, by decide, ?_, ?_⟩
  · obtain ⟨_, st, h1, _, h3⟩ := summary_budget_suffices splitWitness 0 (graph splitWitness)
      [[9], [8], [7], [6], [5], [0, 1, 2, 3, 4]] 121 120 splitWitness_ok (graph_ok splitWitness_ok)
      (by decide) (by decide)
    exact ⟨st, h1, h3⟩
  · exact ⟨markUnavailable [0, 1, 2, 3, 4] (initial splitWitness), by decide, by decide⟩

/-- what the ring needs, and what a share is -/
example : eventsPerComponent (graph splitWitness) 121 [[9], [8], [7], [6], [5], [0, 1, 2, 3, 4]]
    (initial splitWitness) 120 = [0, 0, 0, 0, 0, 24] := by decide

end SummaryEvents

end NaijaVerif.Limits
