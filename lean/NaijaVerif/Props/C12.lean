/-
C12 — String pool never hands out a slot twice and conserves its slots.

Property theorems about `Model/Pool.lean`.  The generated table `Gen/Pool.lean` (dumped from the
compiled crate on every run) is related to the model's closed forms by `decide`.
-/
import NaijaVerif.Model.Pool
import NaijaVerif.Gen.Pool

namespace NaijaVerif.Pool

/-! ### Tie of the generated tables to the closed forms used in the theorems -/

theorem gen_classCount : Gen.Pool.classCount = classCount := by decide

theorem gen_slotSizes : Gen.Pool.slotSizes = (List.range classCount).map slotSizeOf := by decide

theorem gen_slotCounts : Gen.Pool.slotCounts = (List.range classCount).map slotCountOf := by decide

/-- The real `size_class`, dumped for every `n ≤ 300`, equals the model on that whole range. -/
theorem gen_sizeClass :
    Gen.Pool.sizeClassTable = (List.range Gen.Pool.sizeClassTable.length).map sizeClass := by
  decide +kernel

theorem gen_sizeClass_covers : 257 < Gen.Pool.sizeClassTable.length := by decide +kernel

/-! ### Size classes -/

theorem sizeClass_none_iff (n : Nat) : sizeClass n = none ↔ 256 < n := by
  unfold sizeClass
  split
  · simp; omega
  · split <;> simp <;> omega

theorem sizeClass_lt (n c : Nat) (h : sizeClass n = some c) : c < classCount := by
  unfold sizeClass at h; unfold classCount
  split at h
  · cases h; omega
  · split at h
    · cases h; omega
    · cases h

/-- A pooled slot is at least as large as the request … -/
theorem sizeClass_fits (n c : Nat) (h : sizeClass n = some c) : n ≤ slotSizeOf c := by
  unfold sizeClass at h; unfold slotSizeOf
  split at h
  · cases h; split <;> omega
  · split at h
    · cases h; split <;> omega
    · cases h

/-- … and it is the smallest class that fits. -/
theorem sizeClass_least (n c : Nat) (h : sizeClass n = some c) (hc : 0 < c) :
    slotSizeOf (c - 1) < n := by
  unfold sizeClass at h; unfold slotSizeOf
  split at h
  · cases h; split <;> omega
  · split at h
    · cases h; split <;> omega
    · cases h

/-- Releasing with the size a buffer was requested with goes back to the class it came from. -/
theorem sizeClass_deterministic (n c₁ c₂ : Nat) (h₁ : sizeClass n = some c₁)
    (h₂ : sizeClass n = some c₂) : c₁ = c₂ := by simp_all

theorem slotSizeOf_pos (c : Nat) : 0 < slotSizeOf c := by unfold slotSizeOf; split <;> omega

/-! ### One pool: invariant, exclusive ownership, conservation -/

theorem Pool.inv_new (b sz cnt : Nat) : (Pool.new b sz cnt).Inv := by
  constructor <;> simp [Pool.new]

theorem Pool.conservation (p : Pool) (h : p.Inv) :
    p.liveCount + p.free.length + (p.slotCount - p.bump) = p.slotCount := by
  have := h.count; have := h.bumpLe; have := h.liveLen; omega

/-- `alloc` hands out a slot that was not live, keeps the invariant, and leaves the other live
slots live. -/
theorem Pool.alloc_spec (p p' : Pool) (i : Nat) (h : p.Inv) (ha : p.alloc = some (i, p')) :
    p'.Inv ∧ i ∉ p.live ∧ p'.live = i :: p.live ∧ i < p.slotCount ∧
      p'.base = p.base ∧ p'.slotSize = p.slotSize ∧ p'.slotCount = p.slotCount := by
  unfold Pool.alloc at ha
  split at ha
  · next j rest hf =>
    simp only [Option.some.injEq, Prod.mk.injEq] at ha
    obtain ⟨rfl, rfl⟩ := ha
    have hjf : j ∈ p.free := by rw [hf]; simp
    have hjl : j ∉ p.live := h.disjoint j hjf
    have hnd := h.freeNodup; rw [hf] at hnd
    have hjr : j ∉ rest := (List.nodup_cons.mp hnd).1
    have hjb : j < p.bump := (h.below j).mp (Or.inl hjf)
    refine ⟨?_, hjl, rfl, ?_, rfl, rfl, rfl⟩
    · constructor
      · exact (List.nodup_cons.mp hnd).2
      · exact List.nodup_cons.mpr ⟨hjl, h.liveNodup⟩
      · intro k hk hkl
        simp only [List.mem_cons] at hkl
        rcases hkl with rfl | hkl
        · exact hjr hk
        · exact h.disjoint k (by rw [hf]; simp [hk]) hkl
      · intro k
        have := h.below k
        rw [hf] at this
        simp only [List.mem_cons] at this ⊢
        constructor
        · rintro (hk | rfl | hk)
          · exact this.mp (Or.inl (Or.inr hk))
          · exact hjb
          · exact this.mp (Or.inr hk)
        · intro hk
          rcases this.mpr hk with (rfl | hk) | hk
          · exact Or.inr (Or.inl rfl)
          · exact Or.inl hk
          · exact Or.inr (Or.inr hk)
      · exact h.bumpLe
      · simp [h.liveLen]
      · have := h.count; rw [hf] at this; simp at this ⊢; omega
    · have := h.bumpLe; omega
  · next hf =>
    split at ha
    · next hb =>
      cases ha
      have hbl : p.bump ∉ p.live := fun hm =>
        absurd ((h.below p.bump).mp (Or.inr hm)) (Nat.lt_irrefl _)
      refine ⟨?_, hbl, rfl, hb, rfl, rfl, rfl⟩
      constructor
      · simp [hf]
      · exact List.nodup_cons.mpr ⟨hbl, h.liveNodup⟩
      · intro k hk; simp [hf] at hk
      · intro k
        have := h.below k
        rw [hf] at this
        simp only [List.mem_cons, List.not_mem_nil, false_or] at this ⊢
        constructor
        · rintro (hk | rfl | hk)
          · simp [hf] at hk
          · omega
          · have := this.mp hk; omega
        · intro hk
          by_cases hkb : k = p.bump
          · exact Or.inr (Or.inl hkb)
          · exact Or.inr (Or.inr (this.mpr (by omega)))
      · show p.bump + 1 ≤ p.slotCount; omega
      · simp [h.liveLen]
      · have := h.count
        have : p.free.length = 0 := by rw [hf]; rfl
        simp; omega
    · cases ha

/-- `alloc` fails exactly when every slot is live. -/
theorem Pool.alloc_none_iff (p : Pool) (h : p.Inv) : p.alloc = none ↔ p.liveCount = p.slotCount := by
  have hc := h.count; have hb := h.bumpLe; have hl := h.liveLen
  unfold Pool.alloc
  split
  · next j rest hf =>
    have : p.free.length = rest.length + 1 := by rw [hf]; rfl
    constructor
    · intro h'; cases h'
    · intro h'; omega
  · next hf =>
    have : p.free.length = 0 := by rw [hf]; rfl
    split
    · constructor
      · intro h'; cases h'
      · intro h'; omega
    · constructor
      · intro _; omega
      · intro _; rfl

/-- Releasing a live slot keeps the invariant, removes exactly that slot from the live set and
makes it the next one to be reused (LIFO). -/
theorem Pool.dealloc_spec (p : Pool) (i : Nat) (h : p.Inv) (hi : i ∈ p.live) :
    (p.dealloc i).Inv ∧ i ∉ (p.dealloc i).live ∧
      (∀ k, k ≠ i → (k ∈ (p.dealloc i).live ↔ k ∈ p.live)) ∧
      (p.dealloc i).free = i :: p.free := by
  have hif : i ∉ p.free := fun hf => h.disjoint i hf hi
  have hnd := h.liveNodup
  have hmem : ∀ k, k ∈ p.live.erase i ↔ k ≠ i ∧ k ∈ p.live := fun k => hnd.mem_erase_iff
  refine ⟨?_, ?_, ?_, rfl⟩
  · constructor
    · exact List.nodup_cons.mpr ⟨hif, h.freeNodup⟩
    · exact hnd.erase i
    · intro k hk hkl
      have hkl' := (hmem k).mp hkl
      simp only [Pool.dealloc, List.mem_cons] at hk
      rcases hk with rfl | hk
      · exact hkl'.1 rfl
      · exact h.disjoint k hk hkl'.2
    · intro k
      have := h.below k
      simp only [Pool.dealloc, List.mem_cons]
      rw [hmem k]
      constructor
      · rintro ((rfl | hk) | ⟨_, hk⟩)
        · exact (h.below k).mp (Or.inr hi)
        · exact this.mp (Or.inl hk)
        · exact this.mp (Or.inr hk)
      · intro hk
        by_cases hki : k = i
        · exact Or.inl (Or.inl hki)
        · rcases this.mpr hk with hk | hk
          · exact Or.inl (Or.inr hk)
          · exact Or.inr ⟨hki, hk⟩
    · exact h.bumpLe
    · have hpos : 0 < p.live.length := List.length_pos_of_mem hi
      simp [Pool.dealloc, h.liveLen, List.length_erase_of_mem hi]
    · have hpos : 0 < p.live.length := List.length_pos_of_mem hi
      have := h.count
      simp [Pool.dealloc, List.length_erase_of_mem hi]; omega
  · exact fun hm => ((hmem i).mp hm).1 rfl
  · intro k hk; simp [Pool.dealloc, hmem k, hk]

/-! ### Histories of one pool -/

inductive Op where
  | alloc
  | free (i : Nat)
deriving Repr, DecidableEq

/-- Run a history; a `free` is *legal* when its slot is live (the caller's obligation in the code's
`# Safety` contract). Illegal frees stop the run (`none`). -/
def Pool.run (p : Pool) : List Op → Option Pool
  | [] => some p
  | .alloc :: ops =>
      match p.alloc with
      | some (_, p') => p'.run ops
      | none => p.run ops
  | .free i :: ops => if i ∈ p.live then (p.dealloc i).run ops else none

/-- Every state reachable by a legal history satisfies the invariant. -/
theorem Pool.run_inv (p q : Pool) (ops : List Op) (h : p.Inv) (hr : p.run ops = some q) : q.Inv := by
  induction ops generalizing p with
  | nil => simp [Pool.run] at hr; exact hr ▸ h
  | cons op ops ih =>
    cases op with
    | alloc =>
      simp only [Pool.run] at hr
      split at hr
      · next i p' ha => exact ih p' (Pool.alloc_spec p p' i h ha).1 hr
      · exact ih p h hr
    | free i =>
      simp only [Pool.run] at hr
      split at hr
      · next hi => exact ih _ (Pool.dealloc_spec p i h hi).1 hr
      · cases hr

/-- Conservation in every reachable state. -/
theorem Pool.run_conservation (sz cnt b : Nat) (ops : List Op) (q : Pool)
    (hr : (Pool.new b sz cnt).run ops = some q) :
    q.liveCount + q.free.length + (q.slotCount - q.bump) = q.slotCount :=
  Pool.conservation q (Pool.run_inv _ q ops (Pool.inv_new b sz cnt) hr)

/-! ### Addresses: distinct live slots never overlap; `contains` is exact -/

theorem slots_disjoint (base sz i j : Nat) (hij : i < j) :
    base + i * sz + sz ≤ base + j * sz := by
  have : (i + 1) * sz ≤ j * sz := Nat.mul_le_mul_right sz hij
  rw [Nat.add_mul] at this; omega

/-- Two distinct live slots of one pool occupy disjoint byte ranges. -/
theorem Pool.live_slots_disjoint (p : Pool) (i j : Nat) (hne : i ≠ j) :
    p.slotAddr i + p.slotSize ≤ p.slotAddr j ∨ p.slotAddr j + p.slotSize ≤ p.slotAddr i := by
  unfold Pool.slotAddr
  rcases Nat.lt_or_gt_of_ne hne with h | h
  · exact Or.inl (slots_disjoint _ _ _ _ h)
  · exact Or.inr (slots_disjoint _ _ _ _ h)

/-- The `wrapping_sub` ownership test is exact whenever the block does not wrap the address space. -/
theorem containsWrap_iff (base total a : Nat) (ha : a < 2 ^ 64) (hb : base + total ≤ 2 ^ 64) :
    containsWrap base total a = true ↔ base ≤ a ∧ a < base + total := by
  unfold containsWrap
  simp only [decide_eq_true_eq]
  by_cases hle : base ≤ a
  · have : (a + 2 ^ 64 - base) % 2 ^ 64 = a - base := by
      have : a + 2 ^ 64 - base = (a - base) + 2 ^ 64 := by omega
      rw [this, Nat.add_mod_right, Nat.mod_eq_of_lt (by omega)]
    rw [this]; omega
  · have hlt : a < base := Nat.lt_of_not_le hle
    have : (a + 2 ^ 64 - base) % 2 ^ 64 = a + 2 ^ 64 - base := Nat.mod_eq_of_lt (by omega)
    rw [this]; omega

/-- A slot handed out by the pool passes the ownership test and `index_of` recovers its index, so a
release reaches the slot it came from. -/
theorem Pool.indexOf_slotAddr (p : Pool) (i : Nat) (hi : i < p.slotCount) (hsz : 0 < p.slotSize)
    (hfit : p.base + p.total ≤ 2 ^ 64) :
    p.contains (p.slotAddr i) = true ∧ p.indexOf (p.slotAddr i) = some i := by
  have hlt : i * p.slotSize + p.slotSize ≤ p.total := by
    have : (i + 1) * p.slotSize ≤ p.slotCount * p.slotSize := Nat.mul_le_mul_right _ hi
    rw [Nat.add_mul] at this; unfold Pool.total; rw [Nat.mul_comm p.slotSize]; omega
  have hoff : (p.slotAddr i + 2 ^ 64 - p.base) % 2 ^ 64 = i * p.slotSize := by
    unfold Pool.slotAddr
    have : p.base + i * p.slotSize + 2 ^ 64 - p.base = i * p.slotSize + 2 ^ 64 := by omega
    rw [this, Nat.add_mod_right, Nat.mod_eq_of_lt (by omega)]
  constructor
  · unfold Pool.contains containsWrap; rw [hoff]; simp; omega
  · unfold Pool.indexOf; simp only [hoff]
    have h1 : ¬ (i * p.slotSize ≥ p.total ∨ i * p.slotSize % p.slotSize ≠ 0) := by
      simp [Nat.mul_mod_left]; omega
    rw [if_neg h1, Nat.mul_div_cancel _ hsz]

/-! ### Non-vacuity: a 2-slot pool exhausted, released and refilled -/

example :
    ((Pool.new 0 8 2).run [.alloc, .alloc, .alloc, .free 0, .alloc, .free 1, .free 0]).map
      (fun q => (q.liveCount, q.free, q.bump)) = some (0, [0, 1], 2) := by decide

example : (Pool.new 0 8 2).Inv := Pool.inv_new 0 8 2

end NaijaVerif.Pool
