import NaijaVerif.Lemmas.ParseSpans
/-
Property C07, parser part: **every span in the AST and in every syntax diagnostic / label is `0..0`
or has `lo ≤ hi ≤ n` with both ends token boundaries**, for every token list whose spans are ordered
(which is what the lexer theorems `c07_lex_token_spans` / `c07_lex_tokens_ordered` provide), plus
totality of the parser model (`fuelFor` fuel always suffices and more fuel changes nothing).

All theorems are about `NaijaVerif.Parse.parseProgram` (`Model/Parse.lean`, the model of
`src/syntax/parser.rs`); the invariant and the per-function lemmas are in `Lemmas/ParseSpans.lean`.
-/
namespace NaijaVerif.C07Parse
open NaijaVerif NaijaVerif.Parse

/-- Every token has `lo ≤ hi`, and ends at or before the start of the next one. -/
def TokensOrdered : List SpTok → Prop
  | [] => True
  | [t] => t.span.lo ≤ t.span.hi
  | t :: u :: ts => t.span.lo ≤ t.span.hi ∧ t.span.hi ≤ u.span.lo ∧ TokensOrdered (u :: ts)

/-- `x` is `0` or an end of the span of one of the tokens. -/
def Boundary (toks : List SpTok) (x : Nat) : Prop :=
  x = 0 ∨ ∃ t ∈ toks, x = t.span.lo ∨ x = t.span.hi

/-- A span that is ordered, within `n`, and whose two ends are token boundaries. -/
def SpanSane (toks : List SpTok) (n : Nat) (s : Span) : Prop :=
  s.lo ≤ s.hi ∧ s.hi ≤ n ∧ Boundary toks s.lo ∧ Boundary toks s.hi

/-- The shape in which the lexer theorems deliver the ordering: each token has `lo ≤ hi` and ends
    before any later one starts. -/
theorem tokensOrdered_of_pairwise : ∀ (toks : List SpTok),
    (∀ t ∈ toks, t.span.lo ≤ t.span.hi) → toks.Pairwise (fun a b => a.span.hi ≤ b.span.lo) →
    TokensOrdered toks
  | [], _, _ => trivial
  | [t], h, _ => h t (by simp)
  | t :: u :: ts, h, hp => by
    rw [List.pairwise_cons] at hp
    exact ⟨h t (by simp), hp.1 u (by simp),
      tokensOrdered_of_pairwise (u :: ts) (fun x hx => h x (List.mem_cons_of_mem _ hx)) hp.2⟩

/-- **C07 (parser)**: on an ordered token list with all token ends `≤ n`, every span of the AST and
    every span of every syntax diagnostic and of its labels is ordered, within `n`, and has both ends
    on token boundaries (or `0`: the default span `0..0` of recovery nodes). -/
theorem parse_spans_sane (toks : List SpTok) (n : Nat) (hord : TokensOrdered toks)
    (hn : ∀ t ∈ toks, t.span.hi ≤ n) :
    (∀ s ∈ blockSpans (parseProgram toks).1, SpanSane toks n s) ∧
      (∀ d ∈ (parseProgram toks).2, ∀ s ∈ diagSpans d, SpanSane toks n s) := by
  -- the position predicate: a token boundary within `n`
  have hchain : ∀ (ts : List SpTok) (h : Nat), TokensOrdered ts → (∀ t ∈ ts, t ∈ toks) →
      (∀ t ∈ ts.head?, h ≤ t.span.lo) →
      Chain (fun x => Boundary toks x ∧ x ≤ n) h ts := by
    intro ts
    induction ts with
    | nil => intros; trivial
    | cons t ts ih =>
      intro h ho hsub hh
      have htm := hsub t (by simp)
      have hhi := hn t htm
      have hle : t.span.lo ≤ t.span.hi := by
        cases ts with
        | nil => exact ho
        | cons u us => exact ho.1
      refine ⟨hh t (by simp), hle, ⟨Or.inr ⟨t, htm, Or.inl rfl⟩, by omega⟩,
        ⟨Or.inr ⟨t, htm, Or.inr rfl⟩, hhi⟩, ?_⟩
      cases ts with
      | nil => trivial
      | cons u us =>
        exact ih t.span.hi ho.2.2 (fun x hx => hsub x (List.mem_cons_of_mem _ hx))
          (by intro x hx; simp at hx; subst hx; exact ho.2.1)
  have hP0 : (fun x => Boundary toks x ∧ x ≤ n) 0 := ⟨Or.inl rfl, Nat.zero_le _⟩
  obtain ⟨h1, h2⟩ := parseProgram_spans (P := fun x => Boundary toks x ∧ x ≤ n) hP0 toks
    (hchain toks 0 hord (fun _ h => h) (fun _ _ => Nat.zero_le _))
  constructor
  · intro s hs
    obtain ⟨a, ⟨b1, _⟩, ⟨c1, c2⟩⟩ := h1 s hs
    exact ⟨a, c2, b1, c1⟩
  · intro d hd s hs
    obtain ⟨a, ⟨b1, _⟩, ⟨c1, c2⟩⟩ := h2 d hd s hs
    exact ⟨a, c2, b1, c1⟩

/-- **The parser model is total**: `fuelFor toks` fuel always produces a result. -/
theorem parser_total (toks : List SpTok) :
    ∃ r, parseProgramFuel (fuelFor toks) toks = some r :=
  parseProgramFuel_adequate toks

/-- **The result does not depend on the fuel** once there is at least `fuelFor toks` of it. -/
theorem parser_fuel_independent (toks : List SpTok) (f : Nat) (h : fuelFor toks ≤ f) :
    parseProgramFuel f toks = some (parseProgram toks) :=
  parseProgramFuel_stable toks f h

/-- The loop-exit sets extracted from the source (`Gen/Pratt.lean`) treat end of input as the code's
    termination argument needs: `synchronize` and `parse_block_body` stop at `EOF` (the model's
    `syncGo` is structural and would hide a `synchronize` that spins at `EOF`), and
    `parse_program_body` does not start a statement at `EOF`.  `parseProgramFuel_adequate` uses the last
    two; the first is checked here because the model cannot exhibit it. -/
theorem loops_stop_at_eof :
    isSync .eof = true ∧ isBlockStop .eof = true ∧ isStmtStart .eof = false := by decide

/-! ## non-vacuity -/

/-- `make x get 1` -/
def exToks : List SpTok :=
  [⟨.make, ⟨0, 4⟩⟩, ⟨.ident [120], ⟨5, 6⟩⟩, ⟨.get, ⟨7, 10⟩⟩, ⟨.num [49], ⟨11, 12⟩⟩]

/-- `do f(a 1` : a function header that is never closed (three recovery paths). -/
def exBad : List SpTok :=
  [⟨.do, ⟨0, 2⟩⟩, ⟨.ident [102], ⟨3, 4⟩⟩, ⟨.lparen, ⟨4, 5⟩⟩, ⟨.ident [97], ⟨5, 6⟩⟩,
   ⟨.num [49], ⟨7, 8⟩⟩]

-- the hypotheses of `parse_spans_sane` are satisfiable
example : TokensOrdered exToks := by simp [TokensOrdered, exToks]
example : ∀ t ∈ exToks, t.span.hi ≤ 12 := by simp [exToks]
example : TokensOrdered exBad := by simp [TokensOrdered, exBad]
example : ∀ t ∈ exBad, t.span.hi ≤ 8 := by simp [exBad]

-- and its conclusion speaks about non-trivial spans: AST spans reaching over the look-ahead token,
-- diagnostics with labels, and the `0..0` spans of a recovery node
example : blockSpans (parseProgram exToks).1 = [⟨0, 12⟩, ⟨5, 6⟩, ⟨0, 12⟩, ⟨11, 12⟩] := by
  decide +kernel
example : (parseProgram exToks).2 = [] := by decide +kernel
example : blockSpans (parseProgram exBad).1 =
    [⟨0, 8⟩, ⟨0, 8⟩, ⟨0, 8⟩, ⟨5, 6⟩, ⟨7, 8⟩, ⟨0, 0⟩, ⟨0, 0⟩] := by decide +kernel
example : (parseProgram exBad).2.map diagSpans =
    [[⟨0, 6⟩, ⟨0, 6⟩], [⟨0, 8⟩, ⟨0, 8⟩], [⟨7, 8⟩, ⟨7, 8⟩], [⟨0, 8⟩, ⟨0, 8⟩]] := by decide +kernel

-- the instance of the theorem for the first example
example : ∀ s ∈ blockSpans (parseProgram exToks).1, SpanSane exToks 12 s :=
  (parse_spans_sane exToks 12 (by simp [TokensOrdered, exToks]) (by simp [exToks])).1

-- `SpanSane` is not trivially true: a span ending inside a token is rejected
example : ¬ SpanSane exToks 12 ⟨0, 3⟩ := by
  simp [SpanSane, Boundary, exToks]

end NaijaVerif.C07Parse
