/-
C15 — Child processes get exactly the configured argv, env, cwd and stdin; invalid, over-limit or
denied commands are refused before anything is spawned.

Property theorems about `Model/Proc.lean`, stated with the reference notions of `Spec/Proc.lean`
(helper lemmas in `Lemmas/Proc.lean`).  `Gen/ProcCaps.lean` (dumped from the compiled crate on every
run) supplies `ProcessCaps::defaults()` and the two default host policies.
-/
import NaijaVerif.Model.Proc
import NaijaVerif.Spec.Proc
import NaijaVerif.Lemmas.Proc
import NaijaVerif.Gen.ProcCaps

namespace NaijaVerif.Proc

/-! ### The reference notions are what their names say -/

/-- `lastOf` is "search from the end". -/
theorem lastOf_eq_findSome?_reverse {α : Type} (f : Op → Option α) (ops : List Op) :
    lastOf f ops = ops.reverse.findSome? f := by
  induction ops with
  | nil => rfl
  | cons op rest ih =>
    simp only [lastOf, List.reverse_cons, List.findSome?_append, ← ih]
    cases lastOf f rest with
    | some a => simp
    | none => simp [List.findSome?]; cases f op <;> rfl

/-- `lastWrite` is "search the writes from the end". -/
theorem lastWrite_eq_find?_reverse (ws : List (Bytes × Bytes)) (k : Bytes) :
    lastWrite ws k = (ws.reverse.find? (fun p => p.1 = k)).map Prod.snd := by
  induction ws with
  | nil => rfl
  | cons p rest ih =>
    obtain ⟨k', v'⟩ := p
    simp only [lastWrite, List.reverse_cons, List.find?_append, ih]
    cases h : List.find? (fun p => decide (p.1 = k)) rest.reverse with
    | some q => simp
    | none =>
      by_cases hk : k' = k <;> simp [List.find?, hk]

/-! ### The builder: args, cwd, stdin, stdio, timeout -/

/-- The program is the string given to `command(...)`. -/
theorem build_program (p : Bytes) (ops : List Op) : (build p ops).program = p := by
  simp [build, foldl_program, Cmd.new]

/-- **Argument identity.** For every call sequence the argument vector is exactly the texts passed
to `arg`, in call order: same count, same bytes — nothing is split, joined, trimmed or expanded. -/
theorem build_args (p : Bytes) (ops : List Op) : (build p ops).args = argTexts ops := by
  simp [build, foldl_args, Cmd.new]

theorem build_args_count (p : Bytes) (ops : List Op) :
    (build p ops).args.length = (ops.filter (fun o => (Op.argText o).isSome)).length := by
  rw [build_args, argTexts]
  induction ops with
  | nil => rfl
  | cons op rest ih => cases op <;> simp_all [Op.argText, List.filterMap_cons]

/-- The working directory is the one of the last `cwd` call (none if there was no call). -/
theorem build_cwd (p : Bytes) (ops : List Op) : (build p ops).cwd = lastOf Op.cwdText ops := by
  have h := foldl_last (fun c => c.cwd) (fun op => (Op.cwdText op).map some)
    (by intro c op; cases op <;> rfl) ops (Cmd.new p)
  simp only [build, h, lastOf_map]
  cases lastOf Op.cwdText ops <;> simp [Cmd.new]

/-- Standard input is what the last `stdin_text` / `stdin_inherit` / `stdin_null` call said
(inherit if there was no call). -/
theorem build_stdin (p : Bytes) (ops : List Op) :
    (build p ops).stdin = (lastOf Op.stdinSet ops).getD .inherit := by
  have h := foldl_last (fun c => c.stdin) Op.stdinSet (by intro c op; cases op <;> rfl) ops (Cmd.new p)
  simp only [build, h]
  cases lastOf Op.stdinSet ops <;> simp [Cmd.new]

theorem build_stdout (p : Bytes) (ops : List Op) :
    (build p ops).stdout = (lastOf Op.stdoutSet ops).getD .inherit := by
  have h := foldl_last (fun c => c.stdout) Op.stdoutSet (by intro c op; cases op <;> rfl) ops (Cmd.new p)
  simp only [build, h]
  cases lastOf Op.stdoutSet ops <;> simp [Cmd.new]

theorem build_stderr (p : Bytes) (ops : List Op) :
    (build p ops).stderr = (lastOf Op.stderrSet ops).getD .inherit := by
  have h := foldl_last (fun c => c.stderr) Op.stderrSet (by intro c op; cases op <;> rfl) ops (Cmd.new p)
  simp only [build, h]
  cases lastOf Op.stderrSet ops <;> simp [Cmd.new]

theorem build_timeout (p : Bytes) (ops : List Op) :
    (build p ops).timeout = lastOf Op.timeoutSet ops := by
  have h := foldl_last (fun c => c.timeout) (fun op => (Op.timeoutSet op).map some)
    (by intro c op; cases op <;> rfl) ops (Cmd.new p)
  simp only [build, h, lastOf_map]
  cases lastOf Op.timeoutSet ops <;> simp [Cmd.new]

/-! ### Environment: one pair per key, holding the last value, in first-insertion order -/

/-- No key occurs twice in the environment overrides. -/
theorem build_env_keys_nodup (p : Bytes) (ops : List Op) :
    ((build p ops).env.map Prod.fst).Nodup := (build_envInv p ops).nodup

/-- The keys appear in the order in which they were first set. -/
theorem build_env_keys_order (p : Bytes) (ops : List Op) :
    (build p ops).env.map Prod.fst = dedup ((envWrites ops).map Prod.fst) := (build_envInv p ops).keys

/-- **Last write per key wins**: `(k, v)` is among the overrides iff the last `env k _` call set `v`. -/
theorem build_env_last_write_wins (p : Bytes) (ops : List Op) (k v : Bytes) :
    (k, v) ∈ (build p ops).env ↔ lastWrite (envWrites ops) k = some v := (build_envInv p ops).vals k v

/-- … and the number of pairs is the number of distinct keys. -/
theorem build_env_count (p : Bytes) (ops : List Op) :
    (build p ops).env.length = (dedup ((envWrites ops).map Prod.fst)).length := by
  rw [← build_env_keys_order, List.length_map]

/-! ### Validation: accepted exactly when every limit is respected -/

/-- **Validation is exact.** For every command and every (u32) limit setting, `validate` accepts
iff every limit is respected — each comparison with its exact boundary — and then the spec is the
command itself, field by field. -/
theorem validate_ok_iff (c : Cmd) (caps : Caps) (hu : caps.IsU32) (s : Spec) :
    validate c caps = .ok s ↔ Valid c caps ∧ s = specOf c caps := by
  obtain ⟨h1, h2, h3, h4, h5, h6, h7, h8, h9, h10, _, _, _, _⟩ := hu
  unfold validate
  simp only [andThen_ok_iff, validateText_ok_iff _ _ _ _ _ _ h1, validateCount_ok_iff _ _ _ _ h3,
    validateCount_ok_iff _ _ _ _ h6, argsLoop_ok_iff caps h4 _ _ _ (by decide : 0 < u32Lim),
    envLoop_ok_iff caps h7 h8 _ _ _ (by decide : 0 < u32Lim), check_ok_iff,
    validateCwd_ok_iff _ _ _ h2, validateStdin_ok_iff _ _ _ h10, Nat.zero_add, Except.ok.injEq]
  constructor
  · rintro ⟨_, ⟨hp, _⟩, _, hac, _, hec, ta, ⟨hargs, _, rfl⟩, _, hat, _, hcwd, te, ⟨henv, _, rfl⟩, _, het,
      _, hstdin, _, htz, _, htm, rfl⟩
    refine ⟨⟨?_, hac, hec, ?_, hat, ?_, ?_, ?_, het, ?_, by omega, htm⟩, rfl⟩
    · exact ⟨hp.1 rfl, hp.2.1, hp.2.2.2⟩
    · intro a ha; exact ⟨(hargs a ha).2.1, (hargs a ha).2.2.2⟩
    · intro d hd; have := hcwd d hd; exact ⟨this.1 rfl, this.2.1, this.2.2.2⟩
    · intro p hp'; have := (henv p hp').1; exact ⟨this.1 rfl, this.2.1, this.2.2.1 rfl, this.2.2.2⟩
    · intro p hp'; have := (henv p hp').2; exact ⟨this.2.1, this.2.2.2⟩
    · intro t ht; have := hstdin t ht; exact ⟨this.2.1, this.2.2.2⟩
  · rintro ⟨hv, rfl⟩
    refine ⟨_, ⟨⟨fun _ => hv.program.1, hv.program.2.1, by simp, hv.program.2.2⟩, rfl⟩, (), hv.argCount,
      (), hv.envCount, _, ⟨?_, ?_, rfl⟩, (), hv.argTotal, (), ?_, _, ⟨?_, ?_, rfl⟩, (), hv.envTotal, (), ?_,
      (), ?_, (), hv.timeoutMax, rfl⟩
    · intro a ha; exact ⟨by simp, (hv.args a ha).1, by simp, (hv.args a ha).2⟩
    · have := hv.argTotal; omega
    · intro d hd; have := hv.cwd d hd; exact ⟨fun _ => this.1, this.2.1, by simp, this.2.2⟩
    · intro p hp
      have hk := hv.envKeys p hp
      have hvv := hv.envValues p hp
      exact ⟨⟨fun _ => hk.1, hk.2.1, fun _ => hk.2.2.1, hk.2.2.2⟩, ⟨by simp, hvv.1, by simp, hvv.2⟩⟩
    · have := hv.envTotal; omega
    · intro t ht; have := hv.stdin t ht; exact ⟨by simp, this.1, by simp, this.2⟩
    · have := hv.timeoutPos; omega

/-- Accepted ⇔ all limits respected. -/
theorem validate_accepts_iff (c : Cmd) (caps : Caps) (hu : caps.IsU32) :
    (∃ s, validate c caps = .ok s) ↔ Valid c caps := by
  constructor
  · rintro ⟨s, h⟩; exact ((validate_ok_iff c caps hu s).mp h).1
  · intro h; exact ⟨_, (validate_ok_iff c caps hu _).mpr ⟨h, rfl⟩⟩

/-- Refused ⇔ some limit is violated. -/
theorem validate_refuses_iff (c : Cmd) (caps : Caps) (hu : caps.IsU32) :
    (∃ e, validate c caps = .error e) ↔ ¬ Valid c caps := by
  rw [← validate_accepts_iff c caps hu]
  cases h : validate c caps <;> simp

/-! ### Every error name is truthful; the first failing check decides -/

/-- A refusal names a limit that really is violated. -/
theorem validate_error_sound (c : Cmd) (caps : Caps) (hu : caps.IsU32) (e : Err)
    (h : validate c caps = .error e) : Violates e c caps := by
  obtain ⟨h1, h2, h3, h4, h5, h6, h7, h8, h9, h10, _, _, _, _⟩ := hu
  unfold validate at h
  simp only [andThen_error_iff, validateText_error_iff _ _ _ _ _ _ h1,
    validateCount_error_iff _ _ _ _ h3, validateCount_error_iff _ _ _ _ h6, check_error_iff] at h
  rcases h with ⟨hb, rfl⟩ | ⟨_, _, h⟩
  · exact hb
  rcases h with ⟨hb, rfl⟩ | ⟨_, _, h⟩
  · exact hb
  rcases h with ⟨hb, rfl⟩ | ⟨_, _, h⟩
  · exact hb
  rcases h with hloop | ⟨ta, hta, h⟩
  · rcases argsLoop_error caps h4 _ _ _ hloop with ⟨rfl, hb⟩ | ⟨rfl, hb⟩
    · exact hb
    · show caps.maxTotalArg < argBytes c.args; omega
  have hta' := (argsLoop_ok_iff caps h4 _ _ _ (by decide : 0 < u32Lim)).mp hta
  rcases h with ⟨hb, rfl⟩ | ⟨_, _, h⟩
  · show caps.maxTotalArg < argBytes c.args; omega
  rcases h with hcwd | ⟨_, _, h⟩
  · cases hc : c.cwd with
    | none => simp [hc, validateCwd] at hcwd
    | some d =>
      simp only [hc, validateCwd, andThen_error_iff, validateText_error_iff _ _ _ _ _ _ h2] at hcwd
      rcases hcwd with ⟨hb, rfl⟩ | ⟨_, _, hcwd⟩
      · exact ⟨d, hc, hb⟩
      · cases hcwd
  rcases h with hloop | ⟨te, hte, h⟩
  · rcases envLoop_error caps h7 h8 _ _ _ hloop with ⟨rfl, hb⟩ | ⟨rfl, hb⟩ | ⟨rfl, hb⟩
    · exact hb
    · exact hb
    · show caps.maxTotalEnv < envBytes c.env; omega
  have hte' := (envLoop_ok_iff caps h7 h8 _ _ _ (by decide : 0 < u32Lim)).mp hte
  rcases h with ⟨hb, rfl⟩ | ⟨_, _, h⟩
  · show caps.maxTotalEnv < envBytes c.env; omega
  rcases h with hstdin | ⟨_, _, h⟩
  · cases hs : c.stdin with
    | inherit => simp [hs, validateStdin] at hstdin
    | null => simp [hs, validateStdin] at hstdin
    | text t =>
      simp only [hs, validateStdin, andThen_error_iff, validateText_error_iff _ _ _ _ _ _ h10] at hstdin
      rcases hstdin with ⟨hb, rfl⟩ | ⟨_, _, hstdin⟩
      · exact ⟨t, hs, hb⟩
      · cases hstdin
  rcases h with ⟨hb, rfl⟩ | ⟨_, _, h⟩
  · show effTimeout c caps = 0; simpa using hb
  rcases h with ⟨hb, rfl⟩ | ⟨_, _, h⟩
  · show caps.maxTimeout < effTimeout c caps; omega
  · cases h

/-- The program check comes first: a bad program name is reported as such whatever else is wrong. -/
theorem validate_program_first (c : Cmd) (caps : Caps) (hu : caps.IsU32) :
    validate c caps = .error .program ↔ ¬ TextOk c.program caps.maxProgram false false := by
  obtain ⟨h1, _⟩ := hu
  constructor
  · intro h; exact validate_error_sound c caps ⟨h1, ‹_›⟩ _ h
  · intro hb
    unfold validate
    rw [andThen_error_iff]
    exact Or.inl ((validateText_error_iff _ _ _ _ _ _ h1).mpr ⟨hb, rfl⟩)

/-- The two counts are checked before any argument or environment text is looked at. -/
theorem validate_counts_before_texts (c : Cmd) (caps : Caps) (hu : caps.IsU32)
    (hp : TextOk c.program caps.maxProgram false false) :
    (caps.maxArgs < c.args.length → validate c caps = .error .argCount) ∧
    (c.args.length ≤ caps.maxArgs → caps.maxEnvPairs < c.env.length →
      validate c caps = .error .envCount) := by
  obtain ⟨h1, h2, h3, h4, h5, h6, _⟩ := hu
  have hprog := (validateText_ok_iff .program c.program _ false false _ h1).mpr ⟨hp, rfl⟩
  constructor
  · intro hlt
    unfold validate
    rw [hprog]
    simp only [andThen, (validateCount_error_iff _ _ _ _ h3).mpr ⟨hlt, rfl⟩]
  · intro hle hlt
    unfold validate
    rw [hprog]
    simp only [andThen, (validateCount_ok_iff _ _ _ () h3).mpr hle,
      (validateCount_error_iff _ _ _ _ h6).mpr ⟨hlt, rfl⟩]

/-! ### `run`: the gate comes first, validation second, and only then a spawn -/

/-- **Denied.** When the host policy forbids processes the result is `denied` and nothing is
spawned — whatever the command looks like. -/
theorem run_denied (pol : Policy) (c : Cmd) (w : World) (h : pol.allow = false) :
    run pol c w = (.denied, w) := by
  simp [run, h]

/-- **Refused.** A command that fails validation yields that error and nothing is spawned. -/
theorem run_invalid (pol : Policy) (c : Cmd) (w : World) (e : Err) (ha : pol.allow = true)
    (h : validate c pol.caps = .error e) : run pol c w = (.invalid e, w) := by
  simp [run, ha, h]

/-- The spawn counter moves iff the policy allows processes *and* the command is valid; it then
moves by exactly one, and the command handed to the OS is the one built from the spec. -/
theorem run_spawns_iff (pol : Policy) (c : Cmd) (w : World) (hu : pol.caps.IsU32) :
    ((run pol c w).2.spawns.length = w.spawns.length + 1 ↔ pol.allow = true ∧ Valid c pol.caps) ∧
    ((run pol c w).2 = w ∨ (run pol c w).2.spawns = w.spawns ++ [commandOf (specOf c pol.caps)]) := by
  unfold run
  by_cases ha : pol.allow = false
  · simp [ha]
  · simp only [ha]
    cases hv : validate c pol.caps with
    | error e =>
      have : ¬ Valid c pol.caps := (validate_refuses_iff c pol.caps hu).mp ⟨e, hv⟩
      simp [this]
    | ok s =>
      obtain ⟨hval, rfl⟩ := (validate_ok_iff c pol.caps hu s).mp hv
      simp [hval]

/-- Anything other than `spawned` leaves the world untouched. -/
theorem run_no_spawn (pol : Policy) (c : Cmd) (w : World)
    (h : ∀ cmd, (run pol c w).1 ≠ .spawned cmd) : (run pol c w).2 = w := by
  unfold run at h ⊢
  by_cases ha : pol.allow = false
  · simp [ha]
  · simp only [ha] at h ⊢
    cases hv : validate c pol.caps with
    | error e => simp
    | ok s => simp [hv] at h

/-- **End to end.** If running the command built by *any* call sequence spawns, then the child's
argument vector is the program followed by exactly the `arg` texts in call order; its working
directory is the last `cwd`; for every key the override it sees is the last `env` write; its stdin
is the last stdin setting (with exactly the text as data); and exactly this one command was added
to the world. -/
theorem run_spawned_exact (pol : Policy) (p : Bytes) (ops : List Op) (w w' : World) (cmd : Command)
    (hu : pol.caps.IsU32) (h : run pol (build p ops) w = (.spawned cmd, w')) :
    cmd.argv = p :: argTexts ops ∧
    cmd.cwd = lastOf Op.cwdText ops ∧
    (∀ k, cmd.override k = lastWrite (envWrites ops) k) ∧
    (cmd.stdinData = match (lastOf Op.stdinSet ops).getD .inherit with
                     | .text t => some t | _ => none) ∧
    (cmd.stdin = match (lastOf Op.stdinSet ops).getD .inherit with
                 | .text _ => .piped | .null => .null | .inherit => .inherit) ∧
    cmd.stdout = outStdio ((lastOf Op.stdoutSet ops).getD .inherit) ∧
    cmd.stderr = outStdio ((lastOf Op.stderrSet ops).getD .inherit) ∧
    w'.spawns = w.spawns ++ [cmd] ∧ pol.allow = true ∧ Valid (build p ops) pol.caps := by
  unfold run at h
  by_cases ha : pol.allow = false
  · simp [ha] at h
  · simp only [ha] at h
    cases hv : validate (build p ops) pol.caps with
    | error e => simp [hv] at h
    | ok s =>
      simp only [hv] at h
      injection h with h1 h2
      injection h1 with h1
      obtain ⟨rfl, rfl⟩ := And.intro h1 h2
      obtain ⟨hval, rfl⟩ := (validate_ok_iff _ pol.caps hu s).mp hv
      refine ⟨?_, ?_, ?_, ?_, ?_, ?_, ?_, rfl, by simpa using ha, hval⟩
      · simp [Command.argv, commandOf, specOf, build_program, build_args]
      · simp [commandOf, specOf, build_cwd]
      · intro k
        simp only [Command.override, commandOf, specOf]
        apply Option.ext
        intro v
        rw [lastWrite_some_iff_mem _ (build_env_keys_nodup p ops), build_env_last_write_wins]
      · simp only [commandOf, specOf, build_stdin]
        cases (lastOf Op.stdinSet ops).getD .inherit <;> rfl
      · simp only [commandOf, specOf, build_stdin]
        cases (lastOf Op.stdinSet ops).getD .inherit <;> rfl
      · simp [commandOf, specOf, build_stdout]
      · simp [commandOf, specOf, build_stderr]

/-- `timeout_ms(n)` in a script, `n` a positive whole number: the builder receives `n` itself as
long as it fits a `u32`, and `u32::MAX` (which only a limit setting of `u32::MAX` accepts) beyond. -/
theorem timeoutOfWhole_spec (n t : Nat) (h : timeoutOfWhole n = some t) :
    0 < n ∧ 0 < t ∧ t < u32Lim ∧ (n < u32Lim → t = n) ∧ (u32Lim ≤ n → t = u32Lim - 1) := by
  unfold timeoutOfWhole at h
  split at h
  · cases h
  · simp only [Option.some.injEq] at h
    subst h
    unfold u32Lim
    split <;> omega

/-! ### The shipped limits and policies (generated from the compiled crate on every run) -/

/-- `ProcessCaps::defaults()`. -/
def genCaps : Caps :=
  { maxProgram := Gen.ProcCaps.maxProgramBytes, maxCwd := Gen.ProcCaps.maxCwdBytes,
    maxArgs := Gen.ProcCaps.maxArgs, maxArg := Gen.ProcCaps.maxArgBytes,
    maxTotalArg := Gen.ProcCaps.maxTotalArgBytes, maxEnvPairs := Gen.ProcCaps.maxEnvPairs,
    maxEnvKey := Gen.ProcCaps.maxEnvKeyBytes, maxEnvValue := Gen.ProcCaps.maxEnvValueBytes,
    maxTotalEnv := Gen.ProcCaps.maxTotalEnvBytes, maxStdin := Gen.ProcCaps.maxStdinBytes,
    maxCapture := Gen.ProcCaps.maxCaptureBytesPerStream,
    defaultTimeout := Gen.ProcCaps.defaultTimeoutMs, maxTimeout := Gen.ProcCaps.maxTimeoutMs,
    waitPoll := Gen.ProcCaps.waitPollMs }

/-- The shipped limits satisfy the hypothesis of the validation theorems. -/
theorem gen_caps_are_u32 : genCaps.IsU32 := by decide

/-- Under the shipped limits a command that sets no timeout is not refused for its timeout. -/
theorem gen_default_timeout_accepted :
    0 < genCaps.defaultTimeout ∧ genCaps.defaultTimeout ≤ genCaps.maxTimeout := by decide

/-- `HostPolicy::native_default()` allows processes, `HostPolicy::wasm_default()` forbids them. -/
theorem gen_default_policies :
    Gen.ProcCaps.nativeAllowProcess = true ∧ Gen.ProcCaps.wasmAllowProcess = false := by decide

/-- So under the WebAssembly default policy every `run` is denied and nothing is spawned. -/
theorem wasm_default_never_spawns (c : Cmd) (w : World) :
    run { allow := Gen.ProcCaps.wasmAllowProcess, caps := genCaps } c w = (.denied, w) :=
  run_denied _ c w gen_default_policies.2

/-! ### Non-vacuity: a command exactly at every limit is accepted; one byte (or one item, or one
millisecond) over any single limit is refused with that limit's name -/

/-- `none` = accepted, `some e` = refused with `e`. -/
def verdict (c : Cmd) (caps : Caps) : Option Err :=
  match validate c caps with
  | .ok _ => none
  | .error e => some e

def tiny : Caps :=
  { maxProgram := 3, maxCwd := 3, maxArgs := 2, maxArg := 3, maxTotalArg := 5, maxEnvPairs := 2,
    maxEnvKey := 2, maxEnvValue := 3, maxTotalEnv := 8, maxStdin := 4, maxCapture := 10,
    defaultTimeout := 5, maxTimeout := 9, waitPoll := 1 }

/-- Program 3 bytes; 2 args of 3 + 2 = 5 bytes; cwd 3 bytes; 2 pairs with a 2-byte key and a
3-byte value, 5 + 3 = 8 bytes; 4 bytes of stdin; timeout 9: every limit of `tiny` met exactly. -/
def atCap : List Op :=
  [.arg (b!"a b"), .env (b!"K1") (b!"old"), .arg (b!"*$"), .cwd (b!"/xy"), .env (b!"cd") (b!"e"), .env (b!"K1") (b!"new"),
   .stdinText (b!"in;\n"), .timeout 9, .stdoutCapture]

example : tiny.IsU32 := by decide
example : verdict (build (b!"prg") atCap) tiny = none := by decide
example : Valid (build (b!"prg") atCap) tiny := by
  have h : verdict (build (b!"prg") atCap) tiny = none := by decide
  unfold verdict at h
  split at h
  · next s hs => exact (validate_accepts_iff _ _ (by decide)).mp ⟨s, hs⟩
  · cases h
example : (build (b!"prg") atCap).args = [(b!"a b"), (b!"*$")] := by decide
example : (build (b!"prg") atCap).env = [((b!"K1"), (b!"new")), ((b!"cd"), (b!"e"))] := by decide
example :
    (run { allow := true, caps := tiny } (build (b!"prg") atCap) { spawns := [] }).2.spawns.map Command.argv
      = [[(b!"prg"), (b!"a b"), (b!"*$")]] := by decide
example : (run { allow := false, caps := tiny } (build (b!"prg") atCap) { spawns := [] })
      = (.denied, { spawns := [] }) := by decide
-- one over each limit
example : verdict (build (b!"prog") atCap) tiny = some .program := by decide
example : verdict (build (b!"prg") (atCap ++ [.arg (b!"")])) tiny = some .argCount := by decide
example : verdict (build (b!"prg") (atCap ++ [.env (b!"x") (b!"")])) tiny = some .envCount := by decide
example : verdict (build (b!"prg") [.arg (b!"abcd")]) tiny = some .argument := by decide
example : verdict (build (b!"prg") [.arg (b!"abc"), .arg (b!"abc")]) tiny = some .argBytes := by decide
example : verdict (build (b!"prg") [.cwd (b!"/xyz")]) tiny = some .cwd := by decide
example : verdict (build (b!"prg") [.env (b!"abc") (b!"")]) tiny = some .envKey := by decide
example : verdict (build (b!"prg") [.env (b!"ab") (b!"abcd")]) tiny = some .envValue := by decide
example : verdict (build (b!"prg") [.env (b!"ab") (b!"abc"), .env (b!"cd") (b!"ef")]) tiny = some .envBytes := by
  decide
example : verdict (build (b!"prg") [.stdinText (b!"abcde")]) tiny = some .stdinText := by decide
example : verdict (build (b!"prg") [.timeout 10]) tiny = some .timeoutLimit := by decide
example : verdict (build (b!"prg") [.timeout 0]) tiny = some .timeoutZero := by decide
-- invalid contents
example : verdict (build [] []) tiny = some .program := by decide
example : verdict (build [97, 0] []) tiny = some .program := by decide
example : verdict (build (b!"prg") [.arg [0]]) tiny = some .argument := by decide
example : verdict (build (b!"prg") [.cwd []]) tiny = some .cwd := by decide
example : verdict (build (b!"prg") [.env [] (b!"v")]) tiny = some .envKey := by decide
example : verdict (build (b!"prg") [.env (b!"=") (b!"v")]) tiny = some .envKey := by decide
example : verdict (build (b!"prg") [.env (b!"k") [0]]) tiny = some .envValue := by decide
example : verdict (build (b!"prg") [.stdinText [0]]) tiny = some .stdinText := by decide
-- empty argument, value and stdin text are fine; so is `=` in a value
example : verdict (build (b!"prg") [.arg [], .env (b!"k") [], .stdinText [], .env (b!"j") (b!"=")]) tiny = none := by
  decide
-- a later call repairs an earlier one (last write wins), and the first failing check decides
example : verdict (build (b!"prg") [.cwd [], .cwd (b!"/")]) tiny = none := by decide
example : verdict (build (b!"prg") [.env (b!"k") [0], .env (b!"k") (b!"ok")]) tiny = none := by decide
example : verdict (build [] [.arg [0], .timeout 0]) tiny = some .program := by decide
example : verdict (build (b!"prg") [.arg [0], .arg [], .arg []]) tiny = some .argCount := by decide
-- the shipped limits accept an ordinary command
example : verdict (build (b!"/bin/echo") [.arg (b!"hello world"), .env (b!"LANG") (b!"C"), .stdinNull]) genCaps
    = none := by decide

end NaijaVerif.Proc
