import NaijaVerif.Lemmas.EvalScopeStep
import NaijaVerif.Lemmas.EvalToy
import NaijaVerif.Props.C04Static
/-
C04 (dynamic half) — every variable reference, assignment target and `{name}` placeholder denotes
the variable of the nearest enclosing declaration IN THE ACTIVATION THE RUNNING CODE BELONGS TO,
never a same-named variable of the caller or of another activation; a call reaches the function of
the innermost enclosing block that defines it.

Stated on the evaluator model (`Model/Eval.lean`, tied to `src/runtime.rs` by the `run` stream):
the run with the lookup the CODE performs since the fix of D-04 (`lookup := dynamic`: a `LocalId` is
searched in the most recent scope instance whose tag is its declaring scope, a `FunctionId` in the
whole stack) equals the run with LEXICAL lookup (`lookup := lexical`: only the scopes on the static
chain of the running code are searched) — same output, same ending, same error position — for every
configuration, every fuel and every well-scoped program (`c04_dynamic`).

* `WellScoped p` (`Lemmas/EvalScope.lean`) is a decidable structural check of the ANNOTATED program:
  every reference carries a `LocalId` declared by a lexically enclosing block or parameter list,
  every `make` one of its own block, every user call a `FunctionId` defined by a lexically
  enclosing block, and no id is declared twice along a lexical path.  The static half
  (`Props/C04Static.lean`) proves that the resolver model annotates every occurrence with the
  nearest enclosing declaration; that its output is always `WellScoped` (ids are allocated fresh) is
  PROVED in `Props/C04Bridge.lean` (`c04_bridge`: no error diagnostics ⇒ `WellScoped (resolve q).root`,
  hence `c04_accepted`), evaluated here on examples (`resolved_programs_are_wellScoped`) and, in
  `./check C04`, on the REAL resolver's annotated AST of every accepted program of the `run` stream.
* The invariant is `MR cfg Γ st` (`Lemmas/EvalScope.lean`): I1 slots and hoisted functions of a
  scope are declarations of the binder it instantiates; I2 the scopes on `st.chain` instantiate
  exactly the lexical ancestors `Γ` of the program point; I3 no scope above a chain scope declares
  what that scope declares; I4 a hoisted function records the chain cut at its defining scope.
* With the whole-stack search of the code BEFORE the fix the statement is false
  (`c04_old_lookup_wrong`, witness `corpus/run/20_d04_recursive.ns`).
-/
namespace NaijaVerif.Props.C04
open NaijaVerif NaijaVerif.Eval

variable {N : Type}

/-! ### The invariant -/

/-- MR holds in the state every run starts from. -/
theorem mr_initial (cfg cfg' : RunCfg) : MR (N := N) cfg [Binder.root] (State.init cfg') :=
  MR.init cfg cfg'

/-- **Preservation and agreement, all eight functions.**  At every fuel, for every lexical context
`Γ`, every state satisfying `MR cfg Γ` and every well-scoped piece of code: `evalExpr`, `evalSel`,
`evalIdxs`, `evalMutOp`, `execStmt`, `execStmts`, `execBlock` and `loopW` return the same result in
both lookup modes, and a successful result satisfies `MR cfg Γ` again and frames the initial state
(`Frame`: static chain and skeleton of the stack restored — block exit and `return` pop exactly what
was pushed; a callee changes only VALUES below its own scopes). -/
theorem mr_preserved [NumOps N] (cfg : RunCfg) (f : Nat) : AgAll (N := N) cfg f := ag_all cfg f

/-- Block entry (with hoisting) establishes MR for the block's context. -/
theorem mr_block_entry (cfg : RunCfg) (Γ : List Binder) (st : State N) (h : MR cfg Γ st) (b : Block)
    (hws : wsBlock Γ b = true) :
    MR cfg (.ofStmts b.stmts :: Γ)
      (hoist cfg b.stmts (pushScope st (.block b.span) st.chain [] (declIds b.stmts))) := by
  cases b with
  | mk ss sp =>
    simp only [wsBlock, Bool.and_eq_true] at hws
    obtain ⟨T, e, hm⟩ := h.enterBlock (.block sp) ss hws.1 hws.2
    simp only [Block.stmts, Block.span]
    rw [e]; exact hm

/-- A call establishes MR for the callee's context: its chain is the caller's chain cut at the
scope that defines the callee. -/
theorem mr_call_entry (cfg : RunCfg) (Γ : List Binder) (st : State N) (h : MR cfg Γ st)
    (a : Option Nat) (name : Bytes) (fd : FnEntry) (hf : lookupFn cfg.lex st a name = some fd)
    (ids : List (Option Nat)) (hids : paramIds fd = some ids) (vs : List (Value N)) :
    ∃ j, fd.chain = st.chain.drop j ∧
      MR cfg (.ofParams fd.params :: Γ.drop j)
        (pushScope st (.params fd.id) fd.chain (paramSlots fd.params ids vs) (ids.filterMap id)) ∧
      wsBlock (.ofParams fd.params :: Γ.drop j) fd.body = true :=
  h.enterCall hf hids vs

/-! ### Lookups -/

/-- **Variables**: under MR the slot the code finds for a bound reference (most recent instance of
the declaring scope) is the slot lexical scoping denotes; the same position serves reads,
assignments, index assignments and mutating methods. -/
theorem slot_lookup_dynamic_eq_lexical (cfg : RunCfg) (Γ : List Binder) (st : State N) (h : MR cfg Γ st)
    (b : Option Nat) (hb : boundIn Γ b = true) (name : Bytes) :
    slotOf cfg.dyn st b name = slotOf cfg.lex st b name ∧
    lookupVal cfg.dyn st b name = lookupVal cfg.lex st b name ∧
    (∀ v, assign cfg.dyn st b name v = assign cfg.lex st b name v) :=
  ⟨slotOf_agree h hb name, lookupVal_agree h hb name, fun v => assign_agree h hb name v⟩

/-- **Interpolation**: every `{name}` segment reads the lexically visible variable. -/
theorem interp_dynamic_eq_lexical [NumOps N] (cfg : RunCfg) (Γ : List Binder) (st : State N) (h : MR cfg Γ st)
    (segs : List Seg) (hws : segs.all (wsSeg Γ) = true) (acc : Bytes) :
    interp cfg.dyn st segs acc = interp cfg.lex st segs acc :=
  interp_agree h segs acc hws

/-- **Functions**: under MR the whole-stack search by `FunctionId` finds the entry hoisted by the
defining block's instance on the static chain. -/
theorem fn_lookup_dynamic_eq_lexical (cfg : RunCfg) (Γ : List Binder) (st : State N) (h : MR cfg Γ st)
    (a : Option Nat) (ha : fnBoundIn Γ a = true) (name : Bytes) :
    lookupFn cfg.dyn st a name = lookupFn cfg.lex st a name :=
  lookupFn_agree h ha name

/-- **Never another activation**: the scope in which the code finds a bound variable is on the
static chain of the running code — an instance of a lexically enclosing binder in the running
code's own activation, never a scope of the caller or of another activation of the same function. -/
theorem bound_reference_stays_on_static_chain (cfg : RunCfg) (Γ : List Binder) (st : State N)
    (h : MR cfg Γ st) (l : Nat) (hl : declared Γ l = true) (name : Bytes) (pos : Nat × Nat)
    (hpos : slotOf cfg.dyn st (some l) name = some pos) :
    ∃ S, st.env[pos.1]? = some S ∧ S.uid ∈ st.chain := by
  rw [slotOf_agree h (b := some l) hl name] at hpos
  have hl' : visible (N := N) cfg.lex st.chain = fun s : Scope N => st.chain.contains s.uid :=
    funext (visible_lex cfg st.chain)
  have : findPos (fun s : Scope N => st.chain.contains s.uid) (Slot.matches (some l) name) st.env = some pos := by
    rw [← hl']; exact hpos
  obtain ⟨S, h1, h2⟩ := findPos_some_vis this
  exact ⟨S, h1, by simpa using h2⟩

/-! ### The theorem -/

/-- **C04, dynamic half**: for every configuration, every fuel and every well-scoped program the
run with the code's lookup equals the run with lexical lookup. -/
theorem c04_dynamic [NumOps N] (cfg : RunCfg) (fuel : Nat) (p : Block) (hp : WellScoped p) :
    (run { cfg with lookup := .dynamic } fuel p : Outcome N) = run { cfg with lookup := .lexical } fuel p := by
  have h := (ag_all (N := N) cfg fuel).block [Binder.root] p (State.init cfg) (MR.init cfg cfg) hp
  show run cfg.dyn fuel p = run cfg.lex fuel p
  unfold run
  have hi1 : (State.init cfg.dyn : State N) = State.init cfg := rfl
  have hi2 : (State.init cfg.lex : State N) = State.init cfg := rfl
  rw [hi1, hi2, h.1]

/-- The statement for the whole-stack search by `LocalId` of the code before the fix of D-04. -/
def c04_old_full : Prop :=
  ∀ (cfg : RunCfg) (fuel : Nat) (p : Block), WellScoped p →
    (run { cfg with lookup := .dynamicWholeStack } fuel p : Outcome Int) =
      run { cfg with lookup := .lexical } fuel p

/-- `corpus/run/20_d04_recursive.ns`, annotated by the real resolver:
```
do g(n) start
  if to say (n na 0) start f() end
  make x get n
  if to say (n pass 0) start g(n minus 1) end
  do f() start shout(x) end
end
g(1)
shout("done")
``` -/
def d04Recursive : Block := (.mk [(.fnDef [103] ⟨0, 7⟩ [{ name := [110], span := ⟨5, 6⟩, bind := (some 0) }] (.mk [(.ifS (.binary .eq (.var [110] (some 0) ⟨27, 28⟩) (.num [48] ⟨32, 33⟩) ⟨27, 34⟩) (.mk [(.expr (.call (.var [102] none ⟨41, 42⟩) [] (some 2) ⟨41, 48⟩) (some 2) ⟨41, 48⟩)] ⟨41, 48⟩) none (some 1) ⟨16, 55⟩), (.assign [120] ⟨56, 57⟩ (.var [110] (some 0) ⟨62, 63⟩) (some 1) (some 3) ⟨51, 75⟩), (.ifS (.binary .gt (.var [110] (some 0) ⟨77, 78⟩) (.num [48] ⟨84, 85⟩) ⟨77, 86⟩) (.mk [(.expr (.call (.var [103] none ⟨93, 94⟩) [(.binary .minus (.var [110] (some 0) ⟨95, 96⟩) (.num [49] ⟨103, 104⟩) ⟨95, 105⟩)] (some 1) ⟨93, 109⟩) (some 5) ⟨93, 109⟩)] ⟨93, 109⟩) none (some 4) ⟨66, 114⟩), (.fnDef [102] ⟨112, 118⟩ [] (.mk [(.expr (.call (.var [115, 104, 111, 117, 116] none ⟨125, 130⟩) [(.var [120] (some 1) ⟨131, 132⟩)] none ⟨125, 137⟩) (some 7) ⟨125, 137⟩)] ⟨125, 137⟩) (some 2) (some 6) ⟨112, 141⟩)] ⟨16, 141⟩) (some 1) (some 0) ⟨0, 143⟩), (.expr (.call (.var [103] none ⟨142, 143⟩) [(.num [49] ⟨144, 145⟩)] (some 1) ⟨142, 152⟩) (some 8) ⟨142, 152⟩), (.expr (.call (.var [115, 104, 111, 117, 116] none ⟨147, 152⟩) [(.str (.static [100, 111, 110, 101]) ⟨153, 159⟩)] none ⟨147, 160⟩) (some 9) ⟨147, 160⟩)] ⟨0, 160⟩)

/-- The witness on the three lookups: the whole-stack search reads the OUTER activation's `x` and
prints `1`, `done`; lexical scoping and the fixed code report the undefined variable at `x`. -/
theorem d04_recursive_runs :
    WellScoped d04Recursive ∧
    Toy.summary (run { Toy.cfg with lookup := .dynamicWholeStack } 40 d04Recursive) = ([b!"1", b!"done"], 0) ∧
    Toy.summary (run { Toy.cfg with lookup := .lexical } 40 d04Recursive) = ([], 1) ∧
    Toy.summary (run { Toy.cfg with lookup := .dynamic } 40 d04Recursive) = ([], 1) ∧
    Toy.rtKind (run { Toy.cfg with lookup := .dynamic } 40 d04Recursive) = some .undefinedVariable := by
  decide +kernel

/-- **The old lookup was wrong**: with the whole-stack search by `LocalId` the theorem is false. -/
theorem c04_old_lookup_wrong : ¬ c04_old_full := by
  intro h
  have h0 := d04_recursive_runs
  have h1 := h Toy.cfg 40 d04Recursive h0.1
  have h2 := h0.2.1
  rw [h1, h0.2.2.1] at h2
  exact absurd h2 (by decide)

/-! ### Non-vacuity -/

/-- A program with nested functions capturing and assigning outer variables, recursion with a
captured local per activation (three live activations of `walk`), a loop, interpolation:
```
make t get 0
do fact(n) start make r get 1 jasi (n pass 0) start r get r times n  n get n minus 1 end return r end
do walk(d) start
  make x get d
  do show() start t get t add x  shout("d {x} t {t}") end
  if to say (d pass 0) start walk(d minus 1) end
  show()
end
walk(2)
shout(fact(4))
``` -/
def walkProg : Block := (.mk [(.assign [116] ⟨5, 6⟩ (.num [48] ⟨11, 12⟩) (some 0) (some 0) ⟨0, 15⟩), (.fnDef [102, 97, 99, 116] ⟨13, 23⟩ [{ name := [110], span := ⟨21, 22⟩, bind := (some 1) }] (.mk [(.assign [114] ⟨37, 38⟩ (.num [49] ⟨43, 44⟩) (some 2) (some 2) ⟨32, 51⟩), (.loop (.binary .gt (.var [110] (some 1) ⟨53, 54⟩) (.num [48] ⟨60, 61⟩) ⟨53, 62⟩) (.mk [(.assignExisting [114] ⟨73, 74⟩ (.binary .times (.var [114] (some 2) ⟨79, 80⟩) (.var [110] (some 1) ⟨87, 88⟩) ⟨79, 94⟩) (some 2) (some 4) ⟨73, 94⟩), (.assignExisting [110] ⟨93, 94⟩ (.binary .minus (.var [110] (some 1) ⟨99, 100⟩) (.num [49] ⟨107, 108⟩) ⟨99, 114⟩) (some 1) (some 5) ⟨93, 114⟩)] ⟨73, 114⟩) (some 3) ⟨47, 123⟩), (.ret (some (.var [114] (some 2) ⟨124, 125⟩)) (some 6) ⟨117, 129⟩)] ⟨32, 129⟩) (some 1) (some 1) ⟨13, 132⟩), (.fnDef [119, 97, 108, 107] ⟨130, 140⟩ [{ name := [100], span := ⟨138, 139⟩, bind := (some 3) }] (.mk [(.assign [120] ⟨154, 155⟩ (.var [100] (some 3) ⟨160, 161⟩) (some 4) (some 8) ⟨149, 166⟩), (.fnDef [115, 104, 111, 119] ⟨164, 173⟩ [] (.mk [(.assignExisting [116] ⟨184, 185⟩ (.binary .add (.var [116] (some 0) ⟨190, 191⟩) (.var [120] (some 4) ⟨196, 197⟩) ⟨190, 207⟩) (some 0) (some 10) ⟨184, 207⟩), (.expr (.call (.var [115, 104, 111, 117, 116] none ⟨202, 207⟩) [(.str (.interp [(.lit [100, 32]), (.var [120] (some 4)), (.lit [32, 116, 32]), (.var [116] (some 0))]) ⟨208, 221⟩)] none ⟨202, 228⟩) (some 11) ⟨202, 228⟩)] ⟨184, 228⟩) (some 3) (some 9) ⟨164, 240⟩), (.ifS (.binary .gt (.var [100] (some 3) ⟨242, 243⟩) (.num [48] ⟨249, 250⟩) ⟨242, 251⟩) (.mk [(.expr (.call (.var [119, 97, 108, 107] none ⟨258, 262⟩) [(.binary .minus (.var [100] (some 3) ⟨263, 264⟩) (.num [49] ⟨271, 272⟩) ⟨263, 273⟩)] (some 2) ⟨258, 277⟩) (some 13) ⟨258, 277⟩)] ⟨258, 277⟩) none (some 12) ⟨231, 284⟩), (.expr (.call (.var [115, 104, 111, 119] none ⟨280, 284⟩) [] (some 3) ⟨280, 290⟩) (some 14) ⟨280, 290⟩)] ⟨149, 290⟩) (some 2) (some 7) ⟨130, 295⟩), (.expr (.call (.var [119, 97, 108, 107] none ⟨291, 295⟩) [(.num [50] ⟨296, 297⟩)] (some 2) ⟨291, 304⟩) (some 15) ⟨291, 304⟩), (.expr (.call (.var [115, 104, 111, 117, 116] none ⟨299, 304⟩) [(.call (.var [102, 97, 99, 116] none ⟨305, 309⟩) [(.num [52] ⟨310, 311⟩)] (some 1) ⟨305, 313⟩)] none ⟨299, 313⟩) (some 16) ⟨299, 313⟩)] ⟨0, 313⟩)

/-- The hypothesis is satisfiable and the conclusion is not the equality of two failed runs: each
activation of `walk` prints ITS `x` (0, 1, 2 — innermost first) and the shared `t`. -/
example : WellScoped walkProg ∧
    Toy.summary (run { Toy.cfg with lookup := .dynamic } 60 walkProg) =
      ([b!"d 0 t 0", b!"d 1 t 1", b!"d 2 t 3", b!"24"], 0) ∧
    Toy.summary (run { Toy.cfg with lookup := .lexical } 60 walkProg) =
      ([b!"d 0 t 0", b!"d 1 t 1", b!"d 2 t 3", b!"24"], 0) := by
  decide +kernel

/-- An instance of the theorem. -/
example : (run { Toy.cfg with lookup := .dynamic } 60 walkProg : Outcome Int) =
    run { Toy.cfg with lookup := .lexical } 60 walkProg :=
  c04_dynamic Toy.cfg 60 walkProg (by decide +kernel)

/-- `WellScoped` rejects an annotation that points outside the lexical context: `shout(x)` bound to
a local that only ANOTHER function's block declares. -/
example : ¬ WellScoped (.mk [(.fnDef [102] ⟨0, 0⟩ [] (.mk [(.assign [120] ⟨0, 0⟩ (.num [49] ⟨0, 0⟩) (some 0) none ⟨0, 0⟩)] ⟨0, 0⟩) (some 1) none ⟨0, 0⟩),
      (.expr (.call (.var [115, 104, 111, 117, 116] none ⟨0, 0⟩) [(.var [120] (some 0) ⟨0, 0⟩)] none ⟨0, 0⟩) none ⟨0, 0⟩)] ⟨0, 0⟩) := by
  decide +kernel

/-! ### The bridge to the static half -/

/-- Both halves on a resolved program: the resolver model annotates every occurrence with the
nearest enclosing declaration of the program text (static half, every program), and — when its
output passes the decidable check `WellScoped` — the code's run is the lexically scoped run. -/
theorem c04_resolved_program [NumOps N] (cfg : RunCfg) (fuel : Nat) (q : Block)
    (h : WellScoped (Resolve.resolve q).root) :
    Resolve.lexBlock [] (Resolve.resolve q).root = true ∧
    (run { cfg with lookup := .dynamic } fuel (Resolve.resolve q).root : Outcome N) =
      run { cfg with lookup := .lexical } fuel (Resolve.resolve q).root :=
  ⟨C04Static.variables_bind_to_nearest_declaration q, c04_dynamic cfg fuel _ h⟩

/-- Outputs of the resolver MODEL are well scoped: evaluated on the static half's shadowing example
(parameter shadowed by a body local, inner-block local, same-block re-declaration).  (`./check C04`
evaluates `WellScoped` on the real resolver's annotated AST of every accepted program of the run
stream.) -/
theorem resolved_programs_are_wellScoped :
    WellScoped (Resolve.resolve C04Static.shadowing).root := by
  decide +kernel

end NaijaVerif.Props.C04
