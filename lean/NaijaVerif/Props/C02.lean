/-
C02 — Memory reclamation is invisible: no value is read after its storage is recycled.

Property theorems about `Model/Mem.lean` (`MemEval`, the abstract evaluator of the memory
discipline of `src/runtime.rs` over the real annotated AST, with every data-dependent decision
taken from universally quantified oracle streams).  Helper lemmas: `Lemmas/Mem.lean` (invariant
**Safe**, one Hoare triple per primitive), `Lemmas/MemEval.lean` (the evaluator's cases and the
induction on the fuel).

`Cfg.fixed` is the discipline of the repaired code (commit b552049, proposed-fixes/D-02.diff);
`Cfg.pinned` is the discipline of the pinned snapshot, kept as a switch: it is provably unsafe.
-/
import NaijaVerif.Lemmas.MemEval
import NaijaVerif.Lemmas.MemEraseEval

namespace NaijaVerif.Mem
open NaijaVerif NaijaVerif.Pool

/-! ### T1 — no value is read after its storage is recycled -/

/-- **T1.** For EVERY program, every control oracle (branches, loop tests, short circuits, indices,
split sizes, which runtime error ends the run where), every layout oracle (string sizes, hence pool
classes and fallbacks; mark labels) and every fuel, the evaluator of the fixed discipline never
reads a handle whose storage has been reset, freed or handed to another allocation. -/
theorem c02_no_read_after_recycle (fuel : Nat) (prog : Block) (ctl : List CTok) (lay : List Nat) :
    (run Cfg.fixed fuel prog ctl lay).poisonedRead = false := by
  unfold Res.poisonedRead
  cases hs : (run Cfg.fixed fuel prog ctl lay).stopped with
  | none => rfl
  | some o =>
    have := run_benign fuel prog ctl lay o hs
    cases o <;> simp_all [Stop.benign, Stop.isPoisoned]

/-! ### T2 — pool use is legal -/

/-- **T2.** The evaluator only ever releases a slot that is live — in its own table *and* in the
ghost `live` list of the C12 pool model (`Model/Pool.lean`), whose invariant `Pool.Inv` is part of
**Safe** — and holds the cid of the handle being released; in particular no slot is released twice
and no foreign buffer is released.  This is the hypothesis under which C12 is stated. -/
theorem c02_pool_use_legal (fuel : Nat) (prog : Block) (ctl : List CTok) (lay : List Nat) :
    (run Cfg.fixed fuel prog ctl lay).illegalFree = false := by
  unfold Res.illegalFree
  cases hs : (run Cfg.fixed fuel prog ctl lay).stopped with
  | none => rfl
  | some o =>
    have := run_benign fuel prog ctl lay o hs
    cases o <;> simp_all [Stop.benign]

/-- The full-strength statement for a discipline `cfg`. -/
def C02Holds (cfg : Cfg) : Prop :=
  ∀ (fuel : Nat) (prog : Block) (ctl : List CTok) (lay : List Nat),
    (run cfg fuel prog ctl lay).poisonedRead = false ∧ (run cfg fuel prog ctl lay).illegalFree = false

/-- **C02 (model level), full strength, whole language.** -/
theorem c02_full : C02Holds Cfg.fixed :=
  fun fuel prog ctl lay =>
    ⟨c02_no_read_after_recycle fuel prog ctl lay, c02_pool_use_legal fuel prog ctl lay⟩

/-! ### T3 — content integrity, hence erasure -/

/-- **T3 (erasure).**  Run the evaluator with reclamation (`Cfg.fixed`: frame resets, pool slot
recycling, promotion, return-value relocation) and without (`Cfg.noReclaim`: one arena, nothing ever
reset, freed or reused) on the same program, fuel and control oracle, with ANY two layout oracles.
`obs` is the sequence of content ids the program's own reads observe (operands, printed values,
receivers, arguments, interpolated variables, indexed buffers); a content id names the bytes
written when a string was computed and is inherited by every copy the discipline makes.  Then:
* if both runs complete they end with the same control flow, have observed exactly the same
  contents in the same order, and have printed values of the same shape and contents;
* if both end with a runtime error, the same holds up to the error;
* neither run can end with a runtime error while the other completes.
The remaining combinations are runs in which one side stops for a reason outside the language's
semantics (fuel, an oracle that does not fit the program, or — on the reclaiming side, excluded by
T1/T2 — a poisoned read / illegal free). -/
theorem c02_erasure (fuel : Nat) (prog : Block) (ctl : List CTok) (lay₁ lay₂ : List Nat) :
    match run Cfg.fixed fuel prog ctl lay₁, run Cfg.noReclaim fuel prog ctl lay₂ with
    | .ok fl₁ t₁, .ok fl₂ t₂ => fl₁ = fl₂ ∧ t₁.obs = t₂.obs ∧ VRelL t₁.out t₂.out
    | .stop o₁ t₁, .stop o₂ t₂ =>
        o₁ = .rtError → o₂ = .rtError → t₁.obs = t₂.obs ∧ VRelL t₁.out t₂.out
    | .stop o₁ _, .ok _ _ => o₁ ≠ .rtError
    | .ok _ _, .stop o₂ _ => o₂ ≠ .rtError := by
  have h : RStep (do let fl ← execBlock Cfg.fixed fuel prog; popScope; pure fl : M Flow)
      (do let fl ← execBlock Cfg.noReclaim fuel prog; popScope; pure fl : M Flow) := by
    refine RTriple.bindE ((allRel fuel).execBlock prog) (fun fl => ?_)
    exact RTriple.bindU popScope_rel (fun _ _ => RTriple.pure _ _ (fun _ _ h => ⟨h, rfl⟩))
  have := h (St.init ctl lay₁) (St.init ctl lay₂) (rel_init ctl lay₁ lay₂)
  unfold run
  revert this
  cases (do let fl ← execBlock Cfg.fixed fuel prog; popScope; pure fl : M Flow) (St.init ctl lay₁) <;>
    cases (do let fl ← execBlock Cfg.noReclaim fuel prog; popScope; pure fl : M Flow) (St.init ctl lay₂) <;>
    simp only
  · intro h; exact ⟨h.2, h.1.obs, h.1.out⟩
  · exact fun h => h
  · exact fun h => h
  · exact fun h => h

/-- Erasure, in terms of what is printed: when both runs complete, the printed values have the
same contents, position by position. -/
theorem c02_same_output (fuel : Nat) (prog : Block) (ctl : List CTok) (lay₁ lay₂ : List Nat)
    (fl₁ fl₂ : Flow) (t₁ t₂ : St)
    (h₁ : run Cfg.fixed fuel prog ctl lay₁ = .ok fl₁ t₁)
    (h₂ : run Cfg.noReclaim fuel prog ctl lay₂ = .ok fl₂ t₂) :
    cts (MVal.handlesL t₁.out) = cts (MVal.handlesL t₂.out) ∧ t₁.obs = t₂.obs := by
  have := c02_erasure fuel prog ctl lay₁ lay₂
  rw [h₁, h₂] at this
  exact ⟨this.2.2.cts, this.2.1⟩

/-! ### The pinned discipline is unsafe (documents D-02; shows the theorem is not vacuous) -/

namespace Witness
def sp0 : Span := ⟨0, 0⟩
def sLit (s : Bytes) : Expr := .str (.static s) sp0
def cat (a b : Expr) : Expr := .binary .add a b sp0
def v (n : Bytes) (id : Nat) : Expr := .var n (some id) sp0
def callF (n : Bytes) (fid : Nat) (args : List Expr) : Expr := .call (.var n none sp0) args (some fid) sp0
def shout (e : Expr) : Stmt := .expr (.call (.var (b!"shout") none sp0) [e] none sp0) none sp0

/-- D-02b: `make s get "ab" add "c"   s get s`. -/
def selfAssign : Block := .mk [
  .assign (b!"s") sp0 (cat (sLit (b!"ab")) (sLit (b!"c"))) (some 0) none sp0,
  .assignExisting (b!"s") sp0 (v (b!"s") 0) (some 0) none sp0] sp0

/-- D-02a: `make x get "aaaa" add "b"  do f() start x get "zzzz" add "y" return "!" end
shout(x add f())`. -/
def readThenCall : Block := .mk [
  .assign (b!"x") sp0 (cat (sLit (b!"aaaa")) (sLit (b!"b"))) (some 0) none sp0,
  .fnDef (b!"f") sp0 [] (.mk [
     .assignExisting (b!"x") sp0 (cat (sLit (b!"zzzz")) (sLit (b!"y"))) (some 0) none sp0,
     .ret (some (sLit (b!"!"))) none sp0] sp0) (some 0) none sp0,
  shout (cat (v (b!"x") 0) (callF (b!"f") 0 []))] sp0

/-- D-02d: `do mk() start make c get command("echo") return c end  make k get mk()`. -/
def hostReturn : Block := .mk [
  .fnDef (b!"mk") sp0 [] (.mk [
     .assign (b!"c") sp0 (.call (.var (b!"command") none sp0) [sLit (b!"echo")] none sp0) (some 0) none sp0,
     .ret (some (v (b!"c") 0)) none sp0] sp0) (some 0) none sp0,
  .assign (b!"k") sp0 (callF (b!"mk") 0 []) (some 1) none sp0] sp0

/-- D-02e: `do id(p) start return p end  shout(id("ab" add "cd"))`. -/
def returnParam : Block := .mk [
  .fnDef (b!"id") sp0 [⟨b!"p", sp0, some 0⟩] (.mk [.ret (some (v (b!"p") 0)) none sp0] sp0)
    (some 0) none sp0,
  shout (callF (b!"id") 0 [cat (sLit (b!"ab")) (sLit (b!"cd"))])] sp0

/-- `do f() start make s get "a" add "b" return s end  shout(f())`. -/
def returnLocal : Block := .mk [
  .fnDef (b!"f") sp0 [] (.mk [
     .assign (b!"s") sp0 (cat (sLit (b!"a")) (sLit (b!"b"))) (some 0) none sp0,
     .ret (some (v (b!"s") 0)) none sp0] sp0) (some 0) none sp0,
  shout (callF (b!"f") 0 [])] sp0
end Witness

open Witness in
/-- On the pinned discipline `s get s` reads the slot it has just freed. -/
theorem c02_pinned_self_assign :
    (run Cfg.pinned 20 selfAssign [] [3, 3]).poisonedRead = true := by decide +kernel

open Witness in
/-- On the pinned discipline `x add f()` reads `x`'s old slot after `f` recycled it. -/
theorem c02_pinned_read_then_call :
    (run Cfg.pinned 20 readThenCall [.call] [5, 100, 5, 6]).poisonedRead = true := by decide +kernel

open Witness in
theorem c02_pinned_host_return :
    (run Cfg.pinned 20 hostReturn [.call] [100, 4, 4]).poisonedRead = true := by decide +kernel

open Witness in
theorem c02_pinned_return_param :
    (run Cfg.pinned 20 returnParam [.call] [100, 4, 4]).poisonedRead = true := by decide +kernel

open Witness in
theorem c02_pinned_return_local :
    (run Cfg.pinned 20 returnLocal [.call] [100, 2, 2]).poisonedRead = true := by decide +kernel

/-- **The pinned discipline violates C02** (the defect D-02; the full statement is false of it). -/
theorem c02_pinned_is_unsafe : ¬ C02Holds Cfg.pinned := by
  intro h
  have := (h 20 Witness.readThenCall [.call] [5, 100, 5, 6]).1
  rw [c02_pinned_read_then_call] at this
  cases this

/-- Each part of the repair is needed: aliasing reads alone break safety … -/
theorem c02_alias_on_read_alone_unsafe :
    (run { Cfg.fixed with aliasOnRead := true } 20 Witness.readThenCall [.call] [5, 100, 5, 6]).poisonedRead
      = true := by decide +kernel

/-- … and so does leaving host values un-relocated. -/
theorem c02_no_host_relocation_alone_unsafe :
    (run { Cfg.fixed with relocateAll := false } 20 Witness.hostReturn [.call] [100, 4, 4]).poisonedRead
      = true := by decide +kernel

/-! ### Non-vacuity: the fixed discipline really reclaims on these runs -/

open Witness in
/-- The D-02a witness completes under the fixed discipline, having reset the frame and reused the
pool slot that the callee freed. -/
example :
    let r := run Cfg.fixed 20 readThenCall [.call] [5, 100, 5, 6]
    r.stopped = none ∧ Ev.reset 100 3 ∈ r.state.events ∧ Ev.pfree 0 0 ∈ r.state.events ∧
      (r.state.events.filter (· == Ev.palloc 0 0)).length = 2 := by decide +kernel

open Witness in
/-- Erasure on the D-02a witness, computed: both runs complete and observe the same contents
(newest first: the printed concatenation `3`, the static "!" `0`, the left operand "aaaab" `1`, the
static operands of the three concatenations). -/
example :
    (run Cfg.fixed 20 readThenCall [.call] [5, 100, 5, 6]).state.obs = [3, 0, 1, 0, 0, 0, 0] ∧
    (run Cfg.noReclaim 20 readThenCall [.call] []).state.obs = [3, 0, 1, 0, 0, 0, 0] ∧
    (run Cfg.noReclaim 20 readThenCall [.call] []).stopped = none := by decide +kernel

open Witness in
example : (run Cfg.fixed 20 selfAssign [] [3, 3]).stopped = none := by decide +kernel
open Witness in
example : (run Cfg.fixed 20 hostReturn [.call] [100, 4, 4]).stopped = none := by decide +kernel
open Witness in
example : (run Cfg.fixed 20 returnParam [.call] [100, 4, 4, 4]).stopped = none := by decide +kernel
open Witness in
example : (run Cfg.fixed 20 returnLocal [.call] [100, 2, 2, 2]).stopped = none := by decide +kernel

end NaijaVerif.Mem
