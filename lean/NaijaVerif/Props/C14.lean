/-
C14 — The shipped pipeline (CLI / playground: parser, checker and runtime stacked on the two
process-global scratch arenas) keeps the regions of its three kinds of data apart, cannot trip the
debug borrow-order assertions, and leaves both arenas as it found them, so that runs in one process
do not influence each other through the arenas.  Exit status of the CLI.

*Partial*: in this model the interpreter does not read addresses, so "prints the same as the library
pipeline" is not a theorem here; it rests on the tie (`checks/c14.py`: the real binary against the
library pipeline on separate arenas, and an in-process replica of the playground entry point on
sequences of programs).  Process-global state other than the two arenas is excluded by a scan of the
source that is compared with `accountedGlobals` below.

The wiring (`Gen.Protocol.cliProtocol`, `wasmProtocol`), the exit ladder and the lists of global
items and call sites are extracted from the Rust source on every run (`extract/gen_cli.py`).
-/
import NaijaVerif.Lemmas.Scratch
import NaijaVerif.Gen.Protocol

namespace NaijaVerif.Scratch

/-! ### `scratch_arena(conflict)` -/

/-- `scratch_arena(Some(&a))` never hands out the arena backing `a`. -/
theorem scratchIndex_avoids_conflict (i : Ix) : scratchIndex (some (.scratch i)) ≠ i := by
  cases i <;> decide

/-- Without a conflict, or with a conflict that is not a scratch arena, the first arena is used. -/
theorem scratchIndex_default : scratchIndex none = .s0 ∧ scratchIndex (some .owned) = .s0 := by
  decide

/-- State level: a guard obtained with `Some(&w)` delegates to the other arena than `w`'s guard. -/
theorem borrow_avoids_conflict (st st' : St) (v w : Nat) (bw : Borrow)
    (hw : st.env.lookup w = some bw) (h : st.doBorrow v (some w) = .ok st') :
    ∃ bv, st'.env.lookup v = some bv ∧ bv.ix ≠ bw.ix := by
  unfold St.doBorrow at h
  cases hv : st.env.lookup v with
  | some _ => simp [hv] at h
  | none =>
    simp only [hv, hw, Except.ok.injEq] at h
    subst h
    exact ⟨{ ix := scratchIndex (some (.scratch bw.ix)),
             saved := (st.sc.get (scratchIndex (some (.scratch bw.ix)))).offset,
             no := (st.sc.get (scratchIndex (some (.scratch bw.ix)))).borrows + 1 },
           by simp, scratchIndex_avoids_conflict bw.ix⟩

/-! ### Safe protocols: regions, assertions, restoration -/

theorem pathSafe_spec {p : List ProtoOp} (h : pathSafe p = true) : absRun [] p = some [] := by
  unfold pathSafe at h
  split at h
  · next heq => exact heq
  · cases h

/-- Where a live block lies: inside the region of the guard it was allocated through — at or above
that guard's base, below the arena's offset and below the base of every newer guard of the same
arena. -/
def BlockInRegion (st : St) (blk : Block) : Prop :=
  ∃ b, (blk.owner, b) ∈ st.env ∧ b.ix = blk.ix ∧ b.saved ≤ blk.beg ∧ blk.beg ≤ blk.fin ∧
    blk.fin ≤ (st.sc.get blk.ix).offset ∧
    ∀ e ∈ st.env, e.2.ix = blk.ix → b.no < e.2.no → blk.fin ≤ e.2.saved

/-- (i) Along every path the shape check accepts — also unfinished ones, i.e. at every moment of a
run — and for every content of its phases (allocations of any size, offset reads, resets to any
offset read through the same guard): no reset and no release ever gives back a block that was
allocated through another guard (`lost` stays empty), the live blocks are pairwise disjoint, and
each lies in its own guard's region. -/
theorem safe_path_keeps_regions (sc : Scratch) (fs : List FOp) (hok : ∀ f ∈ fs, f.ok = true)
    (sh : Shape) (ha : absRun [] (fs.map FOp.erase) = some sh) :
    Outcome (fun st => st.lost = [] ∧
        st.blocks.Pairwise (fun x y => x.ix = y.ix → y.fin ≤ x.beg) ∧
        ∀ blk ∈ st.blocks, BlockInRegion st blk)
      (run true (St.start sc) (flatOps fs)) := by
  have := path_good fs _ (St.start sc) (inv_start sc) hok sh ha
  exact Outcome.mono (fun st hp => ⟨hp.1.lost, hp.1.disj, hp.1.blocks⟩) _ this

/-- (ii) The debug borrow-order assertions (`delegate_target`, `Drop for debug::Arena`) cannot fire
along a path the shape check accepts, nor is a guard used that does not exist. -/
theorem debug_assertions_cannot_fire (sc : Scratch) (fs : List FOp) (hok : ∀ f ∈ fs, f.ok = true)
    (sh : Shape) (ha : absRun [] (fs.map FOp.erase) = some sh) :
    run true (St.start sc) (flatOps fs) ≠ .error .stale ∧
    run true (St.start sc) (flatOps fs) ≠ .error .dropOrder ∧
    run true (St.start sc) (flatOps fs) ≠ .error .unbound ∧
    run true (St.start sc) (flatOps fs) ≠ .error .rebound := by
  have := safe_path_keeps_regions sc fs hok sh ha
  cases hr : run true (St.start sc) (flatOps fs) with
  | ok st => simp
  | error e =>
    rw [hr] at this
    have he : e = .badMark := this
    subst he
    simp

/-- (iii) After the last release of a complete safe path nothing is left: no guard, no block, no
readable offset; both borrow counters are what they were; both offsets are what they were — or 0 if
the path contains `arena::init`. -/
theorem safe_path_restores (sc : Scratch) (fs : List FOp) (hok : ∀ f ∈ fs, f.ok = true)
    (hs : pathSafe (fs.map FOp.erase) = true) :
    Outcome (fun st => st = St.start st.sc ∧
        (∀ i, (st.sc.get i).borrows = (sc.get i).borrows) ∧
        ((∀ f ∈ fs, f.erase ≠ .init) → ∀ i, (st.sc.get i).offset = (sc.get i).offset) ∧
        (fs.head?.map FOp.erase = some .init → ∀ i, (st.sc.get i).offset = 0))
      (run true (St.start sc) (flatOps fs)) := by
  have := path_good fs _ (St.start sc) (inv_start sc) hok [] (pathSafe_spec hs)
  refine Outcome.mono ?_ _ this
  intro st ⟨hinv, hsh⟩
  have he : st.env = [] := shape_nil (by rw [hsh]; rfl)
  obtain ⟨h1, h2⟩ := hinv.at_rest he
  refine ⟨h1, ?_, ?_, ?_⟩
  · intro i; rw [(h2 i).2, origin_fold_snd]
  · intro hno i; rw [(h2 i).1, origin_fold_noinit fs _ i hno]
  · intro hh i
    rw [(h2 i).1]
    cases fs with
    | nil => simp at hh
    | cons f fs' =>
      simp only [List.head?_cons, Option.map_some, Option.some.injEq] at hh
      simp only [List.foldl_cons, hh]
      exact origin_fold_zero fs' _ i rfl

/-- `arena::init` puts both offsets at 0 whatever the state was. -/
theorem init_resets_both (sc : Scratch) : ∀ i, (sc.init.get i).offset = 0 := init_offset sc

/-- `init` in a state without guards gives a state without guards whose offsets are `(0, 0)` and
whose borrow counters are unchanged. -/
theorem init_at_rest (sc : Scratch) : (St.start sc).doInit = St.start sc.init := rfl

/-- A run: a complete safe path with well-formed phases. -/
def SafeRun (r : List FOp) : Prop := (∀ f ∈ r, f.ok = true) ∧ pathSafe (r.map FOp.erase) = true

/-- (iii, histories) After any number of consecutive runs — passing, failing, whatever their
phases did — the process is again in a state without guards, blocks or readable offsets and with the
original borrow counters.  Hence every run of a sequence whose wiring begins with `arena::init`
(the playground) starts, after that `init`, from the same arena state as the first one: offsets
`(0, 0)` (`init_resets_both`, `init_at_rest`), the same counters, nothing alive. -/
theorem runs_leave_nothing : ∀ (runs : List (List FOp)) (sc : Scratch), (∀ r ∈ runs, SafeRun r) →
    Outcome (fun st => st = St.start st.sc ∧ ∀ i, (st.sc.get i).borrows = (sc.get i).borrows)
      (run true (St.start sc) (flatOps runs.flatten))
  | [], sc, _ => ⟨rfl, fun _ => rfl⟩
  | r :: rs, sc, h => by
    have hr := h r (by simp)
    have h1 := safe_path_restores sc r hr.1 hr.2
    simp only [List.flatten_cons, flatOps, List.flatMap_append]
    rw [run_append]
    cases hrun : run true (St.start sc) (List.flatMap FOp.ops r) with
    | error e =>
      have : run true (St.start sc) (flatOps r) = .error e := hrun
      rw [this] at h1
      exact h1
    | ok st1 =>
      have : run true (St.start sc) (flatOps r) = .ok st1 := hrun
      rw [this] at h1
      obtain ⟨hst, hb, _, _⟩ := h1
      simp only
      rw [hst]
      have ih := runs_leave_nothing rs st1.sc (fun r' hr' => h r' (by simp [hr']))
      refine Outcome.mono ?_ _ ih
      intro st ⟨ha, hbb⟩
      exact ⟨ha, fun i => by rw [hbb i, hb i]⟩

/-- The state in which the `k`-th run of a sequence begins, made explicit: for every split of the
sequence, the part before it ends in a start state with the original counters. -/
theorem every_run_starts_same (pre : List (List FOp)) (r : List FOp) (post : List (List FOp))
    (sc : Scratch) (h : ∀ x ∈ pre ++ r :: post, SafeRun x) :
    Outcome (fun st => ∃ sc', st = St.start sc' ∧ (St.start sc').doInit = St.start sc'.init ∧
        ∀ i, (sc'.init.get i).offset = 0 ∧ (sc'.init.get i).borrows = (sc.get i).borrows)
      (run true (St.start sc) (flatOps pre.flatten)) := by
  have := runs_leave_nothing pre sc (fun x hx => h x (by simp [hx]))
  refine Outcome.mono ?_ _ this
  intro st ⟨h1, h2⟩
  exact ⟨st.sc, h1, rfl, fun i => ⟨init_offset _ i, by rw [init_borrows, h2 i]⟩⟩

/-! ### The extracted wiring -/

theorem protocolSafe_paths (src : List SrcOp) (h : protocolSafe src = true) :
    ∀ p ∈ paths src, pathSafe p = true := by
  unfold protocolSafe at h
  exact fun p hp => List.all_eq_true.mp h p hp

/-- `main.rs::main` + `cmd.rs::run_source` as extracted from the source now. -/
theorem cli_protocol_safe : protocolSafe Gen.Protocol.cliProtocol = true := by decide

/-- `wasm/src/lib.rs::run_source` as extracted from the source now. -/
theorem wasm_protocol_safe : protocolSafe Gen.Protocol.wasmProtocol = true := by decide

/-- Both wirings start every path with `arena::init`. -/
theorem protocols_start_with_init :
    (paths Gen.Protocol.cliProtocol ++ paths Gen.Protocol.wasmProtocol).all
      (fun p => p.head? == some .init) = true := by decide

/-- Everything above, for the shipped wirings: whichever `return` a run takes and whatever the
parser, checker and runtime allocate, read and reset in their phases, the run keeps the regions
apart, trips no assertion, and leaves offsets `(0, 0)`, the original counters and nothing alive. -/
theorem shipped_runs_are_safe (fs : List FOp) (hok : ∀ f ∈ fs, f.ok = true)
    (hp : fs.map FOp.erase ∈ paths Gen.Protocol.cliProtocol ++ paths Gen.Protocol.wasmProtocol)
    (sc : Scratch) :
    Outcome (fun st => st.lost = [] ∧ st = St.start st.sc ∧
        (∀ i, (st.sc.get i).borrows = (sc.get i).borrows) ∧ ∀ i, (st.sc.get i).offset = 0)
      (run true (St.start sc) (flatOps fs)) := by
  have hsafe : pathSafe (fs.map FOp.erase) = true := by
    rcases List.mem_append.mp hp with h | h
    · exact protocolSafe_paths _ cli_protocol_safe _ h
    · exact protocolSafe_paths _ wasm_protocol_safe _ h
  have hinit : (fs.map FOp.erase).head? = some .init := by
    have := List.all_eq_true.mp protocols_start_with_init _ hp
    simpa using this
  have h1 := safe_path_restores sc fs hok hsafe
  have h2 := safe_path_keeps_regions sc fs hok [] (pathSafe_spec hsafe)
  cases hr : run true (St.start sc) (flatOps fs) with
  | error e => rw [hr] at h1; exact h1
  | ok st =>
    rw [hr] at h1 h2
    obtain ⟨a, b, _, d⟩ := h1
    refine ⟨h2.1, a, b, d ?_⟩
    rw [List.head?_map] at hinit
    exact hinit

/-! ### Wirings that must be rejected -/

/-- `let frame = scratch_arena(None);` instead of `Some(arena)`. -/
def wrongFrameProtocol : List SrcOp :=
  Gen.Protocol.cliProtocol.map (fun op => if op = .letScratch 2 (some 0) then .letScratch 2 none else op)

/-- The resolver's arena is allocated from after the frame guard exists. -/
def resolverAfterFrameProtocol : List SrcOp :=
  Gen.Protocol.cliProtocol.flatMap
    (fun op => if op = .letScratch 2 (some 0) then [op, .work [1]] else [op])

theorem wrong_frame_is_unsafe : protocolSafe wrongFrameProtocol = false := by decide

theorem resolver_after_frame_is_unsafe : protocolSafe resolverAfterFrameProtocol = false := by decide

/-- `arena::init` while a guard is alive. -/
theorem init_under_guard_is_unsafe : protocolSafe [.letScratch 0 none, .work [0], .init] = false := by decide

/-- A guard that conflicts with nothing although another guard of the first arena is in use. -/
theorem missing_conflict_is_unsafe :
    protocolSafe [.init, .letScratch 0 none, .letScratch 1 none, .work [0, 1]] = false := by decide

-- the two mutants really differ from the shipped wiring (the examples above are not vacuous)
example : wrongFrameProtocol ≠ Gen.Protocol.cliProtocol := by decide
example : resolverAfterFrameProtocol ≠ Gen.Protocol.cliProtocol := by decide

/-- The wiring the comment in `cmd.rs` describes (resolver guard dropped *before* the frame guard is
taken) would be accepted as well. -/
example : protocolSafe
    [.init, .letScratch 0 none, .work [0], .open, .letScratch 1 (some 0), .work [0, 1], .exit, .close,
     .letScratch 2 (some 0), .work [0, 2], .exit] = true := by decide

/-! ### Non-vacuity: concrete runs -/

/-- A filled success path of the CLI wiring: parser allocates, resolver allocates in both arenas,
the runtime allocates persistent data, reads the frame offset, allocates temporaries, resets the
frame (twice, as a loop does), stages a return value on the persistent arena and reclaims it. -/
def demoRun : List FOp :=
  [.init, .borrow 0 none, .work [0] [.alloc 0 100 8, .alloc 0 24 16],
   .borrow 1 (some 0), .work [0, 1] [.alloc 1 4000 8, .alloc 0 64 8, .alloc 1 10 1],
   .borrow 2 (some 0),
   .work [0, 2] [.alloc 0 70000 8, .mark 2, .alloc 2 48 8, .alloc 0 16 8, .reset 2 0, .alloc 2 48 8,
                 .reset 2 0, .mark 0, .alloc 0 5 1, .reset 0 1],
   .release 2, .release 1, .release 0]

example : (demoRun.map FOp.erase) ∈ paths Gen.Protocol.cliProtocol ∨ pathSafe (demoRun.map FOp.erase) = true := by
  right; decide

example : demoRun.all FOp.ok = true := by decide

/-- It runs to the end, loses nothing, and both arenas are back at 0 with no borrow outstanding;
while it runs there are live blocks in both arenas. -/
example : (match run true (St.start Scratch.empty) (flatOps demoRun) with
    | .ok st => st.lost.isEmpty && st.env.isEmpty && st.blocks.isEmpty
                && st.sc.s0.offset == 0 && st.sc.s1.offset == 0
                && st.sc.s0.borrows == 0 && st.sc.s1.borrows == 0
    | .error _ => false) = true := by decide

example : (match run true (St.start Scratch.empty) (flatOps (demoRun.take 7)) with
    | .ok st => st.blocks.length == 7 && st.lost.isEmpty
                && st.sc.s0.offset == 70216 && st.sc.s1.offset == 4010
                && st.sc.s1.borrows == 2
    | .error _ => false) = true := by decide

/-- Twice in a row (the playground): same end state. -/
example : (match run true (St.start Scratch.empty) (flatOps (demoRun ++ demoRun)) with
    | .ok st => st.lost.isEmpty && st.env.isEmpty && st.sc.s0.offset == 0 && st.sc.s1.offset == 0
    | .error _ => false) = true := by decide

/-- What the wrong frame wiring does.  Debug build: the first persistent allocation of the runtime
trips the assertion.  Release build (no assertion): the frame reset gives back a persistent block. -/
def wrongFrameRun : List Op :=
  [.init, .borrow 0 none, .alloc 0 100 8, .borrow 1 (some 0), .alloc 1 40 8, .borrow 2 none,
   .mark 2, .alloc 0 16 8, .alloc 2 48 8, .reset 2 0]

example : (match run true (St.start Scratch.empty) wrongFrameRun with
    | .error .stale => true
    | _ => false) = true := by decide

example : (match run false (St.start Scratch.empty) wrongFrameRun with
    | .ok st => st.lost.map (fun x => (x.1, x.2.owner, x.2.beg, x.2.fin)) == [(2, 0, 104, 120)]
    | .error _ => false) = true := by decide

/-- Dropping guards of one arena out of order is what the `Drop` assertion catches. -/
example : (match run true (St.start Scratch.empty) [.init, .borrow 0 none, .borrow 1 none, .release 0] with
    | .error .dropOrder => true
    | _ => false) = true := by decide

/-! ### Exit status -/

/-- The ladder in `cmd.rs::run_source` now is the documented one. -/
theorem gen_exit_rules :
    Gen.Protocol.cliExitRules = docExitRules ∧ Gen.Protocol.cliExitDefault = 0 := by decide

/-- Exit status of the CLI for the diagnostics the three stages produce. -/
def exitCode (x : RunResult) : Nat := exitCodeBy Gen.Protocol.cliExitRules Gen.Protocol.cliExitDefault x

/-- Status 0 exactly when the parser reported nothing, the checker reported no error and the
runtime reported no error (warnings of the checker and of the runtime do not matter). -/
theorem exit_code_zero_iff (x : RunResult) :
    exitCode x = 0 ↔ x.parseDiags = 0 ∧ x.resolveErrors = 0 ∧ x.runErrors = 0 := by
  unfold exitCode
  rw [gen_exit_rules.1, gen_exit_rules.2]
  unfold exitCodeBy docExitRules
  simp only [List.find?_cons, ExitRule.fires, List.find?_nil]
  cases hp : (x.parseDiags != 0) <;> cases hr : (x.resolveErrors != 0) <;> cases hu : (x.runErrors != 0) <;>
    simp_all

/-- And otherwise it is 1 (`ExitCode::FAILURE`). -/
theorem exit_code_nonzero (x : RunResult) (h : exitCode x ≠ 0) : exitCode x = 1 := by
  unfold exitCode at *
  rw [gen_exit_rules.1, gen_exit_rules.2] at *
  unfold exitCodeBy docExitRules at *
  simp only [List.find?_cons, ExitRule.fires, List.find?_nil] at *
  cases hp : (x.parseDiags != 0) <;> cases hr : (x.resolveErrors != 0) <;> cases hu : (x.runErrors != 0) <;>
    simp_all

example : exitCode ⟨0, 0, 2, 0, 0, 0⟩ = 0 := by decide   -- warnings only
example : exitCode ⟨0, 0, 1, 1, 0, 0⟩ = 1 := by decide   -- a checker error
example : exitCode ⟨0, 0, 0, 0, 1, 1⟩ = 1 := by decide   -- a runtime error
example : exitCode ⟨1, 0, 0, 0, 0, 0⟩ = 1 := by decide   -- any parser diagnostic

/-! ### Process-global state -/

/-- Every process-global item found in the source now is one the model accounts for. -/
theorem globals_accounted : Gen.Protocol.processGlobals = accountedGlobals := by decide

/-- The scratch arenas are borrowed and initialised only in the three entry-point functions. -/
theorem call_sites_accounted : Gen.Protocol.scratchCallSites = accountedCallSites := by decide

end NaijaVerif.Scratch
