/-
C13 — String built-ins agree with their specification on every input.

Property theorems about `Model/Strs.lean` (tw.rs / replace.rs / string.rs / array.rs, with tw.rs as
repaired by `proposed-fixes/D-13.diff`) against the reference definitions of `Spec/Strs.lean`.
All statements are for *all* byte strings / all integers; nothing is bounded.

Assumed, not proved (validated by the correspondence stream `strs` only): the external `memchr`
satisfies `MemchrSpec` (the theorems about `find` are stated for every function that does; the
scan `memchrRef` the driver uses is proved to); std's `str::split`/`chars`/`from_utf8` behave as
`splitOn`/`chars`/`validUtf8`; `trim`, case mapping, `parse::<f64>` and the `f64 → isize` cast are
std and are only modelled (`Model/StrsStd.lean`).
-/
import NaijaVerif.Model.Strs
import NaijaVerif.Spec.Strs
import NaijaVerif.Gen.Strs
import NaijaVerif.Lemmas.StrsFind
import NaijaVerif.Lemmas.StrsUtf8
import NaijaVerif.Lemmas.StrsOps

namespace NaijaVerif.Strs
open NaijaVerif NaijaVerif.Bytes

/-! ### Tie of the generated table to the model -/

theorem gen_simdThreshold : Gen.Strs.simdThreshold = simdThreshold := by decide

theorem gen_tierTests : Gen.Strs.tierTests = tierTests := by decide

/-! ### The reference search is the specification; `memchrRef` meets the assumed specification -/

/-- `firstOcc` returns the least offset at which the needle occurs, and `none` exactly when it
occurs nowhere. -/
theorem firstOcc_spec (h n : Bytes) : IsFirstOcc h n (firstOcc h n) := firstOcc_isFirst h n

theorem firstOcc_some_iff (h n : Bytes) (i : Nat) :
    firstOcc h n = some i ↔ (n <+: h.drop i) ∧ ∀ j, j < i → ¬ (n <+: h.drop j) := by
  constructor
  · intro hf
    have := firstOcc_isFirst h n
    rw [hf] at this
    exact this
  · intro hi
    exact (isFirstOcc_eq (r := some i) hi).symm

theorem firstOcc_none_iff (h n : Bytes) : firstOcc h n = none ↔ ∀ j, ¬ (n <+: h.drop j) := by
  constructor
  · intro hf
    have := firstOcc_isFirst h n
    rw [hf] at this
    exact this
  · intro hi
    exact (isFirstOcc_eq (r := none) hi).symm

example : firstOcc (b!"abcabc") (b!"ca") = some 2 := by decide
example : firstOcc (b!"abcabc") (b!"cc") = none := by decide

/-- The scan the driver uses for `memchr` has exactly the assumed specification. -/
theorem memchrRef_meets_spec : MemchrSpec memchrRef := memchrRef_spec

/-! ### `find` = first occurrence, through every tier; terminates; never fails -/

/-- **Main theorem.**  For every `memchr` with the assumed specification, every tier threshold and
all byte strings, `find` returns exactly the first occurrence — in particular no index or slice is
out of range, no subtraction underflows (`Fail.oob`, `Fail.underflow`), and no loop runs out of its
fuel `|h| + 1` resp. `3|n| + 3` (`Fail.fuel`). -/
theorem findWith_eq_firstOcc (mc : Nat → Bytes → Nat → Nat) (hmc : MemchrSpec mc) (T : Nat)
    (h n : Bytes) : findWith mc T h n = .ok (firstOcc h n) := by
  obtain ⟨o, ho, hfirst⟩ := findWith_correct hmc T h n
  rw [ho, isFirstOcc_eq hfirst]

theorem find_eq_firstOcc (h n : Bytes) : find h n = .ok (firstOcc h n) :=
  findWith_eq_firstOcc memchrRef memchrRef_spec simdThreshold h n

/-- Non-vacuity: one case per tier (`|n|` = 0, 1, 2, 3‥16, > 16), the long ones being the shapes
that defeat the unrepaired code (D-13a: any needle ≥ 17; D-13b: restart at `start + period`;
early loop exit when the anchor byte also starts the needle). -/
example : find (b!"abc") (b!"") = .ok (some 0) := by decide
example : find (b!"abc") (b!"c") = .ok (some 2) := by decide
example : find (b!"abcabd") (b!"bd") = .ok (some 4) := by decide
example : find (b!"aaaaab") (b!"aab") = .ok (some 3) := by decide
example : find (b!"xxabababababababababc") (b!"ababababababababc") = .ok (some 4) := by decide
example : find (b!"aaaaaaaaaaaaaaaaaaaaaaaa") (b!"aaaaaaaaaaaaaaaab") = .ok none := by decide
example : find (b!"ccabaaaaaaaaaaaaaaaab") (b!"abaaaaaaaaaaaaaaaab") = .ok (some 2) := by decide

/-- The loop of the `2` and `3‥T` tiers, from any offset before which there is no occurrence, with
fuel `|h| + 1 - offset`: finishes and returns the first occurrence. -/
theorem scanLoop_first (mc : Nat → Bytes → Nat → Nat) (hmc : MemchrSpec mc) (h n : Bytes)
    (first : Nat) (hfirst : n[0]? = some first) (fuel offset : Nat) (hoff : offset ≤ h.length)
    (inv : ∀ s, s < offset → ¬ OccAt h n s) (hfuel : h.length + 1 ≤ fuel + offset) :
    scanLoop mc h n first fuel offset = .ok (firstOcc h n) := by
  obtain ⟨o, ho, hf⟩ := scanLoop_correct hmc h n first hfirst fuel offset hoff inv hfuel
  rw [ho, isFirstOcc_eq hf]

/-- The long-needle loop for **any** anchor position `crit < |n|` (so correctness does not depend
on `crit` being a critical position): from any offset such that no occurrence has its anchor
before it, with fuel `|h| + 1 - offset`, it finishes and returns the first occurrence. -/
theorem longLoop_first (mc : Nat → Bytes → Nat → Nat) (hmc : MemchrSpec mc) (h n : Bytes)
    (crit anchor : Nat) (hanchor : n[crit]? = some anchor) (fuel offset : Nat)
    (hoff : offset ≤ h.length) (inv : ∀ s, s + crit < offset → ¬ OccAt h n s)
    (hfuel : h.length + 1 ≤ fuel + offset) :
    longLoop mc h n crit anchor fuel offset = .ok (firstOcc h n) := by
  obtain ⟨o, ho, hf⟩ := longLoop_correct hmc h n crit anchor hanchor fuel offset hoff inv hfuel
  rw [ho, isFirstOcc_eq hf]

/-- `maximal_suffix` is total on non-empty input: every read `x[i+k-1]`, `x[j+k-1]` is in range,
no subtraction underflows, the loop ends within `3|x| + 3` iterations, and the returned position
lies inside `x` (so `n[crit]` in `find` is in range) with a period `≥ 1`. -/
theorem maximalSuffix_total (x : Bytes) (rev : Bool) (hx : x ≠ []) :
    ∃ c q, maximalSuffix x rev = .ok (c, q) ∧ c < x.length ∧ 1 ≤ q := maximalSuffix_ok x rev hx

theorem critPeriod_total (x : Bytes) (hx : x ≠ []) :
    ∃ c q, critPeriod x = .ok (c, q) ∧ c < x.length ∧ 1 ≤ q := critPeriod_ok x hx

example : critPeriod (b!"abaaaaaaaaaaaaaaaab") = .ok (2, 17) := by decide
example : critPeriod (b!"ababababababababc") = .ok (16, 1) := by decide

/-! ### `replace` -/

/-- `replace` is the greedy left-to-right non-overlapping replacement (empty pattern: the
replacement in front of every character and at the end), for every search routine that returns
the first occurrence; it never slices out of range (`get_unchecked` is safe) and terminates. -/
theorem replaceWith_eq_spec (fnd : Bytes → Bytes → Except Fail (Option Nat))
    (hf : ∀ a b, fnd a b = .ok (firstOcc a b)) (h f t : Bytes) :
    replaceWith fnd h f t = .ok (replaceSpec h f t) := replaceWith_eq hf h f t

theorem replace_eq_spec (h f t : Bytes) : replace h f t = .ok (replaceSpec h f t) :=
  replaceWith_eq find_eq_firstOcc h f t

/-- Defining equations of the specification (non-empty pattern). -/
theorem replaceSpec_none (h f t : Bytes) (hf : f ≠ []) (hno : firstOcc h f = none) :
    replaceSpec h f t = h := by
  simp [replaceSpec, hf, replaceSpecAux, hno]

theorem replaceSpec_some (h f t : Bytes) (i : Nat) (hf : f ≠ []) (hi : firstOcc h f = some i) :
    replaceSpec h f t = h.take i ++ t ++ replaceSpec (h.drop (i + f.length)) f t := by
  have hb := firstOcc_bound hf hi
  have hfl : 0 < f.length := List.length_pos_iff.mpr hf
  simp only [replaceSpec, hf, if_false]
  rw [replaceSpecAux, hi]
  simp only
  rw [replaceSpecAux_fuel f t hf h.length ((h.drop (i + f.length)).length + 1) _
    (by simp; omega) (by omega)]

theorem replaceSpec_empty (h t : Bytes) :
    replaceSpec h [] t = ((chars h).map (t ++ ·)).flatten ++ t := by
  simp [replaceSpec]

example : replace (b!"aaaa") (b!"aa") (b!"b") = .ok (b!"bb") := by decide
example : replace (b!"ab") (b!"") (b!"-") = .ok (b!"-a-b-") := by decide
example : replace (b!"") (b!"") (b!"-") = .ok (b!"-") := by decide
example : replace (b!"mañana") (b!"ña") (b!"NYA") = .ok (b!"maNYAna") := by decide
example : replace (b!"xababababababababcy") (b!"ababababababababc") (b!"Z") = .ok (b!"xZy") := by decide

/-! ### `split` / `join` -/

/-- `join` is separator-interleaved concatenation. -/
theorem join_eq_spec (xs : List Bytes) (sep : Bytes) : join xs sep = joinSpec sep xs := join_eq xs sep

/-- Round trip for **every** string and **every** separator, the empty one included. -/
theorem join_split_roundtrip (s p : Bytes) : join (split s p) p = s := join_split s p

example : split (b!"a,b,,c") (b!",") = [(b!"a"), (b!"b"), (b!""), (b!"c")] := by decide
example : split (b!"aaaa") (b!"aa") = [(b!""), (b!""), (b!"")] := by decide
example : split (b!"aé") (b!"") = [(b!""), (b!"a"), (b!"é"), (b!"")] := by decide
example : split (b!"") (b!"") = [(b!""), (b!"")] := by decide

/-! ### `slice` / `len` -/

/-- `slice` selects the characters at positions `[norm a, norm b)`, where `norm` counts negative
bounds from the end and clamps into `[0, len]` — for all integers `a`, `b`. -/
theorem slice_eq_spec (s : Bytes) (a b : Int) : slice s a b = (sliceSpec (chars s) a b).flatten :=
  slice_eq s a b

/-- On a well-formed string the characters are the encoded code points it is made of. -/
theorem slice_of_chars (cs : List Bytes) (hcs : ∀ c ∈ cs, validChar c = true) (a b : Int) :
    slice cs.flatten a b = (sliceSpec cs a b).flatten := by
  rw [slice_eq, chars_of_valid hcs]

/-- What `sliceSpec` selects, position by position. -/
theorem sliceSpec_getElem? {α : Type} (cs : List α) (a b : Int) (k : Nat) :
    (sliceSpec cs a b)[k]? =
      if normIdx cs.length a + k < normIdx cs.length b then cs[normIdx cs.length a + k]? else none := by
  unfold sliceSpec
  rw [List.getElem?_take]
  split
  · next hk =>
    rw [List.getElem?_drop]
    have : normIdx cs.length a + k < normIdx cs.length b := by omega
    simp [this]
  · next hk =>
    have : ¬ normIdx cs.length a + k < normIdx cs.length b := by omega
    simp [this]

theorem normIdx_spec (len : Nat) (x : Int) :
    (normIdx len x : Int) = max 0 (min (if x < 0 then x + len else x) len) := by
  unfold normIdx; omega

/-- With `isize` arguments and a character count that fits `isize`, the only arithmetic the Rust
performs before clamping (`start += len` for a negative `start`) stays inside `isize`: the `Int`
model is the machine arithmetic. -/
theorem slice_no_overflow (a : Int) (len : Nat) (ha : isizeMin ≤ a ∧ a ≤ isizeMax)
    (hl : (len : Int) ≤ isizeMax) (hneg : a < 0) : isizeMin ≤ a + len ∧ a + len ≤ isizeMax := by
  unfold isizeMin isizeMax at *; omega

/-- The modelled cast `x.floor() as isize` (saturating, NaN ↦ 0) always lands in `isize`, so
`slice_eq_spec` (all integers) covers every pair of `f64` arguments: `sliceBits s a b` is `slice` at two
`isize` values.  (That the cast *is* floor-and-saturate is std behaviour, validated by the stream.) -/
theorem sliceBits_in_isize (bits : Nat) :
    isizeMin ≤ f64FloorToIsize bits ∧ f64FloorToIsize bits ≤ isizeMax := f64FloorToIsize_range bits

theorem sliceBits_eq_spec (s : Bytes) (a b : Nat) :
    sliceBits s a b = (sliceSpec (chars s) (f64FloorToIsize a) (f64FloorToIsize b)).flatten :=
  slice_eq s _ _

/-- `len` counts code points. -/
theorem len_eq_codepoints (cs : List Bytes) (hcs : ∀ c ∈ cs, validChar c = true) :
    len cs.flatten = cs.length := by
  unfold len; rw [chars_of_valid hcs]

example : slice (b!"Hello, 世界!") 7 9 = (b!"世界") := by decide
example : slice (b!"Hello, 世界!") (-3) (-1) = (b!"世界") := by decide
example : slice (b!"héllo") (-100) 2 = (b!"hé") := by decide
example : slice (b!"héllo") 3 100 = (b!"lo") := by decide
example : slice (b!"héllo") 4 2 = (b!"") := by decide
example : len (b!"Hello, 世界! 🌎") = 12 := by decide

/-! ### UTF-8 -/

/-- The executable validity test (tied to `str::from_utf8` by the stream) decides `ValidUtf8`. -/
theorem validUtf8_decides (s : Bytes) : validUtf8 s = true ↔ ValidUtf8 s := validUtf8_iff s

/-- `chars` recovers the encoded characters of a well-formed string (unique decomposition). -/
theorem chars_unique (cs : List Bytes) (hcs : ∀ c ∈ cs, validChar c = true) :
    chars cs.flatten = cs := chars_of_valid hcs

/-- The semantic boundary is `str::is_char_boundary`. -/
theorem boundary_is_char_boundary (h : Bytes) (hv : ValidUtf8 h) (i : Nat) :
    Boundary h i ↔ isBoundary h i = true := boundary_iff hv i

/-- Self-synchronisation: an occurrence of a non-empty well-formed needle in a well-formed haystack
starts and ends on a character boundary. -/
theorem occurrence_on_boundary (h n : Bytes) (i : Nat) (hv : ValidUtf8 h) (nv : ValidUtf8 n)
    (hn : n ≠ []) (ho : OccAt h n i) : Boundary h i ∧ Boundary h (i + n.length) :=
  occ_boundary hv nv hn ho

/-- Hence what `find` returns is a character boundary … -/
theorem find_on_boundary (h n : Bytes) (i : Nat) (hv : ValidUtf8 h) (nv : ValidUtf8 n)
    (hf : find h n = .ok (some i)) : Boundary h i := by
  rw [find_eq_firstOcc] at hf
  have hi : firstOcc h n = some i := by simpa using hf
  have hocc := firstOcc_isFirst h n
  rw [hi] at hocc
  by_cases hn : n = []
  · subst hn
    have : i = 0 := by
      by_cases h0 : i = 0
      · exact h0
      · exact absurd (occ_zero_nil h) (hocc.2 0 (by omega))
    subst this
    exact ⟨by omega, by simpa using valid_nil, by simpa using hv⟩
  · exact (occ_boundary hv nv hn hocc.1).1

/-- … and `replace`, `split`, `slice` return well-formed UTF-8. -/
theorem replace_valid (h f t : Bytes) (hv : ValidUtf8 h) (fv : ValidUtf8 f) (tv : ValidUtf8 t) :
    ∃ r, replace h f t = .ok r ∧ ValidUtf8 r :=
  ⟨_, replace_eq_spec h f t, replaceSpec_valid hv fv tv⟩

theorem split_pieces_valid (s p : Bytes) (sv : ValidUtf8 s) (pv : ValidUtf8 p) :
    ∀ x ∈ split s p, ValidUtf8 x := split_valid sv pv

theorem slice_result_valid (s : Bytes) (a b : Int) (sv : ValidUtf8 s) : ValidUtf8 (slice s a b) :=
  slice_valid sv a b

theorem join_valid (xs : List Bytes) (sep : Bytes) (hx : ∀ x ∈ xs, ValidUtf8 x) (hs : ValidUtf8 sep) :
    ValidUtf8 (join xs sep) := by
  rw [join_eq]
  induction xs with
  | nil => exact valid_nil
  | cons x xs ih =>
    cases xs with
    | nil => simpa [joinSpec] using hx x (by simp)
    | cons y r =>
      rw [joinSpec]
      exact valid_append (valid_append (hx x (by simp)) hs) (ih (fun z hz => hx z (by simp [hz])))

example : validUtf8 (b!"héllo 世界 🌎") = true := by decide
example : validUtf8 [0xC0, 0x80] = false := by decide
example : validUtf8 [0xED, 0xA0, 0x80] = false := by decide
example : validUtf8 [0xF4, 0x90, 0x80, 0x80] = false := by decide
example : validUtf8 [0xE4, 0xB8] = false := by decide

end NaijaVerif.Strs
