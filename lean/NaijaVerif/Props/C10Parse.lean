/-
C10 (parser part) — layout is insignificant: the parser's decisions depend on the token kinds
only, never on the spans.

`parseProgram` (`Model/Parse.lean`) is run on a token list and on the same list with every span
replaced by `0..0`: the second run yields the span-erased AST and the span-erased diagnostics of
the first (`parse_commutes_with_erasure`).  Hence two token lists with the same token kinds and
payloads (in particular: the same program laid out differently — other whitespace, comments, line
breaks) parse to ASTs that differ in spans only, with the same diagnostics kinds in the same order
and the same number of labels, and one is accepted iff the other is.

The statements are for all token lists, including malformed ones (every recovery path of the parser
is covered by the commutation lemmas of `Lemmas/ParseErase.lean`), and for every amount of fuel.
-/
import NaijaVerif.Lemmas.ParseErase
import NaijaVerif.Lemmas.ParseFlag
import NaijaVerif.Lemmas.ParseRoundTrip

namespace NaijaVerif.C10Parse
open NaijaVerif NaijaVerif.Parse

/-- Parsing the span-erased tokens gives the span-erased AST and the span-erased diagnostics. -/
theorem parse_commutes_with_erasure (toks : List SpTok) :
    parseProgram (toks.map eraseTok)
      = (eraseSpans (parseProgram toks).1, (parseProgram toks).2.map eraseDiag) :=
  parseProgram_erase toks

/-- The same with explicit fuel: also the *failure* to finish within the fuel is layout independent. -/
theorem parseFuel_commutes_with_erasure (fuel : Nat) (toks : List SpTok) :
    parseProgramFuel fuel (toks.map eraseTok)
      = (parseProgramFuel fuel toks).map (fun r => (eraseSpans r.1, r.2.map eraseDiag)) :=
  parseProgramFuel_erase fuel toks

/-- Two token lists with the same tokens (kinds and payloads) and arbitrary spans: same AST up to
    spans, same diagnostic kinds in the same order, same diagnostics up to spans. -/
theorem layout_insensitive (toks₁ toks₂ : List SpTok)
    (h : toks₁.map (·.tok) = toks₂.map (·.tok)) :
    eraseSpans (parseProgram toks₁).1 = eraseSpans (parseProgram toks₂).1 ∧
    (parseProgram toks₁).2.map (·.kind) = (parseProgram toks₂).2.map (·.kind) ∧
    (parseProgram toks₁).2.map eraseDiag = (parseProgram toks₂).2.map eraseDiag := by
  have h1 := parse_commutes_with_erasure toks₁
  have h2 := parse_commutes_with_erasure toks₂
  rw [eraseTok_congr h, h2] at h1
  have ha := congrArg Prod.fst h1
  have hd := congrArg Prod.snd h1
  simp only at ha hd
  refine ⟨ha.symm, ?_, hd.symm⟩
  rw [← eraseDiag_kind (parseProgram toks₁).2, ← eraseDiag_kind (parseProgram toks₂).2, hd]

/-- Acceptance (no syntax diagnostics) does not depend on the layout. -/
theorem acceptance_layout_insensitive (toks₁ toks₂ : List SpTok)
    (h : toks₁.map (·.tok) = toks₂.map (·.tok)) :
    (parseProgram toks₁).2 = [] ↔ (parseProgram toks₂).2 = [] := by
  have hd := (layout_insensitive toks₁ toks₂ h).2.2
  constructor
  · intro h1; rw [h1] at hd; simpa using hd.symm
  · intro h2; rw [h2] at hd; simpa using hd

/-! ### The `escaped` flag of a string token

`Tok.str content escaped`: the flag says that the lexeme held an escape sequence (the Rust lexer then hands
over an owned buffer instead of a slice of the source).  The parser reads it in one place
(`parse_string_literal`, `strParts`): a content with a `{` is split as a template only when the flag is
off.  `flagErase` sets the flag of every string token whose content holds no `{`. -/

/-- **The parser does not read the `escaped` flag of a string token whose content holds no `{`**: on the
flag-erased tokens `parse_program` gives the same tree and the same diagnostics.  For all token lists,
malformed ones included. -/
theorem parse_ignores_str_flag (toks : List SpTok) :
    parseProgram (toks.map fun t => ⟨flagErase t.tok, t.span⟩) = parseProgram toks :=
  parseProgram_flag toks

/-- Token lists with the same tokens have the same tokens up to the flag. -/
theorem toks_anyflag {toks₁ toks₂ : List SpTok} (h : toks₁.map (·.tok) = toks₂.map (·.tok)) :
    toks₁.map (fun t => flagErase t.tok) = toks₂.map (fun t => flagErase t.tok) := by
  have h' := congrArg (List.map flagErase) h
  simpa [List.map_map, Function.comp_def] using h'

/-- `layout_insensitive` up to the flag: two token lists with the same tokens up to the `escaped` flag of
the strings without `{`, and arbitrary spans: same AST up to spans, same diagnostics up to spans. -/
theorem layout_insensitive_anyflag (toks₁ toks₂ : List SpTok)
    (h : toks₁.map (fun t => flagErase t.tok) = toks₂.map (fun t => flagErase t.tok)) :
    eraseSpans (parseProgram toks₁).1 = eraseSpans (parseProgram toks₂).1 ∧
    (parseProgram toks₁).2.map (·.kind) = (parseProgram toks₂).2.map (·.kind) ∧
    (parseProgram toks₁).2.map eraseDiag = (parseProgram toks₂).2.map eraseDiag := by
  have := layout_insensitive (toks₁.map flagTok) (toks₂.map flagTok)
    (by simpa [List.map_map, Function.comp_def] using h)
  rwa [parseProgram_flag, parseProgram_flag] at this

/-- the flag IS read when the content holds a `{` (`{x}` unescaped is a template, escaped it is not) and
`flagErase` keeps it there; it is not read when the content holds none, and `flagErase` identifies the two -/
example : (match strParts [123, 120, 125] false with | .interp _ => true | .static _ => false) = true ∧
    (match strParts [123, 120, 125] true with | .interp _ => true | .static _ => false) = false := by decide +kernel
example : flagErase (.str [123, 120, 125] false) ≠ flagErase (.str [123, 120, 125] true) ∧
    flagErase (.str [97, 98, 99] false) = flagErase (.str [97, 98, 99] true) := by decide

/-! ### Non-vacuity: `make x get 1` laid out in two ways -/

/-- `make x get 1` -/
def ex₁ : List SpTok :=
  [⟨.make, ⟨0, 4⟩⟩, ⟨.ident [120], ⟨5, 6⟩⟩, ⟨.get, ⟨7, 10⟩⟩, ⟨.num [49], ⟨11, 12⟩⟩]

/-- the same tokens after a comment line and with wider spacing -/
def ex₂ : List SpTok :=
  [⟨.make, ⟨20, 24⟩⟩, ⟨.ident [120], ⟨27, 28⟩⟩, ⟨.get, ⟨31, 34⟩⟩, ⟨.num [49], ⟨40, 41⟩⟩]

/-- a malformed program (`make get )`) in two layouts: recovery paths are covered too -/
def bad₁ : List SpTok := [⟨.make, ⟨0, 4⟩⟩, ⟨.get, ⟨5, 8⟩⟩, ⟨.rparen, ⟨9, 10⟩⟩]
def bad₂ : List SpTok := [⟨.make, ⟨3, 7⟩⟩, ⟨.get, ⟨10, 13⟩⟩, ⟨.rparen, ⟨20, 21⟩⟩]

example : ex₁.map (·.tok) = ex₂.map (·.tok) := by decide
example : bad₁.map (·.tok) = bad₂.map (·.tok) := by decide

-- the two ASTs differ before erasure …
example : (parseProgram ex₁).1.span = ⟨0, 12⟩ ∧ (parseProgram ex₂).1.span = ⟨20, 41⟩ := by decide
example : (parseProgram ex₁).1.span ≠ (parseProgram ex₂).1.span := by decide
-- … both are accepted …
example : (parseProgram ex₁).2 = [] ∧ (parseProgram ex₂).2 = [] := by decide
-- … and the theorem applies
example : eraseSpans (parseProgram ex₁).1 = eraseSpans (parseProgram ex₂).1 :=
  (layout_insensitive ex₁ ex₂ (by decide)).1

-- the malformed program is rejected in both layouts, with diagnostics at different places
example : (parseProgram bad₁).2 ≠ [] ∧ (parseProgram bad₂).2 ≠ [] := by decide
example : (parseProgram bad₁).2 ≠ (parseProgram bad₂).2 := by decide
example : (parseProgram bad₁).2.map (·.kind) = (parseProgram bad₂).2.map (·.kind) :=
  (layout_insensitive bad₁ bad₂ (by decide)).2.1

/-! ## Redundant parentheses

`printAt p 0 e` prints `e` with the parentheses the binding-power table requires plus `p e'` redundant
pairs around every sub-expression `e'` (`Lemmas/ParseRoundTrip.lean`; the round trip itself is
`C01Parse.round_trip`). -/

/-- The Pratt loop never continues at `t`: not `.`, `(`, `[`, and not a binary operator. -/
def NotContinuation (t : Tok) : Prop := isPostfixStart t = false ∧ binInfo t = none

theorem stopsAt_zero_of_notContinuation {t : Tok} (h : NotContinuation t) : StopsAt 0 t :=
  ⟨fun _ => h.1, fun op l r hb => by rw [h.2] at hb; cases hb⟩

/-- **Redundant parentheses do not change the parse**: for every well-formed expression `e` and any
    two choices `p`, `q` of redundant parentheses (any number of pairs around any sub-expressions),
    the real `parseExpr` returns the same tree `e`, the same remaining input and no diagnostics on
    both token sequences (for all sufficiently large fuel). -/
theorem redundant_parentheses (p q : Expr → Nat) (e : Expr) (hwf : WF e) (st : PState)
    (hstop : NotContinuation st.cur.tok) (hsp : st.cur.span = zspan) :
    ∃ f0, ∀ f, f0 ≤ f →
      parseExpr f 0 (pushToks (printAt p 0 e) st) = some (e, st) ∧
      parseExpr f 0 (pushToks (printAt q 0 e) st) = some (e, st) := by
  have key := fun (r : Expr → Nat) =>
    ((key_all r (esize e)).1 e (Nat.le_refl _) hwf).1 0 0 st 1 (e, st) (Nat.le_refl _)
      (Nat.zero_le _) (stops_mono (stopsAt_zero_of_notContinuation hstop) (Nat.le_succ _)) hsp
      (cont_stop' e (stopsAt_zero_of_notContinuation hstop) (Nat.zero_le _))
  obtain ⟨f1, h1⟩ := key p
  obtain ⟨f2, h2⟩ := key q
  exact ⟨max f1 f2, fun f hf =>
    ⟨parseExpr_mono_le (Nat.le_trans (Nat.le_max_left _ _) hf) h1,
     parseExpr_mono_le (Nat.le_trans (Nat.le_max_right _ _) hf) h2⟩⟩

/-- The same for tokens with **arbitrary spans** (any layout): if the token kinds of the input are
    `printAt p 0 e` followed by a non-continuation token, then `parseExpr` returns a tree that is `e`
    up to spans, stops in front of that token, and adds no diagnostic — whatever `p` is. -/
theorem redundant_parentheses_any_layout (p : Expr → Nat) (e : Expr) (hwf : WF e) (st st0 : PState)
    (hkinds : eraseSt st = pushToks (printAt p 0 e) st0)
    (hstop : NotContinuation st0.cur.tok) (hsp : st0.cur.span = zspan) :
    ∃ f0, ∀ f, f0 ≤ f → ∃ e' st', parseExpr f 0 st = some (e', st') ∧ eraseExpr e' = e ∧
      eraseSt st' = st0 := by
  obtain ⟨f0, h⟩ := redundant_parentheses p p e hwf st0 hstop hsp
  refine ⟨f0, fun f hf => ?_⟩
  have h1 := (h f hf).1
  have h2 := (expr_erase f).1 0 st
  rw [hkinds, h1] at h2
  cases hp : parseExpr f 0 st with
  | none => rw [hp] at h2; simp at h2
  | some r =>
    rw [hp] at h2
    simp only [Option.map_some, Option.some.injEq, Prod.mk.injEq] at h2
    exact ⟨r.1, r.2, rfl, h2.1.symm, h2.2.symm⟩

/-- Non-vacuity: `((1)) add (2)` and `1 add 2` are two parenthesisations of the same tree. -/
example : printAt (fun e => match e with | .num [49] _ => 2 | .num _ _ => 1 | _ => 0) 0
      (.binary .add (.num [49] zspan) (.num [50] zspan) zspan)
    = [.lparen, .lparen, .num [49], .rparen, .rparen, .add, .lparen, .num [50], .rparen] := by decide
example : printAt (fun _ => 0) 0 (.binary .add (.num [49] zspan) (.num [50] zspan) zspan)
    = [.num [49], .add, .num [50]] := by decide

end NaijaVerif.C10Parse
