import NaijaVerif.Lemmas.BridgeWS
import NaijaVerif.Props.C04
/-
C04 — the bridge between the static and the dynamic half.

`Props/C04.lean` proves `c04_dynamic`: for every WELL-SCOPED annotated program (`Eval.WellScoped`, a
decidable structural check: every reference carries a `LocalId` that a lexically enclosing block or
parameter list declares, every `make` one of its own block, every user call a `FunctionId` defined
by a lexically enclosing block, no id declared twice along a lexical path) the run with the lookup
the code performs equals the run with lexical lookup.  Until now `WellScoped` was only EVALUATED on
the real resolver's output of each accepted program of the `run` stream.

Here it is PROVED from the resolver model: whenever `Resolve.resolve q` reports no error, its
annotated output is well scoped (`c04_bridge`).  The proof is one walk over
`checkExpr … checkOptBlock` (`Lemmas/BridgeFacts, BridgeRange, BridgeWalk, BridgeWS`):
  (i)  `LocalId`s are allocated as `facts.locals.length`, which only grows, so the ids a nested
       block / parameter list declares lie in the interval allocated while it is checked, and
       every id of the lexical context lies outside it (`freshIn`); a `make` carries an id of its
       own block (`headDecl`);
  (ii) `predeclare` allocates the `FunctionId`s of a block before its statements are checked; when
       it reports nothing the block's definitions have pairwise different names and every
       signature is written on its definition (`headFn`, and `fnBoundIn` of every call that found it);
  (iii) a reference without an `undeclared…` diagnostic carries the id of the entry the lookup
       found, and every entry of the checker's scopes is declared by the lexical context (`boundIn`).
Hence `c04_dynamic` applies to EVERY accepted program: `c04_accepted`.
-/
namespace NaijaVerif.Props.C04Bridge
open NaijaVerif NaijaVerif.Eval

/-- All diagnostics of the resolver model are errors: "no error" is "no diagnostic". -/
theorem no_errors_iff (q : Block) :
    hasErrors (Resolve.resolve q).diags = false ↔ (Resolve.resolve q).rdiags = [] := by
  have hd : (Resolve.resolve q).diags = (Resolve.resolve q).rdiags.map Resolve.RDiag.toDiag := rfl
  rw [hd]
  cases (Resolve.resolve q).rdiags with
  | nil => simp [hasErrors]
  | cons d ds => simp [hasErrors, Resolve.RDiag.toDiag]

/-- **The bridge**: the annotated output of the resolver model for a program it accepts is well
scoped — for every program, whatever its size. -/
theorem c04_bridge (q : Block) (h : hasErrors (Resolve.resolve q).diags = false) :
    WellScoped (Resolve.resolve q).root :=
  Resolve.resolve_wellScoped true q ((no_errors_iff q).1 h)

/-- The same with `¬ hasErrors` spelled as a proposition. -/
theorem c04_bridge_prop (q : Block) (h : ¬ hasErrors (Resolve.resolve q).diags = true) :
    WellScoped (Resolve.resolve q).root :=
  c04_bridge q (by simpa using h)

/-- **C04 for every accepted program**: the resolver annotates every occurrence with the nearest
enclosing declaration of the program text (static half), and the run of the annotated program with
the lookup the code performs (`dynamic`: most recent instance of the declaring scope) is the run
with lexical lookup — same output, same ending, same error position — for every configuration,
number type and fuel.  No hypothesis beyond acceptance. -/
theorem c04_accepted {N : Type} [NumOps N] (cfg : RunCfg) (fuel : Nat) (q : Block)
    (h : hasErrors (Resolve.resolve q).diags = false) :
    Resolve.lexBlock [] (Resolve.resolve q).root = true ∧
    (run { cfg with lookup := .dynamic } fuel (Resolve.resolve q).root : Outcome N) =
      run { cfg with lookup := .lexical } fuel (Resolve.resolve q).root :=
  C04.c04_resolved_program cfg fuel q (c04_bridge q h)

/-- The invariant `MR` holds at the entry of the root block of every accepted program (block entry
with hoisting), in the lexical context of that block. -/
theorem mr_root_entry {N : Type} (cfg : RunCfg) (q : Block) (h : hasErrors (Resolve.resolve q).diags = false) :
    MR (N := N) cfg (.ofStmts (Resolve.resolve q).root.stmts :: [Binder.root])
      (hoist cfg (Resolve.resolve q).root.stmts
        (pushScope (State.init cfg) (.block (Resolve.resolve q).root.span) (State.init cfg : State N).chain []
          (declIds (Resolve.resolve q).root.stmts))) :=
  C04.mr_block_entry cfg [Binder.root] (State.init cfg) (C04.mr_initial cfg cfg) _ (c04_bridge q h)

/-! ### Non-vacuity -/

private def sp : Span := ⟨0, 0⟩

/-- An UN-annotated program (what the parser hands to the resolver) with a capture, recursion, a
forward call, a shadowing parameter, a re-declaration and an inner block:
```
make t get 0
walk(2)
do walk(d) start
  make x get d
  do show() start t get t add x  shout("{x} {t}") end
  if to say (d pass 0) start walk(d minus 1) end
  show()
  make x get 9
end
start make t get 5 shout(t) end
shout(t)
``` -/
def source : Block :=
  .mk [.assign (b!"t") sp (.num (b!"0") sp) none none sp,
       .expr (.call (.var (b!"walk") none sp) [.num (b!"2") sp] none sp) none sp,
       .fnDef (b!"walk") sp [⟨b!"d", sp, none⟩]
         (.mk [.assign (b!"x") sp (.var (b!"d") none sp) none none sp,
               .fnDef (b!"show") sp []
                 (.mk [.assignExisting (b!"t") sp (.binary .add (.var (b!"t") none sp) (.var (b!"x") none sp) sp) none none sp,
                       .expr (.call (.var (b!"shout") none sp)
                         [.str (.interp [.var (b!"x") none, .lit (b!" "), .var (b!"t") none]) sp] none sp) none sp] sp)
                 none none sp,
               .ifS (.binary .gt (.var (b!"d") none sp) (.num (b!"0") sp) sp)
                 (.mk [.expr (.call (.var (b!"walk") none sp)
                   [.binary .minus (.var (b!"d") none sp) (.num (b!"1") sp) sp] none sp) none sp] sp) none none sp,
               .expr (.call (.var (b!"show") none sp) [] none sp) none sp,
               .assign (b!"x") sp (.num (b!"9") sp) none none sp] sp) none none sp,
       .block (.mk [.assign (b!"t") sp (.num (b!"5") sp) none none sp,
                    .expr (.call (.var (b!"shout") none sp) [.var (b!"t") none sp] none sp) none sp] sp) none sp,
       .expr (.call (.var (b!"shout") none sp) [.var (b!"t") none sp] none sp) none sp] sp

/-- The hypothesis is satisfiable, and the conclusion agrees with the decidable check. -/
example : hasErrors (Resolve.resolve source).diags = false ∧
    decide (WellScoped (Resolve.resolve source).root) = true := by decide +kernel

/-- The run the theorem speaks about is a real run: each activation of `walk` prints ITS `x`
(0, 1, 2 — innermost first) and the shared `t`; the inner block prints its own `t`. -/
example : Toy.summary (run { Toy.cfg with lookup := .dynamic } 60 (Resolve.resolve source).root) =
    ([b!"0 0", b!"1 1", b!"2 3", b!"5", b!"3"], 0) := by decide +kernel

/-- An instance of `c04_accepted`. -/
example : (run { Toy.cfg with lookup := .dynamic } 60 (Resolve.resolve source).root : Outcome Int) =
    run { Toy.cfg with lookup := .lexical } 60 (Resolve.resolve source).root :=
  (c04_accepted Toy.cfg 60 source (by decide +kernel)).2

/-- Acceptance matters: the output for a REJECTED program (`shout(x)`, `x` undeclared) is not well
scoped — the reference carries no binding. -/
example : hasErrors (Resolve.resolve (.mk [.expr (.call (.var (b!"shout") none sp) [.var (b!"x") none sp] none sp) none sp] sp)).diags = true ∧
    ¬ WellScoped (Resolve.resolve (.mk [.expr (.call (.var (b!"shout") none sp) [.var (b!"x") none sp] none sp) none sp] sp)).root := by
  decide +kernel

end NaijaVerif.Props.C04Bridge
