import NaijaVerif.Model.Eval
import NaijaVerif.Model.Resolve
import NaijaVerif.Lemmas.EvalRepair
import NaijaVerif.Lemmas.EvalToy
import NaijaVerif.Gen.PanicSites
import NaijaVerif.Gen.TypeRules
/-
C06 (evaluator part) — an accepted program never crashes the interpreter.

State of the code: the `fix:` commit for D-06 / D-04 turned every panic site that an ACCEPTED
program could reach (through dynamic typing, a short argument list on a dynamic receiver, a bare
member expression, a non-name callee, an index-assignment root that is no variable, a call before
the captured variable's `make`) into an ordinary runtime error.  The model keeps one constructor of
`PanicSite` per such place: `site.fixed = true` — now the runtime error `site.fallback` — or a
RESIDUAL site (`site.fixed = false`), still a panic in the source, which no accepted program
reaches for a static reason.  `cfg.panics = false` is the current code, `true` the original tree.

1. PANIC-SITE ACCOUNTING against the source: `Gen/PanicSites.lean` lists (regex over the current
   `/repo/src/runtime.rs`, `/repo/src/builtins/*.rs`) every `unreachable!/unimplemented!/assert!/
   assert_eq!/.expect(/.unwrap()/args[i]` site.  `sites_accounted`: each of them is either the
   label of a RESIDUAL `PanicSite` constructor or is in `unreachableByConstruction` with its
   one-line justification.  A panic site added to the Rust (or a fixed site turned back into a
   panic) produces a label that is in neither list, and this file stops building.
2. THE FIX IS A REFINEMENT (`repaired_simulates`): the current code behaves like the original one,
   except that a panic at a fixed site became the runtime error `site.fallback` with the same
   output; `current_panics_only_residual`: the current code can only panic at a residual site —
   for EVERY program, accepted or not.
3. C06 (`c06_full`): accepted ⇒ no panic.  NOTE: as written here `c06_full` and `ResidualUnreachable`
   quantify over ARBITRARY optimisation plans, number instances and annotated blocks; that is stronger than
   the property and false (`Props/C06Accepted.lean`: `c06_full_is_false_for_arbitrary_plans` — a plan that
   removes a called function).  The statement for what the pipeline actually runs, with all nine residual
   sites discharged from the lexer / parser / resolver models, is `C06Accepted.c06_pipeline` /
   `c06_source` / `c06_accepted` (hypotheses: the plan keeps called functions, the number type parses
   digit lexemes).  `c06_of_static_guarantees` proves `c06_full` from the explicit,
   narrow hypothesis `ResidualUnreachable` — accepted programs do not reach the nine residual
   sites, each of which is a static guarantee of scanner / parser / resolver (listed at
   `PanicSite.fixed`) whose proof belongs to the resolver model.  The seven historical witnesses
   (`witnesses_panic_pinned`) now end with a runtime error (`witnesses_fixed`).
4. THE DYNAMIC-TYPE DISCIPLINE, site by site: `arith_panics_iff`, `unary_panics_iff`,
   `truthy_panics_iff`, `logicRhs_panics_iff`, `indexRead_panics_iff` characterise by the RUNTIME TYPE
   TAGS of the operands exactly when an operator / condition / index step reports its site.
5. THE FINITE OBLIGATION OF D-09d (`d09d`): no (operator, τ₁, τ₂) the real checker accepts for
   literal-typed operands (`Gen/TypeRules.lean`, probed each run) lacks a case in the runtime's
   operator dispatch.
-/
namespace NaijaVerif.Props.C06Eval
open NaijaVerif NaijaVerif.Eval

/-- Sites no AST can reach, with the reason. -/
def unreachableByConstruction : List (Bytes × String) := [
  (b!"runtime.exec_block_with_flow.expect.0",
    "inside #[cfg(test)]: the skipped-statement counter only exists in the crate's own tests"),
  (b!"runtime.register_function.expect.0",
    "FunctionInfo.params of a function found by function_by_body is Some: push_function stores Some(params); only the root function has None and the root block is no FunctionDef body"),
  (b!"runtime.register_function.expect.1",
    "hoist_block_functions runs right after push_scope_with_capacity in exec_block_with_flow, so function_scopes is non-empty"),
  (b!"runtime.eval_expr.unreachable.0",
    "number/number arm: And/Or are matched by the two earlier arms of `match op`, the remaining eight operators all have a case"),
  (b!"runtime.eval_expr.unwrap.0", "fmt::Write into LenWriter never fails"),
  (b!"runtime.eval_expr.unwrap.1", "fmt::Write into ArenaString never fails (allocation failure aborts)"),
  (b!"runtime.eval_expr.unwrap.2", "fmt::Write into LenWriter never fails"),
  (b!"runtime.eval_expr.unwrap.3", "fmt::Write into ArenaString never fails (allocation failure aborts)"),
  (b!"runtime.eval_function_call.unreachable.0",
    "eval_function_call is only called from the Expr::Call arm of eval_expr"),
  (b!"runtime.eval_function_call.expect.0",
    "env.last_mut() directly after push_scope_with_capacity"),
  (b!"runtime.eval_builtin_call.args.0", "arg_values[0] after assert_eq!(arg_values.len(), 1): every GlobalBuiltin has arity 1"),
  (b!"runtime.eval_builtin_call.args.1", "arg_values[0] after assert_eq!(arg_values.len(), 1)"),
  (b!"runtime.eval_builtin_call.args.2", "arg_values[0] after assert_eq!(arg_values.len(), 1)"),
  (b!"runtime.eval_builtin_call.args.3", "arg_values[0] after assert_eq!(arg_values.len(), 1)"),
  (b!"runtime.eval_builtin_call.args.4", "arg_values[0] after assert_eq!(arg_values.len(), 1)"),
  (b!"runtime.eval_array_member_call_mut.unreachable.0",
    "called only when requires_mut_receiver() holds, which excludes Len and Join (MutM.ofName)"),
  (b!"runtime.eval_process_command_call_mut.unreachable.0",
    "called only when requires_mut_receiver() holds, which excludes Run (MutM.ofName)"),
  (b!"runtime.eval_array_member_call.expect.0", "the caller matched ArrayBuiltin::from_name(field) = Some"),
  (b!"runtime.eval_array_member_call.unreachable.0",
    "push/pop/reverse were dispatched by name in eval_member_call before the receiver was evaluated"),
  (b!"runtime.eval_process_command_call.unreachable.0",
    "every ProcessCommandBuiltin except Run was dispatched by name in eval_member_call"),
  (b!"runtime.eval_string_member_call.expect.0", "the caller matched StringBuiltin::from_name(field) = Some"),
  (b!"runtime.eval_number_member_call.expect.0", "the caller matched NumberBuiltin::from_name(field) = Some"),
  (b!"runtime.eval_string_expr.expect.0", "a segment index fits u32: a string literal has fewer than 2^32 segments"),
  (b!"runtime.eval_string_expr.unwrap.0", "fmt::Write into ArenaString never fails"),
  (b!"runtime.relocate_return_value.unreachable.0",
    "memory layer (C02): the `let … else` re-matches the pattern that set is_frame_string"),
  (b!"runtime.bound_param_ids.expect.0", "a parameter count fits u32"),
  (b!"array.join.unwrap.0", "fmt::Write into ArenaString never fails"),
  (b!"tw.maximal_suffix.index.0",
    "x[i + k - 1]: in range on every path — proved for the model of tw.rs in Props/C13 (maximalSuffix_total); i + k ≤ j + k - 1"),
  (b!"tw.maximal_suffix.index.1",
    "x[j + k - 1]: in range — Props/C13 maximalSuffix_total (the loop guard is j + k ≤ n); the model keeps the constructor twMaximalSuffix for the pre-fix tree (StrOps.pinnedD13)")
]

def modelLabels : List Bytes := PanicSite.all.filterMap PanicSite.srcLabel

/-- `PanicSite.all` really lists every constructor. -/
theorem all_complete : ∀ s : PanicSite, s ∈ PanicSite.all := by
  intro s; cases s <;> decide

/-- Different constructors stand for different source sites. -/
theorem labels_nodup : modelLabels.Nodup := by decide +kernel

/-- Every panic site of the source is accounted for. -/
theorem sites_accounted :
    ∀ l ∈ Gen.PanicSites.labels, l ∈ modelLabels ∨ l ∈ unreachableByConstruction.map (·.1) := by
  decide +kernel

/-- Every residual site exists in the source (so its line can be compared); the fixed ones have
no label: they are no panic sites. -/
theorem model_sites_exist : ∀ l ∈ modelLabels, l ∈ Gen.PanicSites.labels := by
  decide +kernel

theorem residual_iff_label : ∀ s ∈ PanicSite.all, (s.fixed = false ↔ s.srcLabel.isSome = true) := by
  decide +kernel

/-- No site is claimed twice (reachable and unreachable at once), except the documented
`tw.maximal_suffix.index.1`. -/
theorem accounting_disjoint :
    ∀ l ∈ modelLabels, l ∈ unreachableByConstruction.map (·.1) → l = b!"tw.maximal_suffix.index.1" := by
  decide +kernel

/-! ### 2. The fix is a refinement; the current code panics only at residual sites -/

/-- The current code (`cfg.repaired`) against the original one (`cfg`, any setting): same run,
except that a panic at a fixed site is the runtime error `site.fallback` with the same output. -/
theorem repaired_simulates {N : Type} [NumOps N] (cfg : RunCfg) (fuel : Nat) (p : Block) :
    match (run cfg fuel p : Outcome N) with
    | .panic site out =>
        (site.fixed = true → ∃ sp, (run cfg.repaired fuel p : Outcome N) = .rt site.fallback sp out) ∧
        (site.fixed = false → (run cfg.repaired fuel p : Outcome N) = .panic site out)
    | r => (run cfg.repaired fuel p : Outcome N) = r := by
  unfold run
  have h := (sim_all (N := N) cfg fuel).block p (State.init cfg)
  have hi : (State.init cfg.repaired : State N) = State.init cfg := rfl
  rw [hi]
  cases hr : execBlock cfg fuel p (State.init cfg : State N) with
  | ok a st => rw [hr] at h; simp only [Sim] at h; rw [h]
  | err k sp st => rw [hr] at h; simp only [Sim] at h; rw [h]
  | fuel => rw [hr] at h; simp only [Sim] at h; rw [h]
  | panic s st =>
    rw [hr] at h
    obtain ⟨h1, h2⟩ := h
    refine ⟨fun hf => ?_, fun hf => ?_⟩
    · obtain ⟨sp, h⟩ := h1 hf; rw [h]; exact ⟨sp, rfl⟩
    · rw [h2 hf]

/-- THE CURRENT CODE PANICS ONLY AT RESIDUAL SITES — for every program, every fuel, every number
type and host configuration. -/
theorem current_panics_only_residual {N : Type} [NumOps N] (cfg : RunCfg) (fuel : Nat) (p : Block)
    (site : PanicSite) (out : List (Value N)) (h : run cfg.repaired fuel p = .panic site out) :
    site.fixed = false := by
  have hs := repaired_simulates (N := N) cfg.repaired fuel p
  have hrr : cfg.repaired.repaired = cfg.repaired := rfl
  rw [hrr, h] at hs
  cases hf : site.fixed with
  | false => rfl
  | true => obtain ⟨sp, hc⟩ := hs.1 hf; cases hc

/-- A panic of the original code at a fixed site is a runtime error of the current code with the
same output. -/
theorem panic_becomes_error {N : Type} [NumOps N] (cfg : RunCfg) (fuel : Nat) (p : Block) (site : PanicSite)
    (out : List (Value N)) (h : run cfg fuel p = .panic site out) (hf : site.fixed = true) :
    ∃ sp, (run cfg.repaired fuel p : Outcome N) = .rt site.fallback sp out := by
  have := repaired_simulates (N := N) cfg fuel p
  rw [h] at this; exact this.1 hf

/-! ### 3. The full statement -/

/-- Accepted: the resolver model reports no diagnostic (all its diagnostics are errors). The
program that runs is the resolver's annotated copy. -/
def Accepted (p : Block) : Prop := (Resolve.resolve p).diags = []

instance (p : Block) : Decidable (Accepted p) := by unfold Accepted; exact inferInstance

/-- C06 for the evaluator (current code): an accepted program never panics, whatever the numbers,
the host configuration and the fuel. -/
def c06_full : Prop :=
  ∀ (N : Type) [NumOps N] (cfg : RunCfg), cfg.panics = false → ∀ p : Block, Accepted p →
    ∀ fuel : Nat, (run cfg fuel (Resolve.resolve p).root : Outcome N).isPanic = false

/-- The remaining hypothesis, explicit and narrow: an accepted program does not reach one of the
nine residual sites (`PanicSite.fixed = false`): a number lexeme that does not parse, a user or
global call with the wrong argument count, a callee that is not hoisted, `comot`/`next` leaving a
function body, a parameter id outside the local range, an index assignment without an index, an
out-of-range read in `maximal_suffix`.  Each is a guarantee of scanner / parser / resolver (C07,
C09, C13); none involves run-time types. -/
def ResidualUnreachable : Prop :=
  ∀ (N : Type) [NumOps N] (cfg : RunCfg), cfg.panics = false → ∀ p : Block, Accepted p →
    ∀ (fuel : Nat) (site : PanicSite) (out : List (Value N)),
      run cfg fuel (Resolve.resolve p).root = .panic site out → site.fixed = true

theorem c06_of_static_guarantees (h : ResidualUnreachable) : c06_full := by
  intro N _ cfg hp p hacc fuel
  cases hr : (run cfg fuel (Resolve.resolve p).root : Outcome N) with
  | panic site out =>
    exfalso
    have hfix := h N cfg hp p hacc fuel site out hr
    have hc : cfg.repaired = cfg := by
      cases cfg; simp only [RunCfg.repaired] at *; subst hp; rfl
    have := current_panics_only_residual (N := N) cfg fuel _ site out (by rw [hc]; exact hr)
    rw [hfix] at this; cases this
  | _ => rfl

/-- …and conversely: C06 is EXACTLY the unreachability of the residual sites. -/
theorem static_guarantees_of_c06 (h : c06_full) : ResidualUnreachable := by
  intro N _ cfg hp p hacc fuel site out hr
  have := h N cfg hp p hacc fuel
  rw [hr] at this; simp [Outcome.isPanic] at this

/-- `do id(x) start return x end shout(true and id(5))` — right operand of `and`, number, through a
parameter (D-06). -/
def witnessAnd : Block := (.mk [(.fnDef [105, 100] ⟨0, 8⟩ [{ name := [120], span := ⟨6, 7⟩, bind := none }] (.mk [(.ret (some (.var [120] none ⟨22, 23⟩)) none ⟨15, 27⟩)] ⟨15, 27⟩) none none ⟨0, 33⟩), (.expr (.call (.var [115, 104, 111, 117, 116] none ⟨28, 33⟩) [(.binary .and (.bool true ⟨34, 38⟩) (.call (.var [105, 100] none ⟨43, 45⟩) [(.num [53] ⟨46, 47⟩)] none ⟨43, 49⟩) ⟨34, 49⟩)] none ⟨28, 49⟩) none ⟨28, 49⟩)] ⟨0, 49⟩)
/-- `do f(a) start return a[0] end f(1)` — index base, number, parameter (D-06). -/
def witnessIndexBase : Block := (.mk [(.fnDef [102] ⟨0, 7⟩ [{ name := [97], span := ⟨5, 6⟩, bind := none }] (.mk [(.ret (some (.index (.var [97] none ⟨21, 22⟩) (.num [48] ⟨23, 24⟩) ⟨22, 25⟩ ⟨21, 25⟩)) none ⟨14, 29⟩)] ⟨14, 29⟩) none none ⟨0, 31⟩), (.expr (.call (.var [102] none ⟨30, 31⟩) [(.num [49] ⟨32, 33⟩)] none ⟨30, 34⟩) none ⟨30, 34⟩)] ⟨0, 34⟩)
/-- `make x get 1 x get "s" shout(x minus 1)` — `minus`, string, variable reassigned at another
type (D-06). -/
def witnessReassigned : Block := (.mk [(.assign [120] ⟨5, 6⟩ (.num [49] ⟨11, 12⟩) none none ⟨0, 14⟩), (.assignExisting [120] ⟨13, 14⟩ (.str (.static [115]) ⟨19, 22⟩) none none ⟨13, 28⟩), (.expr (.call (.var [115, 104, 111, 117, 116] none ⟨23, 28⟩) [(.binary .minus (.var [120] none ⟨29, 30⟩) (.num [49] ⟨37, 38⟩) ⟨29, 39⟩)] none ⟨23, 39⟩) none ⟨23, 39⟩)] ⟨0, 39⟩)
/-- `shout("a" add true)` — accepted for LITERAL operand types, no dynamic typing involved (D-09d). -/
def witnessLiteral : Block := (.mk [(.expr (.call (.var [115, 104, 111, 117, 116] none ⟨0, 5⟩) [(.binary .add (.str (.static [97]) ⟨6, 9⟩) (.bool true ⟨14, 18⟩) ⟨6, 19⟩)] none ⟨0, 19⟩) none ⟨0, 19⟩)] ⟨0, 19⟩)
/-- `f() make x get 1 do f() start shout(x) end` — call before the captured variable's `make` (D-04). -/
def witnessCallBeforeDecl : Block := (.mk [(.expr (.call (.var [102] none ⟨0, 1⟩) [] none ⟨0, 8⟩) none ⟨0, 8⟩), (.assign [120] ⟨9, 10⟩ (.num [49] ⟨15, 16⟩) none none ⟨4, 19⟩), (.fnDef [102] ⟨17, 23⟩ [] (.mk [(.expr (.call (.var [115, 104, 111, 117, 116] none ⟨30, 35⟩) [(.var [120] none ⟨36, 37⟩)] none ⟨30, 42⟩) none ⟨30, 42⟩)] ⟨30, 42⟩) none none ⟨17, 42⟩)] ⟨0, 42⟩)
/-- `do g(b) start return b.len() end g(true)` — boolean receiver, `unimplemented!` (D-06). -/
def witnessBoolReceiver : Block := (.mk [(.fnDef [103] ⟨0, 7⟩ [{ name := [98], span := ⟨5, 6⟩, bind := none }] (.mk [(.ret (some (.call (.member (.var [98] none ⟨21, 22⟩) [108, 101, 110] ⟨23, 26⟩ ⟨21, 27⟩) [] none ⟨21, 32⟩)) none ⟨14, 32⟩)] ⟨14, 32⟩) none none ⟨0, 34⟩), (.expr (.call (.var [103] none ⟨33, 34⟩) [(.bool true ⟨35, 39⟩)] none ⟨33, 40⟩) none ⟨33, 40⟩)] ⟨0, 40⟩)
/-- `make x get "s" shout(x.len)` — bare member expression (D-09c). -/
def witnessBareMember : Block := (.mk [(.assign [120] ⟨5, 6⟩ (.str (.static [115]) ⟨11, 14⟩) none none ⟨0, 20⟩), (.expr (.call (.var [115, 104, 111, 117, 116] none ⟨15, 20⟩) [(.member (.var [120] none ⟨21, 22⟩) [108, 101, 110] ⟨23, 26⟩ ⟨21, 27⟩)] none ⟨15, 27⟩) none ⟨15, 27⟩)] ⟨0, 27⟩)

/-- The five dynamic-typing / call-before-declaration witnesses are accepted by the resolver model
(the two statically decidable shapes, `witnessLiteral` (D-09d) and `witnessBareMember` (D-09c),
are being rejected by the resolver since its own repair, so nothing is claimed about them here). -/
theorem witnesses_accepted :
    Accepted witnessAnd ∧ Accepted witnessIndexBase ∧ Accepted witnessReassigned ∧
    Accepted witnessCallBeforeDecl ∧ Accepted witnessBoolReceiver := by
  decide +kernel

/-- The original tree (`panics := true`): each witness panicked, at the site named. -/
def Toy.pinned : RunCfg := { Toy.cfg with panics := true }

theorem witnesses_panic_pinned :
    Toy.panicSite (run Toy.pinned 30 (Resolve.resolve witnessAnd).root) = some .andRhs ∧
    Toy.panicSite (run Toy.pinned 30 (Resolve.resolve witnessIndexBase).root) = some .indexBase ∧
    Toy.panicSite (run Toy.pinned 30 (Resolve.resolve witnessReassigned).root) = some .strNumOp ∧
    Toy.panicSite (run Toy.pinned 30 (Resolve.resolve witnessLiteral).root) = some .mismatchOp ∧
    Toy.panicSite (run Toy.pinned 30 (Resolve.resolve witnessCallBeforeDecl).root) = some .varLookup ∧
    Toy.panicSite (run Toy.pinned 30 (Resolve.resolve witnessBoolReceiver).root) = some .boolReceiver ∧
    Toy.panicSite (run Toy.pinned 30 (Resolve.resolve witnessBareMember).root) = some .bareMember := by
  decide +kernel

/-- The current code: the same programs end with a reported runtime error. -/
theorem witnesses_fixed :
    Toy.rtKind (run Toy.cfg 30 (Resolve.resolve witnessAnd).root) = some .typeMismatch ∧
    Toy.rtKind (run Toy.cfg 30 (Resolve.resolve witnessIndexBase).root) = some .invalidIndex ∧
    Toy.rtKind (run Toy.cfg 30 (Resolve.resolve witnessReassigned).root) = some .typeMismatch ∧
    Toy.rtKind (run Toy.cfg 30 (Resolve.resolve witnessLiteral).root) = some .typeMismatch ∧
    Toy.rtKind (run Toy.cfg 30 (Resolve.resolve witnessCallBeforeDecl).root) = some .undefinedVariable ∧
    Toy.rtKind (run Toy.cfg 30 (Resolve.resolve witnessBoolReceiver).root) = some .typeMismatch ∧
    Toy.rtKind (run Toy.cfg 30 (Resolve.resolve witnessBareMember).root) = some .typeMismatch := by
  decide +kernel

/-! ### 4. The dynamic-type discipline, site by site -/

/-- Runtime type tag of a value (`typeof`). -/
inductive Tag where
  | number | string | bool | array | command | result | null
deriving DecidableEq, Repr

def tagOf {N : Type} : Value N → Tag
  | .num _ => .number | .str _ => .string | .bool _ => .bool | .arr _ => .array
  | .host (.command _) => .command | .host (.result _) => .result | .null => .null

def isPanicFault {α : Type} : Except Fault α → Bool
  | .error (.panic _) => true
  | _ => false

/-- The type combinations for which the operator dispatch of `eval_expr` has NO case. -/
def arithBad (op : ArithOp) (l r : Tag) : Bool :=
  match l, r with
  | .number, .number => false
  | .string, .string => !(op == .add || op == .eq || op == .gt || op == .lt)
  | .string, .number => !(op == .add)
  | .number, .string => !(op == .add)
  | .bool, .bool => !(op == .eq || op == .gt || op == .lt)
  | .null, _ => !(op == .eq || op == .gt || op == .lt)
  | _, .null => !(op == .eq || op == .gt || op == .lt)
  | _, _ => true

/-- An operator application panics exactly on the bad type combinations — whatever the values. -/
theorem arith_panics_iff {N : Type} [NumOps N] (op : ArithOp) (l r : Value N) (sp : Span) :
    isPanicFault (arith op l r sp) = arithBad op (tagOf l) (tagOf r) := by
  cases l with
  | host hl => cases hl <;> cases r <;> (try rename_i hr; cases hr) <;> cases op <;> rfl
  | num a =>
    cases r with
    | host hr => cases hr <;> cases op <;> rfl
    | num b =>
      cases op <;> simp only [arith, tagOf, arithBad] <;> (try rfl)
      all_goals (split <;> rfl)
    | _ => cases op <;> rfl
  | _ => cases r <;> (try rename_i hr; cases hr) <;> cases op <;> rfl

theorem unary_panics_iff {N : Type} [NumOps N] (op : UnOp) (v : Value N) :
    isPanicFault (unary op v) =
      !((op == .not && ((tagOf v) == .bool || (tagOf v) == .null)) || (op == .neg && (tagOf v) == .number)) := by
  cases v with
  | host h => cases h <;> cases op <;> rfl
  | _ => cases op <;> rfl

theorem truthy_panics_iff {N : Type} (site : PanicSite) (v : Value N) :
    isPanicFault (truthy site v) = !((tagOf v) == .bool || (tagOf v) == .null) := by
  cases v with
  | host h => cases h <;> rfl
  | _ => rfl

theorem logicRhs_panics_iff {N : Type} (site : PanicSite) (v : Value N) :
    isPanicFault (logicRhs site v) = !((tagOf v) == .bool || (tagOf v) == .null) := by
  cases v with
  | host h => cases h <;> rfl
  | _ => rfl

/-- An index read panics exactly when the base is not an array (a bad INDEX is a runtime error). -/
theorem indexRead_panics_iff {N : Type} [NumOps N] (base idx : Value N) (isp : Span) :
    isPanicFault (indexRead base idx isp) = !((tagOf base) == .array) := by
  cases base with
  | arr xs =>
    simp only [indexRead, tagOf]
    cases idx with
    | num n =>
      simp only
      split
      · rfl
      · split
        · rfl
        · split <;> rfl
    | _ => rfl
  | host h => cases h <;> rfl
  | _ => rfl

/-! ### 5. The finite table of D-09d -/

/-- Representative runtime values of a literal static type (by `arith_panics_iff` & co. only the
type tag matters, except for the left operand of `and` / `or`, where both booleans are tried). -/
def reprs : VType → List (Value Int)
  | .number => [.num 0, .num 1]
  | .string => [.str []]
  | .bool => [.bool true, .bool false]
  | .array => [.arr []]
  | .processCommand => [.host (.command (Proc.Cmd.new []))]
  | .processResult => [.host (.result default)]
  | .null => [.null]
  | .dynamic => []

def binPanics (op : BinOp) (l r : Value Int) : Bool :=
  match op with
  | .and => !andStops l && isPanicFault (logicRhs .andRhs r)
  | .or => !orStops l && isPanicFault (logicRhs .orRhs r)
  | _ =>
    match ArithOp.ofBin op with
    | some a => isPanicFault (arith a l r ⟨0, 0⟩)
    | none => false

/-- The (operator, τ₁, τ₂) the REAL checker accepts for literal-typed operands although the
runtime's dispatch has no case for them (every run-time instance ends at a site: a `TypeMismatch`
runtime error in the current code, a panic in the original one). -/
def d09dOffenders : List (BinOp × VType × VType) :=
  (Gen.TypeRules.binary.filter (fun q =>
      q.2.2.2.1 && (reprs q.2.1).any fun a => (reprs q.2.2.1).any fun b => binPanics q.1 a b)).map
    (fun q => (q.1, q.2.1, q.2.2.1))

/-- THE FINITE OBLIGATION OF D-09d: every (operator, τ₁, τ₂) the real checker accepts for
literal-typed operands has a case in the runtime's operator dispatch. -/
def d09d_full : Prop := d09dOffenders = []

/-- Holds since the `fix:` commit that made `add` and `and`/`or` reject operand types without a
run-time meaning (before it there were exactly fifteen offenders: `string add` anything that is
neither string nor number, both ways, and `null or` a non-boolean).  Re-checked against the freshly
probed `Gen/TypeRules.lean` on every run. -/
theorem d09d : d09d_full := by
  unfold d09d_full
  decide +kernel

end NaijaVerif.Props.C06Eval
