import NaijaVerif.Lemmas.EvalPath
import NaijaVerif.Lemmas.EvalBasic
import NaijaVerif.Lemmas.EvalToy
/-
C05 — arrays are values: no mutation is ever visible through another name.

In the model values are pure, so sharing cannot happen by construction; what the theorems pin down
is the l-value discipline of `runtime.rs` (`assign_index`, `get_mutable_array`,
`get_mutable_process_command`, the clone in `Expr::Var`, the `mem::replace` in `Expr::Index`):

* FRAME (`assignIndex_frame`, `applyMut_frame`): an index assignment / `push` / `pop` / `reverse` /
  command setter through `ℓ·path` changes `st.env` by exactly `updateAt st.env (slotOf ℓ)
  (setPath path cell')` — one cell of one slot; output, input, ghost fields untouched;
* hence every OTHER SLOT (`*_other_slot`) and every cell on a DIVERGING PATH of the same slot
  (`*_other_path`) keep their values, and the written cell holds the new value (`*_written`);
* READS DO NOT DISTURB (`callFree_preserves_state`): evaluating an expression without calls — a
  variable, an index chain of any depth, an array literal, operators — leaves the whole state
  unchanged; in particular the `mem::replace(slot, Null)` of the `Index` arm acts on the clone;
* COPIES ARE INDEPENDENT (`copy_independent`): once `b` holds a copy of `a` in another slot, a
  write through `b` at ANY path leaves `a`'s value, at every path, as it was.
The content of the property for the CODE (deep copy on read, promotion on store) is carried by the
correspondence stream `run` (family generator biased to copy → nested write → read-both).
-/
namespace NaijaVerif.Props.C05
open NaijaVerif NaijaVerif.Eval

variable {N : Type} [NumOps N]

/-! ### Frame theorems -/

/-- `assign_index`: exactly the cell `path` of the slot `ℓ` denotes is replaced by `v`. -/
theorem assignIndex_frame (cfg : RunCfg) (st st' : State N) (name : Bytes) (bind : Option Nat)
    (path : List (Nat × Span)) (v : Value N) (span : Span)
    (h : assignIndex cfg st name bind path v span = .ok () st') :
    ∃ pos root c, slotOf cfg st bind name = some pos ∧ getAt st.env pos = some root ∧
      getPath root (path.map (·.1)) = some c ∧
      st'.env = updateAt st.env pos (fun r => setPath r (path.map (·.1)) v) ∧
      st'.out = st.out ∧ st'.chain = st.chain ∧ st'.next = st.next ∧ st'.input = st.input := by
  unfold assignIndex at h
  cases hpos : slotOf cfg st bind name with
  | none => simp only [hpos] at h; exact absurd h (trap_ne_ok _ _ _ _ _ _)
  | some pos =>
    simp only [hpos] at h
    cases hroot : getAt st.env pos with
    | none => simp only [hroot] at h; exact absurd h (trap_ne_ok _ _ _ _ _ _)
    | some root =>
      simp only [hroot] at h
      cases hw : walkAssign span root path with
      | error flt => simp only [hw] at h; exact absurd h (Res.ofFault_ne_ok _ _ _ _ _ _)
      | ok u =>
        simp only [hw] at h
        obtain ⟨c, hc⟩ := walkAssign_getPath span root path hw
        injection h with _ hst
        subst hst
        exact ⟨pos, root, c, rfl, hroot, hc, rfl, rfl, rfl, rfl, rfl⟩

/-- `push` / `pop` / `reverse` / a command setter through a variable or an index chain: exactly the
cell the path ends at is replaced by what the operation makes of it. -/
theorem applyMut_frame (cfg : RunCfg) (st st' : State N) (name : Bytes) (bind : Option Nat)
    (path : List (Nat × Span)) (op : MutOp N) (span : Span) (result : Value N)
    (h : applyMut cfg st name bind path op span = .ok result st') :
    ∃ pos root cell cell', slotOf cfg st bind name = some pos ∧ getAt st.env pos = some root ∧
      getPath root (path.map (·.1)) = some cell ∧ op.apply cell span = .ok (cell', result) ∧
      st'.env = updateAt st.env pos (fun r => setPath r (path.map (·.1)) cell') ∧
      st'.out = st.out ∧ st'.chain = st.chain ∧ st'.next = st.next ∧ st'.input = st.input := by
  unfold applyMut at h
  cases hpos : slotOf cfg st bind name with
  | none => simp only [hpos] at h; exact absurd h (trap_ne_ok _ _ _ _ _ _)
  | some pos =>
    simp only [hpos] at h
    cases hroot : getAt st.env pos with
    | none => simp only [hroot] at h; exact absurd h (trap_ne_ok _ _ _ _ _ _)
    | some root =>
      simp only [hroot] at h
      cases hw : walkMut root path with
      | error flt => simp only [hw] at h; exact absurd h (Res.ofFault_ne_ok _ _ _ _ _ _)
      | ok cell =>
        simp only [hw] at h
        cases ha : op.apply cell span with
        | error flt => simp only [ha] at h; exact absurd h (Res.ofFault_ne_ok _ _ _ _ _ _)
        | ok pr =>
          obtain ⟨cell', res⟩ := pr
          simp only [ha] at h
          injection h with hres hst
          subst hst; subst hres
          exact ⟨pos, root, cell, cell', rfl, hroot, walkMut_getPath root path cell hw, ha, rfl, rfl, rfl, rfl, rfl⟩

/-- The mutating array methods do to their cell what the documentation says. -/
theorem mutOp_push (xs : List (Value N)) (v : Value N) (sp : Span) :
    (MutOp.push v).apply (.arr xs) sp = .ok (.arr (xs ++ [v]), .null) := rfl

theorem mutOp_pop (xs : List (Value N)) (sp : Span) :
    (MutOp.pop : MutOp N).apply (.arr xs) sp = .ok (.arr xs.dropLast, (xs.getLast?).getD .null) := rfl

theorem mutOp_reverse (xs : List (Value N)) (sp : Span) :
    (MutOp.reverse : MutOp N).apply (.arr xs) sp = .ok (.arr xs.reverse, .null) := rfl

/-! ### Consequences: what changed and what did not -/

/-- After `env' = updateAt env pos (setPath · p w)` with a valid path: the cell holds `w`. -/
theorem written (env : List (Scope N)) (pos : Nat × Nat) (p : List Nat) (w root c : Value N)
    (hroot : getAt env pos = some root) (hc : getPath root p = some c) :
    (getAt (updateAt env pos (fun r => setPath r p w)) pos).bind (getPath · p) = some w := by
  rw [getAt_updateAt_same, hroot]
  simp only [Option.map_some, Option.bind_some, setPath]
  exact getPath_updatePath_same root p _ c hc

/-- Every other slot is unchanged (any write, any path). -/
theorem other_slot (env : List (Scope N)) (pos pos' : Nat × Nat) (g : Value N → Value N)
    (hne : pos' ≠ pos) : getAt (updateAt env pos g) pos' = getAt env pos' :=
  getAt_updateAt_ne env pos pos' g hne

/-- Every cell of the same slot on a diverging path is unchanged. -/
theorem other_path (env : List (Scope N)) (pos : Nat × Nat) (p q : List Nat) (w : Value N)
    (hd : Diverge p q) :
    (getAt (updateAt env pos (fun r => setPath r p w)) pos).bind (getPath · q) =
      (getAt env pos).bind (getPath · q) := by
  rw [getAt_updateAt_same]
  cases getAt env pos with
  | none => rfl
  | some root =>
    simp only [Option.map_some, Option.bind_some, setPath]
    exact getPath_updatePath_diverge root p q _ hd

/-- `assign_index` leaves every other variable as it was. -/
theorem assignIndex_other_slot (cfg : RunCfg) (st st' : State N) (name : Bytes) (bind : Option Nat)
    (path : List (Nat × Span)) (v : Value N) (span : Span)
    (h : assignIndex cfg st name bind path v span = .ok () st') (pos' : Nat × Nat)
    (hne : some pos' ≠ slotOf cfg st bind name) : getAt st'.env pos' = getAt st.env pos' := by
  obtain ⟨pos, _, _, hpos, _, _, henv, _⟩ := assignIndex_frame cfg st st' name bind path v span h
  rw [henv]
  apply getAt_updateAt_ne
  intro he; apply hne; rw [hpos, he]

/-- A mutating method leaves every other variable as it was. -/
theorem applyMut_other_slot (cfg : RunCfg) (st st' : State N) (name : Bytes) (bind : Option Nat)
    (path : List (Nat × Span)) (op : MutOp N) (span : Span) (result : Value N)
    (h : applyMut cfg st name bind path op span = .ok result st') (pos' : Nat × Nat)
    (hne : some pos' ≠ slotOf cfg st bind name) : getAt st'.env pos' = getAt st.env pos' := by
  obtain ⟨pos, _, _, _, hpos, _, _, _, henv, _⟩ := applyMut_frame cfg st st' name bind path op span result h
  rw [henv]
  apply getAt_updateAt_ne
  intro he; apply hne; rw [hpos, he]

/-- COPIES ARE INDEPENDENT.  If `a` and `b` denote different slots (e.g. right after
`make b get a`), an index assignment through `b` — at any nesting depth, with any value — leaves
the value `a` denotes unchanged, and `a` still denotes the same slot. -/
theorem copy_independent (cfg : RunCfg) (st st' : State N) (aName bName : Bytes) (aBind bBind : Option Nat)
    (path : List (Nat × Span)) (v : Value N) (span : Span)
    (hdiff : slotOf cfg st aBind aName ≠ slotOf cfg st bBind bName)
    (h : assignIndex cfg st bName bBind path v span = .ok () st') :
    (slotOf cfg st aBind aName).bind (getAt st'.env) = (slotOf cfg st aBind aName).bind (getAt st.env) := by
  cases ha : slotOf cfg st aBind aName with
  | none => rfl
  | some pa =>
    simp only [Option.bind_some]
    exact assignIndex_other_slot cfg st st' bName bBind path v span h pa (by rw [← ha]; exact hdiff)

/-- The same for `push` / `pop` / `reverse` through `b` or through an index chain rooted in `b`. -/
theorem copy_independent_mut (cfg : RunCfg) (st st' : State N) (aName bName : Bytes) (aBind bBind : Option Nat)
    (path : List (Nat × Span)) (op : MutOp N) (span : Span) (result : Value N)
    (hdiff : slotOf cfg st aBind aName ≠ slotOf cfg st bBind bName)
    (h : applyMut cfg st bName bBind path op span = .ok result st') :
    (slotOf cfg st aBind aName).bind (getAt st'.env) = (slotOf cfg st aBind aName).bind (getAt st.env) := by
  cases ha : slotOf cfg st aBind aName with
  | none => rfl
  | some pa =>
    simp only [Option.bind_some]
    exact applyMut_other_slot cfg st st' bName bBind path op span result h pa (by rw [← ha]; exact hdiff)

/-! ### Reads do not disturb -/

mutual
  /-- An expression without calls (variables, literals, interpolation, operators, index chains,
  array literals). -/
  def callFree : Expr → Bool
    | .index a i _ _ => callFree a && callFree i
    | .str _ _ => true
    | .num _ _ => true
    | .var _ _ _ => true
    | .binary _ l r _ => callFree l && callFree r
    | .call _ _ _ _ => false
    | .array es _ => callFreeList es
    | .unary _ e _ => callFree e
    | .bool _ _ => true
    | .member o _ _ _ => callFree o
    | .null _ => true
  def callFreeList : List Expr → Bool
    | [] => true
    | e :: es => callFree e && callFreeList es
end

/-- Evaluating call-free expressions leaves the state — every slot, the output, everything — as
it was.  (Induction on the fuel; `evalSel` is the list version.) -/
theorem callFree_preserves (cfg : RunCfg) : ∀ f : Nat,
    (∀ (e : Expr) (st st' : State N) (v : Value N), callFree e = true →
        evalExpr cfg f e st = .ok v st' → st' = st) ∧
    (∀ (es : List Expr) (st st' : State N) (vs : List (Value N)), callFreeList es = true →
        evalSel cfg f (es.map .ok) st = .ok vs st' → st' = st)
  | 0 => ⟨fun _ _ _ _ _ h => by simp [evalExpr] at h, fun _ _ _ _ _ h => by simp [evalSel] at h⟩
  | f + 1 => by
    obtain ⟨ihE, ihS⟩ := callFree_preserves cfg f
    constructor
    · intro e st st' v hcf h
      cases e with
      | num lex sp =>
        simp only [evalExpr] at h
        split at h
        · injection h with _ h2; exact h2.symm
        · exact absurd h (trap_ne_ok _ _ _ _ _ _)
      | str parts sp =>
        cases parts with
        | static s => simp only [evalExpr] at h; injection h with _ h2; exact h2.symm
        | interp segs =>
          simp only [evalExpr] at h
          split at h
          · injection h with _ h2; exact h2.symm
          · exact absurd h (trap_ne_ok _ _ _ _ _ _)
      | bool b sp => simp only [evalExpr] at h; injection h with _ h2; exact h2.symm
      | null sp => simp only [evalExpr] at h; injection h with _ h2; exact h2.symm
      | var name bind sp =>
        simp only [evalExpr] at h
        split at h
        · injection h with _ h2; exact h2.symm
        · exact absurd h (trap_ne_ok _ _ _ _ _ _)
      | member o fld fsp sp => simp only [evalExpr] at h; exact absurd h (trap_ne_ok _ _ _ _ _ _)
      | call c args fn sp => simp [callFree] at hcf
      | unary op x sp =>
        simp only [evalExpr] at h
        simp only [callFree] at hcf
        obtain ⟨w, st1, h1, h2⟩ := Res.bind_eq_ok h
        have := ihE x st st1 w hcf h1
        subst this
        exact (Res.ofExcept_eq_ok h2).2
      | array es sp =>
        simp only [evalExpr] at h
        simp only [callFree] at hcf
        obtain ⟨vs, st1, h1, h2⟩ := Res.bind_eq_ok h
        have := ihS es st st1 vs hcf h1
        subst this
        injection h2 with _ h3; exact h3.symm
      | index a i isp sp =>
        simp only [evalExpr] at h
        simp only [callFree, Bool.and_eq_true] at hcf
        obtain ⟨av, st1, h1, h2⟩ := Res.bind_eq_ok h
        obtain ⟨iv, st2, h3, h4⟩ := Res.bind_eq_ok h2
        have e1 := ihE a st st1 av hcf.1 h1
        subst e1
        have e2 := ihE i st1 st2 iv hcf.2 h3
        subst e2
        exact (Res.ofExcept_eq_ok h4).2
      | binary op l r sp =>
        simp only [evalExpr] at h
        simp only [callFree, Bool.and_eq_true] at hcf
        obtain ⟨lv, st1, h1, h2⟩ := Res.bind_eq_ok h
        have e1 := ihE l st st1 lv hcf.1 h1
        subst e1
        have key : ∀ (x : Value N → Except Fault (Value N)) (sp' : Span),
            ((evalExpr cfg f r st1).bind fun rv st2 => Res.ofExcept cfg (x rv) sp' st2) = .ok v st' → st' = st1 := by
          intro x sp' hx
          obtain ⟨rv, st2, h3, h4⟩ := Res.bind_eq_ok hx
          have e2 := ihE r st1 st2 rv hcf.2 h3
          subst e2
          exact (Res.ofExcept_eq_ok h4).2
        cases op with
        | and =>
          simp only at h2
          split at h2
          · injection h2 with _ h3; exact h3.symm
          · exact key _ _ h2
        | or =>
          simp only at h2
          split at h2
          · injection h2 with _ h3; exact h3.symm
          · exact key _ _ h2
        | add => exact key _ _ h2
        | minus => exact key _ _ h2
        | times => exact key _ _ h2
        | divide => exact key _ _ h2
        | mod => exact key _ _ h2
        | eq => exact key _ _ h2
        | gt => exact key _ _ h2
        | lt => exact key _ _ h2
    · intro es st st' vs hcf h
      cases es with
      | nil => simp only [List.map_nil, evalSel] at h; injection h with _ h2; exact h2.symm
      | cons e rest =>
        simp only [List.map_cons, evalSel] at h
        simp only [callFreeList, Bool.and_eq_true] at hcf
        obtain ⟨w, st1, h1, h2⟩ := Res.bind_eq_ok h
        obtain ⟨ws, st2, h3, h4⟩ := Res.bind_eq_ok h2
        have e1 := ihE e st st1 w hcf.1 h1
        subst e1
        have e2 := ihS rest st1 st2 ws hcf.2 h3
        subst e2
        injection h4 with _ h5; exact h5.symm

/-- READS DO NOT DISTURB: a variable, an index chain `a[i][j]…`, an array literal or an operator
expression over them evaluates without changing the state (for every fuel). -/
theorem callFree_preserves_state (cfg : RunCfg) (f : Nat) (e : Expr) (st st' : State N) (v : Value N)
    (hcf : callFree e = true) (h : evalExpr cfg f e st = .ok v st') : st' = st :=
  (callFree_preserves cfg f).1 e st st' v hcf h

/-- The value an `Index` read yields is the element; the array it was read from is a clone, so
the state after the read is the state after evaluating the two operands. -/
theorem index_read (cfg : RunCfg) (f : Nat) (a i : Expr) (isp sp : Span) (st st' : State N) (v : Value N)
    (h : evalExpr cfg (f + 1) (.index a i isp sp) st = .ok v st') :
    ∃ av iv st1, evalExpr cfg f a st = .ok av st1 ∧ evalExpr cfg f i st1 = .ok iv st' ∧
      indexRead av iv isp = .ok v := by
  simp only [evalExpr] at h
  obtain ⟨av, st1, h1, h2⟩ := Res.bind_eq_ok h
  obtain ⟨iv, st2, h3, h4⟩ := Res.bind_eq_ok h2
  obtain ⟨h5, h6⟩ := Res.ofExcept_eq_ok h4
  subst h6
  exact ⟨av, iv, st1, h1, h3, h5⟩

/-! ### Non-vacuity: the model run on two concrete programs (toy numbers) -/

/-- `make a get [1, [2, "s"]] make b get a b[1][0] get 9 b[1].push(7) shout(a) shout(b)` -/
def copyProg : Block := (.mk [(.assign [97] ⟨5, 6⟩ (.array [(.num [49] ⟨12, 13⟩), (.array [(.num [50] ⟨16, 17⟩), (.str (.static [115]) ⟨19, 22⟩)] ⟨15, 23⟩)] ⟨11, 24⟩) (some 0) (some 0) ⟨0, 29⟩), (.assign [98] ⟨30, 31⟩ (.var [97] (some 0) ⟨36, 37⟩) (some 1) (some 1) ⟨25, 39⟩), (.assignIndex (.index (.index (.var [98] (some 1) ⟨38, 39⟩) (.num [49] ⟨40, 41⟩) ⟨39, 42⟩ ⟨38, 42⟩) (.num [48] ⟨43, 44⟩) ⟨42, 45⟩ ⟨38, 45⟩) (.num [57] ⟨50, 51⟩) (some 2) ⟨38, 53⟩), (.expr (.call (.member (.index (.var [98] (some 1) ⟨52, 53⟩) (.num [49] ⟨54, 55⟩) ⟨53, 56⟩ ⟨52, 56⟩) [112, 117, 115, 104] ⟨57, 61⟩ ⟨52, 62⟩) [(.num [55] ⟨62, 63⟩)] none ⟨52, 70⟩) (some 3) ⟨52, 70⟩), (.expr (.call (.var [115, 104, 111, 117, 116] none ⟨65, 70⟩) [(.var [97] (some 0) ⟨71, 72⟩)] none ⟨65, 79⟩) (some 4) ⟨65, 79⟩), (.expr (.call (.var [115, 104, 111, 117, 116] none ⟨74, 79⟩) [(.var [98] (some 1) ⟨80, 81⟩)] none ⟨74, 82⟩) (some 5) ⟨74, 82⟩)] ⟨0, 82⟩)

example : Toy.summary (run Toy.cfg 30 copyProg) =
    ([b!"[1, [2, \"s\"]]", b!"[1, [9, \"s\", 7]]"], 0) := by decide +kernel

/-- `make a get [[1, 2], [3]] do f(p) start p[0][1] get "w" p.push(0) p[1].reverse() return p end
make c get f(a) shout(a) shout(c)` — mutation of a parameter inside the callee. -/
def paramProg : Block := (.mk [(.assign [97] ⟨5, 6⟩ (.array [(.array [(.num [49] ⟨13, 14⟩), (.num [50] ⟨16, 17⟩)] ⟨12, 18⟩), (.array [(.num [51] ⟨21, 22⟩)] ⟨20, 23⟩)] ⟨11, 24⟩) (some 0) (some 0) ⟨0, 27⟩), (.fnDef [102] ⟨25, 32⟩ [{ name := [112], span := ⟨30, 31⟩, bind := (some 1) }] (.mk [(.assignIndex (.index (.index (.var [112] (some 1) ⟨39, 40⟩) (.num [48] ⟨41, 42⟩) ⟨40, 43⟩ ⟨39, 43⟩) (.num [49] ⟨44, 45⟩) ⟨43, 46⟩ ⟨39, 46⟩) (.str (.static [119]) ⟨51, 54⟩) (some 2) ⟨39, 56⟩), (.expr (.call (.member (.var [112] (some 1) ⟨55, 56⟩) [112, 117, 115, 104] ⟨57, 61⟩ ⟨55, 62⟩) [(.num [48] ⟨62, 63⟩)] none ⟨55, 66⟩) (some 3) ⟨55, 66⟩), (.expr (.call (.member (.index (.var [112] (some 1) ⟨65, 66⟩) (.num [49] ⟨67, 68⟩) ⟨66, 69⟩ ⟨65, 69⟩) [114, 101, 118, 101, 114, 115, 101] ⟨70, 77⟩ ⟨65, 78⟩) [] none ⟨65, 86⟩) (some 4) ⟨65, 86⟩), (.ret (some (.var [112] (some 1) ⟨87, 88⟩)) (some 5) ⟨80, 92⟩)] ⟨39, 92⟩) (some 1) (some 1) ⟨25, 97⟩), (.assign [99] ⟨98, 99⟩ (.call (.var [102] none ⟨104, 105⟩) [(.var [97] (some 0) ⟨106, 107⟩)] (some 1) ⟨104, 114⟩) (some 2) (some 6) ⟨93, 114⟩), (.expr (.call (.var [115, 104, 111, 117, 116] none ⟨109, 114⟩) [(.var [97] (some 0) ⟨115, 116⟩)] none ⟨109, 123⟩) (some 7) ⟨109, 123⟩), (.expr (.call (.var [115, 104, 111, 117, 116] none ⟨118, 123⟩) [(.var [99] (some 2) ⟨124, 125⟩)] none ⟨118, 126⟩) (some 8) ⟨118, 126⟩)] ⟨0, 126⟩)

example : Toy.summary (run Toy.cfg 30 paramProg) =
    ([b!"[[1, 2], [3]]", b!"[[1, \"w\"], [3], 0]"], 0) := by decide +kernel

end NaijaVerif.Props.C05
