/-
C07 — the front end is total: any text yields diagnostics or a program, not a crash.

Assembly of the lexer part (`Props/C07Lex.lean`) and the parser part (`Props/C07Parse.lean`):
for every valid UTF-8 text, lexing followed by parsing terminates (both models are total functions
whose internal fuel is proved adequate) and EVERY span that reaches a later stage — token spans, every
span in the AST, every lexical and syntax diagnostic span and label span — is ordered, lies inside the
text and falls on character boundaries.  The renderer part (`Props/C07Render.lean`) consumes exactly
`SafeSpan`.

Behind the parser (section "the whole pipeline"): the warnings of the analysis passes and the
resource-limit warning (`Pipeline.frontEnd`), and the runtime error a run ends with (`Pipeline.runSource`),
are reported at spans of the parsed AST too — the resolver copies every span (`Lemmas/SpanSafeResolve`),
the statement table of the analyses holds statement / name spans (`Lemmas/SpanSafeAnalysis`), the
evaluator reports every runtime error at a span of the syntax it is evaluating or of a hoisted function
body (`Lemmas/SpanSafeEval`) — so everything one pipeline run hands to the renderer renders.
-/
import NaijaVerif.Props.C07Lex
import NaijaVerif.Props.C07Parse
import NaijaVerif.Props.C07Render
import NaijaVerif.Props.C07Resolve
import NaijaVerif.Model.Pipeline
import NaijaVerif.Lemmas.SpanSafeResolve
import NaijaVerif.Lemmas.SpanSafeAnalysis
import NaijaVerif.Lemmas.SpanSafeEval
import NaijaVerif.Lemmas.EvalToy

namespace NaijaVerif.C07
open NaijaVerif NaijaVerif.Lex NaijaVerif.Parse NaijaVerif.Utf8 NaijaVerif.Props.C07Lex NaijaVerif.C07Parse

/-- The front end of the pipeline up to the AST: tokens of the lexer, AST and merged diagnostics
(lexical first, then syntax — as `Parser::parse_program` merges them). -/
def frontEnd (src : Bytes) : Block × List Diag :=
  let l := lex src
  let p := parseProgram l.1
  (p.1, l.2 ++ p.2)

/-- A token boundary of the lexed text (or 0) is a character boundary within the text. -/
theorem boundary_is_char_boundary (src : Bytes) (h : ValidUtf8 src) (x : Nat)
    (hb : Boundary (lex src).1 x) : x ≤ src.length ∧ Bytes.isBoundary src x = true := by
  rcases hb with rfl | ⟨t, ht, rfl | rfl⟩
  · exact ⟨Nat.zero_le _, by simp [Bytes.isBoundary]⟩
  · have hs := c07_lex_token_spans src h t ht
    exact ⟨Nat.le_trans hs.1 hs.2.1, hs.2.2.1⟩
  · have := c07_lex_token_spans src h t ht
    exact ⟨this.2.1, this.2.2.2⟩

/-- A parser-sane span over the lexed tokens is safe to slice the text with. -/
theorem spanSane_safe (src : Bytes) (h : ValidUtf8 src) (s : Span)
    (hs : SpanSane (lex src).1 src.length s) : SafeSpan src s :=
  ⟨hs.1, hs.2.1, (boundary_is_char_boundary src h _ hs.2.2.1).2,
    (boundary_is_char_boundary src h _ hs.2.2.2).2⟩

/-- **C07 (lexer + parser)**: for every valid UTF-8 text, every span of the AST and every span and
label span of every lexical or syntax diagnostic is ordered, inside the text and on character
boundaries. -/
theorem front_end_spans_safe (src : Bytes) (h : ValidUtf8 src) :
    (∀ s ∈ blockSpans (frontEnd src).1, SafeSpan src s) ∧
      (∀ d ∈ (frontEnd src).2, ∀ s ∈ diagSpans d, SafeSpan src s) := by
  have htok := c07_lex_token_spans src h
  have hord : TokensOrdered (lex src).1 :=
    tokensOrdered_of_pairwise _ (fun t ht => (htok t ht).1) (c07_lex_tokens_ordered src h)
  have hn : ∀ t ∈ (lex src).1, t.span.hi ≤ src.length := fun t ht => (htok t ht).2.1
  obtain ⟨hast, hdiag⟩ := parse_spans_sane (lex src).1 src.length hord hn
  refine ⟨fun s hs => spanSane_safe src h s (hast s hs), ?_⟩
  intro d hd s hs
  simp only [frontEnd, List.mem_append] at hd
  rcases hd with hd | hd
  · have := c07_lex_diag_spans src h d hd
    simp only [diagSpans, List.mem_cons] at hs
    rcases hs with rfl | hs
    · exact this.1
    · exact this.2 s hs
  · exact spanSane_safe src h s (hdiag d hd s hs)

/-- **C07 (lexer + parser + renderer)**: the whole diagnostic set of the front end can always be
rendered — `render_ansi` never slices out of range, off a character boundary, or underflows a column —
for every valid UTF-8 text, whatever the code, message and label texts are. -/
theorem front_end_diagnostics_render (src file : Bytes) (h : ValidUtf8 src) (code msg : Diag → Bytes)
    (labelMsg : Diag → Nat → Bytes) :
    Render.renderAnsi src file ((frontEnd src).2.map (NaijaVerif.Props.C07Render.ofDiag code msg labelMsg)) ≠ none := by
  apply NaijaVerif.Props.C07Render.c07_render_front_end src file _ code msg labelMsg h
  intro d hd
  have hs := (front_end_spans_safe src h).2 d hd
  exact ⟨hs d.span (by simp [diagSpans]), fun l hl => hs l (by simp [diagSpans, hl])⟩

/-- **C07 (static checker)**: the checker model is a total structural function, and every diagnostic
and label span it reports for the parsed program is a span of the AST — hence safe to slice with. -/
theorem checker_diagnostic_spans_safe (src : Bytes) (h : ValidUtf8 src) :
    ∀ d ∈ (Resolve.resolve (frontEnd src).1).diags, ∀ s ∈ diagSpans d, SafeSpan src s := by
  intro d hd s hs
  exact (front_end_spans_safe src h).1 s
    (NaijaVerif.C07Resolve.resolve_diag_spans_from_ast (frontEnd src).1 d hd s hs)

/-- … and the checker's diagnostics always render. -/
theorem checker_diagnostics_render (src file : Bytes) (h : ValidUtf8 src) (code msg : Diag → Bytes)
    (labelMsg : Diag → Nat → Bytes) :
    Render.renderAnsi src file ((Resolve.resolve (frontEnd src).1).diags.map
      (NaijaVerif.Props.C07Render.ofDiag code msg labelMsg)) ≠ none := by
  apply NaijaVerif.Props.C07Render.c07_render_front_end src file _ code msg labelMsg h
  intro d hd
  have hs := checker_diagnostic_spans_safe src h d hd
  exact ⟨hs d.span (by simp [diagSpans]), fun l hl => hs l (by simp [diagSpans, hl])⟩

/-- **Gate**: a text is executed only if the merged diagnostics hold no error — the pipeline's
decision is a function of the diagnostics alone (`cmd.rs` stops on any parser diagnostic). -/
def accepted (src : Bytes) : Bool := (frontEnd src).2.isEmpty

theorem accepted_iff_no_diagnostics (src : Bytes) :
    accepted src = true ↔ (lex src).2 = [] ∧ (parseProgram (lex src).1).2 = [] := by
  simp [accepted, frontEnd, List.isEmpty_iff]

/-! Non-vacuity: the D-07 witnesses are valid UTF-8 texts with diagnostics, and the theorem speaks
about them. -/
example : ValidUtf8 (b!"make x get 1.é") := by decide
example : (frontEnd (b!"make x get 1.é")).2 ≠ [] := by decide

/-! ## The whole pipeline: analysis warnings, the resource-limit warning, the runtime error -/

section pipeline
open NaijaVerif.SpanSafe

/-- `0..0` is a safe span of every text. -/
theorem zero_span_safe (src : Bytes) : SafeSpan src ⟨0, 0⟩ :=
  ⟨Nat.le_refl _, Nat.zero_le _, by simp [Bytes.isBoundary], by simp [Bytes.isBoundary]⟩

/-- Where `Pipeline.frontEnd` stops and with what: the merged lexical / syntax diagnostics; or the
checker's diagnostics; or the annotated program of the checker together with warnings each of which is
a diagnostic of the checker, a warning of the analysis passes, or the resource-limit warning at the
span of the root block. -/
theorem pipeline_frontEnd_shape (caps : Limits.Caps) (src : Bytes) :
    Pipeline.frontEnd caps src = .error (true, (frontEnd src).2) ∨
    Pipeline.frontEnd caps src = .error (false, (Resolve.resolve (frontEnd src).1).diags) ∨
    ∃ a, Pipeline.frontEnd caps src = .ok a ∧ a.root = (Resolve.resolve (frontEnd src).1).root ∧
      ∀ d ∈ a.warnings, d ∈ (Resolve.resolve (frontEnd src).1).diags ∨
        (∃ w ∈ (Analysis.analyse (Resolve.resolve (frontEnd src).1).root
            (Resolve.resolve (frontEnd src).1).facts).warns, d = Pipeline.warnDiag w) ∨
        d = Limits.limitWarning (frontEnd src).1.span := by
  unfold Pipeline.frontEnd frontEnd
  simp only []
  split
  · exact Or.inl rfl
  · split
    · exact Or.inr (Or.inl rfl)
    · right; right
      split
      · refine ⟨_, rfl, rfl, ?_⟩
        intro d hd
        simp only [List.mem_append, List.mem_map] at hd
        rcases hd with hd | ⟨w, hw, rfl⟩
        · exact Or.inl hd
        · exact Or.inr (Or.inl ⟨w, hw, rfl⟩)
      · refine ⟨_, rfl, rfl, ?_⟩
        intro d hd
        simp only [List.mem_append] at hd
        rcases hd with hd | hd
        · exact Or.inl hd
        · unfold Limits.emitAnalysis at hd
          split at hd
          · simp only [List.mem_singleton] at hd
            exact Or.inr (Or.inr hd)
          · simp only [List.mem_map] at hd
            obtain ⟨w, hw, rfl⟩ := hd
            exact Or.inr (Or.inl ⟨w, hw, rfl⟩)

/-- Every span of the ANNOTATED program the pipeline analyses and runs is safe: the resolver copies the
spans of the parsed program. -/
theorem resolved_spans_safe (src : Bytes) (h : ValidUtf8 src) :
    ∀ s ∈ blockSpans (Resolve.resolve (frontEnd src).1).root, SafeSpan src s := by
  intro s hs
  rw [resolve_blockSpans] at hs
  exact (front_end_spans_safe src h).1 s hs

/-- **C07 (analysis warnings)**: for every valid UTF-8 text and every setting of the resource caps, every
warning an accepted text is run with — the checker's own, those of the analysis passes (unreachable
code, unused assignment / variable / function: a statement span, the `var_span` of an assignment or
the `name_span` of a definition of the annotated AST) and the resource-limit warning (span and label
at the span of the root block) — has a safe span and safe label spans.  (The real `emit_warning`
attaches to every pass warning ONE label, at the warning's own span.) -/
theorem analysis_warning_spans_safe (caps : Limits.Caps) (src : Bytes) (h : ValidUtf8 src)
    (a : Pipeline.Accepted) (ha : Pipeline.frontEnd caps src = .ok a) :
    ∀ d ∈ a.warnings, ∀ s ∈ diagSpans d, SafeSpan src s := by
  rcases pipeline_frontEnd_shape caps src with he | he | ⟨a', ha', _, hw⟩
  · rw [he] at ha; cases ha
  · rw [he] at ha; cases ha
  · rw [ha'] at ha
    cases ha
    intro d hd s hs
    rcases hw d hd with hr | ⟨w, hwm, rfl⟩ | rfl
    · exact checker_diagnostic_spans_safe src h d hr s hs
    · simp only [diagSpans, Pipeline.warnDiag, List.mem_cons, List.not_mem_nil, or_false] at hs
      subst hs
      rcases analyse_warn_spans _ _ w hwm with hin | hz
      · exact resolved_spans_safe src h _ hin
      · rw [hz]; exact zero_span_safe src
    · have hroot : (frontEnd src).1.span ∈ blockSpans (frontEnd src).1 := by
        cases (frontEnd src).1 with
        | mk ss sp => simp [blockSpans, Block.span]
      simp only [diagSpans, Limits.limitWarning, List.mem_cons, List.not_mem_nil, or_false, or_self] at hs
      subst hs
      exact (front_end_spans_safe src h).1 _ hroot

variable {N : Type} [NumOps N]

/-- **C07 (runtime error)**: for every valid UTF-8 text, every setting of the caps, every run
configuration (lookup mode, host policy, process runner, input) and every amount of fuel: when the
shipped pipeline runs the text and the run ends in a runtime error, the span the error is reported at
is a span of the annotated program — the evaluator builds no span of its own — hence safe to slice
the text with. -/
theorem runtime_error_span_safe (caps : Limits.Caps) (cfg : Eval.RunCfg) (fuel : Nat) (src : Bytes)
    (h : ValidUtf8 src) (w : List Diag) (kind : Eval.RtKind) (sp : Span) (out : List (Eval.Value N))
    (hrun : (Pipeline.runSource caps cfg fuel src : Pipeline.Result N) = .ran w (.rt kind sp out)) :
    SafeSpan src sp := by
  unfold Pipeline.runSource at hrun
  rcases pipeline_frontEnd_shape caps src with he | he | ⟨a, ha, hroot, _⟩
  · rw [he] at hrun; cases hrun
  · rw [he] at hrun; cases hrun
  · rw [ha] at hrun
    simp only [Pipeline.Result.ran.injEq] at hrun
    have hin : sp ∈ blockSpans a.root :=
      run_rt_span (S := fun s => s ∈ blockSpans a.root) _ fuel a.root (fun s hs => hs) hrun.2
    rw [hroot] at hin
    exact resolved_spans_safe src h sp hin

/-- **C07 (every span of a pipeline run)**: whatever `Pipeline.runSource` answers — rejected with the
lexical / syntax diagnostics, rejected with the checker's diagnostics, or run with warnings and an
outcome — every diagnostic it carries has a safe span and safe label spans, and so has the runtime
error if the run ended with one. -/
theorem pipeline_spans_safe (caps : Limits.Caps) (cfg : Eval.RunCfg) (fuel : Nat) (src : Bytes)
    (h : ValidUtf8 src) :
    match (Pipeline.runSource caps cfg fuel src : Pipeline.Result N) with
    | .syntax ds => ∀ d ∈ ds, ∀ s ∈ diagSpans d, SafeSpan src s
    | .semantic ds => ∀ d ∈ ds, ∀ s ∈ diagSpans d, SafeSpan src s
    | .ran ws o => (∀ d ∈ ws, ∀ s ∈ diagSpans d, SafeSpan src s) ∧
        ∀ k sp out, o = .rt k sp out → SafeSpan src sp := by
  cases hr : (Pipeline.runSource caps cfg fuel src : Pipeline.Result N) with
  | «syntax» ds =>
    simp only []
    unfold Pipeline.runSource at hr
    rcases pipeline_frontEnd_shape caps src with he | he | ⟨a, ha, _, _⟩
    · rw [he] at hr
      simp only [Pipeline.Result.syntax.injEq] at hr
      subst hr
      exact (front_end_spans_safe src h).2
    · rw [he] at hr; cases hr
    · rw [ha] at hr; cases hr
  | semantic ds =>
    simp only []
    unfold Pipeline.runSource at hr
    rcases pipeline_frontEnd_shape caps src with he | he | ⟨a, ha, _, _⟩
    · rw [he] at hr; cases hr
    · rw [he] at hr
      simp only [Pipeline.Result.semantic.injEq] at hr
      subst hr
      exact checker_diagnostic_spans_safe src h
    · rw [ha] at hr; cases hr
  | ran ws o =>
    simp only []
    refine ⟨?_, ?_⟩
    · unfold Pipeline.runSource at hr
      cases ha : Pipeline.frontEnd caps src with
      | error e =>
        rw [ha] at hr
        obtain ⟨b, ds⟩ := e
        cases b <;> cases hr
      | ok a =>
        rw [ha] at hr
        simp only [Pipeline.Result.ran.injEq] at hr
        rw [← hr.1]
        exact analysis_warning_spans_safe caps src h a ha
    · intro k sp out ho
      subst ho
      exact runtime_error_span_safe caps cfg fuel src h ws k sp out hr

/-! ### … and all of it renders -/

open NaijaVerif.Props.C07Render (ofDiag c07_render_total DiagSafe)

/-- A way of handing a model diagnostic to the renderer that invents no span: the rendered diagnostic
has the diagnostic's span, and each of its labels sits at the diagnostic's own span or at one of its
label spans (whatever the code, message and label texts are). -/
def NoNewSpan (toR : Diag → Render.RDiag) : Prop :=
  ∀ d, (toR d).span = d.span ∧ ∀ l ∈ (toR d).labels, l.span ∈ diagSpans d

/-- `ofDiag` (one rendered label per label span, as for the lexer's, parser's and checker's
diagnostics) invents no span. -/
theorem ofDiag_noNewSpan (code msg : Diag → Bytes) (labelMsg : Diag → Nat → Bytes) :
    NoNewSpan (ofDiag code msg labelMsg) := by
  intro d
  refine ⟨rfl, ?_⟩
  intro l hl
  simp only [ofDiag, List.mem_map] at hl
  obtain ⟨p, hp, rfl⟩ := hl
  simp only [diagSpans, List.mem_cons]
  exact Or.inr (List.fst_mem_of_mem_zipIdx hp)

/-- A warning as `Resolver::emit_warning` emits it for the analysis passes: ONE label, at the warning's
own span. -/
def ownLabel (code msg labelMsg : Diag → Bytes) (d : Diag) : Render.RDiag :=
  { sev := d.sev, code := code d, msg := msg d, span := d.span, labels := [⟨labelMsg d, d.span⟩] }

theorem ownLabel_noNewSpan (code msg labelMsg : Diag → Bytes) : NoNewSpan (ownLabel code msg labelMsg) := by
  intro d
  refine ⟨rfl, ?_⟩
  intro l hl
  simp only [ownLabel, List.mem_singleton] at hl
  subst hl
  simp [diagSpans]

/-- The diagnostic `Runtime::run_inner` emits for a runtime error: an error at the error's span with
one label at the same span (texts: any function of the kind). -/
def rtDiag (text : Eval.RtKind → Bytes × Bytes × Bytes) (k : Eval.RtKind) (sp : Span) : Render.RDiag :=
  { sev := .error, code := (text k).1, msg := (text k).2.1, span := sp, labels := [⟨(text k).2.2, sp⟩] }

/-- Everything `cmd.rs::run_source` hands to `render_ansi` in one pipeline run, call by call: the
merged lexical / syntax diagnostics of a rejected text; the checker's diagnostics of a rejected text;
for an accepted text the warnings (before the run) and, after the run, the runtime error if the run
ended with one. -/
def renderCalls (toR : Diag → Render.RDiag) (text : Eval.RtKind → Bytes × Bytes × Bytes) :
    Pipeline.Result N → List (List Render.RDiag)
  | .syntax ds => [ds.map toR]
  | .semantic ds => [ds.map toR]
  | .ran ws (.rt k sp _) => [ws.map toR, [rtDiag text k sp]]
  | .ran ws _ => [ws.map toR]

/-- **C07 (the complete diagnostic output renders)**: for every valid UTF-8 text, file name, caps, run
configuration and fuel, every call of `render_ansi` a pipeline run makes — front-end diagnostics when
the text is rejected; the warnings, and the runtime error if any, when it is run — returns: no slice
out of range, reversed or off a character boundary, no column underflow — whatever the codes,
messages and label texts are, as long as no span is invented (`NoNewSpan`: `ofDiag`, `ownLabel`). -/
theorem pipeline_diagnostics_render (src file : Bytes) (h : ValidUtf8 src) (caps : Limits.Caps)
    (cfg : Eval.RunCfg) (fuel : Nat) (toR : Diag → Render.RDiag) (hR : NoNewSpan toR)
    (text : Eval.RtKind → Bytes × Bytes × Bytes) :
    ∀ ds ∈ renderCalls toR text (Pipeline.runSource caps cfg fuel src : Pipeline.Result N),
      Render.renderAnsi src file ds ≠ none := by
  have hmap : ∀ l : List Diag, (∀ d ∈ l, ∀ s ∈ diagSpans d, SafeSpan src s) →
      Render.renderAnsi src file (l.map toR) ≠ none := by
    intro l hl
    apply c07_render_total src file _ h
    intro rd hrd
    obtain ⟨d, hdm, rfl⟩ := List.mem_map.mp hrd
    refine ⟨?_, ?_⟩
    · rw [(hR d).1]; exact hl d hdm d.span (by simp [diagSpans])
    · intro lb hlb
      exact hl d hdm lb.span ((hR d).2 lb hlb)
  have hs := pipeline_spans_safe (N := N) caps cfg fuel src h
  intro ds hds
  cases hr : (Pipeline.runSource caps cfg fuel src : Pipeline.Result N) with
  | «syntax» l =>
    rw [hr] at hs hds
    simp only [renderCalls, List.mem_singleton] at hds
    subst hds
    exact hmap l hs
  | semantic l =>
    rw [hr] at hs hds
    simp only [renderCalls, List.mem_singleton] at hds
    subst hds
    exact hmap l hs
  | ran ws o =>
    rw [hr] at hs hds
    simp only [] at hs
    cases o with
    | rt k sp out =>
      simp only [renderCalls, List.mem_cons, List.not_mem_nil, or_false] at hds
      rcases hds with rfl | rfl
      · exact hmap ws hs.1
      · apply c07_render_total src file _ h
        intro rd hrd
        simp only [List.mem_singleton] at hrd
        subst hrd
        have hsp := hs.2 k sp out rfl
        refine ⟨hsp, ?_⟩
        intro lb hlb
        simp only [rtDiag, List.mem_singleton] at hlb
        subst hlb
        exact hsp
    | ok out =>
      simp only [renderCalls, List.mem_singleton] at hds
      subst hds
      exact hmap ws hs.1
    | panic site out =>
      simp only [renderCalls, List.mem_singleton] at hds
      subst hds
      exact hmap ws hs.1
    | fuelOut =>
      simp only [renderCalls, List.mem_singleton] at hds
      subst hds
      exact hmap ws hs.1

end pipeline

/-! Non-vacuity of the pipeline theorems (toy numbers over `Int`, the default caps of the crate). -/

section pipeline_examples
open NaijaVerif.Eval (Toy.cfg)

/-- `DEFAULT_CAPS` (the values; the theorems hold for every setting). -/
def exampleCaps : Limits.Caps :=
  { maxFunctions := 16384, maxLocals := 131072, maxScopes := 131072, maxStatements := 262144,
    maxTotalOps := 262144, maxOpsPerFunction := 262144, maxTotalBlocks := 524288,
    maxBlocksPerFunction := 65536, maxDirectUserCalls := 262144, maxSummaryEvents := 16777216,
    maxLivenessEvents := 33554432 }

/-- A runtime error inside an expression AFTER a multi-byte string literal: `é` is two bytes, so the
division `1 divide 0` starts at byte 16 (column 16 counts characters: 15 before it). -/
def rtText : Bytes := b!"shout(\"né\" add 1 divide 0)"

/-- An analysis warning on a line that holds multi-byte characters (`€` is three bytes, `é` two). -/
def warnText : Bytes := b!"make y get \"€€\" add \"é\"\nshout(1)"

/-- What a result shows of its spans: the diagnostics' kinds and spans, and the runtime error's. -/
def spansShown : Pipeline.Result Int → List (DiagKind × Span) × Option (Eval.RtKind × Span)
  | .syntax ds => (ds.map fun d => (d.kind, d.span), none)
  | .semantic ds => (ds.map fun d => (d.kind, d.span), none)
  | .ran ws (.rt k sp _) => (ws.map fun d => (d.kind, d.span), some (k, sp))
  | .ran ws _ => (ws.map fun d => (d.kind, d.span), none)

example : ValidUtf8 rtText ∧ ValidUtf8 warnText := by decide
/-- the run of `rtText` ends in `Division by zero` at bytes 16..27 (the real binary: `a.ns:1:16`, eleven
carets), with no warning -/
example : spansShown (Pipeline.runSource exampleCaps Toy.cfg 20 rtText) =
    ([], some (.divisionByZero, ⟨16, 27⟩)) := by decide +kernel
/-- `warnText` is run with two warnings on line 1: unused assignment at the statement 0..34, unused
variable at the name 5..6 (the real binary: `c.ns:1:1` with 23 carets, `c.ns:1:6`) -/
example : spansShown (Pipeline.runSource exampleCaps Toy.cfg 20 warnText) =
    ([(.unusedAssignment, ⟨0, 34⟩), (.unusedVariable, ⟨5, 6⟩)], none) := by decide +kernel
/-- … and with a statement cap of 1 with the one resource-limit warning at the root span 0..37 -/
example : spansShown (Pipeline.runSource { exampleCaps with maxStatements := 1 } Toy.cfg 20 warnText) =
    ([(.analysisLimit, ⟨0, 37⟩)], none) := by decide +kernel
/-- the theorems speak about these runs: two renderer calls for `rtText` (no warnings, then the runtime
error), one for `warnText` with two diagnostics, and every call returns -/
example : (renderCalls (ownLabel (fun _ => b!"semantic") (fun _ => b!"m") (fun _ => b!"l"))
      (fun _ => (b!"runtime", b!"Division by zero", b!"Zero no fit be divisor"))
      (Pipeline.runSource exampleCaps Toy.cfg 20 rtText : Pipeline.Result Int)).map List.length = [0, 1] ∧
    (renderCalls (ownLabel (fun _ => b!"semantic") (fun _ => b!"m") (fun _ => b!"l"))
      (fun _ => (b!"runtime", b!"Division by zero", b!"Zero no fit be divisor"))
      (Pipeline.runSource exampleCaps Toy.cfg 20 warnText : Pipeline.Result Int)).map List.length = [2] := by
  decide +kernel
example (file : Bytes) :
    ∀ ds ∈ renderCalls (ownLabel (fun _ => b!"semantic") (fun _ => b!"m") (fun _ => b!"l"))
      (fun _ => (b!"runtime", b!"Division by zero", b!"Zero no fit be divisor"))
      (Pipeline.runSource exampleCaps Toy.cfg 20 rtText : Pipeline.Result Int),
      Render.renderAnsi rtText file ds ≠ none :=
  pipeline_diagnostics_render rtText file (by decide) exampleCaps Toy.cfg 20 _ (ownLabel_noNewSpan _ _ _) _
/-- the renderer is not indifferent to these spans: a span that starts at byte 9, in the middle of the
two-byte `é` (bytes 8..10), makes it fail -/
example : Render.renderAnsi rtText (b!"a.ns") [⟨.error, b!"runtime", b!"m", ⟨9, 10⟩, []⟩] = none := by
  decide +kernel

end pipeline_examples

end NaijaVerif.C07
