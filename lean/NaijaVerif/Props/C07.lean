/-
C07 — the front end is total: any text yields diagnostics or a program, not a crash.

Assembly of the lexer part (`Props/C07Lex.lean`) and the parser part (`Props/C07Parse.lean`):
for every valid UTF-8 text, lexing followed by parsing terminates (both models are total functions
whose internal fuel is proved adequate) and EVERY span that reaches a later stage — token spans, every
span in the AST, every lexical and syntax diagnostic span and label span — is ordered, lies inside the
text and falls on character boundaries.  The renderer part (`Props/C07Render.lean`) consumes exactly
`SafeSpan`.
-/
import NaijaVerif.Props.C07Lex
import NaijaVerif.Props.C07Parse
import NaijaVerif.Props.C07Render
import NaijaVerif.Props.C07Resolve

namespace NaijaVerif.C07
open NaijaVerif NaijaVerif.Lex NaijaVerif.Parse NaijaVerif.Utf8 NaijaVerif.Props.C07Lex NaijaVerif.C07Parse

/-- The front end of the pipeline up to the AST: tokens of the lexer, AST and merged diagnostics
(lexical first, then syntax — as `Parser::parse_program` merges them). -/
def frontEnd (src : Bytes) : Block × List Diag :=
  let l := lex src
  let p := parseProgram l.1
  (p.1, l.2 ++ p.2)

/-- A token boundary of the lexed text (or 0) is a character boundary within the text. -/
theorem boundary_is_char_boundary (src : Bytes) (h : ValidUtf8 src) (x : Nat)
    (hb : Boundary (lex src).1 x) : x ≤ src.length ∧ Bytes.isBoundary src x = true := by
  rcases hb with rfl | ⟨t, ht, rfl | rfl⟩
  · exact ⟨Nat.zero_le _, by simp [Bytes.isBoundary]⟩
  · have hs := c07_lex_token_spans src h t ht
    exact ⟨Nat.le_trans hs.1 hs.2.1, hs.2.2.1⟩
  · have := c07_lex_token_spans src h t ht
    exact ⟨this.2.1, this.2.2.2⟩

/-- A parser-sane span over the lexed tokens is safe to slice the text with. -/
theorem spanSane_safe (src : Bytes) (h : ValidUtf8 src) (s : Span)
    (hs : SpanSane (lex src).1 src.length s) : SafeSpan src s :=
  ⟨hs.1, hs.2.1, (boundary_is_char_boundary src h _ hs.2.2.1).2,
    (boundary_is_char_boundary src h _ hs.2.2.2).2⟩

/-- **C07 (lexer + parser)**: for every valid UTF-8 text, every span of the AST and every span and
label span of every lexical or syntax diagnostic is ordered, inside the text and on character
boundaries. -/
theorem front_end_spans_safe (src : Bytes) (h : ValidUtf8 src) :
    (∀ s ∈ blockSpans (frontEnd src).1, SafeSpan src s) ∧
      (∀ d ∈ (frontEnd src).2, ∀ s ∈ diagSpans d, SafeSpan src s) := by
  have htok := c07_lex_token_spans src h
  have hord : TokensOrdered (lex src).1 :=
    tokensOrdered_of_pairwise _ (fun t ht => (htok t ht).1) (c07_lex_tokens_ordered src h)
  have hn : ∀ t ∈ (lex src).1, t.span.hi ≤ src.length := fun t ht => (htok t ht).2.1
  obtain ⟨hast, hdiag⟩ := parse_spans_sane (lex src).1 src.length hord hn
  refine ⟨fun s hs => spanSane_safe src h s (hast s hs), ?_⟩
  intro d hd s hs
  simp only [frontEnd, List.mem_append] at hd
  rcases hd with hd | hd
  · have := c07_lex_diag_spans src h d hd
    simp only [diagSpans, List.mem_cons] at hs
    rcases hs with rfl | hs
    · exact this.1
    · exact this.2 s hs
  · exact spanSane_safe src h s (hdiag d hd s hs)

/-- **C07 (lexer + parser + renderer)**: the whole diagnostic set of the front end can always be
rendered — `render_ansi` never slices out of range, off a character boundary, or underflows a column —
for every valid UTF-8 text, whatever the code, message and label texts are. -/
theorem front_end_diagnostics_render (src file : Bytes) (h : ValidUtf8 src) (code msg : Diag → Bytes)
    (labelMsg : Diag → Nat → Bytes) :
    Render.renderAnsi src file ((frontEnd src).2.map (NaijaVerif.Props.C07Render.ofDiag code msg labelMsg)) ≠ none := by
  apply NaijaVerif.Props.C07Render.c07_render_front_end src file _ code msg labelMsg h
  intro d hd
  have hs := (front_end_spans_safe src h).2 d hd
  exact ⟨hs d.span (by simp [diagSpans]), fun l hl => hs l (by simp [diagSpans, hl])⟩

/-- **C07 (static checker)**: the checker model is a total structural function, and every diagnostic
and label span it reports for the parsed program is a span of the AST — hence safe to slice with. -/
theorem checker_diagnostic_spans_safe (src : Bytes) (h : ValidUtf8 src) :
    ∀ d ∈ (Resolve.resolve (frontEnd src).1).diags, ∀ s ∈ diagSpans d, SafeSpan src s := by
  intro d hd s hs
  exact (front_end_spans_safe src h).1 s
    (NaijaVerif.C07Resolve.resolve_diag_spans_from_ast (frontEnd src).1 d hd s hs)

/-- … and the checker's diagnostics always render. -/
theorem checker_diagnostics_render (src file : Bytes) (h : ValidUtf8 src) (code msg : Diag → Bytes)
    (labelMsg : Diag → Nat → Bytes) :
    Render.renderAnsi src file ((Resolve.resolve (frontEnd src).1).diags.map
      (NaijaVerif.Props.C07Render.ofDiag code msg labelMsg)) ≠ none := by
  apply NaijaVerif.Props.C07Render.c07_render_front_end src file _ code msg labelMsg h
  intro d hd
  have hs := checker_diagnostic_spans_safe src h d hd
  exact ⟨hs d.span (by simp [diagSpans]), fun l hl => hs l (by simp [diagSpans, hl])⟩

/-- **Gate**: a text is executed only if the merged diagnostics hold no error — the pipeline's
decision is a function of the diagnostics alone (`cmd.rs` stops on any parser diagnostic). -/
def accepted (src : Bytes) : Bool := (frontEnd src).2.isEmpty

theorem accepted_iff_no_diagnostics (src : Bytes) :
    accepted src = true ↔ (lex src).2 = [] ∧ (parseProgram (lex src).1).2 = [] := by
  simp [accepted, frontEnd, List.isEmpty_iff]

/-! Non-vacuity: the D-07 witnesses are valid UTF-8 texts with diagnostics, and the theorem speaks
about them. -/
example : ValidUtf8 (b!"make x get 1.é") := by decide
example : (frontEnd (b!"make x get 1.é")).2 ≠ [] := by decide

end NaijaVerif.C07
