/-
C12, pool-set level: the 20-class `PoolSet` over one arena.  Layout (blocks ordered and below the
fallback area), buffer size, class round trip on release, fallback never recycled, exact ownership
test, and disjointness of buffers from different classes.
-/
import NaijaVerif.Props.C12

namespace NaijaVerif.Pool

theorem alignUp_ge (off a : Nat) (ha : 0 < a) : off ≤ alignUp off a := by
  unfold alignUp
  have h := Nat.div_add_mod (off + a - 1) a
  have hm := Nat.mod_lt (off + a - 1) ha
  have : (off + a - 1) / a * a = a * ((off + a - 1) / a) := Nat.mul_comm _ _
  omega

/-- Everything `newAux` lays out sits between the starting offset and `offAfter`, in class order. -/
theorem newAux_layout (n c off : Nat) :
    off ≤ PoolSet.offAfter n c off ∧
    (∀ k p, (PoolSet.newAux n c off)[k]? = some p →
        off ≤ p.base ∧ p.base + p.total ≤ PoolSet.offAfter n c off ∧
        p.slotSize = slotSizeOf (c + k) ∧ p.slotCount = slotCountOf (c + k) ∧ p.Inv) ∧
    (∀ (j k : Nat) (p q : Pool), j < k → (PoolSet.newAux n c off)[j]? = some p →
        (PoolSet.newAux n c off)[k]? = some q → p.base + p.total ≤ q.base) := by
  induction n generalizing c off with
  | zero => simp [PoolSet.newAux, PoolSet.offAfter]
  | succ n ih =>
    simp only [PoolSet.newAux, PoolSet.offAfter]
    have h8 := alignUp_ge off 8 (by omega)
    have h4 := alignUp_ge (alignUp off 8 + slotSizeOf c * slotCountOf c) 4 (by omega)
    obtain ⟨ih1, ih2, ih3⟩ :=
      ih (c + 1) (alignUp (alignUp off 8 + slotSizeOf c * slotCountOf c) 4 + 4 * slotCountOf c)
    refine ⟨by omega, ?_, ?_⟩
    · intro k p hk
      cases k with
      | zero =>
        simp only [List.getElem?_cons_zero, Option.some.injEq] at hk
        subst hk
        refine ⟨h8, ?_, rfl, rfl, Pool.inv_new _ _ _⟩
        show alignUp off 8 + slotSizeOf c * slotCountOf c ≤ _
        omega
      | succ k =>
        simp only [List.getElem?_cons_succ] at hk
        obtain ⟨a, b, d, e, f⟩ := ih2 k p hk
        refine ⟨by omega, b, ?_, ?_, f⟩
        · rw [d]; congr 1; omega
        · rw [e]; congr 1; omega
    · intro j k p q hjk hj hk
      cases k with
      | zero => omega
      | succ k =>
        simp only [List.getElem?_cons_succ] at hk
        obtain ⟨a, _, _, _, _⟩ := ih2 k q hk
        cases j with
        | zero =>
          simp only [List.getElem?_cons_zero, Option.some.injEq] at hj
          subst hj
          show alignUp off 8 + slotSizeOf c * slotCountOf c ≤ q.base
          omega
        | succ j =>
          simp only [List.getElem?_cons_succ] at hj
          exact ih3 j k p q (by omega) hj hk

theorem newAux_length (n c off : Nat) : (PoolSet.newAux n c off).length = n := by
  induction n generalizing c off with
  | zero => rfl
  | succ n ih => simp [PoolSet.newAux, ih]

/-- Well-formedness of a pool set: geometry per class, per-pool invariant, ordered disjoint blocks,
all below the area used for fallback allocations, nothing wraps the address space. -/
structure PoolSet.WF (s : PoolSet) : Prop where
  len      : s.pools.length = classCount
  geom     : ∀ (c : Nat) (p : Pool), s.pools[c]? = some p →
               p.slotSize = slotSizeOf c ∧ p.slotCount = slotCountOf c ∧ p.Inv
  ordered  : ∀ (j k : Nat) (p q : Pool), j < k → s.pools[j]? = some p → s.pools[k]? = some q →
               p.base + p.total ≤ q.base
  below    : ∀ (c : Nat) (p : Pool), s.pools[c]? = some p → p.base + p.total ≤ s.arenaOff
  noWrap   : s.arenaOff ≤ 2 ^ 64

theorem PoolSet.wf_new (off0 : Nat) (h : PoolSet.offAfter classCount 0 off0 ≤ 2 ^ 64) :
    (PoolSet.new off0).WF := by
  obtain ⟨_, h2, h3⟩ := newAux_layout classCount 0 off0
  refine ⟨newAux_length _ _ _, ?_, h3, ?_, h⟩
  · intro c p hc
    obtain ⟨_, _, d, e, f⟩ := h2 c p hc
    simp only [Nat.zero_add] at d e
    exact ⟨d, e, f⟩
  · intro c p hc
    exact (h2 c p hc).2.1

/-- The real layout (fresh arena, offset 0) fits: about 1.3 MiB. -/
example : PoolSet.offAfter classCount 0 0 ≤ 2 ^ 64 := by decide +kernel

/-! ### Allocation -/

/-- What `PoolSet.alloc` returns, with the state it leaves. -/
theorem PoolSet.alloc_cases (s : PoolSet) (size : Nat) :
    (∃ c p i p', sizeClass size = some c ∧ s.pools[c]? = some p ∧ p.alloc = some (i, p') ∧
        s.alloc size = (.pool c i (p.slotAddr i) p.slotSize, { s with pools := s.pools.set c p' })) ∨
    (s.alloc size = (.arena s.arenaOff size, { s with arenaOff := s.arenaOff + size })) := by
  unfold PoolSet.alloc
  split
  · next c hc =>
    split
    · next p hp =>
      split
      · next i p' ha => exact Or.inl ⟨c, p, i, p', hc, hp, ha, rfl⟩
      · exact Or.inr rfl
    · exact Or.inr rfl
  · exact Or.inr rfl

/-- A buffer is at least as large as the request (pooled: the class's slot size; fallback: exact). -/
theorem PoolSet.alloc_len (s : PoolSet) (size : Nat) (h : s.WF) : size ≤ (s.alloc size).1.len := by
  rcases PoolSet.alloc_cases s size with ⟨c, p, i, p', hc, hp, _, he⟩ | he
  · rw [he]; simp only [Buf.len]
    rw [(h.geom c p hp).1]; exact sizeClass_fits size c hc
  · rw [he]; simp [Buf.len]

/-- Fallback happens exactly when the request is too large or its class is exhausted. -/
theorem PoolSet.alloc_fallback_iff (s : PoolSet) (size : Nat) (h : s.WF) :
    (∃ a l, (s.alloc size).1 = .arena a l) ↔
      (256 < size ∨ ∃ (c : Nat) (p : Pool), sizeClass size = some c ∧ s.pools[c]? = some p ∧ p.liveCount = p.slotCount) := by
  constructor
  · rintro ⟨a, l, he⟩
    by_cases hs : 256 < size
    · exact Or.inl hs
    · right
      have hc : ∃ c, sizeClass size = some c := by
        cases hsc : sizeClass size with
        | none => exact absurd ((sizeClass_none_iff size).mp hsc) hs
        | some c => exact ⟨c, rfl⟩
      obtain ⟨c, hc⟩ := hc
      have hlt := sizeClass_lt size c hc
      have hp : ∃ p, s.pools[c]? = some p := by
        have : c < s.pools.length := by rw [h.len]; exact hlt
        exact ⟨s.pools[c], List.getElem?_eq_getElem this⟩
      obtain ⟨p, hp⟩ := hp
      refine ⟨c, p, hc, hp, ?_⟩
      apply (Pool.alloc_none_iff p (h.geom c p hp).2.2).mp
      unfold PoolSet.alloc at he
      rw [hc] at he; simp only [hp] at he
      cases ha : p.alloc with
      | none => rfl
      | some ip => rw [ha] at he; simp at he
  · rintro (hs | ⟨c, p, hc, hp, hfull⟩)
    · have := (sizeClass_none_iff size).mpr hs
      unfold PoolSet.alloc; rw [this]; exact ⟨_, _, rfl⟩
    · have := (Pool.alloc_none_iff p (h.geom c p hp).2.2).mpr hfull
      unfold PoolSet.alloc; rw [hc]; simp only [hp, this]; exact ⟨_, _, rfl⟩

theorem getElem?_set_cases {α} (l : List α) (c k : Nat) (x y : α) (h : (l.set c x)[k]? = some y) :
    (k = c ∧ y = x ∧ c < l.length) ∨ (k ≠ c ∧ l[k]? = some y) := by
  by_cases hk : k = c
  · subst hk
    rw [List.getElem?_set_self'] at h
    cases hl : l[k]? with
    | none => simp [hl] at h
    | some z =>
      simp [hl] at h
      have : k < l.length := by
        rcases Nat.lt_or_ge k l.length with h' | h'
        · exact h'
        · simp [List.getElem?_eq_none h'] at hl
      exact Or.inl ⟨rfl, h.symm, this⟩
  · rw [List.getElem?_set_ne (Ne.symm hk)] at h
    exact Or.inr ⟨hk, h⟩

/-- Allocation keeps the set well-formed (given the fallback area does not run out of address space). -/
theorem PoolSet.alloc_wf (s : PoolSet) (size : Nat) (h : s.WF) (hfit : s.arenaOff + size ≤ 2 ^ 64) :
    (s.alloc size).2.WF := by
  rcases PoolSet.alloc_cases s size with ⟨c, p, i, p', hc, hp, ha, he⟩ | he
  · rw [he]
    obtain ⟨hinv', _, _, _, hb, hs, hn⟩ := Pool.alloc_spec p p' i (h.geom c p hp).2.2 ha
    have htot : p'.total = p.total := by unfold Pool.total; rw [hs, hn]
    have key : ∀ (k : Nat) (q : Pool), (s.pools.set c p')[k]? = some q →
        ∃ q0 : Pool, s.pools[k]? = some q0 ∧ q.base = q0.base ∧ q.total = q0.total ∧
          q.slotSize = q0.slotSize ∧ q.slotCount = q0.slotCount ∧ q.Inv := by
      intro k q hk
      rcases getElem?_set_cases _ _ _ _ _ hk with ⟨rfl, rfl, _⟩ | ⟨_, hk'⟩
      · exact ⟨p, hp, hb, htot, hs, hn, hinv'⟩
      · exact ⟨q, hk', rfl, rfl, rfl, rfl, (h.geom k q hk').2.2⟩
    refine ⟨by simp [h.len], ?_, ?_, ?_, h.noWrap⟩
    · intro k q hk
      obtain ⟨q0, h0, _, _, e1, e2, e3⟩ := key k q hk
      exact ⟨e1 ▸ (h.geom k q0 h0).1, e2 ▸ (h.geom k q0 h0).2.1, e3⟩
    · intro j k q r hjk hj hk
      obtain ⟨q0, hq0, eb, et, _⟩ := key j q hj
      obtain ⟨r0, hr0, eb', _, _⟩ := key k r hk
      rw [eb, et, eb']; exact h.ordered j k q0 r0 hjk hq0 hr0
    · intro k q hk
      obtain ⟨q0, hq0, eb, et, _⟩ := key k q hk
      rw [eb, et]; exact h.below k q0 hq0
  · rw [he]
    exact ⟨h.len, h.geom, h.ordered, fun c p hp => Nat.le_trans (h.below c p hp) (Nat.le_add_right _ _), hfit⟩

/-! ### Ownership test and release -/

/-- `PoolSet::contains` answers true exactly for addresses inside a slot block. -/
theorem PoolSet.contains_iff (s : PoolSet) (a : Nat) (h : s.WF) (ha : a < 2 ^ 64) :
    s.contains a = true ↔ ∃ (c : Nat) (p : Pool), s.pools[c]? = some p ∧ p.base ≤ a ∧ a < p.base + p.total := by
  unfold PoolSet.contains
  rw [List.any_eq_true]
  constructor
  · rintro ⟨p, hp, hc⟩
    obtain ⟨c, hlt, rfl⟩ := List.getElem_of_mem hp
    have hget : s.pools[c]? = some s.pools[c] := List.getElem?_eq_getElem hlt
    have hb := h.below c _ hget
    have := (containsWrap_iff _ _ a ha (Nat.le_trans hb h.noWrap)).mp hc
    exact ⟨c, _, hget, this⟩
  · rintro ⟨c, p, hp, h1, h2⟩
    refine ⟨p, List.mem_of_getElem? hp, ?_⟩
    have hb := h.below c p hp
    exact (containsWrap_iff _ _ a ha (Nat.le_trans hb h.noWrap)).mpr ⟨h1, h2⟩

/-- A fallback buffer (at or above the arena offset at hand-out time, hence above every block) is
not owned by the pool … -/
theorem PoolSet.fallback_not_contained (s : PoolSet) (a : Nat) (h : s.WF) (ha : a < 2 ^ 64)
    (hab : ∀ (c : Nat) (p : Pool), s.pools[c]? = some p → p.base + p.total ≤ a) : s.contains a = false := by
  cases hc : s.contains a with
  | false => rfl
  | true =>
    obtain ⟨c, p, hp, _, h2⟩ := (PoolSet.contains_iff s a h ha).mp hc
    have := hab c p hp; omega

/-- … and releasing it changes nothing, whatever size is passed: it is never recycled. -/
theorem PoolSet.dealloc_fallback (s : PoolSet) (a size : Nat) (h : s.WF) (ha : a < 2 ^ 64)
    (hab : ∀ (c : Nat) (p : Pool), s.pools[c]? = some p → p.base + p.total ≤ a) : s.dealloc a size = s := by
  unfold PoolSet.dealloc
  split
  · next c _ =>
    split
    · next p hp =>
      have hb := h.below c p hp
      have : p.contains a = false := by
        cases hc : p.contains a with
        | false => rfl
        | true =>
          have := (containsWrap_iff _ _ a ha (Nat.le_trans hb h.noWrap)).mp hc
          have := hab c p hp; omega
      simp [this]
    · rfl
  · rfl

/-- Releasing a pooled buffer with the size it was requested with returns exactly its slot to
exactly its class. -/
theorem PoolSet.dealloc_pooled (s : PoolSet) (size c i : Nat) (p : Pool) (h : s.WF)
    (hc : sizeClass size = some c) (hp : s.pools[c]? = some p) (hi : i < p.slotCount) :
    s.dealloc (p.slotAddr i) size = { s with pools := s.pools.set c (p.dealloc i) } := by
  have hg := h.geom c p hp
  have hsz : 0 < p.slotSize := by rw [hg.1]; exact slotSizeOf_pos c
  have hfit : p.base + p.total ≤ 2 ^ 64 := Nat.le_trans (h.below c p hp) h.noWrap
  obtain ⟨h1, h2⟩ := Pool.indexOf_slotAddr p i hi hsz hfit
  unfold PoolSet.dealloc
  rw [hc]; simp only [hp, h1, h2, if_true]

/-- Buffers of different classes never overlap (blocks are laid out in class order). -/
theorem PoolSet.classes_disjoint (s : PoolSet) (h : s.WF) (c d i j : Nat) (p q : Pool) (hcd : c < d)
    (hp : s.pools[c]? = some p) (hq : s.pools[d]? = some q) (hi : i < p.slotCount) :
    p.slotAddr i + p.slotSize ≤ q.slotAddr j := by
  have ho := h.ordered c d p q hcd hp hq
  have : (i + 1) * p.slotSize ≤ p.slotCount * p.slotSize := Nat.mul_le_mul_right _ hi
  rw [Nat.add_mul] at this
  unfold Pool.slotAddr
  unfold Pool.total at ho
  rw [Nat.mul_comm p.slotSize] at ho
  have : 0 ≤ j * q.slotSize := Nat.zero_le _
  omega

/-! ### Non-vacuity: the real layout, a class exhausted, fallback, release, reuse -/

example : ((PoolSet.new 0).alloc 200).1 = .pool 18 0 3526656 224 := by decide +kernel

example : ((PoolSet.new 0).alloc 300).1 = .arena (PoolSet.offAfter classCount 0 0) 300 := by
  decide +kernel

end NaijaVerif.Pool
