/-
C17 — `read_line` delivers successive input lines, whatever the chunking.

Property theorems about `Model/ReadLine.lean`.

* The model `readLine`/`readLines` is the code **after** the fix for D-17
  (`proposed-fixes/D-17.diff`, in /repo as "fix: read_line keeps input that was read but not yet
  returned …": the bytes read behind the newline are kept in a process-wide buffer).
  `c17` is the full-strength statement for it: every text, every way of cutting it into chunks,
  every number of calls, every line length (no bound anywhere).
* `readLinesOld` is the pinned code, which keeps nothing between calls; `c17_old_is_false` shows
  from the 8-byte witness `["one\ntwo\n"]` that the same statement is false for it
  (`c17_old_partial`: it is right when every read delivers exactly one line).  The witness is
  `corpus/C17/d17-two-lines-one-chunk.txt` and is replayed on the implementation by every check
  run, so a regression to the old behaviour is reported with that input.

What the code strips is exactly one `"\n"`; a `"\r"` before it stays in the line (`crlf_kept`).
-/
import NaijaVerif.Model.ReadLine
import NaijaVerif.Model.Bytes
import NaijaVerif.Lemmas.ReadLine
import NaijaVerif.Gen.ReadLine

namespace NaijaVerif.ReadLine

/-! ### Tie of the constants extracted from `src/sys/unix.rs` to the model -/

theorem gen_initialCap : Gen.ReadLine.initialCap = initialCap := by decide

theorem gen_terminator : Gen.ReadLine.terminator = newline := by decide

/-- The only byte the function treats specially is the terminator (no `\r` handling). -/
theorem gen_byteLiterals : Gen.ReadLine.byteLiterals = [newline] := by decide

theorem initialCap_pos : 0 < initialCap := by decide

/-! ### The specification is what it should be -/

/-- A line is exactly the bytes before the next newline: nothing dropped, nothing added, and what
follows the newline is exactly the rest. -/
theorem splitLine_exact (t : List Nat) :
    newline ∉ (splitLine t).1 ∧
      (t = (splitLine t).1 ++ newline :: (splitLine t).2 ∨
        (t = (splitLine t).1 ∧ (splitLine t).2 = [])) :=
  ⟨splitLine_fst_no_newline t, splitLine_cases t⟩

/-- After the end of the text every further line is empty. -/
theorem takeLines_nil (k : Nat) : takeLines k [] = List.replicate k [] := by
  induction k with
  | zero => rfl
  | succ k ih => simp [takeLines, splitLine, ih, List.replicate_succ]

example : takeLines 4 (b!"one\ntwo\nthr") = [b!"one", b!"two", b!"thr", []] := by decide
example : takeLines 3 (b!"a\n\nb\n") = [b!"a", [], b!"b"] := by decide

/-- `"\r"` is an ordinary byte: a CRLF line keeps its `\r`. -/
theorem crlf_kept (l r : List Nat) (h : newline ∉ l) :
    splitLine (l ++ 13 :: newline :: r) = (l ++ [13], r) := by
  have h' : newline ∉ l ++ [13] := by
    intro hm
    rcases List.mem_append.mp hm with hm | hm
    · exact h hm
    · simp [newline] at hm
  have := splitLine_append_newline (l ++ [13]) r h'
  simpa using this

/-! ### One call of the fixed `read_line` -/

/-- Representation invariant of the state between calls: the pending bytes fit their buffer. -/
def St.Inv (s : St) : Prop := s.pending.length ≤ s.cap

theorem St.inv_init (chunks : List (List Nat)) : (St.init chunks).Inv := by
  simp [St.init, St.Inv]

/-- One call returns the first line of the text that is still to come — whatever part of it is
already pending and however the rest is cut into chunks — and leaves exactly the text behind that
line for the next call.  In particular the loop never runs out of fuel and never takes `read`'s
answer for a buffer without room (`count = 0`) for the end of input. -/
theorem readLine_spec (c0 : Nat) (hc0 : 0 < c0) (s : St) (hs : s.Inv) :
    ∃ l s', readLine c0 s = some (l, s') ∧ l = (splitLine s.text).1 ∧
      s'.text = (splitLine s.text).2 ∧ s'.Inv := by
  obtain ⟨e, s₁, hrun, hpost⟩ :=
    readLoop_spec c0 hc0 (fuelFor s) 0 s (by simp [fuelFor]) (Nat.zero_le _) (by simp) hs
  refine ⟨_, _, by simp only [readLine, hrun]; rfl, ?_, ?_, ?_⟩
  · -- the line
    rw [← hpost.text, splitLine_eq]
    simp only [St.text]
    rcases hpost.stop with hlt | heof
    · rw [List.findIdx_append, ← hpost.index, if_pos hlt,
        List.take_append_of_le_length (Nat.le_of_lt hlt)]
    · rw [heof, List.append_nil, ← hpost.index]
  · -- what is left
    rw [← hpost.text, splitLine_eq]
    simp only [St.text, drop_min_length]
    rcases hpost.stop with hlt | heof
    · rw [List.findIdx_append, ← hpost.index, if_pos hlt,
        List.drop_append_of_le_length (by omega)]
    · simp only [heof, List.append_nil]
      rw [← hpost.index]
  · -- the invariant
    have := hpost.fits
    simp only [St.Inv, List.length_drop]
    omega

/-- `readLine` is total (fuel adequacy). -/
theorem readLine_total (c0 : Nat) (hc0 : 0 < c0) (s : St) (hs : s.Inv) :
    (readLine c0 s).isSome = true := by
  obtain ⟨l, s', h, _⟩ := readLine_spec c0 hc0 s hs
  simp [h]

/-! ### C17 -/

/-- `k` successive calls from any reachable state return the first `k` lines of the text still to
come, for every initial capacity. -/
theorem readLinesFrom_spec (c0 : Nat) (hc0 : 0 < c0) (k : Nat) (s : St) (hs : s.Inv) :
    readLinesFrom c0 k s = some (takeLines k s.text) := by
  induction k generalizing s with
  | zero => rfl
  | succ k ih =>
      obtain ⟨l, s', hrun, hl, htext, hinv⟩ := readLine_spec c0 hc0 s hs
      simp only [readLinesFrom, hrun, ih s' hinv, takeLines, hl, htext]

/-- The full-strength statement, as a predicate of an implementation `f k chunks`. -/
def C17Statement (f : Nat → List (List Nat) → Option (List (List Nat))) : Prop :=
  ∀ (chunks : List (List Nat)) (k : Nat), f k chunks = some (takeLines k chunks.flatten)

/-- **C17.** For every text, every chunking of it (empty chunks included) and every `k`, `k`
successive calls of the fixed `read_line` return the first `k` lines of the text: terminator
`"\n"` removed, a final partial line once, then empty strings.  No bound on the number of lines,
their lengths (the buffer doubles as often as needed) or the number of chunks. -/
theorem c17 : C17Statement readLines := by
  intro chunks k
  have := readLinesFrom_spec initialCap initialCap_pos k (St.init chunks) (St.inv_init chunks)
  simpa [readLines, St.text, St.init] using this

/-- The result depends on the text only: two chunkings of the same text read the same lines. -/
theorem c17_chunking_irrelevant (c₁ c₂ : List (List Nat)) (k : Nat)
    (h : c₁.flatten = c₂.flatten) : readLines k c₁ = readLines k c₂ := by
  rw [c17 c₁ k, c17 c₂ k, h]

/-- Calls compose: reading `j` lines and then `k` more is reading `j + k` lines. -/
theorem takeLines_add (j k : Nat) (t : List Nat) :
    ∃ rest, takeLines (j + k) t = takeLines j t ++ takeLines k rest := by
  induction j generalizing t with
  | zero => exact ⟨t, by simp [takeLines]⟩
  | succ j ih =>
      obtain ⟨rest, h⟩ := ih (splitLine t).2
      exact ⟨rest, by rw [Nat.succ_add]; simp [takeLines, h]⟩

-- non-vacuity: two lines in one chunk, a newline at a chunk edge, a multi-byte character cut in
-- two, a missing final newline, calls past the end
example : readLines 3 [b!"one\ntwo\n"] = some [b!"one", b!"two", []] := by decide
example : readLines 4 [b!"a", b!"b\n", b!"\nc"] = some [b!"ab", [], b!"c", []] := by decide
example : readLines 2 [[0xE2, 0x82], [0xAC, 10, 0xC3], [0xA9]] =
    some [[0xE2, 0x82, 0xAC], [0xC3, 0xA9]] := by decide
-- a line longer than the buffer: with initial capacity 2 a 9-byte line needs three doublings
example : readLinesFrom 2 2 (St.init [b!"abcdefghi\nxy"]) = some [b!"abcdefghi", b!"xy"] := by
  decide
example : (readLine 2 (St.init [b!"abcdefghi\nxy"])).map (·.2.cap) = some 16 := by decide

/-! ### Long lines: the buffer grows, nothing is lost -/

/-- A line of any length `n` — in particular above the initial 8 KiB — delivered in any chunking
is returned whole, followed by the next line. -/
theorem c17_long_line (n : Nat) (x : Nat) (hx : x ≠ newline) (tail : List Nat)
    (chunks : List (List Nat)) (h : chunks.flatten = List.replicate n x ++ newline :: tail) :
    readLines 2 chunks = some [List.replicate n x, (splitLine tail).1] := by
  rw [c17 chunks 2, h]
  have hn : newline ∉ List.replicate n x := by
    intro hm; exact hx (List.eq_of_mem_replicate hm).symm
  simp [takeLines, splitLine_append_newline _ _ hn]

/-- The capacity after a call is the initial capacity times a power of two (or still 0 when
nothing had to be read), so the buffer is only ever doubled. -/
def CapOk (c0 cap : Nat) : Prop := cap = 0 ∨ ∃ j, cap = c0 * 2 ^ j

theorem grow_capOk (c0 len cap : Nat) (h : CapOk c0 cap) : CapOk c0 (grow c0 len cap) := by
  unfold grow
  split
  · rcases h with h | ⟨j, h⟩
    · right; exact ⟨0, by simp [h]⟩
    · right
      refine ⟨j + 1, ?_⟩
      have h1 : 1 ≤ 2 ^ j := Nat.one_le_two_pow
      have h2 : c0 ≤ c0 * 2 ^ j := Nat.le_mul_of_pos_right _ h1
      rw [h, Nat.max_eq_left h2, Nat.pow_succ, ← Nat.mul_assoc]
      omega
  · exact h

theorem readLoop_capOk (c0 : Nat) : ∀ (fuel scanned : Nat) (s : St) (e : Nat) (s' : St),
    readLoop c0 fuel scanned s = some (e, s') → CapOk c0 s.cap → CapOk c0 s'.cap := by
  intro fuel
  induction fuel with
  | zero => intro scanned s e s' h; simp [readLoop] at h
  | succ fuel ih =>
      intro scanned s e s' h hc
      unfold readLoop at h
      simp only at h
      split at h
      · cases h; exact hc
      · split at h
        · cases h; exact grow_capOk _ _ _ hc
        · exact ih _ _ _ _ h (grow_capOk _ _ _ hc)

theorem readLine_capOk (c0 : Nat) (s : St) (l : List Nat) (s' : St)
    (h : readLine c0 s = some (l, s')) (hc : CapOk c0 s.cap) : CapOk c0 s'.cap := by
  unfold readLine at h
  split at h
  · cases h
  · next e s₁ hrun =>
    cases h
    have := readLoop_capOk c0 _ _ _ _ _ hrun hc
    exact this

/-! ### Multi-byte characters -/

/-- If the input text is valid UTF-8, so is every line `read_line` returns — for every chunking,
including chunk edges and buffer edges inside a multi-byte character: no character is ever split
between two results. -/
theorem takeLines_validUtf8 (k : Nat) (t : List Nat) (h : validUtf8 t = true) :
    ∀ l ∈ takeLines k t, validUtf8 l = true := by
  induction k generalizing t with
  | zero => intro l hl; simp [takeLines] at hl
  | succ k ih =>
      intro l hl
      simp only [takeLines, List.mem_cons] at hl
      have hsplit : validUtf8 (splitLine t).1 = true ∧ validUtf8 (splitLine t).2 = true := by
        rcases splitLine_cases t with hc | ⟨h1, h2⟩
        · rw [hc] at h
          exact validUtf8_split _ _ newline (by decide) h
        · rw [← h1, h2]; exact ⟨h, by decide⟩
      rcases hl with rfl | hl
      · exact hsplit.1
      · exact ih _ hsplit.2 l hl

theorem c17_utf8 (chunks : List (List Nat)) (k : Nat) (h : validUtf8 chunks.flatten = true) :
    ∃ ls, readLines k chunks = some ls ∧ ∀ l ∈ ls, validUtf8 l = true :=
  ⟨_, c17 chunks k, takeLines_validUtf8 k _ h⟩

example : validUtf8 (b!"naïve €uro 😀\n") = true := by decide
example : validUtf8 [0xE2, 0x82] = false := by decide
example : validUtf8 [0xC0, 0x80] = false := by decide          -- overlong
example : validUtf8 [0xED, 0xA0, 0x80] = false := by decide    -- surrogate

/-! ### The pinned code does not have the property (D-17) -/

/-- The pinned `read_line` reads `"one\ntwo\n"` in one piece, returns `"one"` and forgets the
rest: the second call sees the end of the input. -/
theorem c17_old_witness :
    readLinesOld 2 [b!"one\ntwo\n"] = some [b!"one", []] ∧
      takeLines 2 [b!"one\ntwo\n"].flatten = [b!"one", b!"two"] := by
  decide

theorem c17_old_is_false : ¬ C17Statement readLinesOld := by
  intro h
  have := h [b!"one\ntwo\n"] 2
  revert this
  decide

/-- … while, fed line by line — one whole line with its newline per read, none longer than the
buffer, as a terminal in canonical mode delivers them — the pinned code is right, for every number
of lines and calls (which is why interactive use never showed the defect). -/
theorem c17_old_partial (c0 : Nat) (hc0 : 0 < c0) (chunks : List (List Nat))
    (h : lineWise c0 chunks = true) (k : Nat) :
    readLinesOldFrom c0 k chunks = some (takeLines k chunks.flatten) := by
  induction chunks generalizing k with
  | nil => exact readLinesOldFrom_nil c0 k
  | cons c cs ih =>
      simp only [lineWise, List.all_cons, Bool.and_eq_true, decide_eq_true_eq, beq_iff_eq,
        Bool.not_eq_true', List.contains_eq_mem, decide_eq_false_iff_not] at h
      obtain ⟨⟨⟨hlen, hlast⟩, hno⟩, hcs⟩ := h
      have hc : c.dropLast ++ [newline] = c := dropLast_append_of_getLast? c newline hlast
      cases k with
      | zero => rfl
      | succ k =>
          have hcs' : lineWise c0 cs = true := by simpa [lineWise] using hcs
          have hline := readLineOld_line c0 hc0 c.dropLast cs hno (by rw [hc]; exact hlen)
          rw [hc] at hline
          simp only [readLinesOldFrom, hline, ih hcs' k, takeLines, List.flatten_cons]
          have : c ++ cs.flatten = c.dropLast ++ newline :: cs.flatten := by
            conv => lhs; rw [← hc]
            simp
          rw [this, splitLine_append_newline _ _ hno]

-- the hypothesis is satisfiable
example : lineWise initialCap [b!"one\n", b!"two\n"] = true := by decide


example : readLinesOld 3 [b!"one\n", b!"two\n"] = some [b!"one", b!"two", []] := by decide

end NaijaVerif.ReadLine
