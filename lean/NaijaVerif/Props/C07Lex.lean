import NaijaVerif.Lemmas.LexInv
import NaijaVerif.Gen.Lexical
/-
C07, lexer part: the lexer is total and every position it produces is safe to slice the text with.

All theorems are about `NaijaVerif.Lex.lex` (`Model/Lex.lean`, the model of `scanner.rs` with the
D-07 fix) and hold for **every** valid UTF-8 text (what a Rust `&str` is), of any length.
The first block ties the model's tables to the ones extracted from the source on this run.
-/
namespace NaijaVerif.Props.C07Lex
open NaijaVerif NaijaVerif.Lex NaijaVerif.Utf8
open NaijaVerif.Bytes (isBoundary)

/-! ## the tables of `scanner.rs` (extracted on every run) are the model's tables -/

theorem gen_keywords : Gen.Lexical.keywords = kwTable := by decide
theorem gen_multiWord : Gen.Lexical.multiWord = multiWord := by decide
/-- each multi-word block saves the cursor once and restores it once, after *all* alternatives:
the model's `tryAlts` does not reset between alternatives -/
theorem gen_multiWord_rollback :
    Gen.Lexical.multiWordSaves = multiWord.map (fun _ => 1) ∧
    Gen.Lexical.multiWordRollbacks = multiWord.map (fun _ => 1) := by decide
theorem gen_punct : Gen.Lexical.punct = punctTable := by decide
theorem gen_escapes : Gen.Lexical.escapes = escTable ∧ Gen.Lexical.escapeChar = 92 := by decide
theorem gen_quoteChars : Gen.Lexical.quoteChars = quoteChars := by decide
theorem gen_comment :
    Gen.Lexical.commentChar = commentChar ∧
    Gen.Lexical.commentEnds = (List.range 256).filter (fun b => !notNl b) ∧
    Gen.Lexical.stringLineEnds = (List.range 256).filter (fun b => !notNl b) := by decide
theorem gen_whitespace :
    Gen.Lexical.whitespace = (List.range 256).filter isWs ∧ Gen.Lexical.whitespace = wsBytes := by decide
theorem gen_alpha : Gen.Lexical.alpha = (List.range 256).filter isAlpha := by decide
theorem gen_digits :
    Gen.Lexical.digits = (List.range 256).filter isDigit ∧ Gen.Lexical.decimalPoint = 46 := by decide
/-- `charLen` is `char::len_utf8` for every byte that can start a character -/
theorem gen_charLen :
    Gen.Lexical.lenUtf8ByLead.length = 256 ∧
    (List.range 256).all (fun b => Gen.Lexical.lenUtf8ByLead[b]! == 0 || Gen.Lexical.lenUtf8ByLead[b]! == charLen b) = true := by
  decide +kernel
/-- the order of the tests in `next_token` is the order of the model's `step`; EOF is never yielded -/
theorem gen_dispatch :
    Gen.Lexical.dispatchOrder = [b!"comment", b!"string", b!"punct", b!"number", b!"word", b!"nonascii"] ∧
    Gen.Lexical.eofYieldsNone = 1 := by decide

/-! ## totality: fuel adequacy -/

/-- The loop of `next_token`, run with the fuel `lex` gives it, reaches end of input (the out-of-fuel
flag is false) … -/
theorem c07_lex_fuel_adequate (src : Bytes) (h : ValidUtf8 src) :
    (lexGo (src.length + 1) ⟨0, src⟩).2.2 = false :=
  lexGo_fuel _ _ (ok_start h) (by simp)

/-- … and the result does not change with more fuel. -/
theorem c07_lex_fuel_irrelevant (src : Bytes) (h : ValidUtf8 src) (k : Nat) :
    lexGo (src.length + 1 + k) ⟨0, src⟩ = lexGo (src.length + 1) ⟨0, src⟩ :=
  lexGo_fuel_any _ (ok_start h) _ k (by simp)

/-- The inner loop of `scan_string` never runs out either: more fuel than bytes left changes nothing
(for every text, valid or not). -/
theorem c07_scanString_fuel (start quote : Nat) (c : Cur) (k : Nat) :
    scanStrLoop start quote (c.rest.length + 1 + k) c [] false [] = scanString start quote c := by
  induction k with
  | zero => rfl
  | succ k ih => rw [← Nat.add_assoc, scanStrLoop_fuel_stable _ _ _ _ _ _ _ (by omega), ih]

/-! ## the cursor -/

/-- cursors the loop of `next_token` can be in at the top of an iteration -/
inductive Reach (src : Bytes) : Cur → Prop
  | start : Reach src ⟨0, src⟩
  | skip {c c' : Cur} {ds : List Diag} : Reach src c → step c = .skip c' ds → Reach src c'
  | tok {c c' : Cur} {t : SpTok} {ds : List Diag} : Reach src c → step c = .tok t c' ds → Reach src c'

theorem reach_ok {src : Bytes} (h : ValidUtf8 src) {c : Cur} (hr : Reach src c) : c.Ok src := by
  induction hr with
  | start => exact ok_start h
  | skip _ he ih => have := step_ok ih; rw [he] at this; exact this.1
  | tok _ he ih => have := step_ok ih; rw [he] at this; exact this.1

/-- `Lexer.pos` is always `≤ len`, on a character boundary, and `src[pos..]` is the text not yet read. -/
theorem c07_lex_cursor (src : Bytes) (h : ValidUtf8 src) (c : Cur) (hr : Reach src c) :
    c.pos ≤ src.length ∧ isBoundary src c.pos = true ∧ c.rest = src.drop c.pos :=
  let hc := reach_ok h hr
  ⟨hc.bnd.1, hc.bnd.isBoundary, hc.1⟩

/-- every turn of the loop that is not EOF moves the cursor forward (no hang) -/
theorem c07_lex_progress (src : Bytes) (h : ValidUtf8 src) (c : Cur) (hr : Reach src c) :
    match step c with
    | .eof _ => True
    | .skip c' _ => c.pos < c'.pos
    | .tok _ c' _ => c.pos < c'.pos := by
  have := step_ok (reach_ok h hr)
  split <;> simp_all [StepOk]

/-! ## spans -/

/-- a span the renderer may slice the text with -/
def SafeSpan (src : Bytes) (s : Span) : Prop :=
  s.lo ≤ s.hi ∧ s.hi ≤ src.length ∧ isBoundary src s.lo = true ∧ isBoundary src s.hi = true

theorem SpanOk.safe {src : Bytes} {s : Span} (h : SpanOk src s) : SafeSpan src s :=
  ⟨h.1, h.2.2.1, h.2.1.isBoundary, h.2.2.isBoundary⟩

/-- where the parser's EOF goes -/
def endPos : Nat → List SpTok → Nat
  | p, [] => p
  | _, t :: r => endPos t.span.hi r

theorem eofTok_eq : ∀ (ts : List SpTok) (p : Nat),
    (match ts.getLast? with | some t => t.span.hi | none => p) = endPos p ts := by
  intro ts
  induction ts with
  | nil => intro p; rfl
  | cons t r ih =>
    intro p
    cases r with
    | nil => rfl
    | cons t' r' =>
      have := ih t.span.hi
      rw [List.getLast?_cons_cons]
      cases hgl : (t' :: r').getLast? with
      | none => simp at hgl
      | some x => rw [hgl] at this; simpa [endPos] using this

theorem eofTok_span (ts : List SpTok) : eofTok ts = ⟨.eof, ⟨endPos 0 ts, endPos 0 ts⟩⟩ := by
  have := eofTok_eq ts 0
  unfold eofTok
  cases hgl : ts.getLast? with
  | none => rw [hgl] at this; simp only [] at this ⊢; rw [← this]
  | some x => rw [hgl] at this; simp only [] at this ⊢; rw [← this]

theorem chain_snoc : ∀ (ts : List SpTok) (p : Nat), Chain p ts →
    Chain p (ts ++ [⟨.eof, ⟨endPos p ts, endPos p ts⟩⟩]) := by
  intro ts
  induction ts with
  | nil => intro p _; simp [Chain, endPos]
  | cons t r ih => intro p h; exact ⟨h.1, h.2.1, ih _ h.2.2⟩

theorem chain_pairwise : ∀ (ts : List SpTok) (p : Nat), Chain p ts →
    (∀ t ∈ ts, p ≤ t.span.lo) ∧ ts.Pairwise (fun a b => a.span.hi ≤ b.span.lo) := by
  intro ts
  induction ts with
  | nil => intro p _; simp
  | cons t r ih =>
    intro p h
    have := ih _ h.2.2
    refine ⟨?_, List.pairwise_cons.mpr ⟨this.1, this.2⟩⟩
    intro t' ht'
    rcases List.mem_cons.mp ht' with rfl | ht'
    · exact h.1
    · have := this.1 t' ht'; have := h.2.1; have := h.1; omega

theorem endPos_bnd {src : Bytes} : ∀ (ts : List SpTok) (p : Nat), Bnd src p → (∀ t ∈ ts, SpanOk src t.span) →
    Bnd src (endPos p ts) := by
  intro ts
  induction ts with
  | nil => intro p h _; exact h
  | cons t r ih => intro p _ h; exact ih _ (h t (by simp)).2.2 (fun t' ht' => h t' (by simp [ht']))

/-- **Token spans**: every token the parser receives (the made-up EOF included) has
`lo ≤ hi ≤ |src|` with both ends on character boundaries. -/
theorem c07_lex_token_spans (src : Bytes) (h : ValidUtf8 src) :
    ∀ t ∈ (lex src).1, SafeSpan src t.span := by
  have hg := lexGo_ok (src := src) (src.length + 1) ⟨0, src⟩ (ok_start h)
  intro t ht
  simp only [lex, lexIter, List.mem_append, List.mem_singleton] at ht
  rcases ht with ht | rfl
  · exact SpanOk.safe (hg.1 t ht).1
  · rw [eofTok_span]
    have hb : Bnd src (endPos 0 (lexGo (src.length + 1) ⟨0, src⟩).1) :=
      endPos_bnd _ 0 (ok_start h).bnd (fun t ht => (hg.1 t ht).1)
    exact SpanOk.safe ⟨Nat.le_refl _, hb, hb⟩

/-- **Token spans are non-decreasing and do not overlap**: each token ends before any later one starts. -/
theorem c07_lex_tokens_ordered (src : Bytes) (h : ValidUtf8 src) :
    (lex src).1.Pairwise (fun a b => a.span.hi ≤ b.span.lo) := by
  have hg := lexGo_ok (src := src) (src.length + 1) ⟨0, src⟩ (ok_start h)
  simp only [lex, lexIter]
  rw [eofTok_span]
  exact (chain_pairwise _ 0 (chain_snoc _ 0 hg.2.2)).2

/-- **Diagnostic and label spans** of the lexer are safe to slice with. -/
theorem c07_lex_diag_spans (src : Bytes) (h : ValidUtf8 src) :
    ∀ d ∈ (lex src).2, SafeSpan src d.span ∧ ∀ l ∈ d.labels, SafeSpan src l := by
  have hg := lexGo_ok (src := src) (src.length + 1) ⟨0, src⟩ (ok_start h)
  intro d hd
  have := hg.2.1 d (by simpa [lex, lexIter] using hd)
  exact ⟨SpanOk.safe this.1, fun l hl => SpanOk.safe (this.2 l hl)⟩

/-- **String token contents are valid UTF-8** (the Rust code builds them with
`from_utf8_unchecked` / pushes into a `String`). -/
theorem c07_lex_string_contents (src : Bytes) (h : ValidUtf8 src) :
    ∀ t ∈ (lex src).1, ∀ content esc, t.tok = .str content esc → ValidUtf8 content := by
  have hg := lexGo_ok (src := src) (src.length + 1) ⟨0, src⟩ (ok_start h)
  intro t ht content esc he
  simp only [lex, lexIter, List.mem_append, List.mem_singleton] at ht
  rcases ht with ht | rfl
  · have := (hg.1 t ht).2
    rw [he] at this; exact this
  · rw [eofTok_span] at he; cases he

/-- the stream ends with exactly one EOF, and it is the only one (`Iterator::next` never yields EOF) -/
theorem c07_lex_eof_last (src : Bytes) :
    ∃ ts e, (lex src).1 = ts ++ [e] ∧ e.tok = .eof ∧ e = eofTok ts ∧ ts = (lexIter src).1 :=
  ⟨_, _, rfl, by simp only [eofTok]; split <;> rfl, rfl, rfl⟩

/-! ## non-vacuity: the theorems speak about real inputs, including the D-07 witnesses -/

example : ValidUtf8 (b!"make x get 1.é") := by decide
example : (lex (b!"make x get \"hi\"")).1.map (·.tok) =
    [.make, .ident (b!"x"), .get, .str (b!"hi") false, .eof] := by decide
/-- D-07a: after `1.` the cursor skips the whole `é` -/
example : lex (b!"1.é") = ([⟨.eof, ⟨0, 0⟩⟩], [mkDiag .invalidNumber 0 2]) := by decide
/-- D-07b: the escape diagnostic covers the whole `€`, the content keeps it intact -/
example : lex (b!"\"a\\€b\"") =
    ([⟨.str (b!"a€b") true, ⟨0, 8⟩⟩, ⟨.eof, ⟨8, 8⟩⟩], [mkDiag .invalidStringEscape 2 6]) := by decide
/-- D-07c: invalid numbers in a row are handled by the loop -/
example : (lex (b!"1.a1.a1.a")).2.length = 3 := by decide
/-- the cursor is not reset between the alternatives of `if …` -/
example : (lex (b!"if to not so")).1.map (·.tok) = [.ifNotSo, .eof] := by decide

end NaijaVerif.Props.C07Lex
