/-
C09 — Static rules enforced exactly: ill-formed rejected, well-formed accepted.

Objects: `Resolve.resolve` (`Model/Resolve.lean`, the model of `src/resolver.rs` without the analysis
passes), `Spec.WF` (`Spec/WF.lean` + `Spec/DocTypes.lean`, the documented rules), the probed /
dumped tables `Gen/TypeRules.lean`, `Gen/Builtins.lean` (regenerated from /repo on every run).

* `gen_*`: the tables of the real checker equal the closed forms the model uses (whole tables, by
  `decide`), and equal the documented tables except on an explicit list of entries (D-09d).
* `c09_full` is the property at full strength.  It was false of the pinned code because of D-09b
  (`c09_full_pinned_is_false`; the fixed code accepts that witness, `witnessReturnScope_accepted`), and
  it is still FALSE of the current code for another reason (`c09_full_is_false`, witness D-09f: a
  recovery type of `infer_expr_type` becomes a function's result type when the result types of a
  block do not settle within the rounds).
* `c09_partial`: for EVERY program the diagnostics of the scoping rules (undeclared variable /
  placeholder / assignment target / function, arity of user and global builtin functions,
  `comot`/`next` outside a loop of the same function body, `return` outside a function, duplicate
  function, duplicate parameter, builtin name declared) are exactly the violations of the
  specification: same rule, same span, same order; hence acceptance of the scoping fragment, the
  per-rule "reported iff violated", and the category named by the diagnostic.
* Typing rules: the equation `typeDs diagnostics = typeViolations` (`c09_typing_eq`) is false
  (`c09_typing_eq_is_false`): after a first diagnostic the checker reports follow-up errors of enclosing
  operators where the specification lists the root cause only.  What holds, for every program whose
  `return` expressions are well typed where the result types are determined (`Spec.ReturnsTyped`, the
  explicit hypothesis that excludes D-09f): checker and specification are in step (`c09_in_step`) —
  hence `c09_full_partial` (rejected iff some documented rule is broken), `c09_typing_rejected`,
  `c09_typing_accepted`, `c09_typing_category`; one decided witness per typing rule.
-/
import NaijaVerif.Lemmas.ResolveTypesStmt
import NaijaVerif.Gen.TypeRules
import NaijaVerif.Gen.Builtins

namespace NaijaVerif.C09
open NaijaVerif NaijaVerif.Resolve NaijaVerif.Spec

/-! ### The probed tables of the real checker = the model's closed forms -/

def binOps : List BinOp := [.add, .minus, .times, .divide, .mod, .and, .or, .eq, .gt, .lt]
def unOps : List UnOp := [.not, .neg]

/-- `check_expr` / `infer_expr_type` of the real resolver on `a OP b`, for all 10 × 8 × 8 static
operand types (probed with tiny programs), equal the model's `binaryOk` / `inferBinary`. -/
theorem gen_binary_matches_model :
    Gen.TypeRules.binary =
      binOps.flatMap fun op => VType.all.flatMap fun l => VType.all.map fun r =>
        (op, l, r, binaryOk op (some l) (some r), inferBinary op l r) := by
  decide +kernel

theorem gen_unary_matches_model :
    Gen.TypeRules.unary =
      unOps.flatMap fun op => VType.all.map fun t => (op, t, unaryOk op (some t), inferUnary op t) := by
  decide +kernel

theorem gen_contexts_match_model :
    Gen.TypeRules.cond = VType.all.map (fun t => (t, condOk (some t))) ∧
    Gen.TypeRules.loopCond = VType.all.map (fun t => (t, condOk (some t))) ∧
    Gen.TypeRules.indexBase = VType.all.map (fun t => (t, indexBaseOk (some t))) ∧
    Gen.TypeRules.indexIdx = VType.all.map (fun t => (t, indexIdxOk (some t))) ∧
    Gen.TypeRules.commandArg = VType.all.map (fun t => (t, stringArgOk (some t))) ∧
    Gen.TypeRules.joinArg = VType.all.map (fun t => (t, stringArgOk (some t))) ∧
    Gen.TypeRules.cwdArg = VType.all.map (fun t => (t, stringArgOk (some t))) ∧
    Gen.TypeRules.envArg = VType.all.map (fun t => (t, stringArgOk (some t))) ∧
    Gen.TypeRules.timeoutArg = VType.all.map (fun t => (t, numberArgOk (some t))) ∧
    Gen.TypeRules.literalTypes.all (fun p => p.1 == p.2) = true := by
  decide +kernel

/-- Names, arities, static return types, `requires_mut_receiver` and effect classes of all builtins,
the priority of `MemberBuiltin::from_name`, and `ExprClass::join`. -/
theorem gen_builtins_match_model :
    Gen.Builtins.members = memberTable ∧
    Gen.Builtins.globals = GlobalB.all.map (fun g => (g.nameOf, g.arity, g.retType, g.cls)) ∧
    Gen.Builtins.memberAny.all (fun p => (memberAny p.1).map (·.kind) == some p.2) = true ∧
    memberTable.all (fun m => Gen.Builtins.memberAny.any (fun p => p.1 == m.name)) = true ∧
    Gen.Builtins.classJoin =
      [ExprClass.pureNoTrap, .pureMayTrap, .impure].flatMap (fun a =>
        [ExprClass.pureNoTrap, .pureMayTrap, .impure].map fun b => (a, b, a.join b)) := by
  decide +kernel

/-- The code is the fixed one: `in_loop` does not leak into function bodies (D-09a), `locals_len` is a
span (D-18). -/
theorem gen_behaviour_probes :
    Gen.Builtins.inLoopLeaksIntoFunctions = false ∧ Gen.Builtins.localsLenIsSpan = true := by
  decide

/-- The code is the fixed one with respect to D-09b: probed on the real checker, the result type of a
function is NOT taken from a same-named variable / function of the enclosing code where the function
(own `make`, parameter, `make` in a nested block or after the `return`, own function, function of a
nested block) or its defining block (`make` before or after the definition) binds the name — and it IS
where only the enclosing code binds it (a nested function's bindings are not the function's own). -/
theorem gen_return_type_probes :
    Gen.Builtins.returnTypeProbes =
      [(b!"own-make", false), (b!"parameter", false), (b!"nested-block-make", false),
       (b!"make-after-return", false), (b!"block-make-before", false), (b!"block-make-after", false),
       (b!"own-function", false), (b!"nested-block-function", false),
       (b!"enclosing-variable", true), (b!"enclosing-function", true), (b!"inner-function-make", true),
       (b!"inner-function-parameter", true), (b!"inner-function-function", true)] := by
  decide

/-! ### … and the documented tables -/

/-- Acceptance of every operator application by the real checker is the documented one: some
run-time instance of the operand types has a meaning (D-09d is fixed: no deviating entry). -/
theorem gen_matches_doc :
    Gen.TypeRules.binary.all (fun (op, l, r, ok, _) => ok == Doc.binaryOk op l r) = true ∧
    Gen.TypeRules.unary.all (fun (op, t, ok, _) => ok == Doc.unaryOk op t) = true ∧
    Gen.TypeRules.cond.all (fun (t, ok) => ok == Doc.condOk t) = true ∧
    Gen.TypeRules.indexBase.all (fun (t, ok) => ok == Doc.indexBaseOk t) = true ∧
    Gen.TypeRules.indexIdx.all (fun (t, ok) => ok == Doc.indexIdxOk t) = true ∧
    Gen.TypeRules.commandArg.all (fun (t, ok) => ok == Doc.stringArgOk t) = true ∧
    Gen.TypeRules.joinArg.all (fun (t, ok) => ok == Doc.stringArgOk t) = true ∧
    Gen.TypeRules.timeoutArg.all (fun (t, ok) => ok == Doc.numberArgOk t) = true := by
  decide +kernel

/-- Result types: wherever the documents give the application a meaning, the checker infers the
documented result type. -/
theorem gen_result_types_match_doc :
    Gen.TypeRules.binary.all (fun (op, l, r, _, res) =>
      !(Doc.binaryOk op l r) || res == some (resultType op l r)) = true ∧
    Gen.TypeRules.unary.all (fun (op, t, _, res) =>
      !(Doc.unaryOk op t) || res == some (match op with | .not => VType.bool | .neg => VType.number)) = true := by
  decide +kernel

/-- **Operators on dynamic operands** (fix D-09e): every operator applied to a `dynamic` operand —
with any other operand the documents allow — is accepted, and the inferred result type is one that
every context accepting the documented result accepts as well: the documented type itself
(`dynamic` for `add` unless an operand is a string). -/
theorem dynamic_operands_accepted :
    Gen.TypeRules.binary.all (fun (op, l, r, ok, res) =>
      !((l == .dynamic || r == .dynamic) && Doc.binaryOk op l r)
        || (ok && res == some (resultType op l r))) = true ∧
    Gen.TypeRules.unary.all (fun (_, t, ok, res) =>
      !(t == .dynamic) || (ok && res.isSome)) = true ∧
    -- a dynamic result is accepted as operand of every operator, as condition, index and indexed value
    (Gen.TypeRules.unary.all (fun (_, t, ok, _) => !(t == .dynamic) || ok)
      && Gen.TypeRules.cond.all (fun (t, ok) => !(t == .dynamic) || ok)
      && Gen.TypeRules.indexBase.all (fun (t, ok) => !(t == .dynamic) || ok)
      && Gen.TypeRules.indexIdx.all (fun (t, ok) => !(t == .dynamic) || ok)) = true := by
  decide +kernel

/-- The model's `literal_expr_type` operator table is the documented `meaning`. -/
theorem literalMeaning_eq_doc :
    (binOps.all fun op => VType.all.all fun l => VType.all.all fun r =>
      literalMeaning op l r == Doc.meaning op l r) = true ∧
    (unOps.all fun op => VType.all.all fun t => literalUnary op t == Doc.unaryMeaning op t) = true := by
  decide +kernel

/-! ### The property -/

def isError (d : Diag) : Bool := d.sev == .error

/-- **C09 at full strength**: a program is rejected before anything runs iff it breaks a documented
static rule. -/
def c09_full : Prop := ∀ p : Block, (resolve p).diags.filter isError = [] ↔ WF p

private def sp : Span := ⟨0, 0⟩

/-- D-09b: `make x get "s"  start  do f() start make x get 1 return x end  shout(f() minus 1)  end` —
the PINNED code inferred the return type of `f` at block entry with the plain scopes of the enclosing
code, where `x` is a string: a valid program was rejected. -/
def witnessReturnScope : Block :=
  .mk [.assign (b!"x") sp (.str (.static (b!"s")) sp) none none sp,
       .block (.mk [
         .fnDef (b!"f") sp [] (.mk [.assign (b!"x") sp (.num (b!"1") sp) none none sp,
                                  .ret (some (.var (b!"x") none sp)) none sp] sp) none none sp,
         .expr (.call (.var (b!"shout") none sp)
           [.binary .minus (.call (.var (b!"f") none sp) [] none sp) (.num (b!"1") sp) sp] none sp) none sp] sp)
         none sp] sp

/-- The fixed code accepts the D-09b witness … -/
theorem witnessReturnScope_accepted :
    WF witnessReturnScope ∧ (resolve witnessReturnScope).diags = [] := by
  decide +kernel

/-- … which the pinned return-type inference rejected. -/
theorem witnessReturnScope_pinned_rejected :
    WF witnessReturnScope ∧ (resolvePinnedRet witnessReturnScope).diags.map (·.kind) = [.typeMismatch] := by
  decide +kernel

/-- `do f() start return "s" add h() end  do h() start return h() na 1 end  shout(f() minus 1)` —
the result type of `h` alternates between boolean and dynamic from round to round, and the (two)
rounds end with `h` dynamic; in the last round `"s" add h()` was typed with `h` boolean, which the
operator table rejects — yet `infer_expr_type` still answers *string* for it (a string operand makes
`add` a string), so the checker holds `f` to be a string and rejects `f() minus 1`, while by the
documented rules an expression without a static type is dynamic and the program breaks no rule. -/
def witnessRecoveryType : Block :=
  .mk [.fnDef (b!"f") sp [] (.mk [.ret (some (.binary .add (.str (.static (b!"s")) sp)
          (.call (.var (b!"h") none sp) [] none sp) sp)) none sp] sp) none none sp,
       .fnDef (b!"h") sp [] (.mk [.ret (some (.binary .eq (.call (.var (b!"h") none sp) [] none sp)
          (.num (b!"1") sp) sp)) none sp] sp) none none sp,
       .expr (.call (.var (b!"shout") none sp)
         [.binary .minus (.call (.var (b!"f") none sp) [] none sp) (.num (b!"1") sp) ⟨7, 19⟩] none sp) none sp] sp

theorem witnessRecoveryType_wf_rejected :
    WF witnessRecoveryType ∧
      (resolve witnessRecoveryType).rdiags.map (fun d => (d.rule, d.span)) = [(.tyBinary, ⟨7, 19⟩)] := by
  decide +kernel

/-! ### What holds for every program: the scoping rules -/

theorem diags_eq (p : Block) : (resolve p).diags = (resolve p).rdiags.map RDiag.toDiag := rfl

/-- Every diagnostic of the resolver is an error (so `filter isError` is the identity). -/
theorem diags_all_errors (p : Block) : (resolve p).diags.filter isError = (resolve p).diags := by
  rw [diags_eq, List.filter_eq_self]
  intro d hd
  simp only [List.mem_map] at hd
  obtain ⟨r, _, rfl⟩ := hd
  rfl

/-- The full-strength statement is false of the current code. -/
theorem c09_full_is_false : ¬ c09_full := by
  intro h
  have h1 := (h witnessRecoveryType).mpr witnessRecoveryType_wf_rejected.1
  have h2 := witnessRecoveryType_wf_rejected.2
  rw [diags_all_errors, diags_eq, List.map_eq_nil_iff] at h1
  rw [h1] at h2
  exact absurd h2 (by decide)

/-- C09 at full strength for the PINNED return-type inference (D-09b). -/
def c09_full_pinned : Prop := ∀ p : Block, (resolvePinnedRet p).diags.filter isError = [] ↔ WF p

/-- D-09b stays documented: the pinned inference rejected a program that breaks no rule. -/
theorem c09_full_pinned_is_false : ¬ c09_full_pinned := by
  intro h
  have h1 := (h witnessReturnScope).mpr witnessReturnScope_pinned_rejected.1
  have h2 := witnessReturnScope_pinned_rejected.2
  have hall : (resolvePinnedRet witnessReturnScope).diags.filter isError = (resolvePinnedRet witnessReturnScope).diags := by
    decide +kernel
  rw [hall] at h1
  rw [h1] at h2
  exact absurd h2 (by decide)

/-- **C09, scoping rules, all programs**: the checker's diagnostics for the scoping rules are exactly
the specification's violations (rule, span, order). -/
theorem c09_partial (p : Block) : scopeDs (resolve p).rdiags = scopeViolations p :=
  resolve_scope true p

/-- Per rule and occurrence: rule `k` is reported at span `s` iff the declarative side condition of
`k` fails there. -/
theorem c09_rule_iff (p : Block) (k : Rule) (hk : k.isScoping = true) (s : Span) :
    (∃ d ∈ (resolve p).rdiags, d.rule = k ∧ d.span = s) ↔ (k, s) ∈ scopeViolations p := by
  rw [← c09_partial]
  simp only [scopeDs, List.mem_map, List.mem_filter]
  constructor
  · rintro ⟨d, hd, rfl, rfl⟩; exact ⟨d, ⟨hd, hk⟩, rfl⟩
  · rintro ⟨d, ⟨hd, _⟩, he⟩
    exact ⟨d, hd, by simpa using congrArg Prod.fst he, by simpa using congrArg Prod.snd he⟩

/-- The rejecting diagnostic names the broken rule's category: a violation of `k` at `s` yields an
error diagnostic of kind `k.kind` at `s`. -/
theorem c09_category (p : Block) (k : Rule) (s : Span) (h : (k, s) ∈ scopeViolations p) :
    ∃ d ∈ (resolve p).diags, d.sev = .error ∧ d.kind = k.kind ∧ d.span = s := by
  rw [← c09_partial] at h
  simp only [scopeDs, List.mem_map, List.mem_filter] at h
  obtain ⟨d, ⟨hd, _⟩, he⟩ := h
  refine ⟨d.toDiag, ?_, rfl, ?_, ?_⟩
  · rw [diags_eq]; exact List.mem_map_of_mem hd
  · have := congrArg Prod.fst he; simp at this; simp [RDiag.toDiag, this]
  · have := congrArg Prod.snd he; simp at this; simp [RDiag.toDiag, this]

/-- An accepted program breaks no scoping rule … -/
theorem c09_accepted_scoping_wf (p : Block) (h : (resolve p).diags.filter isError = []) :
    scopeViolations p = [] := by
  rw [diags_all_errors, diags_eq, List.map_eq_nil_iff] at h
  rw [← c09_partial, h]; rfl

/-- … and a program that breaks one is rejected. -/
theorem c09_violation_rejected (p : Block) (h : scopeViolations p ≠ []) :
    (resolve p).diags.filter isError ≠ [] :=
  fun hacc => h (c09_accepted_scoping_wf p hacc)

/-- The typing part under an explicit hypothesis: if on `p` the typing diagnostics of the checker are
empty exactly when the documented typing judgement holds, the whole equivalence holds for `p`. -/
theorem c09_partial_iff (p : Block)
    (hty : (∀ d ∈ (resolve p).rdiags, d.rule.isScoping = true) ↔ typeViolations p = []) :
    (resolve p).diags.filter isError = [] ↔ WF p := by
  constructor
  · intro h
    refine ⟨c09_accepted_scoping_wf p h, hty.mp ?_⟩
    rw [diags_all_errors, diags_eq, List.map_eq_nil_iff] at h
    simp [h]
  · rintro ⟨hs, ht⟩
    have hall := hty.mpr ht
    rw [diags_all_errors, diags_eq, List.map_eq_nil_iff]
    have : scopeDs (resolve p).rdiags = [] := by rw [c09_partial, hs]
    simp only [scopeDs, List.map_eq_nil_iff, List.filter_eq_nil_iff] at this
    cases hr : (resolve p).rdiags with
    | nil => rfl
    | cons d ds =>
      exact absurd (hall d (by simp [hr])) (by simpa using this d (by simp [hr]))

/-! ### The typing rules -/

/-- The typing half as an equation (rule, span, order), like `c09_partial` for the scoping half. -/
def c09_typing_eq : Prop := ∀ p : Block, typeDs (resolve p).rdiags = typeViolations p

/-- `shout((true add 1) add 2)`: the specification lists the inner application (its operands are typed
and the table rejects them); the checker also reports the outer one, whose left operand has no type. -/
def witnessCascade : Block :=
  .mk [.expr (.call (.var (b!"shout") none sp)
    [.binary .add (.binary .add (.bool true sp) (.num (b!"1") sp) ⟨7, 17⟩) (.num (b!"2") sp) ⟨6, 24⟩] none sp) none sp] sp

theorem witnessCascade_diags :
    typeDs (resolve witnessCascade).rdiags = [(.tyBinary, ⟨7, 17⟩), (.tyBinary, ⟨6, 24⟩)] ∧
    typeViolations witnessCascade = [(.tyBinary, ⟨7, 17⟩)] ∧ ReturnsTyped witnessCascade := by
  decide +kernel

/-- The equation is false: the checker's follow-up diagnostics are not violations. -/
theorem c09_typing_eq_is_false : ¬ c09_typing_eq := by
  intro h
  have := h witnessCascade
  rw [witnessCascade_diags.1, witnessCascade_diags.2.1] at this
  exact absurd this (by decide)

theorem rdiags_nil_iff (p : Block) : (resolve p).diags.filter isError = [] ↔ (resolve p).rdiags = [] := by
  rw [diags_all_errors, diags_eq, List.map_eq_nil_iff]

theorem scoping_diag_violation (p : Block) (h : ∃ d ∈ (resolve p).rdiags, d.rule.isScoping = true) :
    scopeViolations p ≠ [] := by
  obtain ⟨d, hd, hs⟩ := h
  rw [← c09_partial]
  intro hnil
  simp only [scopeDs, List.map_eq_nil_iff, List.filter_eq_nil_iff] at hnil
  exact hnil d hd hs

/-- **C09, typing rules, in step**: for every program whose `return` expressions are well typed where
the result types are determined, either the checker reports nothing and no typing rule is broken, or
the checker rejects and the specification lists a violation (of a typing or of a scoping rule). -/
theorem c09_in_step (p : Block) (h : ReturnsTyped p) :
    ((resolve p).rdiags = [] ∧ typeViolations p = []) ∨
    ((resolve p).rdiags ≠ [] ∧ (typeViolations p ≠ [] ∨ scopeViolations p ≠ [])) := by
  rcases resolve_lock p h with hc | ⟨hne, hv | hs⟩
  · exact Or.inl hc
  · exact Or.inr ⟨hne, Or.inl hv⟩
  · exact Or.inr ⟨hne, Or.inr (scoping_diag_violation p hs)⟩

/-- **C09 under the explicit hypothesis**: a program whose `return` expressions are well typed where
the result types are determined is rejected before anything runs iff it breaks a documented static
rule. -/
theorem c09_full_partial (p : Block) (h : ReturnsTyped p) :
    (resolve p).diags.filter isError = [] ↔ WF p := by
  rw [rdiags_nil_iff]
  constructor
  · intro hacc
    refine ⟨c09_accepted_scoping_wf p ((rdiags_nil_iff p).mpr hacc), ?_⟩
    rcases c09_in_step p h with hc | hd
    · exact hc.2
    · exact absurd hacc hd.1
  · rintro ⟨hs, ht⟩
    rcases c09_in_step p h with hc | ⟨_, hv | hv⟩
    · exact hc.1
    · exact absurd ht hv
    · exact absurd hs hv

/-- A program that breaks a typing rule is rejected. -/
theorem c09_typing_rejected (p : Block) (h : ReturnsTyped p) (hv : typeViolations p ≠ []) :
    (resolve p).diags.filter isError ≠ [] :=
  fun hacc => hv ((c09_full_partial p h).mp hacc).2

/-- A program that breaks no rule gets no diagnostic from the checker. -/
theorem c09_typing_accepted (p : Block) (h : ReturnsTyped p) (hs : scopeViolations p = [])
    (ht : typeViolations p = []) : (resolve p).diags = [] := by
  rw [← diags_all_errors]; exact (c09_full_partial p h).mpr ⟨hs, ht⟩

def typingKinds : List DiagKind := [.typeMismatch, .undeclaredIdentifier, .functionCallArity]

/-- The category: a program that breaks typing rules only is rejected, and every diagnostic it gets is
one of a typing rule, in a typing category (`Type mismatch`; `Undeclared identifier` for an unknown
method, `Invalid parameter count` for a method's argument count). -/
theorem c09_typing_category (p : Block) (h : ReturnsTyped p) (hs : scopeViolations p = [])
    (hv : typeViolations p ≠ []) :
    (resolve p).diags ≠ [] ∧
      ∀ d ∈ (resolve p).rdiags, d.rule.isScoping = false ∧ d.toDiag.sev = .error ∧ d.toDiag.kind ∈ typingKinds := by
  constructor
  · have := c09_typing_rejected p h hv
    rwa [diags_all_errors] at this
  · intro d hd
    have hns : d.rule.isScoping = false := by
      cases hsc : d.rule.isScoping
      · rfl
      · exact absurd hs (scoping_diag_violation p ⟨d, hd, hsc⟩)
    refine ⟨hns, rfl, ?_⟩
    cases hr : d.rule <;> simp [hr, Rule.isScoping] at hns <;> simp [RDiag.toDiag, hr, Rule.kind, typingKinds]

/-! ### Non-vacuity -/

/-- `jasi (true) start do f() start comot end end` — the D-09a shape: rejected by the (fixed) code,
and the specification lists exactly that violation. -/
def comotInFunctionInLoop : Block :=
  .mk [.loop (.bool true sp) (.mk [.fnDef (b!"f") sp [] (.mk [.brk none ⟨5, 10⟩] sp) none none sp] sp) none sp] sp

example : scopeViolations comotInFunctionInLoop = [(.breakOutside, ⟨5, 10⟩)] := by decide +kernel
example : (resolve comotInFunctionInLoop).diags.map (·.kind) = [.unreachableCode] := by decide +kernel

/-- A well-formed program with a forward reference, recursion, a capture and a shadowing parameter
is accepted, and satisfies the hypothesis of `c09_partial_iff`. -/
def wellFormed : Block :=
  .mk [.assign (b!"x") sp (.num (b!"1") sp) none none sp,
       .expr (.call (.var (b!"f") none sp) [.var (b!"x") none sp] none sp) none sp,
       .fnDef (b!"f") sp [⟨(b!"x"), sp, none⟩]
         (.mk [.ifS (.binary .gt (.var (b!"x") none sp) (.num (b!"0") sp) sp)
                 (.mk [.ret (some (.call (.var (b!"f") none sp)
                    [.binary .minus (.var (b!"x") none sp) (.num (b!"1") sp) sp] none sp)) none sp] sp) none none sp,
               .ret (some (.var (b!"x") none sp)) none sp] sp) none none sp] sp

example : (resolve wellFormed).diags = [] ∧ WF wellFormed := by decide +kernel
example : (∀ d ∈ (resolve wellFormed).rdiags, d.rule.isScoping = true) ↔ typeViolations wellFormed = [] := by
  decide +kernel

example : ReturnsTyped wellFormed ∧ ReturnsTyped witnessReturnScope ∧ ReturnsTyped comotInFunctionInLoop := by
  decide +kernel

/-- The hypothesis `ReturnsTyped` is what fails on the D-09f witness. -/
example : ¬ ReturnsTyped witnessRecoveryType := by decide +kernel

/-! One program per typing rule: the checker reports exactly the violation the specification lists. -/

private def str (s : Bytes) : Expr := .str (.static s) sp
private def num (s : Bytes) : Expr := .num s sp
private def var (s : Bytes) : Expr := .var s none sp
private def callV (f : Bytes) (args : List Expr) : Expr := .call (.var f none sp) args none sp
private def shout (e : Expr) : Stmt := .expr (callV (b!"shout") [e]) none sp
private def make (x : Bytes) (e : Expr) : Stmt := .assign x sp e none none sp
private def at' : Span := ⟨1, 2⟩
private def fdef (f : Bytes) (ps : List Bytes) (body : List Stmt) : Stmt :=
  .fnDef f sp (ps.map fun p => ⟨p, sp, none⟩) (.mk body sp) none none sp

/-- Exactly one violation, of rule `k` at `at'`, on both sides; hypothesis of `c09_full_partial` satisfied. -/
private def only (k : Rule) (s : Span) (p : Block) : Prop :=
  typeDs (resolve p).rdiags = [(k, s)] ∧ typeViolations p = [(k, s)] ∧ scopeViolations p = [] ∧ ReturnsTyped p

private instance (k : Rule) (s : Span) (p : Block) : Decidable (only k s p) := by unfold only; infer_instance

-- `shout(1 minus "a")`
example : only .tyBinary at' (.mk [shout (.binary .minus (num (b!"1")) (str (b!"a")) at')] sp) := by decide +kernel
-- `shout(not 1)`
example : only .tyUnary at' (.mk [shout (.unary .not (num (b!"1")) at')] sp) := by decide +kernel
-- `if to say (1) start end`
example : only .tyCond at' (.mk [.ifS (.num (b!"1") at') (.mk [] sp) none none sp] sp) := by decide +kernel
-- `shout(1[0])`
example : only .tyIndexBase at' (.mk [shout (.index (num (b!"1")) (num (b!"0")) sp at')] sp) := by decide +kernel
-- `shout([1][true])`
example : only .tyIndexIdx at' (.mk [shout (.index (.array [num (b!"1")] sp) (.bool true sp) at' sp)] sp) := by
  decide +kernel
-- `make c get command(1)`
example : only .tyCommandArg at' (.mk [make (b!"c") (.call (.var (b!"command") none sp) [num (b!"1")] none at')] sp) := by
  decide +kernel
-- `shout("abc".find(5))`
example : only .tyMethodArg at'
    (.mk [shout (.call (.member (str (b!"abc")) (b!"find") sp at') [num (b!"5")] none sp)] sp) := by decide +kernel
-- `command("echo").arg("hello")`
example : only .tyMutReceiver at'
    (.mk [.expr (.call (.member (callV (b!"command") [str (b!"echo")]) (b!"arg") sp at') [str (b!"hello")] none sp)
            none sp] sp) := by decide +kernel
-- `shout("a".push(1))`
example : only .methodUnknown at'
    (.mk [shout (.call (.member (str (b!"a")) (b!"push") sp at') [num (b!"1")] none sp)] sp) := by decide +kernel
-- `shout("a".len(1))`
example : only .arityMethod at'
    (.mk [shout (.call (.member (str (b!"a")) (b!"len") sp at') [num (b!"1")] none sp)] sp) := by decide +kernel
-- `make x get "s"  shout(x.len)`
example : only .bareMember at'
    (.mk [make (b!"x") (str (b!"s")), shout (.member (var (b!"x")) (b!"len") sp at')] sp) := by decide +kernel
-- `do f() start return 1 end  shout(f()())`
example : only .badCallee at'
    (.mk [fdef (b!"f") [] [.ret (some (num (b!"1"))) none sp],
          shout (.call (callV (b!"f") []) [] none at')] sp) := by decide +kernel
-- `do f() start return [1] end  f()[0] get 2`
example : only .badIndexRoot at'
    (.mk [fdef (b!"f") [] [.ret (some (.array [num (b!"1")] sp)) none sp],
          .assignIndex (.index (callV (b!"f") []) (num (b!"0")) sp sp) (num (b!"2")) none at'] sp) := by decide +kernel
-- the result type of a function from a variable only the enclosing code binds:
-- `make x get "s"  start  do f() start return x end  shout(f() minus 1)  end`
example : only .tyBinary at'
    (.mk [make (b!"x") (str (b!"s")),
          .block (.mk [fdef (b!"f") [] [.ret (some (var (b!"x"))) none sp],
                       shout (.binary .minus (callV (b!"f") []) (num (b!"1")) at')] sp) none sp] sp) := by
  decide +kernel

/-- A well-typed program using every operator class, indexing, methods, conditions, a typed function
result and an index assignment: accepted, well-formed, hypothesis satisfied.
```
make a get 1   make s get "x"   make b get true   make arr get [1, 2]
do f(p) start return p end      do g() start return a end
shout(((a add 2) minus (a times 3)) divide (2 mod 5))      shout((s add "y") add a)
shout(((a pass 1) and (s na "x")) or (not b))              shout((minus a) small pass g())
shout(arr[0])   shout(s.len())  shout(null na a)           shout(f(1) minus 1)
if to say (b) start shout("{a}") end                       jasi (a small pass 3) start a get a add 1 end
arr[0] get 5    make c get command("echo")   c.arg("hi")
``` -/
def wellTyped : Block :=
  .mk [make (b!"a") (num (b!"1")), make (b!"s") (str (b!"x")), make (b!"b") (.bool true sp),
       make (b!"arr") (.array [num (b!"1"), num (b!"2")] sp),
       fdef (b!"f") [b!"p"] [.ret (some (var (b!"p"))) none sp],
       fdef (b!"g") [] [.ret (some (var (b!"a"))) none sp],
       shout (.binary .divide (.binary .minus (.binary .add (var (b!"a")) (num (b!"2")) sp)
                (.binary .times (var (b!"a")) (num (b!"3")) sp) sp) (.binary .mod (num (b!"2")) (num (b!"5")) sp) sp),
       shout (.binary .add (.binary .add (var (b!"s")) (str (b!"y")) sp) (var (b!"a")) sp),
       shout (.binary .or (.binary .and (.binary .gt (var (b!"a")) (num (b!"1")) sp)
                (.binary .eq (var (b!"s")) (str (b!"x")) sp) sp) (.unary .not (var (b!"b")) sp) sp),
       shout (.binary .lt (.unary .neg (var (b!"a")) sp) (callV (b!"g") []) sp),
       shout (.index (var (b!"arr")) (num (b!"0")) sp sp),
       shout (.call (.member (var (b!"s")) (b!"len") sp sp) [] none sp),
       shout (.binary .eq (.null sp) (var (b!"a")) sp),
       shout (.binary .minus (callV (b!"f") [num (b!"1")]) (num (b!"1")) sp),
       .ifS (var (b!"b")) (.mk [shout (.str (.interp [.var (b!"a") none]) sp)] sp) none none sp,
       .loop (.binary .lt (var (b!"a")) (num (b!"3")) sp)
         (.mk [.assignExisting (b!"a") sp (.binary .add (var (b!"a")) (num (b!"1")) sp) none none sp] sp) none sp,
       .assignIndex (.index (var (b!"arr")) (num (b!"0")) sp sp) (num (b!"5")) none sp,
       make (b!"c") (callV (b!"command") [str (b!"echo")]),
       .expr (.call (.member (var (b!"c")) (b!"arg") sp sp) [str (b!"hi")] none sp) none sp] sp

example : (resolve wellTyped).diags = [] ∧ WF wellTyped ∧ ReturnsTyped wellTyped := by decide +kernel

end NaijaVerif.C09
