/-
C09 — Static rules enforced exactly: ill-formed rejected, well-formed accepted.

Objects: `Resolve.resolve` (`Model/Resolve.lean`, the model of `src/resolver.rs` without the analysis
passes), `Spec.WF` (`Spec/WF.lean` + `Spec/DocTypes.lean`, the documented rules), the probed /
dumped tables `Gen/TypeRules.lean`, `Gen/Builtins.lean` (regenerated from /repo on every run).

* `gen_*`: the tables of the real checker equal the closed forms the model uses (whole tables, by
  `decide`), and equal the documented tables except on an explicit list of entries (D-09d).
* `c09_full` is the property at full strength; it is FALSE of the current code (`c09_full_is_false`,
  witness D-09b; D-09c and D-09d are fixed).
* `c09_partial`: for EVERY program the diagnostics of the scoping rules (undeclared variable /
  placeholder / assignment target / function, arity of user and global builtin functions,
  `comot`/`next` outside a loop of the same function body, `return` outside a function, duplicate
  function, duplicate parameter, builtin name declared) are exactly the violations of the
  specification: same rule, same span, same order; hence acceptance of the scoping fragment, the
  per-rule "reported iff violated", and the category named by the diagnostic.
-/
import NaijaVerif.Lemmas.ResolveScope
import NaijaVerif.Gen.TypeRules
import NaijaVerif.Gen.Builtins

namespace NaijaVerif.C09
open NaijaVerif NaijaVerif.Resolve NaijaVerif.Spec

/-! ### The probed tables of the real checker = the model's closed forms -/

def binOps : List BinOp := [.add, .minus, .times, .divide, .mod, .and, .or, .eq, .gt, .lt]
def unOps : List UnOp := [.not, .neg]

/-- `check_expr` / `infer_expr_type` of the real resolver on `a OP b`, for all 10 × 8 × 8 static
operand types (probed with tiny programs), equal the model's `binaryOk` / `inferBinary`. -/
theorem gen_binary_matches_model :
    Gen.TypeRules.binary =
      binOps.flatMap fun op => VType.all.flatMap fun l => VType.all.map fun r =>
        (op, l, r, binaryOk op (some l) (some r), inferBinary op l r) := by
  decide +kernel

theorem gen_unary_matches_model :
    Gen.TypeRules.unary =
      unOps.flatMap fun op => VType.all.map fun t => (op, t, unaryOk op (some t), inferUnary op t) := by
  decide +kernel

theorem gen_contexts_match_model :
    Gen.TypeRules.cond = VType.all.map (fun t => (t, condOk (some t))) ∧
    Gen.TypeRules.loopCond = VType.all.map (fun t => (t, condOk (some t))) ∧
    Gen.TypeRules.indexBase = VType.all.map (fun t => (t, indexBaseOk (some t))) ∧
    Gen.TypeRules.indexIdx = VType.all.map (fun t => (t, indexIdxOk (some t))) ∧
    Gen.TypeRules.commandArg = VType.all.map (fun t => (t, stringArgOk (some t))) ∧
    Gen.TypeRules.joinArg = VType.all.map (fun t => (t, stringArgOk (some t))) ∧
    Gen.TypeRules.cwdArg = VType.all.map (fun t => (t, stringArgOk (some t))) ∧
    Gen.TypeRules.envArg = VType.all.map (fun t => (t, stringArgOk (some t))) ∧
    Gen.TypeRules.timeoutArg = VType.all.map (fun t => (t, numberArgOk (some t))) ∧
    Gen.TypeRules.literalTypes.all (fun p => p.1 == p.2) = true := by
  decide +kernel

/-- Names, arities, static return types, `requires_mut_receiver` and effect classes of all builtins,
the priority of `MemberBuiltin::from_name`, and `ExprClass::join`. -/
theorem gen_builtins_match_model :
    Gen.Builtins.members = memberTable ∧
    Gen.Builtins.globals = GlobalB.all.map (fun g => (g.nameOf, g.arity, g.retType, g.cls)) ∧
    Gen.Builtins.memberAny.all (fun p => (memberAny p.1).map (·.kind) == some p.2) = true ∧
    memberTable.all (fun m => Gen.Builtins.memberAny.any (fun p => p.1 == m.name)) = true ∧
    Gen.Builtins.classJoin =
      [ExprClass.pureNoTrap, .pureMayTrap, .impure].flatMap (fun a =>
        [ExprClass.pureNoTrap, .pureMayTrap, .impure].map fun b => (a, b, a.join b)) := by
  decide +kernel

/-- The code is the fixed one: `in_loop` does not leak into function bodies (D-09a), `locals_len` is a
span (D-18). -/
theorem gen_behaviour_probes :
    Gen.Builtins.inLoopLeaksIntoFunctions = false ∧ Gen.Builtins.localsLenIsSpan = true := by
  decide

/-! ### … and the documented tables -/

/-- Acceptance of every operator application by the real checker is the documented one: some
run-time instance of the operand types has a meaning (D-09d is fixed: no deviating entry). -/
theorem gen_matches_doc :
    Gen.TypeRules.binary.all (fun (op, l, r, ok, _) => ok == Doc.binaryOk op l r) = true ∧
    Gen.TypeRules.unary.all (fun (op, t, ok, _) => ok == Doc.unaryOk op t) = true ∧
    Gen.TypeRules.cond.all (fun (t, ok) => ok == Doc.condOk t) = true ∧
    Gen.TypeRules.indexBase.all (fun (t, ok) => ok == Doc.indexBaseOk t) = true ∧
    Gen.TypeRules.indexIdx.all (fun (t, ok) => ok == Doc.indexIdxOk t) = true ∧
    Gen.TypeRules.commandArg.all (fun (t, ok) => ok == Doc.stringArgOk t) = true ∧
    Gen.TypeRules.joinArg.all (fun (t, ok) => ok == Doc.stringArgOk t) = true ∧
    Gen.TypeRules.timeoutArg.all (fun (t, ok) => ok == Doc.numberArgOk t) = true := by
  decide +kernel

/-- Result types: wherever the documents give the application a meaning, the checker infers the
documented result type. -/
theorem gen_result_types_match_doc :
    Gen.TypeRules.binary.all (fun (op, l, r, _, res) =>
      !(Doc.binaryOk op l r) || res == some (resultType op l r)) = true ∧
    Gen.TypeRules.unary.all (fun (op, t, _, res) =>
      !(Doc.unaryOk op t) || res == some (match op with | .not => VType.bool | .neg => VType.number)) = true := by
  decide +kernel

/-- **Operators on dynamic operands** (fix D-09e): every operator applied to a `dynamic` operand —
with any other operand the documents allow — is accepted, and the inferred result type is one that
every context accepting the documented result accepts as well: the documented type itself
(`dynamic` for `add` unless an operand is a string). -/
theorem dynamic_operands_accepted :
    Gen.TypeRules.binary.all (fun (op, l, r, ok, res) =>
      !((l == .dynamic || r == .dynamic) && Doc.binaryOk op l r)
        || (ok && res == some (resultType op l r))) = true ∧
    Gen.TypeRules.unary.all (fun (_, t, ok, res) =>
      !(t == .dynamic) || (ok && res.isSome)) = true ∧
    -- a dynamic result is accepted as operand of every operator, as condition, index and indexed value
    (Gen.TypeRules.unary.all (fun (_, t, ok, _) => !(t == .dynamic) || ok)
      && Gen.TypeRules.cond.all (fun (t, ok) => !(t == .dynamic) || ok)
      && Gen.TypeRules.indexBase.all (fun (t, ok) => !(t == .dynamic) || ok)
      && Gen.TypeRules.indexIdx.all (fun (t, ok) => !(t == .dynamic) || ok)) = true := by
  decide +kernel

/-- The model's `literal_expr_type` operator table is the documented `meaning`. -/
theorem literalMeaning_eq_doc :
    (binOps.all fun op => VType.all.all fun l => VType.all.all fun r =>
      literalMeaning op l r == Doc.meaning op l r) = true ∧
    (unOps.all fun op => VType.all.all fun t => literalUnary op t == Doc.unaryMeaning op t) = true := by
  decide +kernel

/-! ### The property -/

def isError (d : Diag) : Bool := d.sev == .error

/-- **C09 at full strength**: a program is rejected before anything runs iff it breaks a documented
static rule. -/
def c09_full : Prop := ∀ p : Block, (resolve p).diags.filter isError = [] ↔ WF p

private def sp : Span := ⟨0, 0⟩

/-- D-09b: `make x get "s"  start  do f() start make x get 1 return x end  shout(f() minus 1)  end` —
the return type of `f` is inferred at block entry in the ENCLOSING scope, where `x` is a string:
a valid program is rejected. -/
def witnessReturnScope : Block :=
  .mk [.assign (b!"x") sp (.str (.static (b!"s")) sp) none none sp,
       .block (.mk [
         .fnDef (b!"f") sp [] (.mk [.assign (b!"x") sp (.num (b!"1") sp) none none sp,
                                  .ret (some (.var (b!"x") none sp)) none sp] sp) none none sp,
         .expr (.call (.var (b!"shout") none sp)
           [.binary .minus (.call (.var (b!"f") none sp) [] none sp) (.num (b!"1") sp) sp] none sp) none sp] sp)
         none sp] sp

theorem witnessReturnScope_wf_rejected :
    WF witnessReturnScope ∧ (resolve witnessReturnScope).diags.map (·.kind) = [.typeMismatch] := by
  decide +kernel

/-! ### What holds for every program: the scoping rules -/

theorem diags_eq (p : Block) : (resolve p).diags = (resolve p).rdiags.map RDiag.toDiag := rfl

/-- Every diagnostic of the resolver is an error (so `filter isError` is the identity). -/
theorem diags_all_errors (p : Block) : (resolve p).diags.filter isError = (resolve p).diags := by
  rw [diags_eq, List.filter_eq_self]
  intro d hd
  simp only [List.mem_map] at hd
  obtain ⟨r, _, rfl⟩ := hd
  rfl

/-- The full-strength statement is false of the current code. -/
theorem c09_full_is_false : ¬ c09_full := by
  intro h
  have h1 := (h witnessReturnScope).mpr witnessReturnScope_wf_rejected.1
  have h2 := witnessReturnScope_wf_rejected.2
  rw [diags_all_errors] at h1
  rw [h1] at h2
  exact absurd h2 (by decide)

/-- **C09, scoping rules, all programs**: the checker's diagnostics for the scoping rules are exactly
the specification's violations (rule, span, order). -/
theorem c09_partial (p : Block) : scopeDs (resolve p).rdiags = scopeViolations p :=
  resolve_scope true p

/-- Per rule and occurrence: rule `k` is reported at span `s` iff the declarative side condition of
`k` fails there. -/
theorem c09_rule_iff (p : Block) (k : Rule) (hk : k.isScoping = true) (s : Span) :
    (∃ d ∈ (resolve p).rdiags, d.rule = k ∧ d.span = s) ↔ (k, s) ∈ scopeViolations p := by
  rw [← c09_partial]
  simp only [scopeDs, List.mem_map, List.mem_filter]
  constructor
  · rintro ⟨d, hd, rfl, rfl⟩; exact ⟨d, ⟨hd, hk⟩, rfl⟩
  · rintro ⟨d, ⟨hd, _⟩, he⟩
    exact ⟨d, hd, by simpa using congrArg Prod.fst he, by simpa using congrArg Prod.snd he⟩

/-- The rejecting diagnostic names the broken rule's category: a violation of `k` at `s` yields an
error diagnostic of kind `k.kind` at `s`. -/
theorem c09_category (p : Block) (k : Rule) (s : Span) (h : (k, s) ∈ scopeViolations p) :
    ∃ d ∈ (resolve p).diags, d.sev = .error ∧ d.kind = k.kind ∧ d.span = s := by
  rw [← c09_partial] at h
  simp only [scopeDs, List.mem_map, List.mem_filter] at h
  obtain ⟨d, ⟨hd, _⟩, he⟩ := h
  refine ⟨d.toDiag, ?_, rfl, ?_, ?_⟩
  · rw [diags_eq]; exact List.mem_map_of_mem hd
  · have := congrArg Prod.fst he; simp at this; simp [RDiag.toDiag, this]
  · have := congrArg Prod.snd he; simp at this; simp [RDiag.toDiag, this]

/-- An accepted program breaks no scoping rule … -/
theorem c09_accepted_scoping_wf (p : Block) (h : (resolve p).diags.filter isError = []) :
    scopeViolations p = [] := by
  rw [diags_all_errors, diags_eq, List.map_eq_nil_iff] at h
  rw [← c09_partial, h]; rfl

/-- … and a program that breaks one is rejected. -/
theorem c09_violation_rejected (p : Block) (h : scopeViolations p ≠ []) :
    (resolve p).diags.filter isError ≠ [] :=
  fun hacc => h (c09_accepted_scoping_wf p hacc)

/-- The typing part under an explicit hypothesis: if on `p` the typing diagnostics of the checker are
empty exactly when the documented typing judgement holds, the whole equivalence holds for `p`. -/
theorem c09_partial_iff (p : Block)
    (hty : (∀ d ∈ (resolve p).rdiags, d.rule.isScoping = true) ↔ typeViolations p = []) :
    (resolve p).diags.filter isError = [] ↔ WF p := by
  constructor
  · intro h
    refine ⟨c09_accepted_scoping_wf p h, hty.mp ?_⟩
    rw [diags_all_errors, diags_eq, List.map_eq_nil_iff] at h
    simp [h]
  · rintro ⟨hs, ht⟩
    have hall := hty.mpr ht
    rw [diags_all_errors, diags_eq, List.map_eq_nil_iff]
    have : scopeDs (resolve p).rdiags = [] := by rw [c09_partial, hs]
    simp only [scopeDs, List.map_eq_nil_iff, List.filter_eq_nil_iff] at this
    cases hr : (resolve p).rdiags with
    | nil => rfl
    | cons d ds =>
      exact absurd (hall d (by simp [hr])) (by simpa using this d (by simp [hr]))

/-! ### Non-vacuity -/

/-- `jasi (true) start do f() start comot end end` — the D-09a shape: rejected by the (fixed) code,
and the specification lists exactly that violation. -/
def comotInFunctionInLoop : Block :=
  .mk [.loop (.bool true sp) (.mk [.fnDef (b!"f") sp [] (.mk [.brk none ⟨5, 10⟩] sp) none none sp] sp) none sp] sp

example : scopeViolations comotInFunctionInLoop = [(.breakOutside, ⟨5, 10⟩)] := by decide +kernel
example : (resolve comotInFunctionInLoop).diags.map (·.kind) = [.unreachableCode] := by decide +kernel

/-- A well-formed program with a forward reference, recursion, a capture and a shadowing parameter
is accepted, and satisfies the hypothesis of `c09_partial_iff`. -/
def wellFormed : Block :=
  .mk [.assign (b!"x") sp (.num (b!"1") sp) none none sp,
       .expr (.call (.var (b!"f") none sp) [.var (b!"x") none sp] none sp) none sp,
       .fnDef (b!"f") sp [⟨(b!"x"), sp, none⟩]
         (.mk [.ifS (.binary .gt (.var (b!"x") none sp) (.num (b!"0") sp) sp)
                 (.mk [.ret (some (.call (.var (b!"f") none sp)
                    [.binary .minus (.var (b!"x") none sp) (.num (b!"1") sp) sp] none sp)) none sp] sp) none none sp,
               .ret (some (.var (b!"x") none sp)) none sp] sp) none none sp] sp

example : (resolve wellFormed).diags = [] ∧ WF wellFormed := by decide +kernel
example : (∀ d ∈ (resolve wellFormed).rdiags, d.rule.isScoping = true) ↔ typeViolations wellFormed = [] := by
  decide +kernel

end NaijaVerif.C09
