/-
C04 (static half) — names resolve lexically; functions are visible throughout their block.

Stated on the output of the resolver model (`Resolve.resolve p`).root, the program with the
bindings the real resolver records in `ProgramFacts::{expr_locals, stmt_locals,
string_segment_locals}` as annotations (compared with the real resolver's on every run by the
`resolve` correspondence stream).  `nearestDecl` (`Lemmas/ResolveLex.lean`) is defined from the
program text: the innermost enclosing binder group — the `make` statements of an enclosing block
that textually precede the occurrence's statement, or the parameter list of an enclosing function —
that declares the name; the declaration is identified by the annotation it carries.
-/
import NaijaVerif.Lemmas.ResolveLex
import NaijaVerif.Lemmas.ResolveScope

namespace NaijaVerif.C04Static
open NaijaVerif NaijaVerif.Resolve NaijaVerif.Spec

/-- **Variables bind to the nearest enclosing declaration**, for every program: every variable
occurrence of the resolved program — in an expression, as the target of `x get e`, as a `{name}`
placeholder of an interpolated string — carries the annotation of the nearest enclosing declaration
of its name in the program text (`none` exactly when no declaration is visible); a `make` always
carries a local, and a second `make` of the same name in the same block carries the same local as
the first.  (The body of a rejected duplicate function definition is not analysed.) -/
theorem variables_bind_to_nearest_declaration (p : Block) : lexBlock [] (resolve p).root = true :=
  resolve_lexical true p

/-- The scope-stack invariant behind it, for use by the evaluator's proofs: if the resolver's
variable scopes hold exactly the visible declarations before a block, every occurrence in the
resolved block is bound lexically. -/
theorem block_lexical_of_invariant (env : Env) (parent : Option Nat) (ctx : List Binder)
    (h : CtxRel env.vars ctx) (b : Block) (f : Facts) :
    lexBlock ctx (checkBlock env parent b f).val = true :=
  checkBlock_lex env parent ctx h b f

/-- A use is bound iff a declaration is visible: a variable occurrence at span `s` is reported as
undeclared exactly when no enclosing block declares the name before it and no enclosing function
has it as a parameter. -/
theorem variable_unbound_iff_undeclared (p : Block) (s : Span) :
    (∃ d ∈ (resolve p).rdiags, d.rule = .undeclaredVar ∧ d.span = s) ↔
      (Rule.undeclaredVar, s) ∈ scopeViolations p := by
  have h := resolve_scope true p
  rw [← h]
  simp only [scopeDs, List.mem_map, List.mem_filter]
  constructor
  · rintro ⟨d, hd, hr, rfl⟩; exact ⟨d, ⟨hd, by rw [hr]; rfl⟩, by rw [hr]⟩
  · rintro ⟨d, ⟨hd, _⟩, he⟩
    exact ⟨d, hd, by simpa using congrArg Prod.fst he, by simpa using congrArg Prod.snd he⟩

/-- **Functions are visible throughout their block and nowhere else**: a call of a non-builtin name
at span `s` is reported as undeclared exactly when no enclosing block defines a function of that
name — before or after the call, in the same block or an outer one (`Spec.fnArity` over
`Spec.blockFns`, the hoisted definitions of each enclosing block, innermost first). -/
theorem call_unbound_iff_no_enclosing_definition (p : Block) (s : Span) :
    (∃ d ∈ (resolve p).rdiags, d.rule = .undeclaredFn ∧ d.span = s) ↔
      (Rule.undeclaredFn, s) ∈ scopeViolations p := by
  have h := resolve_scope true p
  rw [← h]
  simp only [scopeDs, List.mem_map, List.mem_filter]
  constructor
  · rintro ⟨d, hd, hr, rfl⟩; exact ⟨d, ⟨hd, by rw [hr]; rfl⟩, by rw [hr]⟩
  · rintro ⟨d, ⟨hd, _⟩, he⟩
    exact ⟨d, hd, by simpa using congrArg Prod.fst he, by simpa using congrArg Prod.snd he⟩

/-- The function-scope invariant: at every block the resolver's function scopes are exactly the
hoisted definitions of the enclosing blocks (names and arities), innermost first; lookup is
innermost-first, so an inner definition shadows an outer one. -/
theorem function_scopes_are_hoisted_definitions (env : Env) (parent : Option Nat) (b : Block) (f : Facts) :
    scopeDs (checkBlock env parent b f).ds = blockV (absCtx env) b :=
  checkBlock_scope env parent b f

/-! ### Non-vacuity -/

private def sp : Span := ⟨0, 0⟩

/-- `make x get 1  do f(x) start shout(x) make x get 2 shout(x) end  start make x get 3 shout(x) end  shout(x)  make x get 4` -/
def shadowing : Block :=
  .mk [.assign (b!"x") sp (.num (b!"1") sp) none none sp,
       .fnDef (b!"f") sp [⟨b!"x", sp, none⟩]
         (.mk [.expr (.call (.var (b!"shout") none sp) [.var (b!"x") none sp] none sp) none sp,
               .assign (b!"x") sp (.num (b!"2") sp) none none sp,
               .expr (.call (.var (b!"shout") none sp) [.var (b!"x") none sp] none sp) none sp] sp) none none sp,
       .block (.mk [.assign (b!"x") sp (.num (b!"3") sp) none none sp,
                    .expr (.call (.var (b!"shout") none sp) [.var (b!"x") none sp] none sp) none sp] sp) none sp,
       .expr (.call (.var (b!"shout") none sp) [.var (b!"x") none sp] none sp) none sp,
       .assign (b!"x") sp (.num (b!"4") sp) none none sp] sp

/-- The uses of `x`, in program order, are bound to: the parameter (1), the body's own local (2), the
inner block's local (3), the top-level local (0); the re-declaration at the end re-uses local 0. -/
def varBinds : Expr → List (Option Nat)
  | .var _ b _ => [b]
  | .call _ [a] _ _ => varBinds a
  | _ => []

def stmtBinds : Stmt → List (Option Nat)
  | .expr e _ _ => varBinds e
  | .assign _ _ _ b _ _ => [b]
  | _ => []

example : (match (resolve shadowing).root with
    | .mk [s0, .fnDef _ _ _ (.mk body _) _ _ _, .block (.mk inner _) _ _, s3, s4] _ =>
        (stmtBinds s0, body.flatMap stmtBinds, inner.flatMap stmtBinds, stmtBinds s3, stmtBinds s4)
    | _ => ([], [], [], [], [])) =
    ([some 0], [some 1, some 2, some 2], [some 3, some 3], [some 0], [some 0]) := by
  decide +kernel

end NaijaVerif.C04Static
