import NaijaVerif.Model.Facts
import NaijaVerif.Driver.Util
/-
Text form of `Facts` (`ProgramFacts` by ids), shared by the Rust harness
(`harness/src/factsio.rs::facts_str` prints it from the real resolver's facts) and the Lean drivers.

  fns=<id:name-hex:params:parent:defScope:defStmt:start:len,…>      params = `_` for the root (`params: None`)
  scopes=<id:parent:owner,…>
  locals=<id:name-hex:owner:scope:declStmt:kind,…>                  kind = P | V
  stmts=<id:fn:scope:reads:writes:callees:class,…>                  class = N | T | I
  directs=<fn:callees:capReads:capWrites,…>
  calls=<caller:callee,…>                                           sorted (the Rust table is pointer-sorted)

Optional numbers are `_` when absent; id lists are joined by `.`, `-` when empty; an empty table is `-`.
`scope_locals` is not printed: it is the list of locals of each declaring scope in id order.
-/
namespace NaijaVerif.FactsIO
open NaijaVerif NaijaVerif.Driver

def optStr : Option Nat → String
  | some n => toString n
  | none => "_"

def idsStr (l : List Nat) : String :=
  if l.isEmpty then "-" else ".".intercalate (l.map toString)

def tableStr (rows : List String) : String :=
  if rows.isEmpty then "-" else ",".intercalate rows

def enum {α : Type} (l : List α) : List (Nat × α) := (List.range l.length).zip l

def pairLt (a b : Nat × Nat) : Bool := a.1 < b.1 || (a.1 == b.1 && a.2 < b.2)

def insertPair (p : Nat × Nat) : List (Nat × Nat) → List (Nat × Nat)
  | [] => [p]
  | q :: qs => if pairLt p q then p :: q :: qs else q :: insertPair p qs

def sortPairs (l : List (Nat × Nat)) : List (Nat × Nat) := l.foldr insertPair []

def factsStr (f : Facts) : String :=
  let fns := (enum f.functions).map fun (i, x) =>
    s!"{i}:{hex x.name}:{if x.hasParams then toString x.paramCount else "_"}:{optStr x.parent}:{optStr x.definingScope}:{optStr x.defStmt}:{x.localsStart}:{x.localsLen}"
  let scopes := (enum f.scopes).map fun (i, x) => s!"{i}:{optStr x.parent}:{x.owner}"
  let locals := (enum f.locals).map fun (i, x) =>
    s!"{i}:{hex x.name}:{x.owner}:{x.declaringScope}:{optStr x.declStmt}:{match x.kind with | .parameter => "P" | .variable => "V"}"
  let stmts := (enum f.stmtEffects).map fun (i, x) =>
    s!"{i}:{x.function}:{x.scope}:{idsStr x.reads}:{idsStr x.writes}:{idsStr x.directCallees}:{x.exprClass.name}"
  let directs := (enum f.functionDirects).map fun (i, x) =>
    s!"{i}:{idsStr x.directCallees}:{idsStr x.captureReads}:{idsStr x.captureWrites}"
  let calls := (sortPairs f.userCalls).map fun (a, b) => s!"{a}:{b}"
  s!"fns={tableStr fns} scopes={tableStr scopes} locals={tableStr locals} stmts={tableStr stmts} directs={tableStr directs} calls={tableStr calls}"

/-! ### Reader -/

def pOpt (s : String) : Option (Option Nat) :=
  if s = "_" then some none else s.toNat?.map some

def pIds (s : String) : Option (List Nat) :=
  if s = "-" then some [] else (s.splitOn ".").mapM (·.toNat?)

def pTable {α : Type} (s : String) (row : List String → Option α) : Option (List α) :=
  if s = "-" then some [] else (s.splitOn ",").mapM (fun r => row (r.splitOn ":"))

def pClass : String → Option ExprClass
  | "N" => some .pureNoTrap | "T" => some .pureMayTrap | "I" => some .impure | _ => none

/-- The value of `key=` among the words of a line. -/
def field (ws : List String) (key : String) : Option String :=
  (ws.find? (·.startsWith (key ++ "="))).map (fun w => (w.drop (key.length + 1)).toString)

/-- Parse the six fields out of the words of a line (other words are ignored). -/
def readFactsWords (ws : List String) : Option Facts := do
  let fns ← pTable (← field ws "fns") fun
    | [_, n, p, par, ds, st, a, b] => do
        let pc ← pOpt p
        pure ({ name := ← unhex n, hasParams := pc.isSome, paramCount := pc.getD 0, parent := ← pOpt par,
                definingScope := ← pOpt ds, defStmt := ← pOpt st, localsStart := ← a.toNat?,
                localsLen := ← b.toNat? } : FunctionInfo)
    | _ => none
  let scopes ← pTable (← field ws "scopes") fun
    | [_, p, o] => do pure (⟨← pOpt p, ← o.toNat?⟩ : ScopeInfo)
    | _ => none
  let locals ← pTable (← field ws "locals") fun
    | [_, n, o, s, d, k] => do
        let kind ← (match k with | "P" => some LocalKind.parameter | "V" => some LocalKind.variable | _ => none)
        pure (⟨← unhex n, ← o.toNat?, ← s.toNat?, ← pOpt d, kind⟩ : LocalInfo)
    | _ => none
  let stmts ← pTable (← field ws "stmts") fun
    | [_, fn, sc, r, w, c, k] => do
        pure (⟨← fn.toNat?, ← sc.toNat?, ← pIds r, ← pIds w, ← pIds c, ← pClass k⟩ : StmtEffect)
    | _ => none
  let directs ← pTable (← field ws "directs") fun
    | [_, c, r, w] => do pure (⟨← pIds c, ← pIds r, ← pIds w⟩ : FunctionDirect)
    | _ => none
  let calls ← pTable (← field ws "calls") fun
    | [a, b] => do pure (← a.toNat?, ← b.toNat?)
    | _ => none
  let scopeLocals := (List.range scopes.length).map fun s =>
    ((enum locals).filter (fun (_, l) => l.declaringScope == s)).map (·.1)
  pure { functions := fns, scopes := scopes, scopeLocals := scopeLocals, locals := locals,
         stmtEffects := stmts, functionDirects := directs, userCalls := calls }

def readFacts (line : String) : Option Facts := readFactsWords (words line)

end NaijaVerif.FactsIO
