import NaijaVerif.Model.Ast
import NaijaVerif.Driver.Util
/-
Canonical one-line S-expression form of the AST (with spans and binding annotations), shared by
the Rust harness (`harness/src/astio.rs` prints it from the real parser's AST and the real
resolver's facts) and the Lean driver (prints it from the model's AST, and reads it back so that the
resolver / evaluator models can be driven from the real front end's output).

Grammar (tokens separated by single spaces; `<sp>` = `lo:hi` or `.` when spans are erased;
`<b>` = hex bytes or `-`; `<o>` = a number or `_`):

  E ::= ( idx E E <sp> <sp> ) | ( str <b> <sp> ) | ( istr <n> seg* <sp> ) | ( num <b> <sp> )
      | ( var <b> <o> <sp> ) | ( bin <op> E E <sp> ) | ( call E <n> E* <o> <sp> ) | ( arr <n> E* <sp> )
      | ( un <op> E <sp> ) | ( bool <0|1> <sp> ) | ( mem E <b> <sp> <sp> ) | ( null <sp> )
  seg ::= l:<b> | v:<b>:<o>
  S ::= ( fn <b> <sp> <n> param* B <o> <o> <sp> ) | ( let <b> <sp> E <o> <o> <sp> )
      | ( set <b> <sp> E <o> <o> <sp> ) | ( seti E E <o> <sp> ) | ( if E B <B|none> <o> <sp> )
      | ( loop E B <o> <sp> ) | ( blk B <o> <sp> ) | ( ret <E|none> <o> <sp> ) | ( brk <o> <sp> )
      | ( cont <o> <sp> ) | ( expr E <o> <sp> )
  param ::= <b>:<lo>:<hi>:<o>      (`<b>:.:<o>` when spans are erased)
  B ::= ( block <n> S* <sp> )
-/
namespace NaijaVerif.AstIO
open NaijaVerif NaijaVerif.Driver

structure Opts where
  spans : Bool := true
  ann : Bool := true

def sp (o : Opts) (s : Span) : String := if o.spans then s!"{s.lo}:{s.hi}" else "."
def an (o : Opts) (a : Option Nat) : String :=
  if o.ann then (match a with | some n => toString n | none => "_") else "_"

def binName : BinOp → String
  | .add => "add" | .minus => "minus" | .times => "times" | .divide => "divide" | .mod => "mod"
  | .and => "and" | .or => "or" | .eq => "eq" | .gt => "gt" | .lt => "lt"

def unName : UnOp → String
  | .not => "not" | .neg => "neg"

def segStr (o : Opts) : Seg → String
  | .lit s => s!"l:{hex s}"
  | .var n b => s!"v:{hex n}:{an o b}"

mutual
  def exprStr (o : Opts) : Expr → String
    | .index a i isp s => s!"( idx {exprStr o a} {exprStr o i} {sp o isp} {sp o s} )"
    | .str (.static b) s => s!"( str {hex b} {sp o s} )"
    | .str (.interp segs) s =>
        s!"( istr {segs.length}{segs.foldl (fun acc g => acc ++ " " ++ segStr o g) ""} {sp o s} )"
    | .num l s => s!"( num {hex l} {sp o s} )"
    | .var n b s => s!"( var {hex n} {an o b} {sp o s} )"
    | .binary op l r s => s!"( bin {binName op} {exprStr o l} {exprStr o r} {sp o s} )"
    | .call c args f s => s!"( call {exprStr o c} {args.length}{exprsStr o args} {an o f} {sp o s} )"
    | .array es s => s!"( arr {es.length}{exprsStr o es} {sp o s} )"
    | .unary op e s => s!"( un {unName op} {exprStr o e} {sp o s} )"
    | .bool b s => s!"( bool {if b then 1 else 0} {sp o s} )"
    | .member ob f fs s => s!"( mem {exprStr o ob} {hex f} {sp o fs} {sp o s} )"
    | .null s => s!"( null {sp o s} )"
  def exprsStr (o : Opts) : List Expr → String
    | [] => ""
    | e :: es => " " ++ exprStr o e ++ exprsStr o es
end

def paramStr (o : Opts) (p : Param) : String :=
  if o.spans then s!"{hex p.name}:{p.span.lo}:{p.span.hi}:{an o p.bind}" else s!"{hex p.name}:.:{an o p.bind}"

mutual
  def stmtStr (o : Opts) : Stmt → String
    | .fnDef n ns ps b f sid s =>
        s!"( fn {hex n} {sp o ns} {ps.length}{ps.foldl (fun acc p => acc ++ " " ++ paramStr o p) ""} {blockStr o b} {an o f} {an o sid} {sp o s} )"
    | .assign v vs e b sid s => s!"( let {hex v} {sp o vs} {exprStr o e} {an o b} {an o sid} {sp o s} )"
    | .assignExisting v vs e b sid s => s!"( set {hex v} {sp o vs} {exprStr o e} {an o b} {an o sid} {sp o s} )"
    | .assignIndex t e sid s => s!"( seti {exprStr o t} {exprStr o e} {an o sid} {sp o s} )"
    | .ifS c t none sid s => s!"( if {exprStr o c} {blockStr o t} none {an o sid} {sp o s} )"
    | .ifS c t (some e) sid s => s!"( if {exprStr o c} {blockStr o t} {blockStr o e} {an o sid} {sp o s} )"
    | .loop c b sid s => s!"( loop {exprStr o c} {blockStr o b} {an o sid} {sp o s} )"
    | .block b sid s => s!"( blk {blockStr o b} {an o sid} {sp o s} )"
    | .ret none sid s => s!"( ret none {an o sid} {sp o s} )"
    | .ret (some e) sid s => s!"( ret {exprStr o e} {an o sid} {sp o s} )"
    | .brk sid s => s!"( brk {an o sid} {sp o s} )"
    | .cont sid s => s!"( cont {an o sid} {sp o s} )"
    | .expr e sid s => s!"( expr {exprStr o e} {an o sid} {sp o s} )"
  def stmtsStr (o : Opts) : List Stmt → String
    | [] => ""
    | s :: ss => " " ++ stmtStr o s ++ stmtsStr o ss
  def blockStr (o : Opts) : Block → String
    | .mk ss s => s!"( block {ss.length}{stmtsStr o ss} {sp o s} )"
end

/-! ### Reader -/

abbrev P := StateT (List String) Option

def tok : P String := do
  match (← get) with
  | [] => failure
  | t :: ts => set ts; pure t

def expect (s : String) : P Unit := do
  let t ← tok
  if t = s then pure () else failure

def pNat : P Nat := do
  match (← tok).toNat? with
  | some n => pure n
  | none => failure

def pOpt : P (Option Nat) := do
  let t ← tok
  if t = "_" then pure none else
  match t.toNat? with
  | some n => pure (some n)
  | none => failure

def pBytes : P Bytes := do
  match unhex (← tok) with
  | some b => pure b
  | none => failure

def parseSpan (t : String) : Option Span :=
  if t = "." then some ⟨0, 0⟩ else
  match t.splitOn ":" with
  | [a, b] => do pure ⟨← a.toNat?, ← b.toNat?⟩
  | _ => none

def pSpan : P Span := do
  match parseSpan (← tok) with
  | some s => pure s
  | none => failure

def pBin : P BinOp := do
  match (← tok) with
  | "add" => pure .add | "minus" => pure .minus | "times" => pure .times | "divide" => pure .divide
  | "mod" => pure .mod | "and" => pure .and | "or" => pure .or | "eq" => pure .eq | "gt" => pure .gt
  | "lt" => pure .lt | _ => failure

def pUn : P UnOp := do
  match (← tok) with
  | "not" => pure .not | "neg" => pure .neg | _ => failure

def pSeg : P Seg := do
  match (← tok).splitOn ":" with
  | ["l", b] => match unhex b with | some x => pure (.lit x) | none => failure
  | ["v", b, o] =>
      match unhex b with
      | some x => if o = "_" then pure (.var x none) else
          match o.toNat? with | some n => pure (.var x (some n)) | none => failure
      | none => failure
  | _ => failure

def pParam : P Param := do
  match (← tok).splitOn ":" with
  | [b, lo, hi, o] =>
      match unhex b, lo.toNat?, hi.toNat? with
      | some x, some l, some h =>
          if o = "_" then pure { name := x, span := ⟨l, h⟩, bind := none } else
          match o.toNat? with | some n => pure { name := x, span := ⟨l, h⟩, bind := some n } | none => failure
      | _, _, _ => failure
  | [b, ".", o] =>
      match unhex b with
      | some x =>
          if o = "_" then pure { name := x, span := ⟨0, 0⟩, bind := none } else
          match o.toNat? with | some n => pure { name := x, span := ⟨0, 0⟩, bind := some n } | none => failure
      | none => failure
  | _ => failure

def repeatP {α} (n : Nat) (p : P α) : P (List α) := do
  let mut acc := []
  for _ in [0:n] do
    acc := (← p) :: acc
  pure acc.reverse

partial def pExpr : P Expr := do
  expect "("
  let k ← tok
  let e ← match k with
    | "idx" => do let a ← pExpr; let i ← pExpr; let s1 ← pSpan; let s2 ← pSpan; pure (Expr.index a i s1 s2)
    | "str" => do let b ← pBytes; let s ← pSpan; pure (Expr.str (.static b) s)
    | "istr" => do let n ← pNat; let segs ← repeatP n pSeg; let s ← pSpan; pure (Expr.str (.interp segs) s)
    | "num" => do let b ← pBytes; let s ← pSpan; pure (Expr.num b s)
    | "var" => do let b ← pBytes; let o ← pOpt; let s ← pSpan; pure (Expr.var b o s)
    | "bin" => do let op ← pBin; let l ← pExpr; let r ← pExpr; let s ← pSpan; pure (Expr.binary op l r s)
    | "call" => do
        let c ← pExpr; let n ← pNat; let args ← repeatP n pExpr; let f ← pOpt; let s ← pSpan
        pure (Expr.call c args f s)
    | "arr" => do let n ← pNat; let es ← repeatP n pExpr; let s ← pSpan; pure (Expr.array es s)
    | "un" => do let op ← pUn; let e ← pExpr; let s ← pSpan; pure (Expr.unary op e s)
    | "bool" => do let n ← pNat; let s ← pSpan; pure (Expr.bool (n != 0) s)
    | "mem" => do let o ← pExpr; let f ← pBytes; let s1 ← pSpan; let s2 ← pSpan; pure (Expr.member o f s1 s2)
    | "null" => do let s ← pSpan; pure (Expr.null s)
    | _ => failure
  expect ")"
  pure e

def peekIsNone : P Bool := do
  match (← get) with
  | "none" :: ts => set ts; pure true
  | _ => pure false

mutual
  partial def pStmt : P Stmt := do
    expect "("
    let k ← tok
    let st ← match k with
      | "fn" => do
          let n ← pBytes; let ns ← pSpan; let k ← pNat; let ps ← repeatP k pParam; let b ← pBlock
          let f ← pOpt; let sid ← pOpt; let s ← pSpan
          pure (Stmt.fnDef n ns ps b f sid s)
      | "let" => do
          let v ← pBytes; let vs ← pSpan; let e ← pExpr; let b ← pOpt; let sid ← pOpt; let s ← pSpan
          pure (Stmt.assign v vs e b sid s)
      | "set" => do
          let v ← pBytes; let vs ← pSpan; let e ← pExpr; let b ← pOpt; let sid ← pOpt; let s ← pSpan
          pure (Stmt.assignExisting v vs e b sid s)
      | "seti" => do let t ← pExpr; let e ← pExpr; let sid ← pOpt; let s ← pSpan; pure (Stmt.assignIndex t e sid s)
      | "if" => do
          let c ← pExpr; let t ← pBlock
          let e ← (do if (← peekIsNone) then pure none else pure (some (← pBlock)))
          let sid ← pOpt; let s ← pSpan
          pure (Stmt.ifS c t e sid s)
      | "loop" => do let c ← pExpr; let b ← pBlock; let sid ← pOpt; let s ← pSpan; pure (Stmt.loop c b sid s)
      | "blk" => do let b ← pBlock; let sid ← pOpt; let s ← pSpan; pure (Stmt.block b sid s)
      | "ret" => do
          let e ← (do if (← peekIsNone) then pure none else pure (some (← pExpr)))
          let sid ← pOpt; let s ← pSpan
          pure (Stmt.ret e sid s)
      | "brk" => do let sid ← pOpt; let s ← pSpan; pure (Stmt.brk sid s)
      | "cont" => do let sid ← pOpt; let s ← pSpan; pure (Stmt.cont sid s)
      | "expr" => do let e ← pExpr; let sid ← pOpt; let s ← pSpan; pure (Stmt.expr e sid s)
      | _ => failure
    expect ")"
    pure st
  partial def pBlock : P Block := do
    expect "("
    expect "block"
    let n ← pNat
    let ss ← repeatP n pStmt
    let s ← pSpan
    expect ")"
    pure (Block.mk ss s)
end

/-- Read a whole program (a block) from its one-line form. -/
def readBlock (line : String) : Option Block :=
  match pBlock.run (words line) with
  | some (b, []) => some b
  | _ => none

end NaijaVerif.AstIO
