import NaijaVerif.Model.Parse
import NaijaVerif.Driver.AstIO
import NaijaVerif.Driver.Util
import NaijaVerif.Model.ParsePrint
import NaijaVerif.Lemmas.ParseDefs
/-! Family `parse` (see `harness/src/parse.rs` for the protocol):
```
parse <hex src> <tokens>   -> diags=<D> labels=<L> ast=<A> end=ok
```
`<tokens>` is the token list the real lexer yields for `<src>` (`kind@lo:hi` joined by `,`; payloads
`ident:<hex>`, `num:<hex>`, `str:<hex>:<0|1>`; `-` = empty list) — the same text as
`NaijaVerif.Lex.toksStr`.  The model parses the token list; the source is not looked at.
rt <hex src> <tokens>      -> rt exprs=<n> ok=<k> notwf=<m> bad=<b>      (model-only self check, see `rt`)
prt <hex src> <tokens>     -> prt ok | prt notcanon | prt bad | prt skip      (model-only self check, see `prt`)
`<D>`/`<L>` = `diagsStr`/`labelsStr` of the syntax diagnostics, `<A>` = `AstIO.blockStr` with spans,
annotations all `_`.  (The token reader below is a private copy of `Lex.readToks`, kept so that this
driver does not depend on the lexer model.) -/
namespace NaijaVerif.Driver.ParseD
open NaijaVerif NaijaVerif.Driver NaijaVerif.Parse

def plainToks : List Tok := [
  .make, .get, .add, .minus, .times, .divide, .mod, .and, .or, .not, .jasi, .start, .end, .comot,
  .next, .na, .pass, .smallPass, .ifToSay, .ifNotSo, .do, .ret, .tru, .fals, .null, .lparen,
  .rparen, .lbracket, .rbracket, .comma, .dot, .eof]

def readTok (s : String) : Option SpTok :=
  match s.splitOn "@" with
  | [pay, sp] =>
    match sp.splitOn ":" with
    | [a, b] =>
      match a.toNat?, b.toNat? with
      | some lo, some hi =>
        let tok : Option Tok :=
          match pay.splitOn ":" with
          | ["str", h, e] =>
            match unhex h, e with
            | some c, "0" => some (.str c false)
            | some c, "1" => some (.str c true)
            | _, _ => none
          | ["ident", h] => (unhex h).map .ident
          | ["num", h] => (unhex h).map .num
          | [k] => plainToks.find? (·.kindName == k)
          | _ => none
        tok.map fun t => ⟨t, ⟨lo, hi⟩⟩
      | _, _ => none
    | _ => none
  | _ => none

def readToks (s : String) : Option (List SpTok) :=
  if s = "-" then some [] else (s.splitOn ",").mapM readTok

def answer (toks : List SpTok) : String :=
  let (b, ds) := parseProgram toks
  s!"diags={diagsStr ds} labels={labelsStr ds} ast={AstIO.blockStr {} b} end=ok"

/-! ### `rt`: the round-trip theorem's hypotheses and conclusion, evaluated on real ASTs

For every top-level expression `e` of the statements of the parsed program (when it parsed without
diagnostics): erase its spans, check the well-formedness predicate `WF` of `Lemmas/ParseRoundTrip.lean`
(here as a Boolean function), print it with 0, 1 and 2 redundant pairs of parentheses around every
sub-expression, parse the tokens with `parseExpr`, and compare.  This is a *test* that the printer and
`WF` used by the theorem fit what the real parser produces (how many real expressions the theorem
covers: `notwf` counts those outside `WF`); it imports the printer definitions from `Lemmas/`, which
are core-only. -/

def strOkB : StrParts → Bool
  | .static _ => true
  | .interp segs =>
    match strParts (renderSegs segs) false with
    | .interp s' => s' == segs
    | _ => false

mutual
  def wfB : Expr → Bool
    | .str parts _ => strOkB parts
    | .var _ b _ => b.isNone
    | .unary _ e _ => wfB e
    | .binary _ l r _ => wfB l && wfB r
    | .member o _ _ _ => wfB o
    | .call c args fn _ => fn.isNone && wfB c && wfBs args
    | .index a i _ _ => wfB a && wfB i
    | .array es _ => wfBs es
    | _ => true
  def wfBs : List Expr → Bool
    | [] => true
    | e :: es => wfB e && wfBs es
end

mutual
  def stmtExprs : Stmt → List Expr
    | .fnDef _ _ _ b _ _ _ => blockExprs b
    | .assign _ _ e _ _ _ => [e]
    | .assignExisting _ _ e _ _ _ => [e]
    | .assignIndex t e _ _ => [t, e]
    | .ifS c t none _ _ => c :: blockExprs t
    | .ifS c t (some e) _ _ => c :: (blockExprs t ++ blockExprs e)
    | .loop c b _ _ => c :: blockExprs b
    | .block b _ _ => blockExprs b
    | .ret none _ _ => []
    | .ret (some e) _ _ => [e]
    | .brk _ _ => []
    | .cont _ _ => []
    | .expr e _ _ => [e]
  def stmtsExprs : List Stmt → List Expr
    | [] => []
    | s :: ss => stmtExprs s ++ stmtsExprs ss
  def blockExprs : Block → List Expr
    | .mk ss _ => stmtsExprs ss
end

def endSt : PState := ⟨⟨.eof, zspan⟩, [], []⟩

/-- 0 = ok, 1 = not WF, 2 = bad -/
def rtOne (e : Expr) : Nat :=
  let e0 := eraseExpr e
  if !wfB e0 then 1 else
  let want := AstIO.exprStr {} e0
  let okFor (k : Nat) : Bool :=
    let ts := printAt (fun _ => k) 0 e0
    match parseExpr (3 * ts.length + 10) 0 (pushToks ts endSt) with
    | some (e1, st1) =>
      AstIO.exprStr {} e1 == want && st1.errs.isEmpty && st1.cur.tok == .eof && st1.rest.isEmpty
    | none => false
  if okFor 0 && okFor 1 && okFor 2 then 0 else 2

def rt (toks : List SpTok) : String :=
  let (b, ds) := parseProgram toks
  if !ds.isEmpty then "rt exprs=0 ok=0 notwf=0 bad=0" else
  let rs := (blockExprs b).map rtOne
  s!"rt exprs={rs.length} ok={(rs.filter (· == 0)).length} notwf={(rs.filter (· == 1)).length} bad={(rs.filter (· == 2)).length}"

/-! ### `prt`: the statement-level round trip on real programs

The parsed program (when it has no diagnostics) is span-erased, checked against the canonical-program
predicate of `Lemmas/ParseRoundTripStmt.lean` (`CanonBlock`, here as a Boolean function), printed with
`programToks` and parsed again. -/

def startsIdentB : List Tok → Bool
  | .ident _ :: _ => true
  | _ => false

def isIndexB : Expr → Bool
  | .index .. => true
  | _ => false

def bareRetB : Stmt → Bool
  | .ret none _ _ => true
  | _ => false

mutual
  def canonStmtB (p : Expr → Nat) : Stmt → Bool
    | .fnDef _ _ ps b fn sid _ => fn.isNone && sid.isNone && ps.all (fun q => q.bind.isNone) && canonBlockB p b
    | .assign _ _ e bind sid _ => bind.isNone && sid.isNone && wfB e
    | .assignExisting _ _ e bind sid _ => bind.isNone && sid.isNone && wfB e
    | .assignIndex t e sid _ => sid.isNone && wfB t && wfB e && isIndexB t && startsIdentB (printAt p 0 t)
    | .ifS c t none sid _ => sid.isNone && wfB c && canonBlockB p t
    | .ifS c t (some e) sid _ => sid.isNone && wfB c && canonBlockB p t && canonBlockB p e
    | .loop c b sid _ => sid.isNone && wfB c && canonBlockB p b
    | .block b sid _ => sid.isNone && canonBlockB p b
    | .ret none sid _ => sid.isNone
    | .ret (some e) sid _ => sid.isNone && wfB e
    | .brk sid _ => sid.isNone
    | .cont sid _ => sid.isNone
    | .expr e sid _ => sid.isNone && wfB e && startsIdentB (printAt p 0 e)
  def canonStmtsB (p : Expr → Nat) : List Stmt → Bool
    | [] => true
    | [s] => canonStmtB p s
    | s :: s' :: ss => canonStmtB p s && !bareRetB s && canonStmtsB p (s' :: ss)
  def canonBlockB (p : Expr → Nat) : Block → Bool
    | .mk ss _ => canonStmtsB p ss
end

def prt (toks : List SpTok) : String :=
  let (b, ds) := parseProgram toks
  if !ds.isEmpty then "prt skip" else
  let b0 := eraseSpans b
  let p : Expr → Nat := fun _ => 0
  if !canonBlockB p b0 then "prt notcanon" else
  let (b1, ds1) := parseProgram (programToks p b0)
  if ds1.isEmpty && AstIO.blockStr {} b1 == AstIO.blockStr {} b0 then "prt ok" else "prt bad"

def step (_ : Unit) (line : String) : Unit × String :=
  match words line with
  | ["parse", _src, t] =>
    match readToks t with
    | some ts => ((), answer ts)
    | none => ((), "unreadable-tokens")
  | ["prt", _src, t] =>
    match readToks t with
    | some ts => ((), prt ts)
    | none => ((), "unreadable-tokens")
  | ["rt", _src, t] =>
    match readToks t with
    | some ts => ((), rt ts)
    | none => ((), "unreadable-tokens")
  | _ => ((), "bad-op")

def main : IO Unit := do
  loop (← IO.getStdin) (← IO.getStdout) () step

end NaijaVerif.Driver.ParseD
