import NaijaVerif.Driver.Util
/-! Family `parse` — stub (replaced by the unit that owns this family). -/
namespace NaijaVerif.Driver.ParseD

def main : IO Unit := do
  IO.eprintln "family parse: not built yet"

end NaijaVerif.Driver.ParseD
