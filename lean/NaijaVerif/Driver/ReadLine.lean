import NaijaVerif.Model.ReadLine
import NaijaVerif.Driver.Util

/-! Line protocol `readline` (C17):
```
chunks <hex>|<hex>|… calls=<k> [delay=<µs>]  -> lines=<hex>,<hex>,… utf8=<one 0/1 per line>
old chunks <hex>|… calls=<k>                 -> the same through the model of the pinned code (replay only)
```
`-` is the empty byte string (an empty chunk, an empty line); with `calls=0` both fields are `none`.
`delay` only concerns the feeder of the implementation side and is ignored here: the model's
answer does not depend on time.  The answer is what `k` successive calls of the fixed `read_line`
return when the chunks arrive one after the other, each after the previous one has been read
completely; `utf8` says for each returned line whether it is valid UTF-8.
-/
namespace NaijaVerif.Driver.ReadLineD
open NaijaVerif.ReadLine NaijaVerif.Driver

def parseChunks (s : String) : Option (List (List Nat)) :=
  (s.splitOn "|").mapM unhex

def parseCalls (s : String) : Option Nat :=
  if s.startsWith "calls=" then (s.drop 6).toString.toNat? else none

def render (r : Option (List (List Nat))) : String :=
  match r with
  | none => "out-of-fuel"
  | some [] => "lines=none utf8=none"
  | some ls =>
      "lines=" ++ ",".intercalate (ls.map hex) ++ " utf8=" ++
        String.ofList (ls.map (fun l => if validUtf8 l then '1' else '0'))

def answer (ws : List String) : String :=
  match ws with
  | "old" :: "chunks" :: c :: k :: _ =>
      match parseChunks c, parseCalls k with
      | some chunks, some n => render (readLinesOld n chunks)
      | _, _ => "bad-request"
  | "chunks" :: c :: k :: _ =>
      match parseChunks c, parseCalls k with
      | some chunks, some n => render (readLines n chunks)
      | _, _ => "bad-request"
  | _ => "bad-request"

def step (st : Unit) (line : String) : Unit × String := (st, answer (words line))

def main : IO Unit := do
  loop (← IO.getStdin) (← IO.getStdout) () step

end NaijaVerif.Driver.ReadLineD
