import NaijaVerif.Driver.Util
/-! Family `readline` — stub (replaced by the unit that owns this family). -/
namespace NaijaVerif.Driver.ReadLineD

def main : IO Unit := do
  IO.eprintln "family readline: not built yet"

end NaijaVerif.Driver.ReadLineD
