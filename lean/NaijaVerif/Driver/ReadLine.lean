import NaijaVerif.Model.ReadLine
import NaijaVerif.Driver.Util

/-! Line protocol `readline` (C17):
```
chunks <hex>|<hex>|… calls=<k> [delay=<µs>]  -> lines=<hex>,<hex>,… utf8=<one 0/1 per line>
old chunks <hex>|… calls=<k>                 -> the same through the model of the pinned code (replay only)
```
`-` is the empty byte string (an empty chunk, an empty line); with `calls=0` both fields are `none`.
A chunk may be written as `+`-joined parts, a part `HH*N` being N copies of the byte HH; a returned line
longer than 256 KiB is answered as `L<length>:<FNV-1a 64 digest>` instead of hex.
`delay` only concerns the feeder of the implementation side and is ignored here: the model's
answer does not depend on time.  The answer is what `k` successive calls of the fixed `read_line`
return when the chunks arrive one after the other, each after the previous one has been read
completely; `utf8` says for each returned line whether it is valid UTF-8.
-/
namespace NaijaVerif.Driver.ReadLineD
open NaijaVerif.ReadLine NaijaVerif.Driver

/-- A chunk: `+`-joined parts, each plain hex (`-` = empty) or a run `HH*N` (N copies of the byte). -/
def parsePart (p : String) : Option (List Nat) :=
  match p.splitOn "*" with
  | [b, n] =>
      match unhex b, n.toNat? with
      | some [x], some k => some (List.replicate k x)
      | _, _ => none
  | _ => unhex p

def parseChunk (s : String) : Option (List Nat) :=
  ((s.splitOn "+").mapM parsePart).map List.flatten

def parseChunks (s : String) : Option (List (List Nat)) :=
  (s.splitOn "|").mapM parseChunk

/-- FNV-1a, 64 bit (long lines are answered by length and digest). -/
def fnv64 (bs : List Nat) : Nat :=
  bs.foldl (fun h b => ((h ^^^ b) * 1099511628211) % 18446744073709551616) 14695981039346656037

def hex16 (n : Nat) : String :=
  String.ofList ((List.range 16).reverse.map (fun i => hexChar (n / 16 ^ i % 16)))

def longLine : Nat := 256 * 1024

def showLine (l : List Nat) : String :=
  if l.length > longLine then s!"L{l.length}:{hex16 (fnv64 l)}" else hex l

def parseCalls (s : String) : Option Nat :=
  if s.startsWith "calls=" then (s.drop 6).toString.toNat? else none

def render (r : Option (List (List Nat))) : String :=
  match r with
  | none => "out-of-fuel"
  | some [] => "lines=none utf8=none"
  | some ls =>
      "lines=" ++ ",".intercalate (ls.map showLine) ++ " utf8=" ++
        String.ofList (ls.map (fun l => if validUtf8 l then '1' else '0'))

def answer (ws : List String) : String :=
  match ws with
  | "old" :: "chunks" :: c :: k :: _ =>
      match parseChunks c, parseCalls k with
      | some chunks, some n => render (readLinesOld n chunks)
      | _, _ => "bad-request"
  | "chunks" :: c :: k :: _ =>
      match parseChunks c, parseCalls k with
      | some chunks, some n => render (readLines n chunks)
      | _, _ => "bad-request"
  | _ => "bad-request"

def step (st : Unit) (line : String) : Unit × String := (st, answer (words line))

def main : IO Unit := do
  loop (← IO.getStdin) (← IO.getStdout) () step

end NaijaVerif.Driver.ReadLineD
