import NaijaVerif.Model.Protocol
import NaijaVerif.Gen.Protocol
import NaijaVerif.Driver.Util

/-! Line protocol `cli` (C14).  One request per line, one answer per line.
```
cli <file|eval|stdin> <p> <re> <rt> <hex src>  -> code=<n>         exit status the ladder of cmd.rs gives for
                                                                 p parser diagnostics, re error-level checker
                                                                 diagnostics, rt error-level runtime diagnostics
cli <mode> x x x <hex src>                     -> code=panic       (the library pipeline panicked: outside the model)
exit <p> <re> <rt>                             -> code=<n>
seq <hex1>|<hex2>|…                            -> n=<2k> end=<o0>:<o1>,…   offsets of the two scratch arenas after each of
                                                                 the 2k playground runs (the sequence is run twice)
proto <cli|wasm|wrongframe|resafter|described> -> safe | unsafe    the decidable check on the extracted wiring
H                                              -> off=0:0          start a history on the real S_SCRATCH: drop
                                                                 every guard, arena::init
b <v> <none|w>                                 -> ix=<0|1> saved=<off> | rebound | unbound
a <v> <bytes> <align>                          -> beg=<off> off=<off> | panic | unbound
m <v>                                          -> mark=<off> | panic | unbound
r <v> <k>                                      -> off=<off> | panic | badmark | unbound
d <v>                                          -> off=<o0>:<o1> | abort | unbound
i                                              -> off=<o0>:<o1>    arena::init (only requested with no guard alive)
o                                              -> off=<o0>:<o1>
```
-/
namespace NaijaVerif.Driver.CliD
open NaijaVerif.Scratch NaijaVerif.Driver

/-- `exit status` by the extracted ladder. -/
def exitOf (p re rt : Nat) : Nat :=
  exitCodeBy Gen.Protocol.cliExitRules Gen.Protocol.cliExitDefault
    { parseDiags := p, parseErrors := p, resolveDiags := re, resolveErrors := re, runDiags := rt, runErrors := rt }

def offs (sc : Scratch) : String := s!"off={sc.s0.offset}:{sc.s1.offset}"

/-- One playground run in the model: the longest path of the extracted wiring, every phase
allocating 24 bytes through each of its guards, reading the offset and resetting to it. -/
def fillPath (p : List ProtoOp) : List FOp :=
  p.map fun
    | .init => .init
    | .borrow v c => .borrow v c
    | .release v => .release v
    | .work uses => .work uses (uses.map (fun v => WorkOp.alloc v 24 8))

def longest (ps : List (List ProtoOp)) : List ProtoOp :=
  ps.foldl (fun best p => if p.length > best.length then p else best) []

def wrongFrame : List SrcOp :=
  Gen.Protocol.cliProtocol.map (fun op => if op = .letScratch 2 (some 0) then .letScratch 2 none else op)

def resAfter : List SrcOp :=
  Gen.Protocol.cliProtocol.flatMap (fun op => if op = .letScratch 2 (some 0) then [op, .work [1]] else [op])

def described : List SrcOp :=
  [.init, .letScratch 0 none, .work [0], .open, .letScratch 1 (some 0), .work [0, 1], .exit, .close,
   .letScratch 2 (some 0), .work [0, 2], .exit]

def faultName : Fault → String
  | .unbound => "unbound"
  | .rebound => "rebound"
  | .stale => "panic"
  | .dropOrder => "abort"
  | .badMark => "badmark"

def count (s : String) (c : Char) : Nat := (s.toList.filter (· == c)).length

def step (st : St) (line : String) : St × String :=
  match words line with
  | ["cli", _, "x", "x", "x", _] => (st, "code=panic")
  | ["cli", _, p, re, rt, _] =>
      match p.toNat?, re.toNat?, rt.toNat? with
      | some p, some re, some rt => (st, s!"code={exitOf p re rt}")
      | _, _, _ => (st, "bad-op")
  | ["exit", p, re, rt] =>
      match p.toNat?, re.toNat?, rt.toNat? with
      | some p, some re, some rt => (st, s!"code={exitOf p re rt}")
      | _, _, _ => (st, "bad-op")
  | ["seq", progs] =>
      let k := 2 * (count progs '|' + 1)
      let ops := flatOps (fillPath (longest (paths Gen.Protocol.wasmProtocol)))
      let rec go (n : Nat) (s : St) (acc : List String) : St × List String :=
        match n with
        | 0 => (s, acc.reverse)
        | n + 1 =>
          match run true s ops with
          | .ok s' => go n s' (s!"{s'.sc.s0.offset}:{s'.sc.s1.offset}" :: acc)
          | .error e => (s, (faultName e :: acc).reverse)
      let (s', outs) := go k (St.start st.sc) []
      (s', s!"n={k} end={",".intercalate outs}")
  | ["proto", name] =>
      let src : Option (List SrcOp) :=
        match name with
        | "cli" => some Gen.Protocol.cliProtocol
        | "wasm" => some Gen.Protocol.wasmProtocol
        | "wrongframe" => some wrongFrame
        | "resafter" => some resAfter
        | "described" => some described
        | _ => none
      match src with
      | some s => (st, if protocolSafe s then "safe" else "unsafe")
      | none => (st, "bad-op")
  | ["H"] =>
      let s := (St.start st.sc).doInit
      (s, offs s.sc)
  | ["i"] => let s := st.doInit; (s, offs s.sc)
  | ["o"] => (st, offs st.sc)
  | ["b", v, c] =>
      match v.toNat?, (if c = "none" then some none else c.toNat?.map some) with
      | some v, some c =>
          match st.doBorrow v c with
          | .ok s =>
              match s.env.lookup v with
              | some b => (s, s!"ix={b.ix.toNat} saved={b.saved}")
              | none => (s, "bad-op")
          | .error e => (st, faultName e)
      | _, _ => (st, "bad-op")
  | ["a", v, bytes, align] =>
      match v.toNat?, bytes.toNat?, align.toNat? with
      | some v, some bytes, some align =>
          match st.doAlloc true v bytes align with
          | .ok s =>
              match s.blocks.head?, s.env.lookup v with
              | some blk, some b => (s, s!"beg={blk.beg} off={(s.sc.get b.ix).offset}")
              | _, _ => (s, "bad-op")
          | .error e => (st, faultName e)
      | _, _, _ => (st, "bad-op")
  | ["m", v] =>
      match v.toNat? with
      | some v =>
          match st.doMark true v with
          | .ok s => (s, match s.marks.getLast? with | some (_, m) => s!"mark={m}" | none => "bad-op")
          | .error e => (st, faultName e)
      | none => (st, "bad-op")
  | ["r", v, k] =>
      match v.toNat?, k.toNat? with
      | some v, some k =>
          match st.doReset true v k with
          | .ok s => (s, match s.env.lookup v with | some b => s!"off={(s.sc.get b.ix).offset}" | none => "bad-op")
          | .error e => (st, faultName e)
      | _, _ => (st, "bad-op")
  | ["d", v] =>
      match v.toNat? with
      | some v =>
          match st.doRelease true v with
          | .ok s => (s, offs s.sc)
          | .error e => (st, faultName e)
      | none => (st, "bad-op")
  | _ => (st, "bad-op")

def main : IO Unit := do
  loop (← IO.getStdin) (← IO.getStdout) (St.start Scratch.empty) step

end NaijaVerif.Driver.CliD
