import NaijaVerif.Driver.Util
/-! Family `cli` — stub (replaced by the unit that owns this family). -/
namespace NaijaVerif.Driver.CliD

def main : IO Unit := do
  IO.eprintln "family cli: not built yet"

end NaijaVerif.Driver.CliD
