import NaijaVerif.Model.Resolve
import NaijaVerif.Spec.WF
import NaijaVerif.Gen.Builtins
import NaijaVerif.Driver.AstIO
import NaijaVerif.Driver.FactsIO
/-!
Line protocol `resolve` (see `harness/src/resolve.rs`):
```
resolve <hex src> [exp=<tag>] ast=<unannotated AST>
   -> diags=<…> ast=<annotated AST> fns=… scopes=… locals=… stmts=… directs=… calls=… end=ok
wf <hex src> [exp=<tag>] ast=<…>
   -> viol=<violations of the scoping rules computed by the declarative spec `Spec/WF.lean`>
full <hex src> [exp=<tag>] ast=<…>
   -> wf=<0|1> scope=<n> type=<n> rt=<0|1>   (the documented judgement `Spec.WF`, with counts of violations;
                                              rt = `Spec.ReturnsTyped`, the hypothesis of `c09_full_partial`)
```
The source text is not used (the AST comes from the real parser).  `locals_len` is computed as the
generated probe `Gen.Builtins.localsLenIsSpan` says the code computes it.
-/
namespace NaijaVerif.Driver.ResolveD
open NaijaVerif NaijaVerif.Driver

/-- The text after ` ast=`. -/
def astOf (line : String) : Option String :=
  match line.splitOn " ast=" with
  | [_, a] => some a
  | _ => none

def answer (line : String) : String :=
  match words line, astOf line with
  | kind :: _, some a =>
      match AstIO.readBlock a with
      | none => "bad-ast"
      | some root =>
          if kind = "resolve" then
            let r := Resolve.resolveWith Gen.Builtins.localsLenIsSpan root
            s!"diags={diagsStr r.diags} ast={AstIO.blockStr {} r.root} {FactsIO.factsStr r.facts} end=ok"
          else if kind = "wf" then
            let v := Spec.scopeViolations root
            s!"viol={diagsStr (v.map fun (r, s) => ({ sev := .error, kind := r.kind, span := s } : Diag))}"
          else if kind = "full" then
            let sv := Spec.scopeViolations root
            let tv := Spec.typeViolations root
            let rt : Nat := if Spec.blockRT { vars := [], fns := [] } root then 1 else 0
            s!"wf={if sv.isEmpty && tv.isEmpty then 1 else 0} scope={sv.length} type={tv.length} rt={rt}"
          else "bad-op"
  | _, _ => "bad-op"

def main : IO Unit := do
  loop (← IO.getStdin) (← IO.getStdout) () (fun _ line => ((), answer line))

end NaijaVerif.Driver.ResolveD
