import NaijaVerif.Driver.Util
/-! Family `resolve` — stub (replaced by the unit that owns this family). -/
namespace NaijaVerif.Driver.ResolveD

def main : IO Unit := do
  IO.eprintln "family resolve: not built yet"

end NaijaVerif.Driver.ResolveD
