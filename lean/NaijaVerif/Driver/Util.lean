/-
Shared helpers for the line-protocol driver (`nvdriver <family>` reads request lines on stdin and
answers one line per request on stdout).  Core-only.
-/
namespace NaijaVerif.Driver

def words (line : String) : List String :=
  (line.trimAscii.toString.splitOn " ").filter (· ≠ "")

def hexDigit (c : Char) : Option Nat :=
  if '0' ≤ c ∧ c ≤ '9' then some (c.toNat - '0'.toNat)
  else if 'a' ≤ c ∧ c ≤ 'f' then some (c.toNat - 'a'.toNat + 10)
  else if 'A' ≤ c ∧ c ≤ 'F' then some (c.toNat - 'A'.toNat + 10)
  else none

/-- Decode a hex string into bytes (as `Nat`s); `-` stands for the empty byte string. -/
def unhex (s : String) : Option (List Nat) :=
  if s = "-" then some [] else
  let rec go : List Char → List Nat → Option (List Nat)
    | [], acc => some acc.reverse
    | [_], _ => none
    | a :: b :: rest, acc =>
        match hexDigit a, hexDigit b with
        | some x, some y => go rest ((x * 16 + y) :: acc)
        | _, _ => none
  go s.toList []

def hexChar (n : Nat) : Char := if n < 10 then Char.ofNat (48 + n) else Char.ofNat (87 + n)

def hex (bs : List Nat) : String :=
  if bs.isEmpty then "-" else
  String.ofList (bs.foldr (fun b acc => hexChar (b / 16 % 16) :: hexChar (b % 16) :: acc) [])

def parseInt? (s : String) : Option Int :=
  if s.startsWith "-" then (s.drop 1).toString.toNat?.map (fun n => - (n : Int))
  else s.toNat?.map (fun n => (n : Int))

/-- Generic read-eval-print loop over a state. -/
partial def loop {σ : Type} (h : IO.FS.Stream) (out : IO.FS.Stream) (st : σ)
    (step : σ → String → σ × String) : IO Unit := do
  let line ← h.getLine
  if line.isEmpty then
    out.flush
    return ()
  let (st', ans) := step st line
  out.putStrLn ans
  -- one answer per request, visible at once: the check's stall watchdog attributes a silent driver to the
  -- request it is working on
  out.flush
  loop h out st' step

end NaijaVerif.Driver
