import NaijaVerif.Driver.Util
/-! Family `limits` — stub (replaced by the unit that owns this family). -/
namespace NaijaVerif.Driver.LimitsD

def main : IO Unit := do
  IO.eprintln "family limits: not built yet"

end NaijaVerif.Driver.LimitsD
