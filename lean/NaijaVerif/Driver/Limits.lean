import NaijaVerif.Model.Limits
import NaijaVerif.Model.CfgCount
import NaijaVerif.Gen.Caps
import NaijaVerif.Driver.AstIO
import NaijaVerif.Driver.Util

/-! Line protocol `limits` (see `harness/src/limits.rs`; `<caps>` = the 11 cap fields in order):
```
lim <caps> <functions> <locals> <scopes> <statements> <totalOps> <totalBlocks> <calls> <k> <b:o:l>*k
      -> limit=<none|metric:observed:limit> sum=<summaryBound> live=<livenessBound>
prog <caps> <rootLo>:<rootHi> <hex src> F=<facts> <annotated AST>
      -> counts=<functions>,<locals>,<scopes>,<statements>,<totalOps>,<totalBlocks>,<calls>;<b:o:l,...> limit=<…>
e2e <rootLo>:<rootHi> <hex src> X=<expected output> F=<facts> <annotated AST>
      -> counts=… limit=<… at Gen.Caps.defaults> warn=<n>[@lo:hi:severity] other=<n|*> plan=<none|some>
crash <hex src>   -> ok
summ <budget> <f> <l> <callees;reads;writes;stmts>*f
      -> <available>:<callees>:<reads>:<writes>:<class>:<body class> per function | panic
         `Summary.compute` (the model's own scheduling + `runGlobal`) on these direct facts; lists sorted
F=<functions>,<locals>,<scopes>,<statements>,<calls>;<locals_len of every function>
```
-/
namespace NaijaVerif.Driver.LimitsD
open NaijaVerif NaijaVerif.Limits NaijaVerif.CfgCount NaijaVerif.Driver

def nats (ws : List String) : Option (List Nat) := ws.mapM (·.toNat?)

def capsOf : List Nat → Option Caps
  | [a, b, c, d, e, f, g, h, i, j, k] =>
      some { maxFunctions := a, maxLocals := b, maxScopes := c, maxStatements := d, maxTotalOps := e,
             maxOpsPerFunction := f, maxTotalBlocks := g, maxBlocksPerFunction := h,
             maxDirectUserCalls := i, maxSummaryEvents := j, maxLivenessEvents := k }
  | _ => none

def fnCountOf (s : String) : Option FnCount :=
  match s.splitOn ":" with
  | [b, o, l] => do pure ⟨← b.toNat?, ← o.toNat?, ← l.toNat?⟩
  | _ => none

/-- The minimal facts text: only the sizes the preflight reads.  The entries of the lists are
placeholders; `countProgram` looks at lengths and at `localsLen` only. -/
def factsOf (s : String) : Option Facts :=
  if !s.startsWith "F=" then none else
  match (s.drop 2).toString.splitOn ";" with
  | [head, lens] =>
      match nats (head.splitOn ","), (if lens = "" then some [] else nats (lens.splitOn ",")) with
      | some [nf, nl, ns, nst, nc], some ls =>
          if ls.length ≠ nf then none else
          some { functions := ls.map fun l => { (default : FunctionInfo) with localsLen := l }
                 locals := List.replicate nl default
                 scopes := List.replicate ns default
                 scopeLocals := []
                 stmtEffects := List.replicate nst default
                 functionDirects := []
                 userCalls := List.replicate nc (0, 0) }
      | _, _ => none
  | _ => none

def countsStr (c : Counts) : String :=
  let per := if c.perFn.isEmpty then "-" else
    ",".intercalate (c.perFn.map fun f => s!"{f.blocks}:{f.ops}:{f.locals}")
  s!"{c.functions},{c.locals},{c.scopes},{c.statements},{c.totalOps},{c.totalBlocks},{c.directUserCalls};{per}"

def progAnswer (caps : Caps) (rootSpan : String) (facts : String) (ast : List String) (e2e : Bool) :
    String :=
  match AstIO.parseSpan rootSpan, factsOf facts, AstIO.pBlock.run ast with
  | some sp, some f, some (root, []) =>
      match countProgram root f with
      | none => "model-panic"
      | some c =>
          let lim := firstExceeded caps c
          let base := s!"counts={countsStr c} limit={Limit.str lim}"
          if e2e then
            -- the plan and the pass warnings are abstract in the model: only their presence shows
            let out := emitAnalysis (Plan := Unit) caps c sp () []
            let ws := out.warnings.filter (·.kind == .analysisLimit)
            let w := match ws with
              | [] => "0"
              | d :: _ => s!"{ws.length}@{d.span.lo}:{d.span.hi}:{d.sev.name}"
            let others := (out.warnings.filter (·.kind != .analysisLimit)).length
            let o := if lim.isSome then toString others else "*"
            s!"{base} warn={w} other={o} plan={if out.plan.isSome then "some" else "none"}"
          else base
  | _, _, _ => "bad-op"

/-! #### `summ`: the summary fixpoint on given direct facts -/

def idsOf (s : String) : Option (List Nat) :=
  if s = "-" then some [] else nats (s.splitOn ",")

def directOf (s : String) : Option Summary.Direct :=
  match s.splitOn ";" with
  | [c, r, w, st] => do
      let stmts ← idsOf st
      if stmts.any (· > 2) then none
      pure { callees := ← idsOf c, reads := ← idsOf r, writes := ← idsOf w, stmts := stmts }
  | _ => none

def idsStr (l : List Nat) : String :=
  if l.isEmpty then "-" else ",".intercalate ((l.mergeSort (· ≤ ·)).map toString)

def summStr (s : Summary.Summ) : String :=
  s!"{if s.available then 1 else 0}:{idsStr s.callees}:{idsStr s.reads}:{idsStr s.writes}:{s.cls}:{s.body}"

/-- More sweeps than any component can make: every changing sweep pays at least one event out of
the room `f·(f + 2l + 2)` (`Props/C18.lean`, `summarize_fuel_irrelevant`); duplicates in the direct
lists (malformed requests) can only shorten the run. -/
def summFuel (f l : Nat) : Nat := f * (f + 2 * l + 2) + 1

def summAnswer (ws : List String) : String :=
  match ws with
  | b :: f :: l :: fns =>
      match b.toNat?, f.toNat?, l.toNat?, fns.mapM directOf with
      | some budget, some nf, some nl, some ds =>
          if ds.length ≠ nf then "bad-op" else
          match Summary.compute ds budget (summFuel nf nl) with
          | none => "panic"
          | some st => if st.isEmpty then "-" else " ".intercalate (st.map summStr)
      | _, _, _, _ => "bad-op"
  | _ => "bad-op"

def step (_ : Unit) (line : String) : Unit × String :=
  let ws := words line
  let ans :=
    match ws with
    | "lim" :: rest =>
        match nats (rest.take 19) with
        | some ns =>
            if ns.length ≠ 19 then "bad-op" else
            match capsOf (ns.take 11), (rest.drop 19).mapM fnCountOf with
            | some caps, some per =>
                match ns.drop 11 with
                | [nf, nl, nsc, nst, tops, tblocks, calls, k] =>
                    if k ≠ nf ∨ per.length ≠ k then "bad-op" else
                    let c : Counts := { functions := nf, locals := nl, scopes := nsc, statements := nst,
                                        totalOps := tops, totalBlocks := tblocks,
                                        directUserCalls := calls, perFn := per }
                    s!"limit={Limit.str (firstExceeded caps c)} sum={summaryBound nf nl} live={livenessBound per}"
                | _ => "bad-op"
            | _, _ => "bad-op"
        | none => "bad-op"
    | "prog" :: rest =>
        match nats (rest.take 11) >>= capsOf, rest.drop 11 with
        | some caps, sp :: _src :: facts :: ast => progAnswer caps sp facts ast false
        | _, _ => "bad-op"
    | "summ" :: rest => summAnswer rest
    | ["crash", _src] => "ok"   -- the model's pipeline is total: no program makes it panic
    | "e2e" :: sp :: _src :: _x :: facts :: ast => progAnswer Gen.Caps.defaults sp facts ast true
    | _ => "bad-op"
  ((), ans)

def main : IO Unit := do
  loop (← IO.getStdin) (← IO.getStdout) () step

end NaijaVerif.Driver.LimitsD
