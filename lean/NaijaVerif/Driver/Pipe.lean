import NaijaVerif.Driver.Util
import NaijaVerif.Driver.Run
import NaijaVerif.Model.Pipeline
import NaijaVerif.Gen.Caps
/-!
Family `pipe` — the COMPOSED Lean pipeline (`Model/Pipeline.lean`: lex → parse → resolve → limits →
analyses → run) against the real library pipeline, on program TEXTS.

```
src <hex text>            -> stage=syntax lex=<diags|?> syn=<diags>
                           | stage=semantic diags=<error diagnostics>
                           | stage=run warns=<warning diagnostics> out=<…> end=<ok | rt:<Kind>@lo:hi | panic@… | fuel>
pair <hex a> <hex b>      -> same | differ a=<span-free summary> b=<span-free summary>
front <hex text>          -> as `src`, but an accepted text is not run: stage=accepted warns=<…>
```
The real lexer is lazy (the parser stops pulling tokens after certain errors), so when there are
syntax diagnostics only those are compared (`lex=?`); with no syntax diagnostic the whole text was
lexed and the lexical diagnostics are compared exactly.
-/
namespace NaijaVerif.Driver.PipeD
open NaijaVerif NaijaVerif.Driver NaijaVerif.Driver.RunD NaijaVerif.Pipeline

def cfg : Eval.RunCfg :=
  { lookup := .dynamic, plan := none, panics := false,
    policy := { allow := false, caps := defaultCaps },
    runProc := runProcStub, std := stdOps, input := [] }

def isSyntax (d : Diag) : Bool := d.kind.code == "syntax"

def endStr : Eval.Outcome Float → String × String
  | .ok out => (outStr out, "ok")
  | .rt k sp out => (outStr out, s!"rt:{k.name}@{sp.lo}:{sp.hi}")
  | .panic site out => (outStr out, s!"panic@{siteLoc site}")
  | .fuelOut => ("none", "fuel")

def answerSrc (src : Bytes) : String :=
  match (runSource Gen.Caps.defaults cfg fuel src : Result Float) with
  | .syntax ds =>
      let syn := ds.filter isSyntax
      let lexd := ds.filter (fun d => !isSyntax d)
      s!"stage=syntax lex={if syn.isEmpty then diagsStr lexd else "?"} syn={diagsStr syn}"
  | .semantic ds => s!"stage=semantic diags={diagsStr (ds.filter (·.sev == .error))}"
  | .ran ws o =>
      let (out, e) := endStr o
      s!"stage=run warns={diagsStr ws} out={out} end={e}"

/-- Span-free summary: what must not depend on layout. -/
def kinds (ds : List Diag) : String :=
  if ds.isEmpty then "-" else ",".intercalate (ds.map fun d => s!"{d.sev.name}:{d.kind.msg}")

def endKind : Eval.Outcome Float → String × String
  | .ok out => (outStr out, "ok")
  | .rt k _ out => (outStr out, s!"rt:{k.name}")
  | .panic site out => (outStr out, s!"panic:{Bytes.toString site.label}")
  | .fuelOut => ("none", "fuel")

def summary (src : Bytes) : String :=
  match (runSource Gen.Caps.defaults cfg fuel src : Result Float) with
  | .syntax ds => s!"syntax:{kinds (ds.filter isSyntax)}"
  | .semantic ds => s!"semantic:{kinds (ds.filter (·.sev == .error))}"
  | .ran ws o =>
      let (out, e) := endKind o
      s!"run:{kinds ws}:{out}:{e}"

def answerFront (src : Bytes) : String :=
  match frontEnd Gen.Caps.defaults src with
  | .error (true, ds) =>
      let syn := ds.filter isSyntax
      let lexd := ds.filter (fun d => !isSyntax d)
      s!"stage=syntax lex={if syn.isEmpty then diagsStr lexd else "?"} syn={diagsStr syn}"
  | .error (false, ds) => s!"stage=semantic diags={diagsStr (ds.filter (·.sev == .error))}"
  | .ok a => s!"stage=accepted warns={diagsStr a.warnings}"

def answer (line : String) : String :=
  match words line with
  | ["front", h] =>
      match unhex h with
      | some s => answerFront s
      | none => "bad-request"
  | ["src", h] =>
      match unhex h with
      | some s => answerSrc s
      | none => "bad-request"
  | ["pair", a, b] =>
      match unhex a, unhex b with
      | some x, some y =>
          let sx := summary x
          let sy := summary y
          if sx == sy then "same" else s!"differ a={sx} b={sy}"
      | _, _ => "bad-request"
  | _ => "bad-request"

def main : IO Unit := do
  loop (← IO.getStdin) (← IO.getStdout) () (fun _ line => ((), answer line))

end NaijaVerif.Driver.PipeD
