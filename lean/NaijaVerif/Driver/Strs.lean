import NaijaVerif.Model.Strs
import NaijaVerif.Driver.Util

/-! Line protocol `strs` (DESIGN.md Appendix A, `str`).  Payloads are lowercase hex of the UTF-8
bytes, `-` is the empty string; `bits` are 16 hex digits of `f64::to_bits`.
```
find <H> <N>              -> <index> | none | panic | timeout
replace <H> <F> <T>       -> <hex> utf8=<0|1> | panic | timeout
slice <S> <bitsA> <bitsB> -> <hex> utf8=<0|1>
len <S>                   -> <n>
split <S> <P>             -> <hex>,<hex>,… utf8=<0|1>
splitjoin <S> <P>         -> <hex>
upper|lower|trim <S>      -> <hex>
tonumber <S>              -> <16 hex digits> | nan
```
A payload that is not valid UTF-8 is answered `bad-utf8` (the real functions take `&str`), anything
unparsable `bad-op`. -/
namespace NaijaVerif.Driver.StrsD
open NaijaVerif.Strs NaijaVerif.Driver

def failTok : Fail → String
  | .oob => "panic"
  | .underflow => "panic"
  | .fuel => "timeout"

def u8 (b : Bytes) : String := if validUtf8 b then "1" else "0"

def hex16 (n : Nat) : String :=
  String.ofList ((List.range 16).map (fun i => hexChar (n / 16 ^ (15 - i) % 16)))

def unhexBits (s : String) : Option Nat :=
  if s.length != 16 then none else
  s.toList.foldl (fun acc c => match acc, hexDigit c with
    | some a, some d => some (a * 16 + d)
    | _, _ => none) (some 0)

/-- Decode the payloads; `none` = bad hex, `some none` = not UTF-8. -/
def payloads (ws : List String) : Option (Option (List Bytes)) :=
  match ws.mapM unhex with
  | none => none
  | some bs => if bs.all validUtf8 then some (some bs) else some none

def answer (line : String) : String :=
  match words line with
  | op :: args =>
    let strArgs := if op == "slice" then args.take 1 else args
    match payloads strArgs with
    | none => "bad-op"
    | some none => "bad-utf8"
    | some (some bs) =>
      match op, bs, args with
      | "find", [h, n], _ =>
        match find h n with
        | .ok (some i) => toString i
        | .ok none => "none"
        | .error e => failTok e
      | "replace", [h, f, t], _ =>
        match replace h f t with
        | .ok r => s!"{hex r} utf8={u8 r}"
        | .error e => failTok e
      | "slice", [s], [_, a, b] =>
        match unhexBits a, unhexBits b with
        | some a, some b => let r := sliceBits s a b; s!"{hex r} utf8={u8 r}"
        | _, _ => "bad-op"
      | "len", [s], _ => toString (len s)
      | "split", [s, p], _ =>
        let ps := split s p
        s!"{",".intercalate (ps.map hex)} utf8={if ps.all validUtf8 then "1" else "0"}"
      | "splitjoin", [s, p], _ => hex (join (split s p) p)
      | "upper", [s], _ => hex (toUpper s)
      | "lower", [s], _ => hex (toLower s)
      | "trim", [s], _ => hex (trim s)
      | "tonumber", [s], _ =>
        match parseF64 s with
        | none => "nan"
        | some none => "nan"
        | some (some bits) => hex16 bits
      | _, _, _ => "bad-op"
  | [] => "bad-op"

def main : IO Unit := do
  loop (← IO.getStdin) (← IO.getStdout) () (fun _ line => ((), answer line))

end NaijaVerif.Driver.StrsD
