import NaijaVerif.Driver.Util
/-! Family `strs` — stub (replaced by the unit that owns this family). -/
namespace NaijaVerif.Driver.StrsD

def main : IO Unit := do
  IO.eprintln "family strs: not built yet"

end NaijaVerif.Driver.StrsD
