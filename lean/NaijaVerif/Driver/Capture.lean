import NaijaVerif.Model.Capture
import NaijaVerif.Gen.Capture
import NaijaVerif.Driver.Util

/-! Line protocol `capture` (C16), see `harness/src/capture.rs`:
```
sc cap=<bytes> poll=<ms> timeout=<ms> out=<c|n|i> err=<c|n|i> reps=<k> hogs=<n> [stdin=<bytes>] | <child token>...
      -> allowed <outcome>...     the outcomes `Capture.allowedTimed` admits for this configuration and child;
                                  an outcome followed by `!` has the shape of finding D-16.
                                  `timeout` is listed only when the child hangs (`h`) or its sleeps alone
                                  reach the timeout: other scenarios carry a timeout far above their own
                                  duration. `ok` is not listed when the child's sleeps exceed the timeout
                                  by a poll interval (`outliving_child_is_never_ok`). `stdin=<n>`: the run
                                  gets `n` bytes of stdin text — the answer does not depend on it, nor
                                  on what the child does with its stdin (tokens `r`, `r<n>`, `c`).
                                  `fixed=<0|1>` selects the modelled `join_capture`; the default is
                                  what the extractor found in /repo (`Gen.Capture.joinAnyFlag`).
rd cap=<bytes> code=<1|2> flag=<0|1|2> ev=<event>,...
      -> ok:<len>:<flag> | err:<flag>
                                  `Capture.readLoop` (the reader loop on a scripted `Read`). Events: `d<n>` / `m<n>` / `x<n>` n bytes of
                                  ASCII / 3-byte characters / 0xFF (a piece longer than the reader's chunk arrives
                                  in several reads), `z` a zero-length read, `E:<kind>` a failing read; `-` = none.
utf8 <hex>  -> valid | invalid    `Capture.validUtf8`
trace cap=.. chunk=.. pipe=.. out=.. err=.. timeout=.. poll=.. fixed=<0|1> | <child token>... | <label>...
      -> <outcome> | running | disabled@<i>     run the transition system on a label sequence
```
Child tokens: `s<ms>` sleep, `o<n><k>`/`e<n><k>` write n bytes of pattern k (a m g x) to stdout/stderr,
`p` default SIGPIPE, `x<code>` exit, `k` kill self, `h` hang, `r` read stdin to its end, `r<n>` read n bytes of
stdin, `c` close stdin, `Co`/`Ce`/`Cb` close stdout / stderr / both and go on, `No`/`Ne`/`Nb` redirect them to
/dev/null and go on (bytes "written" to a stream after that are not part of the plan: they reach no pipe),
`G<ms>` fork a grandchild that closes its inherited stdin/stdout/stderr at once and sleeps (no effect on the plan),
`F<ms>` fork a grandchild that KEEPS them open and sleeps: outside the model (header of `Model/Capture.lean`,
item 2) — answered as if the grandchild were not there, i.e. what the runner should do for the child alone.
Labels: `wo<n> we<n> do<n> de<n> po pe xo xe end ro re co ce eo ee fo fe m t` (child write/drop/sigpipe/close/end,
reader read/check/eof/fail, main, tick), `ww<n> wend wepipe wfail` (stdin writer), `ri<n> ci` (child reads / closes stdin).
-/
namespace NaijaVerif.Driver.CaptureD
open NaijaVerif NaijaVerif.Capture NaijaVerif.Driver

/-- Byte at offset `off` of a stream under pattern `k` (same table as `pat_byte` in the harness). -/
def patByte (err : Bool) (k : Char) (off : Nat) : Nat :=
  match k with
  | 'a' => (if err then 65 else 97) + off % 26
  | 'm' => (if err then [0xE2, 0x82, 0xA9] else [0xE2, 0x82, 0xAC])[off % 3]!
  | 'g' => (if err then [0xF0, 0x9F, 0x98, 0x81] else [0xF0, 0x9F, 0x98, 0x80])[off % 4]!
  | _ => if err then 0xFE else 0xFF

structure Script where
  out : Array Nat := #[]
  err : Array Nat := #[]
  ending : Ending := .code 0
  sigpipeDies : Bool := false
  ok : Bool := true
  sleeps : Nat := 0        -- milliseconds slept before the ending token
  ended : Bool := false
  closedOut : Bool := false  -- the child has closed / redirected its stdout: later `o` tokens reach no pipe
  closedErr : Bool := false

def Script.tok (sc : Script) (t : String) : Script :=
  match t.toList with
  | 's' :: rest =>
      match (String.ofList rest).toNat? with
      | some ms => if sc.ended then sc else { sc with sleeps := sc.sleeps + ms }
      | none => { sc with ok := false }
  | ['p'] => { sc with sigpipeDies := true }
  | ['k'] => if sc.ended then sc else { sc with ending := .signal, ended := true }
  | ['h'] => if sc.ended then sc else { sc with ending := .never, ended := true }
  | ['c'] => sc
  | ['C', 'o'] | ['N', 'o'] => if sc.ended then sc else { sc with closedOut := true }
  | ['C', 'e'] | ['N', 'e'] => if sc.ended then sc else { sc with closedErr := true }
  | ['C', 'b'] | ['N', 'b'] => if sc.ended then sc else { sc with closedOut := true, closedErr := true }
  | 'F' :: rest | 'G' :: rest => if (String.ofList rest).toNat?.isSome then sc else { sc with ok := false }
  | 'r' :: rest => if rest = [] ∨ (String.ofList rest).toNat?.isSome then sc else { sc with ok := false }
  | 'x' :: rest =>
      match (String.ofList rest).toNat? with
      | some c => if sc.ended then sc else { sc with ending := .code (c % 256), ended := true }
      | none => { sc with ok := false }
  | c :: rest =>
      if c = 'o' ∨ c = 'e' then
        match rest.getLast?, (String.ofList rest.dropLast).toNat? with
        | some k, some n =>
            if k = 'a' ∨ k = 'm' ∨ k = 'g' ∨ k = 'x' then
              let isErr := c = 'e'
              if sc.ended ∨ (isErr ∧ sc.closedErr) ∨ (¬ isErr ∧ sc.closedOut) then sc else
              let cur := if isErr then sc.err else sc.out
              let ext := (List.range n).foldl (fun (a : Array Nat) _ => a.push (patByte isErr k (a.size))) cur
              if isErr then { sc with err := ext } else { sc with out := ext }
            else { sc with ok := false }
        | _, _ => { sc with ok := false }
      else { sc with ok := false }
  | [] => sc

def parsePol : String → Option Policy
  | "c" => some .capture
  | "n" => some .null
  | "i" => some .inherit
  | _ => none

/-- `key=value` words into a configuration. -/
def parseCfg (ws : List String) : Option Cfg :=
  ws.foldl (fun acc w =>
    match acc, w.splitOn "=" with
    | some cfg, [k, v] =>
        match k with
        | "cap" => v.toNat?.map (fun n => { cfg with cap := n })
        | "chunk" => v.toNat?.map (fun n => { cfg with chunk := n })
        | "pipe" => v.toNat?.map (fun n => { cfg with pipeCap := n })
        | "poll" => v.toNat?.map (fun n => { cfg with poll := n })
        | "timeout" => v.toNat?.map (fun n => { cfg with timeout := n })
        | "out" => (parsePol v).map (fun p => { cfg with polOut := p })
        | "err" => (parsePol v).map (fun p => { cfg with polErr := p })
        | "fixed" => v.toNat?.map (fun n => { cfg with fixedJoin := n ≠ 0 })
        | "stdin" => v.toNat?.map (fun n => { cfg with stdin := some n })
        | "reps" | "hogs" => some cfg
        | _ => none
    | _, _ => none)
    (some { cap := 0, chunk := Gen.Capture.chunk, pipeCap := 65536, polOut := .capture,
            polErr := .capture, timeout := 20000, poll := Gen.Capture.defaultPollMs,
            fixedJoin := Gen.Capture.joinAnyFlag })

def splitBar (ws : List String) : List (List String) :=
  ws.foldr (fun w acc =>
    if w = "|" then [] :: acc
    else match acc with
      | cur :: rest => (w :: cur) :: rest
      | [] => [[w]]) [[]]

def strmName : Strm → String
  | .out => "out"
  | .err => "err"

def showOutcome (cfg : Cfg) (plan : Plan) : Outcome → String
  | .ok st o e =>
      let d (x : Strm) (v : Option Bytes) : String :=
        match v with
        | none => "null"
        | some b => if b = plan.bytes x then "full"
                    else if b.length < (plan.bytes x).length ∧ (plan.bytes x).take b.length = b then s!"trunc{b.length}"
                    else s!"other{b.length}"
      let c := match st with | some n => toString n | none => "sig"
      let _ := cfg
      s!"ok:{c}:{d .out o}:{d .err e}"
  | .error (.ole x) => s!"ole:{strmName x}"
  | .error (.badUtf8 x) => s!"badutf8:{strmName x}"
  | .error .timeout => "timeout"
  | .error (.readFailed x) => s!"readfail:{strmName x}"
  | .error .writeFailed => "writefail"

def planOf (sc : Script) : Plan :=
  { out := sc.out.toList, err := sc.err.toList, ending := sc.ending, sigpipeDies := sc.sigpipeDies,
    endAfter := sc.sleeps }

def answerSc (cfgWords childWords : List String) : String :=
  match parseCfg cfgWords with
  | none => "bad-op"
  | some cfg =>
      let sc := childWords.foldl Script.tok {}
      if !sc.ok then "bad-op" else
      let plan := planOf sc
      let hangs := plan.ending = .never
      let outs := (allowedList cfg plan).filter
        (fun o => o ≠ .error .timeout ∨ hangs ∨ cfg.timeout ≤ plan.endAfter)
      let d16 := d16Shape cfg plan
      let strs := outs.map (fun o =>
        let s := showOutcome cfg plan o
        if d16 ∧ o = .error (.badUtf8 .out) then s ++ "!" else s)
      "allowed " ++ " ".intercalate strs

def parseLabel (t : String) : Option Label :=
  let strm (c : Char) : Option Strm := if c = 'o' then some .out else if c = 'e' then some .err else none
  match t.toList with
  | ['m'] => some .main
  | ['t'] => some .tick
  | ['e', 'n', 'd'] => some .childEnd
  | ['c', 'i'] => some .childCloseIn
  | ['r', c] => (strm c).map .rdRead
  | ['c', c] => (strm c).map .rdCheck
  | ['e', c] => (strm c).map .rdEof
  | ['f', c] => (strm c).map .rdFail
  | ['w', 'e', 'n', 'd'] => some .wrEnd
  | ['w', 'e', 'p', 'i', 'p', 'e'] => some .wrEpipe
  | ['w', 'f', 'a', 'i', 'l'] => some .wrFail
  | 'w' :: 'w' :: rest => (String.ofList rest).toNat?.map .wrWrite
  | 'r' :: 'i' :: rest => (String.ofList rest).toNat?.map .childRead
  | ['p', c] => (strm c).map .childSigpipe
  | ['x', c] => (strm c).map .childClose
  | 'w' :: c :: rest => do
      let x ← strm c
      let n ← (String.ofList rest).toNat?
      pure (.childWrite x n)
  | 'd' :: c :: rest => do
      let x ← strm c
      let n ← (String.ofList rest).toNat?
      pure (.childDrop x n)
  | _ => none

def answerTrace (cfgWords childWords labelWords : List String) : String :=
  match parseCfg cfgWords with
  | none => "bad-op"
  | some cfg =>
      let sc := childWords.foldl Script.tok {}
      if !sc.ok then "bad-op" else
      let plan := planOf sc
      let rec go (s : State) (i : Nat) : List String → String
        | [] => match s.result with
            | some r => showOutcome cfg plan r
            | none => "running"
        | w :: ws =>
            match parseLabel w with
            | none => "bad-op"
            | some l =>
                match step cfg plan s l with
                | some s' => go s' (i + 1) ws
                | none => s!"disabled@{i}"
      go (init cfg plan) 0 labelWords

/-! ### `rd`: the reader loop on a scripted reader -/

/-- Bytes of a data event of kind `k` starting at offset `off` of the script's data (same table as
`rd_byte` in the harness). -/
def rdBytes (k : Char) (off n : Nat) : Bytes :=
  (List.range n).map (fun i =>
    match k with
    | 'd' => 97 + (off + i) % 26
    | 'm' => [0xE2, 0x82, 0xAC][(off + i) % 3]!
    | _ => 0xFF)

/-- Parse `d12,E:other,z,…` into events (second component: data bytes so far). -/
def parseEvents (txt : String) : Option (List RdEv) :=
  if txt = "-" ∨ txt = "" then some [] else
  let step (acc : Option (List RdEv × Nat)) (w : String) : Option (List RdEv × Nat) :=
    match acc with
    | none => none
    | some (evs, off) =>
        match w.toList with
        | ['z'] => some (evs ++ [.zero], off)
        | 'E' :: ':' :: _ => some (evs ++ [.fail], off)
        | k :: rest =>
            if k = 'd' ∨ k = 'm' ∨ k = 'x' then
              match (String.ofList rest).toNat? with
              | some n => some (evs ++ [.data (rdBytes k off n)], off + n)
              | none => none
            else none
        | [] => none
  ((txt.splitOn ",").foldl step (some ([], 0))).map (·.1)

def answerRd (ws : List String) : String :=
  let get (key : String) : Option String :=
    ws.findSome? (fun w => match w.splitOn "=" with
      | [k, v] => if k = key then some v else none
      | _ => none)
  match (get "cap").bind String.toNat?, (get "code").bind String.toNat?, (get "flag").bind String.toNat?,
        (get "ev").bind parseEvents with
  | some cap, some my, some flag, some evs =>
      if (my ≠ 1 ∧ my ≠ 2) ∨ flag > 2 then "bad-op" else
      let (res, flag') := readLoop cap my flag [] (expandEvents Gen.Capture.chunk evs)
      match res with
      | .ok buf => s!"ok:{buf.length}:{flag'}"
      | .err => s!"err:{flag'}"
  | _, _, _, _ => "bad-op"

def stepLine (st : Unit) (line : String) : Unit × String :=
  match words line with
  | "sc" :: rest =>
      match splitBar rest with
      | [cfgW, childW] => (st, answerSc cfgW childW)
      | _ => (st, "bad-op")
  | ["utf8", h] =>
      match unhex h with
      | some b => (st, if validUtf8 b then "valid" else "invalid")
      | none => (st, "bad-op")
  | "rd" :: rest => (st, answerRd rest)
  | "trace" :: rest =>
      match splitBar rest with
      | [cfgW, childW, labW] => (st, answerTrace cfgW childW labW)
      | _ => (st, "bad-op")
  | _ => (st, "bad-op")

def main : IO Unit := do
  loop (← IO.getStdin) (← IO.getStdout) () stepLine

end NaijaVerif.Driver.CaptureD
