import NaijaVerif.Driver.Util
/-! Family `capture` — stub (replaced by the unit that owns this family). -/
namespace NaijaVerif.Driver.CaptureD

def main : IO Unit := do
  IO.eprintln "family capture: not built yet"

end NaijaVerif.Driver.CaptureD
