import NaijaVerif.Driver.Util
/-! Family `lex` — stub (replaced by the unit that owns this family). -/
namespace NaijaVerif.Driver.LexD

def main : IO Unit := do
  IO.eprintln "family lex: not built yet"

end NaijaVerif.Driver.LexD
