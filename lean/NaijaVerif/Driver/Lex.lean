import NaijaVerif.Model.Lex
import NaijaVerif.Model.LexMem
import NaijaVerif.Spec.Utf8
import NaijaVerif.Driver.Util

/-! Family `lex` (see `harness/src/lex.rs` for the protocol):
```
lex <hex src>                 -> toks=<T> diags=<D> labels=<L> caps=<C> end=ok      | bad-utf8
relay <hex orig> <hex text>   -> the same answer, for <text>
```
`<T>` is `toksStr`: tokens joined by `,`, each `<kind>@<lo>:<hi>`, with payloads `ident:<hex>`,
`num:<hex>`, `str:<hex>:<0|1>` (`-` = empty payload, `-` = empty list).  `readToks` reads it back
(used by the `parse` family, whose requests carry token lists).
`<C>` is `lexCaps src` (`Model/LexMem.lean`): the capacities of the buffers of the owned string tokens,
joined by `,` (`-` = none). -/

namespace NaijaVerif.Lex
open NaijaVerif.Driver

/-- `kind[:payload[:esc]]` -/
def tokPayloadStr : Tok → String
  | .str c e => s!"str:{hex c}:{if e then 1 else 0}"
  | .ident n => s!"ident:{hex n}"
  | .num l => s!"num:{hex l}"
  | t => t.kindName

def spTokStr (t : SpTok) : String := s!"{tokPayloadStr t.tok}@{t.span.lo}:{t.span.hi}"

/-- Canonical text of a token list. -/
def toksStr (ts : List SpTok) : String :=
  if ts.isEmpty then "-" else ",".intercalate (ts.map spTokStr)

/-- all tokens without payload -/
def plainToks : List Tok := [
  .make, .get, .add, .minus, .times, .divide, .mod, .and, .or, .not, .jasi, .start, .end, .comot,
  .next, .na, .pass, .smallPass, .ifToSay, .ifNotSo, .do, .ret, .tru, .fals, .null, .lparen,
  .rparen, .lbracket, .rbracket, .comma, .dot, .eof]

def readTok (s : String) : Option SpTok :=
  match s.splitOn "@" with
  | [pay, sp] =>
    match sp.splitOn ":" with
    | [a, b] =>
      match a.toNat?, b.toNat? with
      | some lo, some hi =>
        let tok : Option Tok :=
          match pay.splitOn ":" with
          | ["str", h, e] =>
            match unhex h, e with
            | some c, "0" => some (.str c false)
            | some c, "1" => some (.str c true)
            | _, _ => none
          | ["ident", h] => (unhex h).map .ident
          | ["num", h] => (unhex h).map .num
          | [k] => plainToks.find? (·.kindName == k)
          | _ => none
        tok.map fun t => ⟨t, ⟨lo, hi⟩⟩
      | _, _ => none
    | _ => none
  | _ => none

/-- Inverse of `toksStr`. -/
def readToks (s : String) : Option (List SpTok) :=
  if s = "-" then some [] else (s.splitOn ",").mapM readTok

end NaijaVerif.Lex

namespace NaijaVerif.Driver.LexD
open NaijaVerif NaijaVerif.Lex NaijaVerif.Driver

def capsStr (cs : List Nat) : String :=
  if cs.isEmpty then "-" else ",".intercalate (cs.map toString)

def answer (src : Bytes) : String :=
  if !Utf8.validUtf8 src then "bad-utf8" else
  let (ts, ds) := lex src
  s!"toks={toksStr ts} diags={diagsStr ds} labels={labelsStr ds} caps={capsStr (lexCaps src)} end=ok"

def step (_ : Unit) (line : String) : Unit × String :=
  match words line with
  | ["lex", h] =>
    match unhex h with
    | some src => ((), answer src)
    | none => ((), "bad-utf8")
  | ["relay", ho, ht] =>
    match unhex ho, unhex ht with
    | some o, some src => ((), if !Utf8.validUtf8 o then "bad-utf8" else answer src)
    | _, _ => ((), "bad-utf8")
  | ["readtoks", t] =>
    -- self-test of the reader: echo the list through `readToks`/`toksStr`
    match readToks t with
    | some ts => ((), toksStr ts)
    | none => ((), "unreadable")
  | _ => ((), "bad-op")

def main : IO Unit := do
  loop (← IO.getStdin) (← IO.getStdout) () step

end NaijaVerif.Driver.LexD
