import NaijaVerif.Model.Analysis
import NaijaVerif.Lemmas.AnalysisCheck
import NaijaVerif.Lemmas.AnalysisLiveModel
import NaijaVerif.Model.CfgCount
import NaijaVerif.Gen.Caps
import NaijaVerif.Driver.AstIO
import NaijaVerif.Driver.Util
import NaijaVerif.Driver.Run
import NaijaVerif.Model.AnalysisPrims
import NaijaVerif.Lemmas.AnalysisRefineTop
/-!
Family `plan` (property C03).  Request:
```
plan <hex src> ast=<annotated AST …> facts=<facts text>
```
(`harness/src/plan.rs` documents the facts text).  Answer — the same line the Rust side prints
from the real analyses:
```
limit=<none|metric> warns=<kind:lo:hi,…|-> unreach=<ids|-> unusedAsg=<ids|-> unusedVar=<local ids|->
  unusedFn=<fn ids|-> removable=<stmt ids|-> fns=<fn ids|-> cls=<N|T|I per statement|-> end=<ok|malformed>
```
-/
namespace NaijaVerif.Driver.PlanD
open NaijaVerif NaijaVerif.Driver NaijaVerif.Analysis

def idList (s : String) : Option (List Nat) :=
  if s = "-" then some [] else (s.splitOn ".").mapM (·.toNat?)

def optNat (s : String) : Option (Option Nat) :=
  if s = "_" then some none else s.toNat?.map some

def records (s : String) : List String := if s = "-" then [] else s.splitOn ";"

def cls? : String → Option ExprClass
  | "N" => some .pureNoTrap | "T" => some .pureMayTrap | "I" => some .impure | _ => none

def pFn (r : String) : Option FunctionInfo :=
  match r.splitOn "," with
  | [p, d, s, l, pc, ds] => do
      let parent ← optNat p
      let defStmt ← optNat d
      let dscope ← optNat ds
      pure { name := [], hasParams := parent.isSome, paramCount := ← pc.toNat?, parent := parent,
             definingScope := dscope, defStmt := defStmt, localsStart := ← s.toNat?, localsLen := ← l.toNat? }
  | _ => none

def pLocal (r : String) : Option LocalInfo :=
  match r.splitOn "," with
  | [o, sc, d, k] => do
      pure { name := [], owner := ← o.toNat?, declaringScope := ← sc.toNat?, declStmt := ← optNat d,
             kind := if k = "p" then .parameter else .variable }
  | _ => none

def pScope (r : String) : Option ScopeInfo :=
  match r.splitOn "," with
  | [p, o] => do pure { parent := ← optNat p, owner := ← o.toNat? }
  | _ => none

def pStmt (r : String) : Option StmtEffect :=
  match r.splitOn "," with
  | [f, sc, rd, wr, ca, c] => do
      pure { function := ← f.toNat?, scope := ← sc.toNat?, reads := ← idList rd, writes := ← idList wr,
             directCallees := ← idList ca, exprClass := ← cls? c }
  | _ => none

def pDirect (r : String) : Option FunctionDirect :=
  match r.splitOn "," with
  | [ca, rd, wr] => do pure { directCallees := ← idList ca, captureReads := ← idList rd, captureWrites := ← idList wr }
  | _ => none

def section? (parts : List String) (key : String) : Option String :=
  (parts.find? (·.startsWith (key ++ "="))).map (fun s => (s.drop (key.length + 1)).toString)

def readFacts (s : String) : Option Facts := do
  let parts := s.splitOn "|"
  let fns ← (records (← section? parts "fn")).mapM pFn
  let los ← (records (← section? parts "lo")).mapM pLocal
  let scs ← (records (← section? parts "sc")).mapM pScope
  let sls ← (records (← section? parts "sl")).mapM idList
  let sts ← (records (← section? parts "st")).mapM pStmt
  let fds ← (records (← section? parts "fd")).mapM pDirect
  let uc ← (← section? parts "uc").toNat?
  pure { functions := fns, scopes := scs, scopeLocals := sls, locals := los, stmtEffects := sts,
         functionDirects := fds, userCalls := List.replicate uc (0, 0) }

def ids (l : List Nat) : String :=
  match sortDedup l with
  | [] => "-"
  | xs => ".".intercalate (xs.map toString)

def clsStr (l : List ExprClass) : String :=
  if l.isEmpty then "-" else String.join (l.map ExprClass.name)

def warnsStr (ws : List Warn) : String :=
  if ws.isEmpty then "-" else ",".intercalate (ws.map fun w => s!"{w.kind.name}:{w.span.lo}:{w.span.hi}")

def malformed (why : String) : String :=
  s!"limit=none warns=- unreach=- unusedAsg=- unusedVar=- unusedFn=- removable=- fns=- cls=- end=malformed:{why}"

/-! ### `arun` -/

def isInfix (pat : List Nat) : List Nat → Bool
  | [] => pat.isEmpty
  | x :: xs => pat.isPrefixOf (x :: xs) || isInfix pat xs

def arunFuel : Nat := 100000

def dotIds (s : String) : Option (List Nat) :=
  if s = "-" then some [] else (s.splitOn ".").mapM (·.toNat?)

def arunPlan (s : String) : Option (Option Plan) :=
  if s = "none" then some none else
  match s.splitOn ";" with
  | [a, b] => do pure (some { stmts := ← dotIds a, fns := ← dotIds b })
  | _ => none

/-- The configuration of the `arun` runs: process execution denied, no input. -/
def arunCfg : Eval.RunCfg :=
  { lookup := .dynamic, plan := none, panics := false, policy := { allow := false, caps := RunD.defaultCaps },
    runProc := RunD.runProcStub, std := RunD.stdOps, input := [] }

/-- The executable instance the closed theorem `c03_concrete` is about. -/
def arunPrims (facts : Facts) : AEval.Prims (Eval.Value Float) :=
  C03.evalPrims arunCfg (C03.declScopeOf facts) (C03.stmtScopeOf facts)

def arunEnd {α : Type} : Except AEval.Err α → String
  | .ok _ => "ok"
  | .error (.rt k) => s!"rt:{(C03.rtDecode k).name}"
  | .error .unbound => "rt:UndefinedVariable"
  | .error .panic => "panic"
  | .error .fuel => "fuel"

def arunOne (tag : String) (r : AEval.R (Eval.Value Float) (AEval.Flow (Eval.Value Float))) : String :=
  let e := arunEnd r.1
  let out := if e = "panic" || e = "fuel" then "*" else RunD.outStr r.2.out.reverse
  s!"{tag}.out={out} {tag}.end={e}"

def answerArun (hexsrc planTok : String) (rest : List String) : String :=
  match unhex hexsrc with
  | none => "arun malformed:src"
  | some src =>
    if isInfix (b!"read_line") src then "arun skip" else
    let astToks := (rest.takeWhile (fun w => !w.startsWith "facts=")).map
      (fun w => if w.startsWith "ast=" then (w.drop 4).toString else w)
    let factsTok := rest.find? (·.startsWith "facts=")
    match AstIO.pBlock.run astToks, factsTok.bind (fun t => readFacts (t.drop 6).toString),
        arunPlan ((planTok.drop 5).toString) with
    | some (root, []), some facts, some plan =>
        let P := arunPrims facts
        let r0 := AEval.run P none arunFuel root
        let r1 := AEval.run P plan arunFuel root
        s!"arun {planTok} {arunOne "plain" r0} {arunOne "pruned" r1}"
    | none, _, _ => "arun malformed:ast"
    | some (_, _ :: _), _, _ => "arun malformed:ast-trailing"
    | some _, none, _ => "arun malformed:facts"
    | some _, some _, none => "arun malformed:plan"

def answer (line : String) : String :=
  let ws := words line
  match ws with
  | "arun" :: hexsrc :: planTok :: rest => answerArun hexsrc planTok rest
  | "plan" :: _ :: rest =>
      let astToks := (rest.takeWhile (fun w => !w.startsWith "facts=")).map
        (fun w => if w.startsWith "ast=" then (w.drop 4).toString else w)
      let factsTok := rest.find? (·.startsWith "facts=")
      match (AstIO.pBlock.run astToks), factsTok.bind (fun t => readFacts (t.drop 6).toString) with
      | some (root, []), some facts =>
          if !wf root facts then malformed "wf" else
          -- hypotheses of the C03 theorems, checked on every case: the body-reachable set is closed and
          -- the facts' ownership / callees cover the annotated AST
          if !(mkCtx root facts).brClosed then malformed "brclosed" else
          if !C03.ownOkB root facts then malformed "own" else
          let limit := match CfgCount.countProgram root facts with
            | some counts => (Limits.firstExceeded Gen.Caps.defaults counts).map (fun (l : Limits.Limit) => l.metric.name)
            | none => some "uncountable"
          match limit with
          | some m =>
              let cls := (analyse root facts).cls
              s!"limit={m} warns=limit:{root.span.lo}:{root.span.hi} unreach=- unusedAsg=- unusedVar=- unusedFn=- removable=- fns=- cls={clsStr cls} end=ok"
          | none =>
              let r := analyse root facts
              s!"limit=none warns={warnsStr r.warns} unreach={ids r.unreach} unusedAsg={ids r.unusedAsg} unusedVar={ids (r.unusedVar.map Prod.snd)} unusedFn={ids (r.unusedFn.map Prod.snd)} removable={ids r.plan.stmts} fns={ids r.plan.fns} cls={clsStr r.cls} end=ok"
      | none, _ => malformed "ast"
      | some _, none => malformed "facts"
      | some (_, _ :: _), _ => malformed "ast-trailing"
  | "cover" :: _ :: rest =>
      -- model-only statistic: how much of the model's plan the proved theorem `c03_partial_checked` covers
      let astToks := (rest.takeWhile (fun w => !w.startsWith "facts=")).map
        (fun w => if w.startsWith "ast=" then (w.drop 4).toString else w)
      let factsTok := rest.find? (·.startsWith "facts=")
      match (AstIO.pBlock.run astToks), factsTok.bind (fun t => readFacts (t.drop 6).toString) with
      | some (root, []), some facts =>
          if !wf root facts then "cover malformed" else
          let plan := planModel root facts
          let (p', ok) := C03.coveredPlan root facts plan
          let total := (sortDedup plan.stmts).length + plan.fns.length
          let proved := if ok then (sortDedup p'.stmts).length + p'.fns.length else 0
          let unr := (sortDedup (unreachable root)).length
          -- C03 (`c03_full_holds`): its decidable hypothesis `structOkB` — conditions on the program and its facts
          -- only, no plan — with a breakdown; `model` = the same conditions evaluated for the model's own plan
          -- (`modelOkB`, implied by `structOkB`: `modelOk_of_struct`)
          let distinct := decide (((rows root).map (·.sid)).Nodup)
          let glob := C03.globalOkB root facts
          let fnsOk := true
          let rootOk := C03.rootOkB (C03.lsetupOf root facts none (C03.safe2B (mkCtx root facts))) root
          let live := C03.structOkB root facts
          let modelOk := C03.modelOkB root facts
          let b := fun (x : Bool) => if x then 1 else 0
          -- the static side conditions of the bridge to `Model/Eval.lean` (`c03_bridge`, `c03_eval`): the program is
          -- annotated and the oracle computed from the facts accepts every block and parameter list
          let bridge := C03.okBlock (C03.orcOf (fun lex => (NumOps.ofLit lex : Option Float).isSome) facts) root
          s!"cover total={total} proved={proved} unreach={unr} fns={plan.fns.length} ok={b ok} live={b live} distinct={b distinct} global={b glob} fnsok={b fnsOk} rootok={b rootOk} model={b modelOk} bridge={b bridge}"
      | _, _ => "cover malformed"
  | _ => "bad-op"

def main : IO Unit := do
  loop (← IO.getStdin) (← IO.getStdout) () (fun _ line => ((), answer line))

end NaijaVerif.Driver.PlanD
