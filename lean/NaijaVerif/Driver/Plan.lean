import NaijaVerif.Driver.Util
/-! Family `plan` — stub (replaced by the unit that owns this family). -/
namespace NaijaVerif.Driver.PlanD

def main : IO Unit := do
  IO.eprintln "family plan: not built yet"

end NaijaVerif.Driver.PlanD
