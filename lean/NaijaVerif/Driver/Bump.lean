import NaijaVerif.Driver.Util
/-! Family `bump` — stub (replaced by the unit that owns this family). -/
namespace NaijaVerif.Driver.BumpD

def main : IO Unit := do
  IO.eprintln "family bump: not built yet"

end NaijaVerif.Driver.BumpD
