import NaijaVerif.Model.Bump
import NaijaVerif.Driver.Util

/-! Line protocol `bump` — see `harness/src/bump.rs` for the request/answer grammar.  Every state
change goes through `Bump.step` (the transition system the C11 theorems quantify over); the driver
only numbers blocks and marks, decides `bad-op` by the rules of the protocol and formats answers.
The `ArenaString` requests (`sstr` … `sonce`) are the string operations of `Bump.step`; the driver
supplies the operand bytes of the protocol and decides `refused` (`Bump.replaceRangeAccepts`) and
`abort` (`Bump.aborts`).

`new <cap> <page> [<basemod>]`: the base address is an environment parameter of the model; the
check feeds the residue reported by the implementation as third word (default `page * 4096`). -/
namespace NaijaVerif.Driver.BumpD
open NaijaVerif.Bump NaijaVerif.Driver

structure Info where
  created : Bool := false
  beg     : Nat := 0
  len     : Nat := 0
  seed    : Nat := 0
  esz     : Nat := 0
  isStr   : Bool := false

structure DSt where
  ready : Bool := false
  st    : St := St.init 0 1
  infos : Array Info := #[]
  marks : Array Nat := #[]

def maxAlign : Nat := 65536
def maxBytes : Nat := 2 ^ 40

/-- The byte pattern a client writes into its block (same formula in the harness). -/
def pat (seed j : Nat) : Nat := (seed * 131 + j * 7 + (j / 256) * 13 + 17) % 256

def sampled (beg len k : Nat) : Bool :=
  len ≤ 512 || k < 256 || k ≥ len - 256 || k % 509 == 0 ||
    (let o := (beg + k) % 65536; o < 64 || o ≥ 65536 - 64)

def hex16 (h : UInt64) : String :=
  String.ofList ((List.range 16).map fun i => hexChar ((h.toNat >>> (4 * (15 - i))) % 16))

/-- FNV-1a over the sampled bytes of `[beg, beg+len)`. -/
def digest (m : Mem) (beg len : Nat) : String := Id.run do
  let mut h : UInt64 := 0xcbf29ce484222325
  for k in [0:len] do
    if sampled beg len k then
      h := (h ^^^ (m (beg + k)).toUInt64) * 0x100000001b3
  return hex16 h

def oc (a : Arena) : String := s!"off={a.offset} commit={a.commit}"

def isPow2 (x : Nat) : Bool := x != 0 && (x &&& (x - 1)) == 0

def nextCap (cap len esz : Nat) : Nat :=
  let minNz := if esz == 1 then 8 else if esz ≤ 1024 then 4 else 1
  max (max (cap * 2) (len + 1)) minNz

def joinCaps (cs : List Nat) : String :=
  if cs.isEmpty then "-" else ",".intercalate (cs.map toString)

def bad (d : DSt) : DSt × String := (d, "bad-op")

def setInfo (d : DSt) (blk : Nat) (f : Info → Info) : DSt :=
  match d.infos[blk]? with
  | some i => { d with infos := d.infos.set! blk (f i) }
  | none => d

def doAlloc (d : DSt) (bytes align : Nat) (z : Bool) : DSt × String :=
  if !isPow2 align || align > maxAlign || bytes > maxBytes then bad d else
  let id := d.infos.size
  let st1 := step d.st (.alloc id bytes align z)
  match findBlk st1.live id with
  | none => ({ d with st := st1, infos := d.infos.push { seed := id } }, s!"err {oc st1.a}")
  | some b =>
      let sum := digest st1.a.mem b.beg b.len
      let st2 := step st1 (.store id (pat id))
      ({ d with st := st2, infos := d.infos.push { created := true, beg := b.beg, len := b.len, seed := id } },
       s!"ok beg={b.beg} len={b.len} mod={(st1.a.base + b.beg) % align} {oc st1.a} sum={sum}")

/-- `grow` / `grow_zeroed`.  `grow_zeroed` is `grow` followed by the zero fill of the new tail THROUGH THE
RETURNED POINTER: in the model that is the owner storing `old contents ++ zeroes` into its own (grown)
block, i.e. the op sequence `.grow`, `.store` — every theorem about histories applies as it stands. -/
def doGrow (d : DSt) (blk new : Nat) (z : Bool := false) : DSt × String :=
  match d.infos[blk]?, findBlk d.st.live blk with
  | some info, some b =>
      if info.isStr || new < b.len || new > maxBytes then bad d else
      match d.st.a.grow b.beg b.len new b.align with
      | none => (d, s!"err {oc d.st.a}")
      | some (nb, _) =>
          let st0 := step d.st (.grow blk new)
          let st1 := if z then step st0 (.store blk (fun k => if k < b.len then b.data k else 0)) else st0
          let sum := digest st1.a.mem nb new
          let st2 := step st1 (.store blk (pat info.seed))
          (setInfo { d with st := st2 } blk (fun i => { i with beg := nb, len := new }),
           s!"ok beg={nb} len={new} moved={if nb ≠ b.beg then 1 else 0} {oc st1.a} sum={sum}")
  | _, _ => bad d

def isStrBlk (d : DSt) (blk : Nat) : Bool :=
  match d.infos[blk]? with
  | some i => i.isStr
  | none => false

def doShrink (d : DSt) (blk new : Nat) : DSt × String :=
  match findBlk d.st.live blk with
  | some b =>
      if isStrBlk d blk || new > b.len || b.beg + b.len ≠ d.st.a.offset then bad d else
      let (len, _) := d.st.a.shrink b.beg b.len new
      let st1 := step d.st (.shrink blk new)
      (setInfo { d with st := st1 } blk (fun i => { i with len := new }),
       s!"ok beg={b.beg} len={len} moved=0 {oc st1.a}")
  | none => bad d

/-- `vec` / `vpush`: the allocator calls a `Vec<T,&Arena>` makes while `target - len` elements are
pushed (std's amortised growth), each followed by the client's fill of the whole buffer. -/
partial def vecLoop (d : DSt) (id esz seed cap len target : Nat) (caps : List Nat) (lastSum : String) :
    DSt × List Nat × String × Bool :=
  if len ≥ target then (d, caps, lastSum, false)
  else if len == cap then
    let newCap := nextCap cap len esz
    let bytes := newCap * esz
    let ok : Bool :=
      if cap == 0 then (d.st.a.alloc bytes esz).isSome
      else match findBlk d.st.live id with
        | some b => (d.st.a.grow b.beg b.len bytes b.align).isSome
        | none => false
    let st1 := if cap == 0 then step d.st (.alloc id bytes esz false) else step d.st (.grow id bytes)
    if !ok then (d, caps, lastSum, true)
    else
      match findBlk st1.live id with
      | none => (d, caps, lastSum, true)
      | some b =>
          let sum := digest st1.a.mem b.beg b.len
          let st2 := step st1 (.store id (pat seed))
          let d' := setInfo { d with st := st2 } id
            (fun i => { i with created := true, beg := b.beg, len := b.len, esz := esz })
          vecLoop d' id esz seed newCap (min newCap target) target (caps ++ [newCap]) sum
  else vecLoop d id esz seed cap (min cap target) target caps lastSum

def vecAnswer (d : DSt) (id : Nat) (caps : List Nat) (lastSum : String) (failed : Bool) : String :=
  if failed then s!"err caps={joinCaps caps} {oc d.st.a}"
  else match findBlk d.st.live id with
    | none => s!"ok none {oc d.st.a}"
    | some b =>
        if caps.isEmpty then s!"ok beg={b.beg} len={b.len} caps=- {oc d.st.a}"
        else s!"ok beg={b.beg} len={b.len} caps={joinCaps caps} {oc d.st.a} sum={lastSum}"


/-! ### `ArenaString` requests

Every state change is `Bump.step` on one of the string operations (`sstr`/`sfrom`: an `.alloc` of
the capacity followed by `.sPush`); the driver chooses the operand bytes (the protocol's pattern),
decides `bad-op` / `refused` / `abort` by the rules of the protocol and formats the answer. -/

def apat (seed j : Nat) : Nat := 0x20 + pat seed j % 94

def apatBytes (seed n : Nat) : List Nat := (List.range n).map (apat seed)

/-- UTF-8 of 'x', 'é', '€', '😀'. -/
def charBytes : Nat → List Nat
  | 1 => [0x78]
  | 2 => [0xC3, 0xA9]
  | 3 => [0xE2, 0x82, 0xAC]
  | _ => [0xF0, 0x9F, 0x98, 0x80]

def strUsable (d : DSt) (blk : Nat) : Bool :=
  match d.infos[blk]? with
  | some i => i.isStr && (i.len == 0 || (findBlk d.st.live blk).isSome)
  | none => false

/-- Record where the buffer is now and format the answer of a string request. -/
def strAnswer (d : DSt) (blk : Nat) (st1 : St) (beg0 cap0 : Nat) (atTxt : String) : DSt × String :=
  let (beg, cap, len) := match findBlk st1.live blk with
    | some b => (if b.len == 0 then 0 else b.beg, b.len, b.used)
    | none => (0, 0, 0)
  let moved := cap0 > 0 && cap > 0 && beg != beg0
  let d1 := setInfo { d with st := st1 } blk
    (fun i => { i with beg := beg, len := cap, created := i.created || cap > 0 })
  (d1, s!"ok{atTxt} beg={if cap == 0 then "-" else toString beg} len={len} cap={cap} moved={if moved then 1 else 0} {oc st1.a} sum={digest st1.a.mem beg len}")

def strOp (d : DSt) (blk : Nat) (op : Op) (atTxt : String := "") : DSt × String :=
  if aborts d.st op then (d, s!"abort {oc d.st.a}") else
  let (beg0, cap0) := match findBlk d.st.live blk with
    | some b => (b.beg, b.len)
    | none => (0, 0)
  strAnswer d blk (step d.st op) beg0 cap0 atTxt

def doStrNew (d : DSt) (cap n : Nat) : DSt × String :=
  let id := d.infos.size
  let d0 := { d with infos := d.infos.push { seed := id, isStr := true } }
  let src := apatBytes (31 * id + 1) n
  if cap == 0 then strAnswer d0 id d0.st 0 0 ""
  else match d0.st.a.alloc cap 1 with
    | none => ({ d with infos := d.infos.push { seed := id } }, s!"abort {oc d.st.a}")
    | some _ =>
        let st1 := step d0.st (.alloc id cap 1 false)
        strAnswer d0 id (step st1 (.sPush id src)) 0 0 ""

def strRequest (d : DSt) (ws : List String) : Option (DSt × String) :=
  let num (s : String) : Option Nat := s.toNat?
  match ws with
  | ["sstr", c, n] =>
      match num c, num n with
      | some cap, some n => some (if cap > 2 ^ 20 || n > cap then bad d else doStrNew d cap n)
      | _, _ => some (bad d)
  | ["sfrom", n] =>
      match num n with
      | some n => some (if n > 2 ^ 20 then bad d else doStrNew d n n)
      | none => some (bad d)
  | [op, b, rest1] =>
      if !(op == "spush" || op == "schar" || op == "sres" || op == "sresx") then none else
      match num b, num rest1 with
      | some blk, some n =>
          if n > 2 ^ 20 || (op == "schar" && !(1 ≤ n && n ≤ 4)) || !strUsable d blk then some (bad d) else
          let len0 := (strDims d.st blk).2
          let sd := 31 * blk + len0
          some (match op with
            | "spush" => strOp d blk (.sPush blk (apatBytes (sd + 2) n))
            | "schar" => strOp d blk (.sPush blk (charBytes n))
            | "sres" => strOp d blk (.sReserve blk n false)
            | _ => strOp d blk (.sReserve blk n true))
      | _, _ => some (bad d)
  | ["srepeat", b, k, n] =>
      match num b, num k, num n with
      | some blk, some k, some n =>
          if n > 2 ^ 18 || !(1 ≤ k && k ≤ 4) || !strUsable d blk then some (bad d) else
          some (strOp d blk (.sPush blk ((List.replicate n (charBytes k)).flatten)))
      | _, _, _ => some (bad d)
  | ["sshrink", b] =>
      match num b with
      | some blk =>
          if !strUsable d blk then some (bad d) else
          let (cap0, len0) := strDims d.st blk
          let tail := match findBlk d.st.live blk with
            | some bl => bl.beg + bl.len == d.st.a.offset
            | none => false
          if cap0 > len0 && len0 > 0 && !tail then some (bad d) else some (strOp d blk (.sShrink blk))
      | none => some (bad d)
  | ["sclear", b] =>
      match num b with
      | some blk => if !strUsable d blk then some (bad d) else some (strOp d blk (.sClear blk))
      | none => some (bad d)
  | ["srep", b, lo, hi, n] =>
      match num b, num lo, (if hi == "-" then some none else (num hi).map some), num n with
      | some blk, some lo, some hi, some n =>
          if n > 2 ^ 20 || lo > 2 ^ 40 || (hi.getD 0) > 2 ^ 40 || !strUsable d blk then some (bad d) else
          if !replaceRangeAccepts d.st blk lo hi then some (d, s!"refused {oc d.st.a}") else
          some (strOp d blk (.sReplace blk lo (hi.getD (2 ^ 64 - 1)) (apatBytes (31 * blk + (strDims d.st blk).2 + 3) n)))
      | _, _, _, _ => some (bad d)
  | ["sonce", b, p, k, n] =>
      match num b, num p, num k, num n with
      | some blk, some pos, some k, some n =>
          if n > 2 ^ 20 || k > 2 ^ 20 || pos > 2 ^ 40 || !strUsable d blk then some (bad d) else
          -- `step` on `.sOnce blk old new` is by definition: `findSub`, then `.sReplace` at the index found
          -- (`Props/C11.lean: step_sOnce`); the driver searches once and reuses the index for the answer
          let c := strContent d.st blk
          let old := if pos + k ≤ c.length && replaceRangeAccepts d.st blk pos (some (pos + k))
            then (c.drop pos).take k else List.replicate k 0x7E
          match findSub c old with
          | some i => some (strOp d blk (.sReplace blk i (i + old.length) (apatBytes (31 * blk + c.length + 4) n)) s!" at={i}")
          | none => some (strAnswer d blk d.st 0 0 " at=none")
      | _, _, _, _ => some (bad d)
  | _ => none

def stepLine (d : DSt) (line : String) : DSt × String :=
  let ws := words line
  match ws with
  | "new" :: c :: p :: rest =>
      match c.toNat?, p.toNat?, rest with
      | some capReq, some page, [] =>
          if capReq > 2 ^ 30 || page > 15 then bad d else
          let s := St.init (page * 4096) capReq
          ({ ready := true, st := s, infos := #[], marks := #[] }, s!"cap={s.a.cap} basemod={page * 4096}")
      | some capReq, some page, [bm] =>
          match bm.toNat? with
          | some basemod =>
              if capReq > 2 ^ 30 || page > 15 then bad d else
              let s := St.init basemod capReq
              ({ ready := true, st := s, infos := #[], marks := #[] }, s!"cap={s.a.cap} basemod={basemod}")
          | none => bad d
      | _, _, _ => bad d
  | _ =>
  if !d.ready then bad d else
  match ws with
  | ["alloc", b, a] =>
      match b.toNat?, a.toNat? with
      | some bytes, some align => doAlloc d bytes align false
      | _, _ => bad d
  | ["zalloc", b, a] =>
      match b.toNat?, a.toNat? with
      | some bytes, some align => doAlloc d bytes align true
      | _, _ => bad d
  | ["grow", b, n] =>
      match b.toNat?, n.toNat? with
      | some blk, some new => doGrow d blk new
      | _, _ => bad d
  | ["zgrow", b, n] =>
      match b.toNat?, n.toNat? with
      | some blk, some new => doGrow d blk new true
      | _, _ => bad d
  | ["shrink", b, n] =>
      match b.toNat?, n.toNat? with
      | some blk, some new => doShrink d blk new
      | _, _ => bad d
  | ["mark"] => ({ d with marks := d.marks.push d.st.a.offset }, oc d.st.a)
  | ["reset", k] =>
      match k.toNat? >>= (d.marks[·]?) with
      | some m =>
          if m > d.st.a.offset then bad d else
          let st1 := step d.st (.reset m)
          ({ d with st := st1 }, oc st1.a)
      | none => bad d
  | ["decommit"] =>
      let st1 := step d.st .decommit
      ({ d with st := st1 }, oc st1.a)
  | ["borrow"] =>
      let st1 := step d.st .borrow
      ({ d with st := st1 }, oc st1.a)
  | ["release"] =>
      match d.st.borrows with
      | [] => bad d
      | saved :: _ =>
          let st1 := step d.st .release
          if saved > d.st.a.offset then ({ d with st := st1 }, "bad-op")
          else ({ d with st := st1 }, oc st1.a)
  | ["fill", b, s] =>
      match b.toNat?, s.toNat? with
      | some blk, some seed =>
          match (if isStrBlk d blk then none else findBlk d.st.live blk) with
          | some _ =>
              let st1 := step d.st (.store blk (pat seed))
              (setInfo { d with st := st1 } blk (fun i => { i with seed := seed }), "ok")
          | none => bad d
      | _, _ => bad d
  | ["sum", b] =>
      match b.toNat? >>= (d.infos[·]?) with
      | some i =>
          if !i.created then bad d
          else if i.beg + i.len > d.st.a.commit then (d, "unreadable")
          else (d, digest d.st.a.mem i.beg i.len)
      | none => bad d
  | ["peek", o, l] =>
      match o.toNat?, l.toNat? with
      | some off, some len =>
          if len > 2 ^ 20 || off > 2 ^ 40 then bad d else
          let hi := min (off + len) d.st.a.commit
          if off ≥ hi then (d, "empty") else (d, digest d.st.a.mem off (hi - off))
      | _, _ => bad d
  | ["vec", e, n] =>
      match e.toNat?, n.toNat? with
      | some esz, some cnt =>
          if cnt > 2 ^ 20 || !(esz == 1 || esz == 2 || esz == 4 || esz == 8) then bad d else
          let id := d.infos.size
          let d0 := { d with infos := d.infos.push { seed := id, esz := esz } }
          let (d1, caps, sum, failed) := vecLoop d0 id esz id 0 0 cnt [] ""
          (d1, vecAnswer d1 id caps sum failed)
      | _, _ => bad d
  | ["vpush", b, n] =>
      match b.toNat?, n.toNat? with
      | some blk, some cnt =>
          match d.infos[blk]?, findBlk d.st.live blk with
          | some i, some bl =>
              if i.esz == 0 || bl.len == 0 || bl.len % i.esz != 0 || cnt > 2 ^ 20 then bad d else
              let cap := bl.len / i.esz
              let (d1, caps, sum, failed) := vecLoop d blk i.esz i.seed cap cap (cap + cnt) [] ""
              (d1, vecAnswer d1 blk caps sum failed)
          | _, _ => bad d
      | _, _ => bad d
  | _ => (strRequest d ws).getD (bad d)

def main : IO Unit := do
  loop (← IO.getStdin) (← IO.getStdout) ({} : DSt) stepLine

end NaijaVerif.Driver.BumpD
