import NaijaVerif.Model.Mem
import NaijaVerif.Driver.Util
import NaijaVerif.Driver.AstIO

/-! Line protocol `mem` (C02):
```
d <hex src>                               -> d        differential request: the model's prediction is
                                                      "both runs agree" (theorem c02_erasure)
m <hex src> <ctl> <lay> <ast … to eol>    -> <ending> ev=<events>
```
`m`: the trace correspondence.  `<ctl>` / `<lay>` are the two oracle streams derived from the hook log
of the real run (frame arena on), `<ast>` is the real front end's annotated AST in the one-line form
of `Driver/AstIO.lean`.  The driver runs `Mem.run Cfg.fixed fuel ast ctl lay` and prints the model's
event list in the canonical form that `harness/src/memtrace.rs` derives from the hook log.

  ctl   comma separated (`-` = empty): `br0|br1`, `lp0|lp1`, `sc0|sc1`, `ix<k>`, `split<n>`, `call`,
        `err:<code>:<lo>:<hi>`
  lay   comma separated numbers (`-` = empty): the offset of every frame mark and the length of every
        pool request, in order of occurrence
  ending  `ok` | `rt` | `stuck:<n>` | `fuel` | `poisoned:<site>` | `badfree`
  events  comma separated (`-` = none): br:b lp:b sc:b ix:k split:n call:n bind:n ret mark:off:kind
        reset:off:kind stage unstage rcopy rarr:n rhost parr:n phost psz:n palloc:c:i pfall:n
        pfree:c:i pop:n out err:code:lo:hi
-/
namespace NaijaVerif.Driver.MemD
open NaijaVerif NaijaVerif.Mem NaijaVerif.Driver

def fuel : Nat := 100000

def parseCTok (t : String) : Option CTok :=
  match t with
  | "br0" => some (.br false) | "br1" => some (.br true)
  | "lp0" => some (.lp false) | "lp1" => some (.lp true)
  | "sc0" => some (.sc false) | "sc1" => some (.sc true)
  | "call" => some .call
  | _ =>
    if t.startsWith "ix" then (t.drop 2).toString.toNat?.map CTok.ix
    else if t.startsWith "split" then (t.drop 5).toString.toNat?.map CTok.split
    else
      match t.splitOn ":" with
      | ["err", k, lo, hi] =>
          match k.toNat?, lo.toNat?, hi.toNat? with
          | some k, some lo, some hi => some (.err k lo hi)
          | _, _, _ => none
      | _ => none

def parseList {α} (p : String → Option α) (s : String) : Option (List α) :=
  if s = "-" then some [] else (s.splitOn ",").mapM p

def b01 (b : Bool) : String := if b then "1" else "0"

def evStr : Ev → String
  | .br b => s!"br:{b01 b}"
  | .lp b => s!"lp:{b01 b}"
  | .sc b => s!"sc:{b01 b}"
  | .ix k => s!"ix:{k}"
  | .split n => s!"split:{n}"
  | .call n => s!"call:{n}"
  | .bind n => s!"bind:{n}"
  | .ret => "ret"
  | .mark l k => s!"mark:{l}:{k}"
  | .reset l k => s!"reset:{l}:{k}"
  | .stage => "stage"
  | .unstage => "unstage"
  | .rcopy => "rcopy"
  | .rarr n => s!"rarr:{n}"
  | .rhost => "rhost"
  | .parr n => s!"parr:{n}"
  | .phost => "phost"
  | .psz n => s!"psz:{n}"
  | .palloc c i => s!"palloc:{c}:{i}"
  | .pfall n => s!"pfall:{n}"
  | .pfree c i => s!"pfree:{c}:{i}"
  | .pop n => s!"pop:{n}"
  | .out => "out"
  | .err k lo hi => s!"err:{k}:{lo}:{hi}"

def endingStr : Option Stop → String
  | none => "ok"
  | some .rtError => "rt"
  | some (.poisoned site) => s!"poisoned:{site}"
  | some .badFree => "badfree"
  | some (.stuck n) => s!"stuck:{n}"
  | some .fuelOut => "fuel"

def answer (prog : Block) (ctl : List CTok) (lay : List Nat) : String :=
  let r := Mem.run Cfg.fixed fuel prog ctl lay
  let evs := r.state.events.reverse.map evStr
  let evs := if evs.isEmpty then "-" else ",".intercalate evs
  s!"{endingStr r.stopped} ev={evs}"

def step (st : Unit) (line : String) : Unit × String :=
  match words line with
  | "d" :: _ => (st, "d")
  | "m" :: _src :: ctl :: lay :: ast =>
      match parseList parseCTok ctl, parseList String.toNat? lay,
            AstIO.readBlock (" ".intercalate ast) with
      | some ctl, some lay, some prog => (st, answer prog ctl lay)
      | none, _, _ => (st, "bad-op:ctl")
      | _, none, _ => (st, "bad-op:lay")
      | _, _, none => (st, "bad-op:ast")
  | _ => (st, "bad-op")

def main : IO Unit := do
  loop (← IO.getStdin) (← IO.getStdout) () step

end NaijaVerif.Driver.MemD
