import NaijaVerif.Driver.Util
/-! Family `mem` — stub (replaced by the unit that owns this family). -/
namespace NaijaVerif.Driver.MemD

def main : IO Unit := do
  IO.eprintln "family mem: not built yet"

end NaijaVerif.Driver.MemD
