import NaijaVerif.Model.Pool
import NaijaVerif.Driver.Util

/-! Line protocol `pool` (see DESIGN.md Appendix A):
```
pool1 <slotSize> <slotCount>   -> ok              start a single-pool history (base 0)
a                              -> slot <idx> | none
f <bufNo>                      -> ok              release buffer number bufNo (0-based, in hand-out order)
c <bufNo> <delta>              -> true | false    contains(ptr(bufNo) + delta)
s                              -> live=<n> free=<n> bump=<n>
set                            -> ok              start a PoolSet history on a fresh arena
A <size>                       -> pool <cls> <idx> <len> | arena <len>
F <bufNo>                      -> ok
C <bufNo> <delta>              -> true | false
S <cls>                        -> live=<n> free=<n> bump=<n>
K <n>                          -> <cls> | none    size_class(n)
P <cls> <delta>                -> true | false    contains(class_base(cls) + delta)
```
-/
namespace NaijaVerif.Driver.PoolD
open NaijaVerif.Pool NaijaVerif.Driver

structure St where
  pool : Pool := Pool.new 0 8 1
  set  : PoolSet := { pools := [], arenaOff := 0 }
  bufs1 : Array Nat := #[]             -- single pool: slot index per buffer number
  bufs  : Array (Buf × Nat) := #[]     -- set: buffer and requested size

def stats (p : Pool) : String := s!"live={p.liveCount} free={p.free.length} bump={p.bump}"

/-- Addresses in the model are offsets from the arena base; give them a large base so that negative
deltas do not underflow (the real addresses are far from 0 as well). -/
def bias : Nat := 2 ^ 40

def step (st : St) (line : String) : St × String :=
  match words line with
  | ["pool1", a, b] =>
      match a.toNat?, b.toNat? with
      | some sz, some cnt => ({ st with pool := Pool.new bias sz cnt, bufs1 := #[] }, "ok")
      | _, _ => (st, "bad-op")
  | ["a"] =>
      match st.pool.alloc with
      | some (i, p') => ({ st with pool := p', bufs1 := st.bufs1.push i }, s!"slot {i}")
      | none => (st, "none")
  | ["f", n] =>
      match n.toNat? >>= (st.bufs1[·]?) with
      | some i =>
          -- go through the address path exactly as the code does
          match st.pool.indexOf (st.pool.slotAddr i) with
          | some j => ({ st with pool := st.pool.dealloc j }, "ok")
          | none => (st, "panic")
      | none => (st, "bad-op")
  | ["c", n, d] =>
      match n.toNat? >>= (st.bufs1[·]?), parseInt? d with
      | some i, some dl =>
          let a := (st.pool.slotAddr i : Int) + dl
          (st, toString (st.pool.contains a.toNat))
      | _, _ => (st, "bad-op")
  | ["s"] => (st, stats st.pool)
  | ["set"] => ({ st with set := PoolSet.new bias, bufs := #[] }, "ok")
  | ["A", n] =>
      match n.toNat? with
      | some size =>
          let (b, s') := st.set.alloc size
          let ans := match b with
            | .pool c i _ l => s!"pool {c} {i} {l}"
            | .arena _ l => s!"arena {l}"
          ({ st with set := s', bufs := st.bufs.push (b, size) }, ans)
      | none => (st, "bad-op")
  | ["F", n] =>
      match n.toNat? >>= (st.bufs[·]?) with
      | some (b, size) => ({ st with set := st.set.dealloc b.addr size }, "ok")
      | none => (st, "bad-op")
  | ["C", n, d] =>
      match n.toNat? >>= (st.bufs[·]?), parseInt? d with
      | some (b, _), some dl =>
          let a := (b.addr : Int) + dl
          (st, toString (st.set.contains a.toNat))
      | _, _ => (st, "bad-op")
  | ["S", c] =>
      match c.toNat? >>= (st.set.pools[·]?) with
      | some p => (st, stats p)
      | none => (st, "bad-op")
  | ["P", c, d] =>
      match c.toNat? >>= (st.set.pools[·]?), parseInt? d with
      | some p, some dl =>
          let a := (p.base : Int) + dl
          (st, toString (st.set.contains a.toNat))
      | _, _ => (st, "bad-op")
  | ["K", n] =>
      match n.toNat? with
      | some k => (st, match sizeClass k with | some c => toString c | none => "none")
      | none => (st, "bad-op")
  | _ => (st, "bad-op")

def main : IO Unit := do
  loop (← IO.getStdin) (← IO.getStdout) ({} : St) step

end NaijaVerif.Driver.PoolD
