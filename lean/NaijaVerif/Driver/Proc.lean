import NaijaVerif.Model.Proc
import NaijaVerif.Driver.Util

/-! Line protocol `proc` (one request per line, one answer per line; texts are hex, `-` = empty):
```
caps <14 numbers in struct order>   -> ok        limits for the following requests
new <program>                       -> ok        start a history: ProcessCommand::new
arg <v> | cwd <v> | env <k> <v> | stdin_text <v> | stdin_inherit | stdin_null
  | stdout_capture | stdout_inherit | stdout_null | stderr_capture | stderr_inherit | stderr_null
  | timeout <u32> | clone           -> ok
timeout_num <n>                     -> ok | refused     script-level `timeout_ms(n)`, n whole
show                                -> program=… args=[…] cwd=… env=[k=v,…] stdin=… out=… err=… timeout=<n|none>
validate                            -> ok program=… … timeout=<n> | err <name>
run <allow:0|1> [flat|loop|fn|box]  -> denied spawn=0 | invalid <name> spawn=0
                                       | spawned argv=[…] cwd=… env=[k=v,… sorted by key] stdin=… out=… err=…
spawn                               -> as `run 1` (the implementation goes through the public API
                                       instead of a script)
```
-/
namespace NaijaVerif.Driver.ProcD
open NaijaVerif NaijaVerif.Proc NaijaVerif.Driver

structure St where
  caps : Caps := { maxProgram := 0, maxCwd := 0, maxArgs := 0, maxArg := 0, maxTotalArg := 0,
                   maxEnvPairs := 0, maxEnvKey := 0, maxEnvValue := 0, maxTotalEnv := 0, maxStdin := 0,
                   maxCapture := 0, defaultTimeout := 0, maxTimeout := 0, waitPoll := 0 }
  cmd  : Option Cmd := none

def hexList (l : List Bytes) : String := "[" ++ ",".intercalate (l.map hex) ++ "]"

def envStr (l : List (Bytes × Bytes)) : String :=
  "[" ++ ",".intercalate (l.map fun (k, v) => hex k ++ "=" ++ hex v) ++ "]"

def optHex : Option Bytes → String
  | some b => hex b
  | none => "none"

def stdinStr : StdinPol → String
  | .inherit => "inherit"
  | .null => "null"
  | .text t => "text:" ++ hex t

def outStr : OutPol → String
  | .inherit => "inherit"
  | .null => "null"
  | .capture => "capture"

def stdioStr : Stdio → String
  | .inherit => "inherit"
  | .null => "null"
  | .piped => "piped"

def errName (e : Err) : String := e.name.replace " " "_"

def showCmd (c : Cmd) : String :=
  s!"program={hex c.program} args={hexList c.args} cwd={optHex c.cwd} env={envStr c.env} " ++
  s!"stdin={stdinStr c.stdin} out={outStr c.stdout} err={outStr c.stderr} " ++
  s!"timeout={match c.timeout with | some t => toString t | none => "none"}"

def showSpec (s : Spec) : String :=
  s!"program={hex s.program} args={hexList s.args} cwd={optHex s.cwd} env={envStr s.env} " ++
  s!"stdin={stdinStr s.stdin} out={outStr s.stdout} err={outStr s.stderr} timeout={s.timeout}"

/-- Insertion sort of the pairs by key (bytewise), for the canonical `spawned` line. -/
def insertByKey (p : Bytes × Bytes) : List (Bytes × Bytes) → List (Bytes × Bytes)
  | [] => [p]
  | q :: rest => if Bytes.lt p.1 q.1 then p :: q :: rest else q :: insertByKey p rest

def sortByKey (l : List (Bytes × Bytes)) : List (Bytes × Bytes) := l.foldr insertByKey []

/-- Distinct keys of the `env` calls with the override the child sees for each. -/
def overrides (c : Command) : List (Bytes × Bytes) :=
  let keys := (c.envCalls.map Prod.fst).eraseDups
  keys.filterMap fun k => (c.override k).map fun v => (k, v)

def showCommand (c : Command) : String :=
  let stdin := match c.stdinData with
    | some t => stdioStr c.stdin ++ ":" ++ hex t
    | none => stdioStr c.stdin
  s!"spawned argv={hexList c.argv} cwd={optHex c.cwd} env={envStr (sortByKey (overrides c))} " ++
  s!"stdin={stdin} out={stdioStr c.stdout} err={stdioStr c.stderr}"

def runLine (st : St) (allow : Bool) : String :=
  match st.cmd with
  | none => "bad-op"
  | some c =>
      match (run { allow := allow, caps := st.caps } c { spawns := [] }) with
      | (.denied, w) => s!"denied spawn={w.spawns.length}"
      | (.invalid e, w) => s!"invalid {errName e} spawn={w.spawns.length}"
      | (.spawned cmd, _) => showCommand cmd

def applyOp (st : St) (op : Op) : St × String :=
  match st.cmd with
  | some c => ({ st with cmd := some (step c op) }, "ok")
  | none => (st, "bad-op")

def step1 (st : St) (line : String) : St × String :=
  match words line with
  | "caps" :: nums =>
      match nums.mapM (·.toNat?) with
      | some [a, b, c, d, e, f, g, h, i, j, k, l, m, n] =>
          ({ st with caps := { maxProgram := a, maxCwd := b, maxArgs := c, maxArg := d, maxTotalArg := e,
                               maxEnvPairs := f, maxEnvKey := g, maxEnvValue := h, maxTotalEnv := i,
                               maxStdin := j, maxCapture := k, defaultTimeout := l, maxTimeout := m,
                               waitPoll := n } }, "ok")
      | _ => (st, "bad-op")
  | ["new", p] =>
      match unhex p with
      | some b => ({ st with cmd := some (Cmd.new b) }, "ok")
      | none => (st, "bad-op")
  | ["arg", v] => match unhex v with | some b => applyOp st (.arg b) | none => (st, "bad-op")
  | ["cwd", v] => match unhex v with | some b => applyOp st (.cwd b) | none => (st, "bad-op")
  | ["env", k, v] =>
      match unhex k, unhex v with
      | some kb, some vb => applyOp st (.env kb vb)
      | _, _ => (st, "bad-op")
  | ["stdin_text", v] => match unhex v with | some b => applyOp st (.stdinText b) | none => (st, "bad-op")
  | ["stdin_inherit"] => applyOp st .stdinInherit
  | ["stdin_null"] => applyOp st .stdinNull
  | ["stdout_capture"] => applyOp st .stdoutCapture
  | ["stdout_inherit"] => applyOp st .stdoutInherit
  | ["stdout_null"] => applyOp st .stdoutNull
  | ["stderr_capture"] => applyOp st .stderrCapture
  | ["stderr_inherit"] => applyOp st .stderrInherit
  | ["stderr_null"] => applyOp st .stderrNull
  | ["timeout", n] =>
      match n.toNat? with
      | some t => if t < u32Lim then applyOp st (.timeout t) else (st, "bad-op")
      | none => (st, "bad-op")
  | ["timeout_num", n] =>
      match n.toNat? with
      | some k =>
          match timeoutOfWhole k with
          | some t => applyOp st (.timeout t)
          | none => (st, if st.cmd.isSome then "refused" else "bad-op")
      | none => (st, "bad-op")
  | ["clone"] => applyOp st .clone
  | ["show"] => (st, match st.cmd with | some c => showCmd c | none => "bad-op")
  | ["validate"] =>
      match st.cmd with
      | some c =>
          (st, match validate c st.caps with
               | .ok s => "ok " ++ showSpec s
               | .error e => "err " ++ errName e)
      | none => (st, "bad-op")
  | ["run", "0"] => (st, runLine st false)
  | ["run", "1"] => (st, runLine st true)
  | ["run", a, shape] =>
      -- the shape only says how the implementation lays the calls out in the script
      if shape ∈ ["flat", "loop", "fn", "box"] then
        (if a = "0" then (st, runLine st false) else if a = "1" then (st, runLine st true) else (st, "bad-op"))
      else (st, "bad-op")
  | ["spawn"] => (st, runLine st true)
  | _ => (st, "bad-op")

def main : IO Unit := do
  loop (← IO.getStdin) (← IO.getStdout) ({} : St) step1

end NaijaVerif.Driver.ProcD
