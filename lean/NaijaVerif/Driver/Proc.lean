import NaijaVerif.Driver.Util
/-! Family `proc` — stub (replaced by the unit that owns this family). -/
namespace NaijaVerif.Driver.ProcD

def main : IO Unit := do
  IO.eprintln "family proc: not built yet"

end NaijaVerif.Driver.ProcD
