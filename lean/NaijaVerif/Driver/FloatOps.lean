import NaijaVerif.Model.Num
import NaijaVerif.Model.StrsStd
/-
The driver's instance of `NumOps`: Lean's `Float` (IEEE binary64, taken to agree with Rust's `f64`
for `+ - * / sqrt floor ceil round abs` and comparisons) plus EXACT routines written with `Nat`
arithmetic for what core does not provide or does not specify:

* `fmtBits`   — Rust's `{}` Display of `f64`: shortest digits that read back to the same bits,
                never scientific notation (`1e21` prints as `1000000000000000000000`, `1e-7` as
                `0.0000001`, `NaN`, `inf`, `-inf`, `-0`, `1`);
* `parse`     — `str::parse::<f64>` (correctly rounded; from `Model/StrsStd.lean`);
* `fmodBits`  — `%` on `f64` (C `fmod`, exact);
* `truncInt`  — the integer an `as isize/usize/u32` cast truncates to (then saturated).

These are validated against Rust at the start of every run (`fmt` / `parse` / `fmod` / `cast`
requests of family `run`); they are never theorem content.  All NaNs are one value here.
-/
namespace NaijaVerif.Driver.FloatOps
open NaijaVerif

def expField (bits : Nat) : Nat := bits / 2 ^ 52 % 2048
def mantField (bits : Nat) : Nat := bits % 2 ^ 52
def signBit (bits : Nat) : Bool := bits / 2 ^ 63 % 2 == 1
def isNaNBits (bits : Nat) : Bool := expField bits == 2047 && mantField bits != 0
def isInfBits (bits : Nat) : Bool := expField bits == 2047 && mantField bits == 0
def isZeroBits (bits : Nat) : Bool := expField bits == 0 && mantField bits == 0

/-- A finite non-zero double is `m * 2^e`. -/
def decode (bits : Nat) : Nat × Int :=
  if expField bits == 0 then (mantField bits, -1074)
  else (2 ^ 52 + mantField bits, (expField bits : Int) - 1075)

/-- The value as a fraction `num / den`. -/
def ratio (bits : Nat) : Nat × Nat :=
  let (m, e) := decode bits
  if e ≥ 0 then (m * 2 ^ e.toNat, 1) else (m, 2 ^ (-e).toNat)

def pow10 (k : Nat) : Nat := 10 ^ k

/-- `num/den ≥ 10^k`. -/
def ge10 (num den : Nat) (k : Int) : Bool :=
  if k ≥ 0 then num ≥ den * pow10 k.toNat else num * pow10 (-k).toNat ≥ den

/-- The least `k ≥ k0` with `num/den < 10^k` (searched within `fuel` steps). -/
def findK (num den : Nat) : Nat → Int → Int
  | 0, k => k
  | fuel + 1, k => if ge10 num den k then findK num den fuel (k + 1) else k

def digitsOf (n : Nat) : List Nat := (toString n).toList.map (fun c => c.toNat)

def stripTrailingZeros (ds : List Nat) : List Nat :=
  (ds.reverse.dropWhile (· == 48)).reverse

/-- Unsigned bits of the double nearest to `c * 10^x`. -/
def bitsOfDecimal (c : Nat) (x : Int) : Nat :=
  if c == 0 then 0
  else if x ≥ 0 then Strs.roundRatio (c * pow10 x.toNat) 1 else Strs.roundRatio c (pow10 (-x).toNat)

/-- Lay out the digit string `ds` with the decimal point after `point` digits (`0.ds × 10^point`). -/
def layout (ds : List Nat) (point : Int) : List Nat :=
  let ds := stripTrailingZeros ds
  let n : Int := ds.length
  if point ≤ 0 then [48, 46] ++ List.replicate (-point).toNat 48 ++ ds
  else if n ≤ point then ds ++ List.replicate (point - n).toNat 48
  else ds.take point.toNat ++ [46] ++ ds.drop point.toNat

/-- Try `p` significant digits: the two `p`-digit neighbours of the value; the one that reads back
to the same double (the closer one if both do). -/
def tryDigits (ubits num den : Nat) (k : Int) (p : Nat) : Option (List Nat) :=
  let s : Int := (p : Int) - k
  let (n', d') := if s ≥ 0 then (num * pow10 s.toNat, den) else (num, den * pow10 (-s).toNat)
  let q := n' / d'
  let r := n' % d'
  let ok (c : Nat) : Bool := bitsOfDecimal c (-s) == ubits
  let pick (c : Nat) : Option (List Nat) :=
    let ds := digitsOf c
    some (layout ds ((ds.length : Int) - s))
  if r == 0 then pick q
  else
    let lo := ok q
    let hi := ok (q + 1)
    -- both neighbours read back: the closer one; on an exact tie Rust's flt2dec rounds UP (`mant*2 >= scale`)
    if lo && hi then (if 2 * r < d' then pick q else pick (q + 1))
    else if lo then pick q
    else if hi then pick (q + 1)
    else none

def firstDigits (ubits num den : Nat) (k : Int) : Nat → Nat → List Nat
  | 0, p => (tryDigits ubits num den k p).getD [63]
  | fuel + 1, p =>
    match tryDigits ubits num den k p with
    | some r => r
    | none => firstDigits ubits num den k fuel (p + 1)

/-- Rust's `{}` of the `f64` with these bits. -/
def fmtBits (bits : Nat) : Bytes :=
  if isNaNBits bits then b!"NaN"
  else if isInfBits bits then (if signBit bits then b!"-inf" else b!"inf")
  else if isZeroBits bits then (if signBit bits then b!"-0" else b!"0")
  else
    let ubits := bits % 2 ^ 63
    let (num, den) := ratio ubits
    let est : Int := (((Nat.log2 num : Int) - (Nat.log2 den : Int)) * 30103) / 100000
    let k := findK num den 12 (est - 3)
    let body := firstDigits ubits num den k 17 1
    if signBit bits then 45 :: body else body

/-- `a % b` on the bit patterns (`none` = NaN). The result of `fmod` is always exact. -/
def fmodBits (a b : Nat) : Option Nat :=
  if isNaNBits a || isNaNBits b || isInfBits a || isZeroBits b then none
  else if isInfBits b || isZeroBits a then some a
  else
    let (ma, ea) := decode (a % 2 ^ 63)
    let (mb, eb) := decode (b % 2 ^ 63)
    let e := min ea eb
    let A := ma * 2 ^ (ea - e).toNat
    let B := mb * 2 ^ (eb - e).toNat
    let R := A % B
    let sign := if signBit a then 2 ^ 63 else 0
    if R == 0 then some sign
    else
      let ubits := if e ≥ 0 then Strs.roundRatio (R * 2 ^ e.toNat) 1 else Strs.roundRatio R (2 ^ (-e).toNat)
      some (sign + ubits)

/-- The integer `x as <int>` truncates to before saturation (NaN ↦ 0, ±inf ↦ ±2^200). -/
def truncInt (bits : Nat) : Int :=
  if isNaNBits bits then 0
  else
    let mag : Nat :=
      if isInfBits bits then 2 ^ 200
      else if isZeroBits bits then 0
      else
        let (m, e) := decode (bits % 2 ^ 63)
        if e ≥ 0 then m * 2 ^ e.toNat else m / 2 ^ (-e).toNat
    if signBit bits then -(mag : Int) else mag

def clampInt (lo hi x : Int) : Int := if x < lo then lo else if x > hi then hi else x

def bitsOf (x : Float) : Nat := x.toBits.toNat
def ofBitsNat (b : Nat) : Float := Float.ofBits (UInt64.ofNat b)
def nan : Float := ofBitsNat 0x7FF8000000000000
/-- `FLOAT_EQ_EPS = 1e-12`. -/
def eps : Float := ofBitsNat 0x3D719799812DEA11

def parseToFloat (s : Bytes) : Option Float :=
  match Strs.parseF64 s with
  | some (some b) => some (ofBitsNat b)
  | some none => some nan
  | none => none

instance : NumOps Float where
  ofLit := parseToFloat
  add := (· + ·)
  sub := (· - ·)
  mul := (· * ·)
  div := (· / ·)
  fmod a b := match fmodBits (bitsOf a) (bitsOf b) with | some r => ofBitsNat r | none => nan
  neg a := -a
  lt a b := decide (a < b)
  gt a b := decide (a > b)
  approxEq a b := decide ((a - b).abs ≤ eps)
  isZero a := a == 0.0
  isFinite a := a.isFinite
  fractIsZero a := a.floor == a
  toIsize a := clampInt (-(2 ^ 63)) (2 ^ 63 - 1) (truncInt (bitsOf a))
  toUsize a := (clampInt 0 (2 ^ 64 - 1) (truncInt (bitsOf a))).toNat
  toU32 a := (clampInt 0 (2 ^ 32 - 1) (truncInt (bitsOf a))).toNat
  ofInt i := Float.ofInt i
  fmt a := fmtBits (bitsOf a)
  abs := Float.abs
  sqrt := Float.sqrt
  floor := Float.floor
  ceil := Float.ceil
  round := Float.round
  parseNumber s := (parseToFloat s).getD nan

end NaijaVerif.Driver.FloatOps
