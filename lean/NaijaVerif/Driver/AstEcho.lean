import NaijaVerif.Driver.AstIO
/-! Family `astio`: read an AST line, print it back (validates printer/reader against the Rust printer). -/
namespace NaijaVerif.Driver.AstEchoD
open NaijaVerif NaijaVerif.Driver

def step (_ : Unit) (line : String) : Unit × String :=
  match AstIO.readBlock line with
  | some b => ((), AstIO.blockStr {} b)
  | none => ((), "unreadable")

def main : IO Unit := do
  loop (← IO.getStdin) (← IO.getStdout) () step

end NaijaVerif.Driver.AstEchoD
