import NaijaVerif.Driver.Util
/-! Family `depth` — stub (replaced by the unit that owns this family). -/
namespace NaijaVerif.Driver.DepthD

def main : IO Unit := do
  IO.eprintln "family depth: not built yet"

end NaijaVerif.Driver.DepthD
