import NaijaVerif.Model.Depth
import NaijaVerif.Gen.Stack
import NaijaVerif.Driver.Util

/-! Line protocol `depth` (names are Rust function names):
```
budget                      -> <STACK_BUDGET in bytes>
limits                      -> main=<n> env=<n> overshoot=<n> data=<n> headroom=<n>   constants of the arithmetic obligation (bytes; driver only)
guard <fn>                  -> 1 | 0           does <fn> probe the stack on entry (model: guarded frame)
rec <fn>                    -> 1 | 0           is <fn> a frame of the model's recursive core
path <f1>,<f2>,…            -> ok frames=<n> guarded=<k> maxfree=<m> | no-edge <a>-><b> | empty
                                               (caller first; every consecutive pair must be a model edge;
                                                maxfree = longest run of consecutive unguarded frames)
front <stage> <fn>          -> rec=<0|1> guard=<0|1>      stage ∈ lexer parser resolver cfg (extracted tables)
arm <StmtKind>              -> descends=<0|1> probed=<0|1> | unknown-arm
                                               the arm of `exec_stmt` for that statement kind: does it descend into a
                                               nested block, and is a probe certain on EVERY path before the descent
                                               (model: the frame's edge to `exec_block` and its guard annotation)
G <d> [<fn>=<cost>,…]       -> G=<n>           guard-free gap for the given frame costs (default cost 1)
```
-/
namespace NaijaVerif.Driver.DepthD
open NaijaVerif NaijaVerif.Depth NaijaVerif.Driver

def nameOf (b : Bytes) : String := Bytes.toString b

/-- The model graph over Rust names (the three `exec_stmt` frames collapse; folded self-loops are edges;
a function is guarded when it contains a probe). -/
def rustGraph : Graph Bytes :=
  { edges := runtimeEdges.map (fun e => (e.1.rust, e.2.rust)) ++ foldedLoops,
    guarded := fun n => probeSites.contains n }

def coreNames : List Bytes :=
  (Fn.all.filter (fun f => f != Fn.run_inner && f != Fn.drop_glue)).map Fn.rust

def frontTable (stage : String) : Option (List (Bytes × List Bytes) × List Bytes) :=
  match stage with
  | "lexer" => some (Gen.Stack.lexerCalls, Gen.Stack.lexerGuardSites)
  | "parser" => some (Gen.Stack.parserCalls, Gen.Stack.parserGuardSites)
  | "resolver" => some (Gen.Stack.resolverCalls, Gen.Stack.resolverGuardSites)
  | "cfg" => some (Gen.Stack.cfgCalls, Gen.Stack.cfgGuardSites)
  | _ => none

def bit (b : Bool) : String := if b then "1" else "0"

def parseCosts (s : String) : Fn → Nat :=
  let pairs := (s.splitOn ",").filterMap (fun kv =>
    match kv.splitOn "=" with
    | [k, v] => v.toNat?.map (fun n => (k, n))
    | _ => none)
  fun f =>
    -- model frame names first (exec_stmt_cond …), Rust names as a fallback
    let nm := (toString (repr f)).splitOn "." |>.getLast!
    match pairs.find? (fun p => p.1 == nm) with
    | some p => p.2
    | none =>
      match pairs.find? (fun p => p.1 == nameOf f.rust) with
      | some p => p.2
      | none => 1

def step (_ : Unit) (line : String) : Unit × String :=
  match words line with
  | ["budget"] => ((), toString Gen.Stack.stackBudget)
  | ["limits"] => ((), s!"main={mainStack} env={envAllowance} overshoot={overshootAllowance} data={dataAllowance} headroom={headroom}")
  | ["guard", f] => ((), bit (rustGraph.guarded (Bytes.ofString f)))
  | ["rec", f] => ((), bit (coreNames.contains (Bytes.ofString f)))
  | ["path", p] =>
      let names := (p.splitOn ",").filter (· ≠ "") |>.map Bytes.ofString
      match checkPath rustGraph names with
      | .ok n k m => ((), s!"ok frames={n} guarded={k} maxfree={m}")
      | .noEdge a b => ((), s!"no-edge {nameOf a}->{nameOf b}")
      | .empty => ((), "empty")
  | ["front", stage, f] =>
      match frontTable stage with
      | some (calls, sites) =>
          let n := Bytes.ofString f
          ((), s!"rec={bit (calls.any (fun p => p.1 == n))} guard={bit (sites.contains n)}")
      | none => ((), "bad-op")
  | ["arm", k] =>
      match stmtKindFrame (Bytes.ofString k) with
      | some f =>
          let d := runtimeEdges.contains (f, Fn.exec_block)
          ((), s!"descends={bit d} probed={bit (d && runtimeGuarded f)}")
      | none => ((), "unknown-arm")
  | "G" :: d :: rest =>
      match d.toNat? with
      | some d =>
          let c := parseCosts (String.intercalate "," rest)
          ((), s!"G={gap runtimeGraph (costFolded c d) runtimeRank Fn.run_inner}")
      | none => ((), "bad-op")
  | _ => ((), "bad-op")

def main : IO Unit := do
  loop (← IO.getStdin) (← IO.getStdout) () step

end NaijaVerif.Driver.DepthD
