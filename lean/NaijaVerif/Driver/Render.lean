import NaijaVerif.Driver.Util
/-! Family `render` — stub (replaced by the unit that owns this family). -/
namespace NaijaVerif.Driver.RenderD

def main : IO Unit := do
  IO.eprintln "family render: not built yet"

end NaijaVerif.Driver.RenderD
