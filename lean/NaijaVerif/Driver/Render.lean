import NaijaVerif.Model.Render
import NaijaVerif.Spec.Utf8
import NaijaVerif.Driver.Util

/-! Family `render` (see `harness/src/render.rs` for the protocol):
```
render <hex src> <hex filename> <diags>   -> out=<hex of render_ansi(src, filename)> | out=panic | bad-utf8
linecol <hex src> <start>                 -> line=<l> col=<c> | panic | bad-utf8   (the `line:col` a zero-width
                                             diagnostic at `start` is reported at)
```
`<diags>` = `-` (none) or diagnostics joined by `;`, each `<sev>:<lo>:<hi>:<labels>` with
`<sev>` ∈ `error|warning|note` and `<labels>` = `-` or `lo:hi` pairs joined by `,`.  Code and message
are fixed per severity, the message of label number `i` of a diagnostic is `labelMsgs[i % 4]`
(the same tables as in the harness). -/

namespace NaijaVerif.Driver.RenderD
open NaijaVerif NaijaVerif.Render NaijaVerif.Driver

def codeOf : Sev → Bytes
  | .error => b!"syntax"
  | .warning => b!"semantic"
  | .note => b!"analysis"

def msgOf : Sev → Bytes
  | .error => b!"Missing identifier"
  | .warning => b!"Unused variable"
  | .note => b!"Analysis skipped after reaching a configured resource limit"

def labelMsgs : List Bytes := [b!"I dey expect statement", b!"dis one — na déjà vu €", b!"", b!"`x` na reserved keyword 😀"]

def labelMsg (i : Nat) : Bytes := labelMsgs[i % 4]?.getD []

def readSev : String → Option Sev
  | "error" => some .error
  | "warning" => some .warning
  | "note" => some .note
  | _ => none

def readLabels (s : String) : Option (List Span) :=
  if s = "-" then some [] else
  (s.splitOn ",").mapM fun p =>
    match p.splitOn ":" with
    | [a, b] =>
      match a.toNat?, b.toNat? with
      | some lo, some hi => some ⟨lo, hi⟩
      | _, _ => none
    | _ => none

def readDiag (s : String) : Option RDiag :=
  match s.splitOn ":" with
  | sv :: a :: b :: rest =>
    match readSev sv, a.toNat?, b.toNat?, readLabels (":".intercalate rest) with
    | some sev, some lo, some hi, some ls =>
      let rec number : Nat → List Span → List RLabel
        | _, [] => []
        | i, sp :: r => ⟨labelMsg i, sp⟩ :: number (i + 1) r
      some { sev := sev, code := codeOf sev, msg := msgOf sev, span := ⟨lo, hi⟩, labels := number 0 ls }
    | _, _, _, _ => none
  | _ => none

def readDiags (s : String) : Option (List RDiag) :=
  if s = "-" then some [] else (s.splitOn ";").mapM readDiag

def step (_ : Unit) (line : String) : Unit × String :=
  match words line with
  | ["render", hs, hf, ds] =>
    match unhex hs, unhex hf, readDiags ds with
    | some src, some file, some diags =>
      if !Utf8.validUtf8 src || !Utf8.validUtf8 file then ((), "bad-utf8") else
      match renderAnsi src file diags with
      | some out => ((), s!"out={hex out}")
      | none => ((), "out=panic")
    | _, _, _ => ((), "bad-request")
  | ["linecol", hs, st] =>
    match unhex hs, st.toNat? with
    | some src, some start =>
      if !Utf8.validUtf8 src then ((), "bad-utf8") else
      match lineColFromSpan src start with
      | some lc => ((), s!"line={lc.line} col={lc.col}")
      | none => ((), "panic")
    | _, _ => ((), "bad-request")
  | _ => ((), "bad-op")

def main : IO Unit := do
  loop (← IO.getStdin) (← IO.getStdout) () step

end NaijaVerif.Driver.RenderD
