import NaijaVerif.Driver.Util
/-! Family `run` — stub (replaced by the unit that owns this family). -/
namespace NaijaVerif.Driver.RunD

def main : IO Unit := do
  IO.eprintln "family run: not built yet"

end NaijaVerif.Driver.RunD
