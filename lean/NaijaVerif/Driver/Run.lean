import NaijaVerif.Driver.Util
import NaijaVerif.Driver.AstIO
import NaijaVerif.Driver.FloatOps
import NaijaVerif.Model.Eval
import NaijaVerif.Gen.PanicSites
import NaijaVerif.Lemmas.BridgeOk
import NaijaVerif.Lemmas.BridgeReach
/-!
Family `run` — the evaluator model driven by the REAL front end's annotated AST.

```
run <hex src> pol=<a|d> plan=<s1,s2,…|->;<f1,f2,…|-> | plan=none   ast=<annotated AST line>
      -> out=<hex of Display text per printed value, comma separated | none> end=<ok | rt:<Kind>@<lo>:<hi> | panic@<file>:<line> | fuel>
ws <anything> ast=<annotated AST line>
      -> ws=1 | ws=0          (`Eval.WellScoped`, the decidable hypothesis of `Props/C04.lean`'s `c04_dynamic`)
kept <hex src> pol=<a|d> plan=<…> ast=<annotated AST line>
      -> kept=<1|0> reach=<1|0> num=<1|0>
                              (evaluated on the REAL plan and the real resolver's annotations:
                               `kept`  = `Bridge.keptBlock plan root`, the former hypothesis `PlanKeepsCalls` of
                                         `Props/C06Accepted.lean` — EVERY kept function calls kept functions only;
                                         too strong, reported as a statistic;
                               `reach` = `Bridge.planReaches plan root` = `keptReach (reachK plan root) plan root`, the
                                         hypothesis `PlanReach` of `c06_accepted` / `c06_source` / `c06_pipeline` with the
                                         canonical K (closure of the call annotations from the top-level code): K is kept
                                         by the plan and, outside removed statements, the top-level code and the bodies of
                                         the definitions in K call functions of K only;
                               `num`   = `Bridge.numBlock root`: every statement carries a StmtId, every definition a
                                         FunctionId — the first condition of `FactsCoverCalls` (`c06_pipeline_reach`))
rej <hex src>                 -> rejected
fmt <bits: 16 hex digits>     -> <hex of the Display text>          (validation of the driver's float routines)
parse <hex text>              -> <bits> | nan | err
fmod <bits> <bits>            -> <bits> | nan
cast <bits>                   -> <as isize> <as usize> <as u32>
un <floor|ceil|round|sqrt|abs> <bits> -> <bits> | nan
```
`pol=a`: process execution allowed (only `/bin/true`, `/bin/false`, `echo` are known to the model's
`runProc`); `pol=d`: denied.  The model runs with `lookup := dynamic` (an extra head field
`lookup=lexical` selects the lexical reference mode, `lookup=wholestack` the whole-stack search by
`LocalId` of the code before the D-04 fix), the given plan, `panics := false` (the current
code: the D-06/D-04 sites are runtime errors; `panics=pinned` replays the originally pinned tree).
-/
namespace NaijaVerif.Driver.RunD
open NaijaVerif NaijaVerif.Driver NaijaVerif.Eval NaijaVerif.Driver.FloatOps

def hex16 (n : Nat) : String :=
  String.ofList ((List.range 16).reverse.map (fun i => hexChar (n / 16 ^ i % 16)))

def parseHexNat (s : String) : Option Nat :=
  s.toList.foldl (fun acc c => match acc, hexDigit c with
    | some a, some d => some (a * 16 + d)
    | _, _ => none) (some 0)

def bitsAns (b : Nat) : String := if isNaNBits b then "nan" else hex16 b

/-- The process runner of the model: the two programs the product stream uses. -/
def runProcStub (spec : Proc.Spec) : Except RtKind ProcResult :=
  let cap (p : Proc.OutPol) : Option Bytes := match p with | .capture => some [] | _ => none
  if spec.program == b!"/bin/true" then
    .ok { success := true, exitCode := some 0, stdout := cap spec.stdout, stderr := cap spec.stderr }
  else if spec.program == b!"/bin/false" then
    .ok { success := false, exitCode := some 1, stdout := cap spec.stdout, stderr := cap spec.stderr }
  else if spec.program == b!"echo" then
    -- `echo a b` prints its arguments separated by blanks and a newline
    let text : Bytes := (spec.args.intersperse [32]).flatten ++ [10]
    .ok { success := true, exitCode := some 0,
          stdout := (match spec.stdout with | .capture => some text | _ => none), stderr := cap spec.stderr }
  else .error .processSpawnFailed

def stdOps : StdOps := { trim := Strs.trim, upper := Strs.toUpper, lower := Strs.toLower }

/-- `ProcessCaps::defaults()`. -/
def defaultCaps : Proc.Caps :=
  { maxProgram := 4096, maxCwd := 4096, maxArgs := 256, maxArg := 65536, maxTotalArg := 262144,
    maxEnvPairs := 128, maxEnvKey := 256, maxEnvValue := 16384, maxTotalEnv := 131072,
    maxStdin := 1048576, maxCapture := 1048576, defaultTimeout := 900000, maxTimeout := 3600000,
    waitPoll := 10 }

def parseIds (s : String) : Option (List Nat) :=
  if s = "-" then some [] else (s.splitOn ",").mapM (·.toNat?)

def parsePlan (s : String) : Option (Option Plan) :=
  if s = "none" then some none else
  match s.splitOn ";" with
  | [a, b] => do
    let ss ← parseIds a
    let fs ← parseIds b
    pure (some { stmts := ss, fns := fs })
  | _ => none

def fuel : Nat := 100000

def keptOf (plan : Option Plan) (blk : Block) : Bool := NaijaVerif.Bridge.keptBlock plan blk

def siteLoc (site : PanicSite) : String :=
  match site.srcLabel with
  | some lbl =>
    match Gen.PanicSites.fileOf lbl, Gen.PanicSites.lineOf lbl with
    | some f, some l => s!"{Bytes.toString f}:{l}"
    | _, _ => s!"?{Bytes.toString lbl}"
  | none => "?fixed-site"

def outStr (vs : List (Value Float)) : String :=
  if vs.isEmpty then "none" else ",".intercalate (vs.map (fun v => hex v.display))

def answerRun (head ast : String) : String :=
  match words head with
  | _ :: _src :: pol :: plan :: more =>
    -- `lookup=lexical` (testing aid): run the reference lookup mode instead of the code's
    let mode : LookupMode :=
      if more.contains "lookup=lexical" then .lexical
      else if more.contains "lookup=wholestack" then .dynamicWholeStack else .dynamic
    match parsePlan ((plan.drop 5).toString), AstIO.readBlock ast with
    | some pl, some blk =>
      let cfg : RunCfg :=
        { lookup := mode, plan := pl, panics := more.contains "panics=pinned",
          policy := { allow := pol == "pol=a", caps := defaultCaps },
          runProc := runProcStub, std := stdOps, input := [] }
      match (run cfg fuel blk : Outcome Float) with
      | .ok out => s!"out={outStr out} end=ok"
      | .rt k sp out => s!"out={outStr out} end=rt:{k.name}@{sp.lo}:{sp.hi}"
      | .panic site out => s!"out={outStr out} end=panic@{siteLoc site}"
      | .fuelOut => "out=none end=fuel"
    | _, _ => "bad-request"
  | _ => "bad-request"

def answer (line : String) : String :=
  match line.splitOn " ast=" with
  | [head, ast] =>
    if head.startsWith "run " then answerRun head ast
    else if head.startsWith "kept " then
      match (words head).filter (·.startsWith "plan=") with
      | [plan] =>
        match parsePlan ((plan.drop 5).toString), AstIO.readBlock ast with
        | some pl, some blk =>
          let b := fun (x : Bool) => if x then "1" else "0"
          s!"kept={b (keptOf pl blk)} reach={b (NaijaVerif.Bridge.planReaches pl blk)} num={b (NaijaVerif.Bridge.numBlock blk)}"
        | _, _ => "bad-request"
      | _ => "bad-request"
    else if head.startsWith "ws " then
      -- the hypothesis of C04's dynamic theorem, evaluated on the real resolver's annotations
      match AstIO.readBlock ast with
      | some blk => if wsBlock [Binder.root] blk then "ws=1" else "ws=0"
      | none => "bad-request"
    else "bad-request"
  | _ =>
    match words line with
    | ["rej", _] => "rejected"
    | ["fmt", b] =>
      match parseHexNat b with
      | some bits => hex (fmtBits bits)
      | none => "bad-request"
    | ["parse", h] =>
      match unhex h with
      | some s =>
        match Strs.parseF64 s with
        | some (some b) => hex16 b
        | some none => "nan"
        | none => "err"
      | none => "bad-request"
    | ["fmod", a, b] =>
      match parseHexNat a, parseHexNat b with
      | some x, some y => (match fmodBits x y with | some r => bitsAns r | none => "nan")
      | _, _ => "bad-request"
    | ["cast", a] =>
      match parseHexNat a with
      | some x =>
        let f := ofBitsNat x
        s!"{(NumOps.toIsize f : Int)} {(NumOps.toUsize f : Nat)} {(NumOps.toU32 f : Nat)}"
      | none => "bad-request"
    | ["un", op, a] =>
      match parseHexNat a with
      | some x =>
        let f := ofBitsNat x
        let r : Option Float := match op with
          | "floor" => some f.floor | "ceil" => some f.ceil | "round" => some f.round
          | "sqrt" => some f.sqrt | "abs" => some f.abs | _ => none
        match r with
        | some y => bitsAns (bitsOf y)
        | none => "bad-request"
      | none => "bad-request"
    | _ => "bad-request"

def main : IO Unit := do
  loop (← IO.getStdin) (← IO.getStdout) () (fun _ line => ((), answer line))

end NaijaVerif.Driver.RunD
