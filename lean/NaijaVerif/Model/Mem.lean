import NaijaVerif.Model.Ast
import NaijaVerif.Model.Pool
/-
`MemEval` — an abstract-interpretation evaluator of the memory discipline of `src/runtime.rs`
(C02).  It runs over the REAL annotated AST (`Model/Ast.lean`); values are SHAPES that carry
storage handles instead of contents, and every data-dependent decision (branch taken, loop test,
short circuit, index used, `split` size, which runtime error ends the run where, string sizes
that choose a pool class, the real frame offsets used as labels of marks) is read from two oracle
streams (`ctl`, `lay`) that the theorems quantify universally.

The heap: `frame` = the live cells of the frame arena `(index, cid)` below the watermark `top`
(every frame allocation of a string / array buffer / host cell takes the next index); `pools` =
the 20 size-class pools of `Model/Pool.lean`; `slots` = the live pool slots `(class, index, cid)`.
`cid` identifies an allocation (fresh per allocation; a zero-copy alias shares it).  Every read of a
handle checks that its storage is still live and still holds the handle's `cid`; if not the run
stops with `poisoned site`.  Every release checks that the slot is live with that `cid`; if not the
run stops with `badFree`.

The values a big-step evaluation holds in Rust locals while a sibling is evaluated are made
explicit: they are pushed on the `temps` stack, which also carries the frame marks taken by loop
iterations and calls.  The evaluator re-reads a temporary from the stack when it needs it again.

`Cfg` switches between the PINNED discipline (commit ec803c6: a variable read aliases, the old slot
is freed before the new value is promoted, arguments are bound unpromoted, host values and
borrowed strings are not relocated on return) and the FIXED one (commit b552049).
Core-only imports (linked into `nvdriver`).
-/
namespace NaijaVerif.Mem
open NaijaVerif NaijaVerif.Pool

inductive Region where
  | static
  | persist
  | pool (c i : Nat)
  | frame (k : Nat)
deriving DecidableEq, Repr, Inhabited

/-- `isStr`: string bytes (promoted into the pool) vs. array buffer / host cell (promoted to the
persistent arena). -/
structure Handle where
  region : Region
  owned : Bool
  cid : Nat
  isStr : Bool
  /-- content id: which bytes were written at allocation (fresh for every newly computed string,
  inherited by every copy). -/
  ct : Nat
deriving DecidableEq, Repr, Inhabited

inductive MVal where
  | scalar
  | leaf (h : Handle)
  | arr (buf : Handle) (xs : List MVal)
deriving Repr, Inhabited

mutual
  def MVal.handles : MVal → List Handle
    | .scalar => []
    | .leaf h => [h]
    | .arr b xs => b :: MVal.handlesL xs
  def MVal.handlesL : List MVal → List Handle
    | [] => []
    | v :: vs => v.handles ++ MVal.handlesL vs
end

structure Cfg where
  reclaim : Bool            -- `has_frame_arena()`
  aliasOnRead : Bool        -- `ArenaCow::clone` of Owned = Borrowed alias (pinned)
  freeBeforePromote : Bool  -- `overwrite_slot` returns the old slot first (pinned)
  promoteParams : Bool      -- parameter binding promotes (fixed)
  relocateAll : Bool        -- `relocate_return_value` handles host values and borrowed frame strings (fixed)
deriving Repr, DecidableEq

def Cfg.fixed : Cfg := ⟨true, false, false, true, true⟩
def Cfg.pinned : Cfg := ⟨true, true, true, false, false⟩
/-- One arena, nothing reset or reused (`Runtime::new(arena, None)`). -/
def Cfg.noReclaim : Cfg := ⟨false, false, false, true, true⟩

/-- Control oracle. -/
inductive CTok where
  | br (b : Bool) | lp (b : Bool) | sc (b : Bool) | ix (k : Nat) | split (n : Nat) | call
  | err (kind lo hi : Nat)
deriving DecidableEq, Repr, Inhabited

inductive Ev where
  | br (b : Bool) | lp (b : Bool) | sc (b : Bool) | ix (k : Nat) | split (n : Nat)
  | call (n : Nat) | bind (n : Nat) | ret
  | mark (label kind : Nat) | reset (label kind : Nat) | stage | unstage
  | rcopy | rarr (n : Nat) | rhost | parr (n : Nat) | phost
  | psz (n : Nat) | palloc (c i : Nat) | pfall (n : Nat) | pfree (c i : Nat)
  | pop (n : Nat) | out | err (kind lo hi : Nat)
deriving DecidableEq, Repr, Inhabited

inductive TE where
  | val (v : MVal)
  | mark (m label : Nat)
deriving Repr, Inhabited

structure Slot where
  id : Nat
  val : MVal
deriving Repr, Inhabited

structure FnDef where
  fid : Nat
  params : List (Option Nat)
  body : Block

structure St where
  env : List (List Slot)          -- head = innermost scope; in a scope head = newest slot
  fns : List (List FnDef)
  out : List MVal
  temps : List TE
  frame : List (Nat × Nat)
  top : Nat
  pools : List Pool
  slots : List (Nat × Nat × Nat)
  nextCid : Nat
  ctl : List CTok
  lay : List Nat
  events : List Ev                -- newest first
  obs : List Nat                  -- content ids observed by the program's own reads, newest first
  nextCt : Nat

inductive Stop where
  | rtError
  | poisoned (site : Nat)
  | badFree
  | stuck (why : Nat)
  | fuelOut
deriving DecidableEq, Repr, Inhabited

inductive Res (α : Type) where
  | ok (a : α) (s : St)
  | stop (o : Stop) (s : St)

abbrev M (α : Type) := St → Res α

@[inline] def M.pure (a : α) : M α := fun s => .ok a s
@[inline] def M.bind (m : M α) (k : α → M β) : M β := fun s =>
  match m s with
  | .ok a s' => k a s'
  | .stop o s' => .stop o s'

instance : Monad M where
  pure := M.pure
  bind := M.bind

def halt (o : Stop) : M α := fun s => .stop o s
def emit (e : Ev) : M Unit := fun s => .ok () { s with events := e :: s.events }
def getSt : M St := fun s => .ok s s

/-! ### Oracles -/

def layTok : M Nat := fun s =>
  match s.lay with
  | n :: r => .ok n { s with lay := r }
  | [] => .stop (.stuck 1) s

/-- Consume one control token of the expected kind (else the oracle does not fit: `stuck`). -/
def tokWith (pick : CTok → Option α) (ev : α → Ev) (why : Nat) : M α := fun s =>
  match s.ctl with
  | t :: r =>
    match pick t with
    | some a => .ok a { s with ctl := r, events := ev a :: s.events }
    | none => .stop (.stuck why) s
  | [] => .stop (.stuck why) s

def tokBr : M Bool := tokWith (fun t => match t with | .br b => some b | _ => none) Ev.br 2
def tokLp : M Bool := tokWith (fun t => match t with | .lp b => some b | _ => none) Ev.lp 3
def tokSc : M Bool := tokWith (fun t => match t with | .sc b => some b | _ => none) Ev.sc 4
def tokIx : M Nat := tokWith (fun t => match t with | .ix k => some k | _ => none) Ev.ix 5
def tokSplit : M Nat := tokWith (fun t => match t with | .split n => some n | _ => none) Ev.split 6
def tokCall (n : Nat) : M Unit :=
  tokWith (fun t => match t with | .call => some () | _ => none) (fun _ => Ev.call n) 7

/-- A site that can raise runtime error `kind` with span `sp`: it does iff the oracle says so. -/
def errAt (kind : Nat) (sp : Span) : M Unit := fun s =>
  match s.ctl with
  | .err k lo hi :: _ =>
      if k = kind ∧ lo = sp.lo ∧ hi = sp.hi then
        .stop .rtError { s with events := .err k lo hi :: s.events }
      else .ok () s
  | _ => .ok () s

/-- An error that the value shapes alone decide (a method on a value of the wrong type, an index
that is not a number, an l-value path that does not exist): the run ends here; the oracle's `err`
token is echoed as the event. -/
def shapeError : M α := fun s =>
  match s.ctl with
  | .err k lo hi :: _ => .stop .rtError { s with events := .err k lo hi :: s.events }
  | _ => .stop (.stuck 31) s

/-! ### Heap -/

def St.valid (s : St) (h : Handle) : Bool :=
  match h.region with
  | .static => true
  | .persist => true
  | .pool c i => s.slots.contains (c, i, h.cid)
  | .frame k => s.frame.contains (k, h.cid)

/-- Sites below 50 are copies made by the memory discipline itself (clone on read, promote,
relocate, l-value navigation); sites from 50 on are the program's own reads (operands, printed
values, receivers, arguments, interpolated variables): only these are observations. -/
def observed (site : Nat) (h : Handle) (obs : List Nat) : List Nat :=
  if 50 ≤ site then h.ct :: obs else obs

def readH (site : Nat) (h : Handle) : M Unit := fun s =>
  if s.valid h then .ok () { s with obs := observed site h s.obs } else .stop (.poisoned site) s

def readHs (site : Nat) : List Handle → M Unit
  | [] => pure ()
  | h :: hs => do readH site h; readHs site hs

def readV (site : Nat) (v : MVal) : M Unit := readHs site v.handles

def freshCt : M Nat := fun s => .ok s.nextCt { s with nextCt := s.nextCt + 1 }

def allocFrame (isStr : Bool) (ct : Nat) : M Handle := fun s =>
  .ok ⟨.frame s.top, true, s.nextCid, isStr, ct⟩
    { s with frame := (s.top, s.nextCid) :: s.frame, top := s.top + 1, nextCid := s.nextCid + 1 }

def allocPersist (isStr : Bool) (ct : Nat) : M Handle := fun s =>
  .ok ⟨.persist, true, s.nextCid, isStr, ct⟩ { s with nextCid := s.nextCid + 1 }

def staticStr : Handle := ⟨.static, false, 0, true, 0⟩

/-- `PoolSet::alloc_str`: the size comes from the layout oracle. -/
def allocPool (ct : Nat) : M Handle := fun s =>
  match s.lay with
  | [] => .stop (.stuck 1) s
  | n :: lay =>
    let s := { s with lay := lay, events := .psz n :: s.events }
    let fallback : Res Handle :=
      .ok ⟨.persist, true, s.nextCid, true, ct⟩
        { s with nextCid := s.nextCid + 1, events := .pfall n :: s.events }
    match sizeClass n with
    | none => fallback
    | some c =>
      match s.pools[c]? with
      | none => fallback
      | some p =>
        match p.alloc with
        | none => fallback
        | some (i, p') =>
          .ok ⟨.pool c i, true, s.nextCid, true, ct⟩
            { s with pools := s.pools.set c p', slots := (c, i, s.nextCid) :: s.slots,
                     nextCid := s.nextCid + 1, events := .palloc c i :: s.events }

/-- `Value::return_to_pool` on one handle. -/
def freeH (h : Handle) : M Unit := fun s =>
  match h.region with
  | .pool c i =>
    if h.owned && h.isStr then
      if s.slots.contains (c, i, h.cid) then
        match s.pools[c]? with
        | some p =>
          -- legal use of the C12 pool: the slot must be live in the pool's own (ghost) live list
          if p.live.contains i then
            .ok () { s with pools := s.pools.set c (p.dealloc i), slots := s.slots.erase (c, i, h.cid),
                            events := .pfree c i :: s.events }
          else .stop .badFree s
        | none => .stop .badFree s
      else .stop .badFree s
    else .ok () s
  | _ => .ok () s

/-- `return_to_pool` of a value: only a top-level owned string. -/
def freeTop : MVal → M Unit
  | .leaf h => freeH h
  | _ => pure ()

def Region.isFrame : Region → Bool
  | .frame _ => true
  | _ => false

def Region.isPool : Region → Bool
  | .pool _ _ => true
  | _ => false

/-! ### Temporaries and marks -/

def pushT (v : MVal) : M Unit := fun s => .ok () { s with temps := .val v :: s.temps }

def popT : M MVal := fun s =>
  match s.temps with
  | .val v :: r => .ok v { s with temps := r }
  | _ => .stop (.stuck 10) s

/-- Pops a value that was promoted before it was pushed (`a.push(v)`): it cannot point into the
frame (checked; the check never fails on a balanced stack). -/
def popCleanChecked : M MVal := fun s =>
  match s.temps with
  | .val v :: r =>
    if v.handles.all (fun h => !h.region.isFrame) then .ok v { s with temps := r }
    else .stop (.stuck 30) s
  | _ => .stop (.stuck 10) s

def popClean (cfg : Cfg) : M MVal := if cfg.reclaim then popCleanChecked else popT

/-- Pops `n` values; the result is in push order. -/
def popN : Nat → List MVal → M (List MVal)
  | 0, acc => pure acc
  | n + 1, acc => do let v ← popT; popN n (v :: acc)

def pushMark (cfg : Cfg) (kind : Nat) : M Unit := fun s =>
  if cfg.reclaim then
    match s.lay with
    | l :: lay =>
      .ok () { s with lay := lay, temps := .mark s.top l :: s.temps, events := .mark l kind :: s.events }
    | [] => .stop (.stuck 1) s
  else .ok () { s with temps := .mark s.top 0 :: s.temps }

def dropToMark : List TE → Option (Nat × Nat × List TE)
  | [] => none
  | .mark m l :: r => some (m, l, r)
  | .val _ :: r => dropToMark r

/-- `frame.reset(mark)`: everything above the innermost mark is gone. -/
def resetToMark (cfg : Cfg) (kind : Nat) : M Unit := fun s =>
  match dropToMark s.temps with
  | none => .stop (.stuck 11) s
  | some (m, l, r) =>
    if cfg.reclaim then
      .ok () { s with temps := r, frame := s.frame.filter (fun c => c.1 < m), top := m,
                      events := .reset l kind :: s.events }
    else .ok () { s with temps := r }

/-- Leave a loop by `comot`: the mark is forgotten, nothing is reset. -/
def dropMark : M Unit := fun s =>
  match dropToMark s.temps with
  | none => .stop (.stuck 11) s
  | some (_, _, r) => .ok () { s with temps := r }

/-- Leave a loop by `return`: the return value is on top of the loop's mark. -/
def valOverMark : List TE → Option (MVal × List TE)
  | .val v :: .mark _ _ :: r => some (v, r)
  | _ => none

def dropMarkUnderTop : M Unit := fun s =>
  match valOverMark s.temps with
  | some (v, r) => .ok () { s with temps := .val v :: r }
  | none => .stop (.stuck 12) s

/-! ### clone on read, promote -/

mutual
  /-- `Value::clone_into(frame)`. -/
  def copyRead (cfg : Cfg) : MVal → M MVal
    | .scalar => pure .scalar
    | .leaf h =>
      if h.isStr then
        if h.owned then
          if cfg.aliasOnRead then pure (.leaf { h with owned := false })
          else do
            emit .rcopy; readH 20 h
            let h' ← allocFrame true h.ct
            pure (.leaf h')
        else pure (.leaf h)
      else do
        emit .rhost; readH 21 h
        let h' ← allocFrame false h.ct
        pure (.leaf h')
    | .arr b xs => do
      emit (.rarr xs.length); readH 22 b
      let b' ← allocFrame false b.ct
      let xs' ← copyReadL cfg xs
      pure (.arr b' xs')
  def copyReadL (cfg : Cfg) : List MVal → M (List MVal)
    | [] => pure []
    | v :: vs => do
      let v' ← copyRead cfg v
      let vs' ← copyReadL cfg vs
      pure (v' :: vs')
end

mutual
  /-- `Value::promote`. -/
  def promote : MVal → M MVal
    | .scalar => pure .scalar
    | .leaf h =>
      if h.isStr then
        if h.owned then
          if h.region.isFrame then do readH 30 h; let h' ← allocPool h.ct; pure (.leaf h')
          else pure (.leaf h)
        else if h.region.isFrame || h.region.isPool then do
          readH 31 h; let h' ← allocPool h.ct; pure (.leaf h')
        else pure (.leaf h)
      else do
        emit .phost
        if h.region.isFrame then do readH 32 h; let h' ← allocPersist false h.ct; pure (.leaf h')
        else pure (.leaf h)
    | .arr b xs => do
      emit (.parr xs.length); readH 33 b
      let b' ← allocPersist false b.ct
      let xs' ← promoteL xs
      pure (.arr b' xs')
  def promoteL : List MVal → M (List MVal)
    | [] => pure []
    | v :: vs => do
      let v' ← promote v
      let vs' ← promoteL vs
      pure (v' :: vs')
end

def promoteIf (cfg : Cfg) (v : MVal) : M MVal := if cfg.reclaim then promote v else pure v

/-! ### Environment -/

def findSlot (id : Nat) : List Slot → Option MVal
  | [] => none
  | s :: r => if s.id = id then some s.val else findSlot id r

def lookupEnv (id : Nat) : List (List Slot) → Option MVal
  | [] => none
  | sc :: r => match findSlot id sc with
    | some v => some v
    | none => lookupEnv id r

def setSlot (id : Nat) (v : MVal) : List Slot → List Slot
  | [] => []
  | s :: r => if s.id = id then { s with val := v } :: r else s :: setSlot id v r

def setEnv (id : Nat) (v : MVal) : List (List Slot) → List (List Slot)
  | [] => []
  | sc :: r => match findSlot id sc with
    | some _ => setSlot id v sc :: r
    | none => sc :: setEnv id v r

def getVar (id : Nat) : M MVal := fun s =>
  match lookupEnv id s.env with
  | some v => .ok v s
  | none => .stop (.stuck 20) s

/-- `mem::replace(slot, v)`: stores `v`, returns the old value. -/
def swapVar (id : Nat) (v : MVal) : M MVal := fun s =>
  match lookupEnv id s.env with
  | some old => .ok old { s with env := setEnv id v s.env }
  | none => .stop (.stuck 20) s

/-- Adds a new slot to the innermost scope. -/
def addSlot (id : Nat) (v : MVal) : M Unit := fun s =>
  match s.env with
  | sc :: r => .ok () { s with env := (⟨id, v⟩ :: sc) :: r }
  | [] => .stop (.stuck 21) s

/-- `overwrite_slot`. -/
def overwrite (cfg : Cfg) (id : Nat) (v : MVal) : M Unit :=
  if cfg.reclaim then
    if cfg.freeBeforePromote then do
      let old ← swapVar id .scalar
      freeTop old
      let v' ← promote v
      let _ ← swapVar id v'
      pure ()
    else do
      let v' ← promote v
      let old ← swapVar id v'
      freeTop old
  else do
    let _ ← swapVar id v
    pure ()

/-- Is `id` declared in the innermost scope? -/
def inCurrentScope (id : Nat) : M Bool := fun s =>
  match s.env with
  | sc :: _ => .ok (findSlot id sc).isSome s
  | [] => .stop (.stuck 21) s

/-- `define_bound_local`. -/
def define (cfg : Cfg) (id : Nat) (v : MVal) : M Unit := do
  let there ← inCurrentScope id
  if there then overwrite cfg id v
  else do
    let v' ← promoteIf cfg v
    addSlot id v'

/-- `assign_bound_local`. -/
def assign (cfg : Cfg) (id : Nat) (v : MVal) : M Unit := overwrite cfg id v

def pushScope : M Unit := fun s => .ok () { s with env := [] :: s.env, fns := [] :: s.fns }

def freeSlots : List Slot → M Unit
  | [] => pure ()
  | sl :: r => do freeTop sl.val; freeSlots r

/-- `pop_scope`: the slots are visited in insertion order. -/
def popScope : M Unit := fun s =>
  match s.env with
  | [] => .ok () { s with fns := s.fns.tail }
  | sc :: r =>
    freeSlots sc.reverse { s with env := r, fns := s.fns.tail, events := .pop sc.length :: s.events }

def lookupFn (fid : Nat) : List (List FnDef) → Option FnDef
  | [] => none
  | sc :: r => match sc.find? (fun d => d.fid = fid) with
    | some d => some d
    | none => lookupFn fid r

def hoist : List Stmt → List FnDef
  | [] => []
  | .fnDef _ _ ps body (some fid) _ _ :: r => ⟨fid, ps.map (·.bind), body⟩ :: hoist r
  | _ :: r => hoist r

def addFns (ds : List FnDef) : M Unit := fun s =>
  match s.fns with
  | sc :: r => .ok () { s with fns := (ds.reverse ++ sc) :: r }
  | [] => .ok () s

/-! ### l-value paths -/

/-- Applies `g` to the element at `path` below `v`, reading every array buffer on the way
(`none` = the path does not exist: index out of bounds / not an array). -/
def modifyAt : List Nat → MVal → (MVal → Option (MVal × MVal)) → Option (MVal × MVal × List Handle)
  | [], v, g => (g v).map (fun (v', r) => (v', r, []))
  | k :: ks, .arr b xs, g =>
    match xs[k]? with
    | some x =>
      match modifyAt ks x g with
      | some (x', r, hs) => some (.arr b (xs.set k x'), r, b :: hs)
      | none => none
    | none => none
  | _ :: _, _, _ => none

/-- Modify the value below variable `id` at `path`; returns `g`'s second component. -/
def modifyVar (id : Nat) (path : List Nat) (g : MVal → Option (MVal × MVal)) : M MVal := fun s =>
  match lookupEnv id s.env with
  | none => .stop (.stuck 20) s
  | some root =>
    match modifyAt path root g with
    | none => shapeError s
    | some (root', r, hs) =>
      match readHs 40 hs s with
      | .ok _ s' => .ok r { s' with env := setEnv id root' s'.env }
      | .stop o s' => .stop o s'

/-! ### Names -/

def nmShout : Bytes := b!"shout"
def nmTypeof : Bytes := b!"typeof"
def nmReadLine : Bytes := b!"read_line"
def nmToString : Bytes := b!"to_string"
def nmCommand : Bytes := b!"command"

def isGlobalBuiltin (n : Bytes) : Bool :=
  n == nmShout || n == nmTypeof || n == nmReadLine || n == nmToString || n == nmCommand

def arrayMut : List Bytes := [b!"push", b!"pop", b!"reverse"]
def commandMut : List Bytes :=
  [b!"arg", b!"cwd", b!"env", b!"stdin_text", b!"stdin_inherit", b!"stdin_null", b!"stdout_capture",
   b!"stdout_inherit", b!"stdout_null", b!"stderr_capture", b!"stderr_inherit", b!"stderr_null",
   b!"timeout_ms"]
def strToStr : List Bytes := [b!"slice", b!"to_uppercase", b!"to_lowercase", b!"trim", b!"replace"]
def strToNum : List Bytes := [b!"len", b!"find", b!"to_number"]
def numMethods : List Bytes := [b!"abs", b!"sqrt", b!"floor", b!"ceil", b!"round"]
def resToNum : List Bytes := [b!"success", b!"exit_code"]
def resToStr : List Bytes := [b!"stdout", b!"stderr"]

/-- Result class of a non-mutating method by receiver shape and name. -/
inductive MKind where
  | bad | num | str | split | run
deriving DecidableEq, Repr

def methodKind (recv : MVal) (field : Bytes) : MKind :=
  match recv with
  | .scalar => if numMethods.contains field then .num else .bad
  | .leaf h =>
    if h.isStr then
      if strToStr.contains field then .str
      else if strToNum.contains field then .num
      else if field == b!"split" then .split
      else .bad
    else if field == b!"run" then .run
    else if resToNum.contains field then .num
    else if resToStr.contains field then .str
    else .bad
  | .arr _ _ => if field == b!"len" then .num else if field == b!"join" then .str else .bad

/-- `flatten_index_target`: base variable and index expressions, outermost array first. -/
def flattenTarget : Expr → List (Expr × Span) → Option (Nat × List (Expr × Span))
  | .index a i isp _, acc => flattenTarget a ((i, isp) :: acc)
  | .var _ (some id) _, acc => some (id, acc)
  | _, _ => none

inductive Flow where
  | normal | ret | brk | cont
deriving DecidableEq, Repr, Inhabited

def isStrLeaf : MVal → Bool
  | .leaf h => h.isStr
  | _ => false

/-- `n` fresh frame strings. -/
def allocStrs : Nat → M (List MVal)
  | 0 => pure []
  | n + 1 => do
    let ct ← freshCt
    let h ← allocFrame true ct
    let r ← allocStrs n
    pure (.leaf h :: r)

def divCheck (op : BinOp) (sp : Span) : M Unit :=
  if op = .divide ∨ op = .mod then errAt 2 sp else pure ()

/-- Binary operator on two evaluated operands. -/
def binop (op : BinOp) (lv rv : MVal) (sp : Span) : M MVal := do
  readV 50 lv; readV 51 rv
  divCheck op sp
  if op = .add ∧ (isStrLeaf lv ∨ isStrLeaf rv) then do
    let ct ← freshCt
    let h ← allocFrame true ct
    pure (.leaf h)
  else pure .scalar

/-- Interpolation reads the variables in place (`lookup_local_ref`). -/
def readSegs : List Seg → M Unit
  | [] => pure ()
  | .lit _ :: r => readSegs r
  | .var _ (some id) :: r => do let v ← getVar id; readV 52 v; readSegs r
  | .var _ none :: _ => halt (.stuck 22)

/-- Parameter binding. -/
def bindArg (cfg : Cfg) (v : MVal) : M MVal :=
  if cfg.reclaim then
    if cfg.promoteParams then promote v
    else match v with
      | .leaf h =>
        if h.isStr && !h.owned && h.region.isPool then do
          readH 34 h; let h' ← allocPool h.ct; pure (.leaf h')
        else pure v
      | _ => pure v
  else pure v

def bindParams (cfg : Cfg) : List (Option Nat) → List MVal → M Unit
  | some id :: ps, v :: vs => do
    let v' ← bindArg cfg v
    addSlot id v'
    bindParams cfg ps vs
  | [], [] => pure ()
  | _, _ => halt (.stuck 23)

/-- `relocate_return_value` (with a frame arena). -/
def relocate (cfg : Cfg) (rv : MVal) : M MVal :=
  match rv with
  | .leaf h =>
    if h.isStr then
      if h.region.isFrame && (h.owned || cfg.relocateAll) then do
        readH 35 h; emit .stage
        resetToMark cfg 1
        let h' ← allocFrame true h.ct
        emit .unstage
        pure (.leaf h')
      else do resetToMark cfg 3; pure rv
    else if cfg.relocateAll then do
      let v' ← promote rv
      resetToMark cfg 2
      pure v'
    else do resetToMark cfg 3; pure rv
  | .arr _ _ => do
    let v' ← promote rv
    resetToMark cfg 2
    pure v'
  | .scalar => do resetToMark cfg 3; pure rv

/-! ### The evaluator's cases, as combinators over the recursive sub-evaluations -/

/-- `and` / `or`: the right operand is evaluated iff the oracle says so. -/
def andOrE (l r : M MVal) : M MVal := do
  let _ ← l
  let b ← tokSc
  if b then do let _ ← r; pure .scalar else pure .scalar

/-- Other binary operators: the left value is held while the right operand is evaluated. -/
def binE (op : BinOp) (sp : Span) (l r : M MVal) : M MVal := do
  let lv ← l
  pushT lv
  let rv ← r
  let lv ← popT
  binop op lv rv sp

/-- Array literal: the buffer is allocated first, the elements are held on the stack. -/
def arrayE (elems : M Nat) : M MVal := do
  let b ← allocFrame false 0
  pushT (.arr b [])
  let n ← elems
  let xs ← popN n []
  let shell ← popT
  match shell with
  | .arr b _ => pure (.arr b xs)
  | _ => halt (.stuck 13)

def indexE (isp : Span) (a i : M MVal) : M MVal := do
  let av ← a
  pushT av
  let iv ← i
  let av ← popT
  match av, iv with
  | .arr b xs, .scalar => do
    errAt 6 isp; errAt 4 isp
    let k ← tokIx
    readH 53 b
    match xs[k]? with
    | some x => pure x
    | none => halt (.stuck 14)
  | .arr _ _, _ => shapeError
  | _, _ => halt (.stuck 15)

/-- `a.push(v)`: the value is promoted, then the receiver's index expressions are evaluated. -/
def pushE (cfg : Cfg) (id : Nat) (arg : M MVal) (idxs : M (List Nat)) : M MVal := do
  let v ← arg
  let v' ← promoteIf cfg v
  pushT v'
  let path ← idxs
  let v' ← popClean cfg
  let _ ← modifyVar id path (fun a => match a with
    | .arr b xs => some (.arr b (xs ++ [v']), .scalar)
    | _ => none)
  pure .scalar

/-- `e.push(v)` on a receiver that is not an l-value. -/
def pushFailE (cfg : Cfg) (arg : M MVal) : M MVal := do
  let v ← arg
  let _ ← promoteIf cfg v
  shapeError

/-- A process-command setter on a receiver that is not an l-value. -/
def argsFailE (args : M Unit) : M MVal := do
  args
  shapeError

def popRevE (isPop : Bool) (id : Nat) (idxs : M (List Nat)) : M MVal := do
  let path ← idxs
  if isPop then
    modifyVar id path (fun a => match a with
      | .arr b xs => some (.arr b xs.dropLast, (xs.getLast?).getD .scalar)
      | _ => none)
  else
    modifyVar id path (fun a => match a with
      | .arr b xs => some (.arr b xs.reverse, .scalar)
      | _ => none)

/-- Process-command setters: arguments are copied to the persistent arena one by one. -/
def cmdMutE (id : Nat) (args : M Unit) (idxs : M (List Nat)) : M MVal := do
  args
  let path ← idxs
  let _ ← modifyVar id path (fun a => match a with
    | .leaf h => if h.isStr then none else some (.leaf h, .scalar)
    | _ => none)
  pure .scalar

/-- Non-mutating method call: the receiver and earlier arguments are held while later ones run. -/
def methodE (field : Bytes) (sp : Span) (recv : M MVal) (args : M Nat) : M MVal := do
  let rv ← recv
  match methodKind rv field with
  | .bad => shapeError
  | k => do
    pushT rv
    let n ← args
    let as ← popN n []
    let rv ← popT
    readV 55 rv
    readHs 56 (MVal.handlesL as)
    match k with
    | .num => do errAt 5 sp; pure .scalar
    | .str => do let ct ← freshCt; let h ← allocFrame true ct; pure (.leaf h)
    | .split => do
      let n ← tokSplit
      let b ← allocFrame false 0
      let xs ← allocStrs n
      pure (.arr b xs)
    | .run => do
      errAt 7 sp
      let ct ← freshCt
      let h ← allocPersist false ct
      pure (.leaf h)
    | .bad => shapeError

def storeOut (v : MVal) : M Unit := fun s => .ok () { s with out := v :: s.out }

def ioCheck (name : Bytes) (sp : Span) : M Unit :=
  if name == nmReadLine then errAt 1 sp else pure ()

def freeIf (cfg : Cfg) (old : MVal) : M Unit := if cfg.reclaim then freeTop old else pure ()

def builtinE (cfg : Cfg) (name : Bytes) (sp : Span) (arg : M MVal) : M MVal := do
  let v ← arg
  if name == nmShout then do
    readV 57 v
    emit .out
    let v' ← promoteIf cfg v
    storeOut v'
    pure .scalar
  else if name == nmTypeof then pure (.leaf staticStr)
  else if name == nmCommand then do
    readV 58 v
    let ct ← freshCt
    let h ← allocFrame false ct
    pure (.leaf h)
  else do
    readV 59 v
    ioCheck name sp
    let ct ← freshCt
    let h ← allocFrame true ct
    pure (.leaf h)

def getFn (fid : Nat) : M FnDef := fun s =>
  match lookupFn fid s.fns with
  | some d => .ok d s
  | none => .stop (.stuck 19) s

/-- `eval_function_call`: the mark is taken BEFORE the arguments are evaluated. -/
def callE (cfg : Cfg) (nargs : Nat) (params : List (Option Nat)) (args : M Nat) (body : M Flow) :
    M MVal := do
  tokCall nargs
  pushMark cfg 1
  let n ← args
  emit (.bind n)
  let vs ← popN n []
  pushScope
  bindParams cfg params vs
  let fl ← body
  popScope
  emit .ret
  let rv ← (match fl with
    | .ret => popT
    | .normal => pure .scalar
    | _ => halt (.stuck 24))
  if cfg.reclaim then relocate cfg rv
  else do dropMark; pure rv

def assignIndexE (cfg : Cfg) (id : Nat) (e : M MVal) (idxs : M (List Nat)) : M Flow := do
  let v ← e
  pushT v
  let path ← idxs
  let v ← popT
  let v' ← promoteIf cfg v
  let old ← modifyVar id path (fun o => some (v', o))
  freeIf cfg old
  pure .normal

def ifE (c : M MVal) (t e : M Flow) : M Flow := do
  let _ ← c
  let b ← tokBr
  if b then t else e

/-- One loop test and iteration; `again` is the rest of the loop. -/
def loopE (cfg : Cfg) (c : M MVal) (body again : M Flow) : M Flow := do
  let _ ← c
  let go ← tokLp
  if go then do
    pushMark cfg 0
    let fl ← body
    match fl with
    | .brk => do dropMark; pure .normal
    | .ret => do dropMarkUnderTop; pure .ret
    | _ => do
      resetToMark cfg 0
      again
  else pure .normal

def blockE (stmts : List Stmt) (body : M Flow) : M Flow := do
  pushScope
  addFns (hoist stmts)
  let fl ← body
  popScope
  pure fl

def seqE (s rest : M Flow) : M Flow := do
  let fl ← s
  match fl with
  | .normal => rest
  | other => pure other

def retE (e : M MVal) : M Flow := do
  let v ← e
  pushT v
  pure .ret

def idxE (isp : Span) (e : M MVal) (rest : M (List Nat)) : M (List Nat) := do
  let v ← e
  match v with
  | .scalar => do
    errAt 6 isp; errAt 4 isp
    let k ← tokIx
    let ks ← rest
    pure (k :: ks)
  | _ => shapeError

def pushArgE (e : M MVal) (rest : M Nat) : M Nat := do
  let v ← e
  pushT v
  let n ← rest
  pure (n + 1)

/-- One argument of a process-command setter: evaluated, checked (`eval_required_string` → error 5,
`eval_timeout_ms` → error 7, both with the call's span) and copied to the persistent arena. -/
def dropArgE (sp : Span) (e : M MVal) (rest : M Unit) : M Unit := do
  let v ← e
  errAt 5 sp; errAt 7 sp
  readV 61 v
  rest

def varE (cfg : Cfg) (id : Nat) : M MVal := do
  let v ← getVar id
  copyRead cfg v

def interpE (segs : List Seg) : M MVal := do
  readSegs segs
  let ct ← freshCt
  let h ← allocFrame true ct
  pure (.leaf h)

def discardE (e : M MVal) : M MVal := do
  let _ ← e
  pure .scalar

def exprStmtE (e : M MVal) : M Flow := do
  let _ ← e
  pure .normal

def defineE (cfg : Cfg) (id : Nat) (e : M MVal) : M Flow := do
  let v ← e
  define cfg id v
  pure .normal

def assignE (cfg : Cfg) (id : Nat) (e : M MVal) : M Flow := do
  let v ← e
  assign cfg id v
  pure .normal

mutual
  def eval (cfg : Cfg) : Nat → Expr → M MVal
    | 0, _ => halt .fuelOut
    | f + 1, e => do
      errAt 3 e.span
      match e with
      | .num _ _ => pure .scalar
      | .bool _ _ => pure .scalar
      | .null _ => pure .scalar
      | .str (.static _) _ => pure (.leaf staticStr)
      | .str (.interp segs) _ => interpE segs
      | .var _ (some id) _ => varE cfg id
      | .var _ none _ => halt (.stuck 22)
      | .binary .and l r _ => andOrE (eval cfg f l) (eval cfg f r)
      | .binary .or l r _ => andOrE (eval cfg f l) (eval cfg f r)
      | .binary op l r sp => binE op sp (eval cfg f l) (eval cfg f r)
      | .unary _ e _ => discardE (eval cfg f e)
      | .array es _ => arrayE (evalPush cfg f es)
      | .index a i isp _ => indexE isp (eval cfg f a) (eval cfg f i)
      | .member _ _ _ _ => halt (.stuck 16)
      | .call (.member obj field _ _) args _ sp =>
        if arrayMut.contains field then
          match flattenTarget obj [] with
          | none =>
            -- the receiver is not an l-value: the error is raised after the argument was evaluated
            if field == b!"push" then
              match args with
              | [a] => pushFailE cfg (eval cfg f a)
              | _ => halt (.stuck 17)
            else shapeError
          | some (id, idxs) =>
            if field == b!"push" then
              match args with
              | [a] => pushE cfg id (eval cfg f a) (evalIdxs cfg f idxs)
              | _ => halt (.stuck 17)
            else popRevE (field == b!"pop") id (evalIdxs cfg f idxs)
        else if commandMut.contains field then
          match flattenTarget obj [] with
          | none => argsFailE (evalDrop cfg f sp args)
          | some (id, idxs) => cmdMutE id (evalDrop cfg f sp args) (evalIdxs cfg f idxs)
        else methodE field sp (eval cfg f obj) (evalPush cfg f args)
      | .call (.var name _ _) args fn sp =>
        if isGlobalBuiltin name then
          match args with
          | [a] => builtinE cfg name sp (eval cfg f a)
          | _ => halt (.stuck 17)
        else
          match fn with
          | none => halt (.stuck 18)
          | some fid => do
            let fd ← getFn fid
            callE cfg args.length fd.params (evalPush cfg f args) (execBlock cfg f fd.body)
      | .call _ _ _ _ => halt (.stuck 25)
  /-- Evaluates the expressions left to right, leaving each value on the temporaries stack. -/
  def evalPush (cfg : Cfg) : Nat → List Expr → M Nat
    | 0, _ => halt .fuelOut
    | _ + 1, [] => pure 0
    | f + 1, e :: es => pushArgE (eval cfg f e) (evalPush cfg f es)
  /-- Evaluates the expressions left to right; each value is read and dropped. -/
  def evalDrop (cfg : Cfg) : Nat → Span → List Expr → M Unit
    | 0, _, _ => halt .fuelOut
    | _ + 1, _, [] => pure ()
    | f + 1, sp, e :: es => dropArgE sp (eval cfg f e) (evalDrop cfg f sp es)
  /-- `eval_index_value` over the index expressions of an l-value. -/
  def evalIdxs (cfg : Cfg) : Nat → List (Expr × Span) → M (List Nat)
    | 0, _ => halt .fuelOut
    | _ + 1, [] => pure []
    | f + 1, (e, isp) :: es => idxE isp (eval cfg f e) (evalIdxs cfg f es)
  def exec (cfg : Cfg) : Nat → Stmt → M Flow
    | 0, _ => halt .fuelOut
    | f + 1, st =>
      match st with
      | .assign _ _ e (some id) _ _ => defineE cfg id (eval cfg f e)
      | .assignExisting _ _ e (some id) _ _ => assignE cfg id (eval cfg f e)
      | .assign _ _ _ none _ _ => halt (.stuck 22)
      | .assignExisting _ _ _ none _ _ => halt (.stuck 22)
      | .assignIndex target e _ _ =>
        match flattenTarget target [] with
        | none => halt (.stuck 26)
        | some (id, idxs) => assignIndexE cfg id (eval cfg f e) (evalIdxs cfg f idxs)
      | .ifS c t e _ _ =>
        ifE (eval cfg f c) (execBlock cfg f t)
          (match e with
            | some eb => execBlock cfg f eb
            | none => pure .normal)
      | .loop c b _ _ => loopGo cfg f c b
      | .block b _ _ => execBlock cfg f b
      | .fnDef _ _ _ _ _ _ _ => pure .normal
      | .ret none _ _ => retE (pure .scalar)
      | .ret (some e) _ _ => retE (eval cfg f e)
      | .brk _ _ => pure .brk
      | .cont _ _ => pure .cont
      | .expr e _ _ => exprStmtE (eval cfg f e)
  def loopGo (cfg : Cfg) : Nat → Expr → Block → M Flow
    | 0, _, _ => halt .fuelOut
    | f + 1, c, b => loopE cfg (eval cfg f c) (execBlock cfg f b) (loopGo cfg f c b)
  def execBlock (cfg : Cfg) : Nat → Block → M Flow
    | 0, _ => halt .fuelOut
    | f + 1, .mk stmts _ => blockE stmts (execStmts cfg f stmts)
  def execStmts (cfg : Cfg) : Nat → List Stmt → M Flow
    | 0, _ => halt .fuelOut
    | _ + 1, [] => pure .normal
    | f + 1, s :: ss => seqE (exec cfg f s) (execStmts cfg f ss)
end

def pools0 : List Pool :=
  (List.range classCount).map (fun c => Pool.new 0 (slotSizeOf c) (slotCountOf c))

def St.init (ctl : List CTok) (lay : List Nat) : St :=
  { env := [[]], fns := [[]], out := [], temps := [], frame := [], top := 0, pools := pools0,
    slots := [], nextCid := 1, ctl := ctl, lay := lay, events := [], obs := [], nextCt := 1 }

/-- `Runtime::run_inner`. -/
def run (cfg : Cfg) (fuel : Nat) (prog : Block) (ctl : List CTok) (lay : List Nat) : Res Flow :=
  (do let fl ← execBlock cfg fuel prog; popScope; pure fl : M Flow) (St.init ctl lay)

def Res.stopped : Res α → Option Stop
  | .ok _ _ => none
  | .stop o _ => some o

def Res.state : Res α → St
  | .ok _ s => s
  | .stop _ s => s

def Stop.isPoisoned : Stop → Bool
  | .poisoned _ => true
  | _ => false

/-- The run read storage that had been recycled. -/
def Res.poisonedRead (r : Res α) : Bool :=
  match r.stopped with
  | some o => o.isPoisoned
  | none => false

/-- The run released a pool slot that was not live (double free / free of a foreign buffer). -/
def Res.illegalFree (r : Res α) : Bool :=
  match r.stopped with
  | some .badFree => true
  | _ => false

end NaijaVerif.Mem
