/-
Model of the capture runner `src/sys/process_common.rs::run_host_process` as a labelled transition
system (family `capture`, property C16).

Threads of the real code and where they are in the model:

* the **child** (`Child`, the two `Side.pending`): writes its planned bytes to either stream in any
  order and granularity, blocks on a full pipe, gets `EPIPE`/`SIGPIPE` once the runner has closed the
  read end, may **close its end of a stream (or redirect it elsewhere) and keep running**
  (`childClose`, `Side.wopen`: after its last byte to that stream — one stream, the other, or both,
  having written nothing, something, or everything — and then sleep, exit later, or never exit),
  ends as planned (exit code, own signal, or never). `Plan.out`/`Plan.err` are the bytes the child
  writes to a stream *while it has it open*: a `write` after the `close` fails with `EBADF` (or goes
  to whatever the descriptor was redirected to) and reaches no pipe, so it is not part of the plan;
* two **reader threads** (`read_captured_stream`, `Side.rd`/`Side.acc`): `read` (≤ `chunk` bytes,
  blocking), `n == 0 → break`, `buf.len() + n > max →` CAS on the overflow flag `(0 → code)` and
  `break` (the buffer keeps what it had: a *truncated* prefix), else `extend`; a `read` may also
  **fail** (`rdFail`: `EINTR`, `EIO`, … — std's pipe `read` does not retry): `?` ends the thread with
  `Err`, its buffer is lost, the read end is closed; `join_capture` turns the `Err` into
  `ProcessError::SpawnFailed` (`Err.readFailed`) *before* it looks at the flag;
* the **stdin writer thread** (`spawn_stdin_writer`, `Inp`): exists only for `StdinPolicy::Text`;
  one `write_all` of the whole text into a pipe of capacity `pipeCap`, which blocks while the pipe
  is full and the child does not read; empty text → `Ok` at once; `EPIPE` (the child closed its
  stdin or is gone) → `Ok`; any other write error (`wrFail`) → `Err`; the child's stdin is closed
  when the thread ends. The child reads its stdin or not, and closes it, as it likes
  (`childRead`, `childCloseIn`);
* the **main thread** (`Pc`): `wait_for_child` (`load` flag → kill path; `try_wait`; deadline check;
  `sleep` — on **every** iteration, whatever the reader threads have seen: end of file on a captured
  stream says that the child closed a descriptor, not that it is about to exit), `terminate_child`
  (`kill`, `wait`), then — **after** the wait loop — `join_writer`
  (an `Err` of the writer is `SpawnFailed`, `Err.writeFailed`; ignored on the error path), then
  `join_capture` twice (join the reader, re-load the flag, `String::from_utf8`), on the error path
  with the results ignored. `stepMainWF` is the *other* order (writer joined before the wait loop,
  seeded change C16-c2) and `stepMainWE` the wait loop that stops polling and calls the blocking
  `child.wait()` once every captured stream is at end of file (seeded change C16-d1); both are kept to
  show by a concrete execution that they are wrong.

Every read and write of the shared flag is its own step. Executions are arbitrary interleavings:
`run` applies any list of labels whose steps are all enabled.

Assumed about the OS (this is what makes C16 *partial*). After each item: could a realistic change
of the Rust code hide behind it, and what the tie (`checks/c16.py`, family `capture`) does about it.

1. A pipe delivers bytes in order, `read` returns `min(requested, available)` when there is data, and
   `0` exactly when the pipe is empty and **every write end is closed**. The child's own write end is
   modelled (`Side.wopen`: it closes when the child closes or redirects the descriptor, or is gone).
   *Could hide a change:* yes — any shortcut that takes "the readers have finished" for "the child has
   finished" (seeded change C16-d1: blocking `wait` once the readers are done) lives exactly here; this
   is why "`0` only when the child is gone", which earlier versions of this file assumed, is no longer
   assumed. Tie: `corpus/C16/close.txt` and `gen --mode close` (children that close / redirect stdout,
   stderr or both at a chosen point and go on); source tie `gen_wait_loop_polls_unconditionally`.
2. **No other process holds a write end**: the write ends of the capture pipes exist only in the child.
   A grandchild that inherits them and outlives the child keeps them open after the child is reaped:
   the readers then do *not* see end of file when the child is gone, `rdEof` is not enabled, and
   `join_capture` blocks for as long as the grandchild lives — on the success path, on the timeout
   path, and on the overflow path when the *other* captured stream is still held (`kill` reaches the
   child only). Observed on the unchanged tree (helper child token `F<ms>`): the run returns when the
   grandchild exits, seconds after a 300 ms timeout; never, if it never exits. *Could hide a change:*
   yes, and it hides a property of the unchanged code (not of a change): see DESIGN.md §5 C16 and
   `corpus/C16/grandchild.txt`; the model is deliberately not extended to make that behaviour
   "allowed". Everything proved here is for children whose descendants do not keep the pipes open;
   the tie runs a grandchild that detaches (`G<ms>`) and one that inherits no pipe (`F<ms>`, nothing
   captured): the runner must not wait for either.
3. A write to a pipe blocks while it is full and fails with `EPIPE` exactly when the read end is closed
   (the runner's reader stopped; for stdin: the child closed it or is dead, and no grandchild holds it).
   *Could hide a change:* hardly — the runner's only writes are the stdin writer's, and what it does on
   `EPIPE` is modelled (`wrEpipe`) and tied (`gen_writer_joined_after_wait`, `capture-stdin`); a
   grandchild holding the *stdin* read end makes the writer block after the child is gone — same
   finding as item 2, same scenarios (`F…` with `stdin=`).
4. `SIGKILL` turns a live child into a zombie; `wait`/`try_wait` reap a zombie and only a zombie.
   *Could hide a change:* no realistic one — a change that stops killing or stops reaping is a change
   of the modelled statements (`Pc.kill`, `Pc.reap`), caught by the tie's "pid must be gone" oracle.
5. `try_wait`, `kill`, `wait` and thread joins do not fail and threads do not panic (`spawn` failing is
   outside the model). *Could hide a change:* a little — an `Err` of `try_wait` leaves `wait_for_child`
   as `SpawnFailed` past `terminate_child` (the child is neither killed nor reaped on that path, the
   joins follow). It needs no code change to happen, only an environment: a runner that *inherits*
   `SIGCHLD = SIG_IGN` (`trap '' CHLD; exec …`) has its children reaped by the kernel, `try_wait` then
   fails with `ECHILD` once the child has exited, and every ordinary run ends in `SpawnFailed`
   (observed; the child is gone by then, nothing is shortened). A process-wide signal disposition
   cannot be part of a scenario of the shared harness: stays assumed, reported in DESIGN.md. A panic
   in a reader thread would need a change of the reader loop, which the `rd` stream runs directly.
6. *Which* reads / writes fail is arbitrary (any `rdFail`/`wrFail` whenever a `read`/`write` is
   pending). *Could hide a change:* no — this is a generality, not a restriction (seed C16-c1 landed
   where it used to be one).
7. The child's age and the runner's clock tick together (`age`, `now`), and the timing theorems are for
   *prompt* executions. *Could hide a change:* only one that moves `Instant::now()` relative to the
   spawn (seed C16-c2 did, by joining the writer first; `gen_writer_joined_after_wait`) or that stops
   looking at the clock under some condition (C16-d1; `gen_wait_loop_polls_unconditionally`).

What the stdin text *is* and whether the child receives it is C15, not modelled: only its length
matters here.

Core-only imports (linked into `nvdriver`).
-/
import NaijaVerif.Model.Bytes

namespace NaijaVerif.Capture

/-! ## UTF-8 validity (`String::from_utf8`), as a byte automaton -/

/-- Decoder state: `need` continuation bytes outstanding, the next one within `[lo, hi]`. -/
structure U8 where
  need : Nat
  lo : Nat
  hi : Nat
deriving DecidableEq, Repr

/-- One byte of the well-formedness table (Unicode Table 3-7: no overlongs, no surrogates,
nothing above U+10FFFF), which is what `core::str::from_utf8` checks. -/
def u8step (st : Option U8) (b : Nat) : Option U8 :=
  match st with
  | none => none
  | some ⟨0, _, _⟩ =>
      if b < 128 then some ⟨0, 0, 0⟩
      else if 194 ≤ b && b ≤ 223 then some ⟨1, 128, 191⟩
      else if b == 224 then some ⟨2, 160, 191⟩
      else if (225 ≤ b && b ≤ 236) || b == 238 || b == 239 then some ⟨2, 128, 191⟩
      else if b == 237 then some ⟨2, 128, 159⟩
      else if b == 240 then some ⟨3, 144, 191⟩
      else if 241 ≤ b && b ≤ 243 then some ⟨3, 128, 191⟩
      else if b == 244 then some ⟨3, 128, 143⟩
      else none
  | some ⟨n + 1, lo, hi⟩ => if lo ≤ b && b ≤ hi then some ⟨n, 128, 191⟩ else none

def U8.accepting : Option U8 → Bool
  | some ⟨0, _, _⟩ => true
  | _ => false

def validUtf8 (bs : Bytes) : Bool := U8.accepting (bs.foldl u8step (some ⟨0, 0, 0⟩))

/-! ## Configuration, plan, state -/

inductive Strm where
  | out
  | err
deriving DecidableEq, Repr

inductive Policy where
  | inherit
  | null
  | capture
deriving DecidableEq, Repr

/-- How the child ends when nobody interferes. -/
inductive Ending where
  | code (n : Nat)     -- `exit(n)`
  | signal             -- killed by a signal of its own making: `ExitStatus::code() = None`
  | never              -- hangs
deriving DecidableEq, Repr

/-- `ExitStatus::code()` of the planned ending; `none` = never ends. -/
def Ending.status : Ending → Option (Option Nat)
  | .code n => some (some n)
  | .signal => some none
  | .never => none

structure Cfg where
  cap     : Nat        -- `caps.max_capture_bytes_per_stream`
  chunk   : Nat        -- reader's `chunk` array (8192 in the code, `Gen.Capture.chunk`)
  pipeCap : Nat        -- capacity of an OS pipe
  polOut  : Policy
  polErr  : Policy
  timeout : Nat        -- `spec.timeout_ms`, in ticks
  poll    : Nat        -- `caps.wait_poll_ms`
  /-- Which `join_capture` is modelled: `true` = the code after the D-16 fix (any non-zero flag is
  reported as `OutputLimitExceeded(stream_from_code(flag))` before the buffer is validated);
  `false` = the pinned commit (only the stream's own code is recognised, so the reader that lost
  the CAS has its truncated buffer validated). `Gen.Capture.joinAnyFlag` says which one /repo has. -/
  fixedJoin : Bool
  /-- `spec.stdin`: `some n` = `StdinPolicy::Text` of `n` bytes (a pipe and a writer thread),
  `none` = `Null` / `Inherit` (neither). -/
  stdin : Option Nat := none
deriving DecidableEq, Repr

/-- What the child was told to do. -/
structure Plan where
  out    : Bytes
  err    : Bytes
  ending : Ending
  /-- Does a write to a pipe whose read end is closed kill the child (default `SIGPIPE`
  disposition), or does it merely fail with `EPIPE` (the harness's helper child)? -/
  sigpipeDies : Bool
  /-- The child does not end by itself before it is this many ticks old (the sum of its sleeps). -/
  endAfter : Nat := 0
deriving DecidableEq, Repr

def Cfg.pol (cfg : Cfg) : Strm → Policy
  | .out => cfg.polOut
  | .err => cfg.polErr

def Cfg.captured (cfg : Cfg) (x : Strm) : Bool := cfg.pol x == .capture

def Plan.bytes (p : Plan) : Strm → Bytes
  | .out => p.out
  | .err => p.err

/-- Reader thread of one stream. -/
inductive Rd where
  | absent             -- stream not captured: no pipe, no thread
  | idle               -- about to call `read`
  | got (c : Bytes)    -- `read` returned the chunk `c`, size check not yet done
  | eof                -- finished after `n == 0`
  | ovf                -- finished after the size check failed (flag CAS attempted), read end closed
  | failed             -- finished with `Err`: a `read` failed and `?` left the loop; read end closed
deriving DecidableEq, Repr

/-- The stdin writer thread. -/
inductive Wr where
  | absent             -- stdin is not `Text`: no pipe, no thread
  | busy               -- in (or about to call) `write_all`
  | fin                -- ended with `Ok(())`: everything written, empty text, or `BrokenPipe`
  | failed             -- ended with `Err`: a write error other than `BrokenPipe`
deriving DecidableEq, Repr

/-- The child's stdin. Only lengths: which bytes arrive is C15's business. -/
structure Inp where
  pending   : Nat      -- bytes of the text the writer has still to write
  pipe      : Nat      -- bytes in the pipe
  wr        : Wr
  childOpen : Bool     -- the child has not closed its stdin
deriving DecidableEq, Repr

/-- Everything that belongs to one stream. -/
structure Side where
  pending : Bytes      -- child: still to write
  written : Bytes      -- ghost: what the child has written so far
  pipe    : Bytes
  acc     : Bytes      -- the reader's `buf`
  rd      : Rd
  wopen   : Bool       -- the child still has its end of the stream open (not closed / redirected)
deriving DecidableEq, Repr

inductive Cause where
  | plan               -- ended as planned
  | sigpipe            -- died writing to a pipe the runner had closed
  | killed             -- `child.kill()`
deriving DecidableEq, Repr

inductive Child where
  | alive
  | zombie (st : Option Nat) (c : Cause)
  | reaped (st : Option Nat) (c : Cause)
deriving DecidableEq, Repr

inductive Err where
  | ole (x : Strm)        -- `ProcessError::OutputLimitExceeded`
  | badUtf8 (x : Strm)    -- `ProcessError::InvalidUtf8`
  | timeout               -- `ProcessError::Timeout`
  | readFailed (x : Strm) -- `ProcessError::SpawnFailed(e)`, `e` from the reader thread of `x`
  | writeFailed           -- `ProcessError::SpawnFailed(e)`, `e` from the stdin writer thread
deriving DecidableEq, Repr

inductive Outcome where
  | ok (code : Option Nat) (out err : Option Bytes)   -- `ProcessResult` (`success` = `code == Some 0`)
  | error (e : Err)
deriving DecidableEq, Repr

/-- Program counter of the main thread. -/
inductive Pc where
  | load                                     -- `overflow.load(Acquire)`
  | tryWait                                  -- `child.try_wait()`
  | deadline                                 -- `start.elapsed() >= timeout`
  | sleep (wake : Nat)                       -- `thread::sleep(sleep_for)`
  | kill (e : Err)                           -- `terminate_child`: `child.kill()`
  | reap (e : Err)                           -- `terminate_child`: `child.wait()`
  | eJoinWr (e : Err)                        -- error path: `let _ = join_writer(writer)`
  | eJoinOut (e : Err)                       -- error path: `let _ = join_capture(stdout, …)`
  | eJoinErr (e : Err)                       -- error path: `let _ = join_capture(stderr, …)`
  | joinWr (st : Option Nat)                 -- `join_writer(writer)`, `Err → SpawnFailed`
  | joinOut (st : Option Nat)                -- `join_capture(stdout)`: `handle.join()`, `Err → SpawnFailed`
  | flagOut (st : Option Nat)                -- … `overflow.load == 1`?, `String::from_utf8`
  | joinErr (st : Option Nat) (ro : Option Bytes)
  | flagErr (st : Option Nat) (ro : Option Bytes)
  | done (r : Outcome)
  | preJoinWr                                -- only in `stepMainWF`: `join_writer` *before* the wait loop
  | drainFlag (wake : Nat)                   -- only in `stepMainWE`: readers all finished; `overflow.load() == 0`?
  | blockWait                                -- only in `stepMainWE`: the blocking `child.wait()`
deriving DecidableEq, Repr

structure State where
  o     : Side
  e     : Side
  i     : Inp
  child : Child
  flag  : Nat          -- the `AtomicU8`: 0 = none, 1 = stdout, 2 = stderr
  now   : Nat          -- ticks since `Instant::now()` at the start of `wait_for_child`
  age   : Nat          -- ticks since the child was started
  pc    : Pc
deriving DecidableEq, Repr

def State.side (s : State) : Strm → Side
  | .out => s.o
  | .err => s.e

def State.setSide (s : State) (x : Strm) (d : Side) : State :=
  match x with
  | .out => { s with o := d }
  | .err => { s with e := d }

/-- `stream_code`. -/
def code : Strm → Nat
  | .out => 1
  | .err => 2

/-- `stream_from_code` (`1 => Stdout, _ => Stderr`). -/
def fromCode (c : Nat) : Strm := if c = 1 then .out else .err

def Side.init (pol : Policy) (bytes : Bytes) : Side :=
  { pending := bytes, written := [], pipe := [], acc := [],
    rd := if pol = .capture then .idle else .absent, wopen := true }

def Inp.init : Option Nat → Inp
  | none => { pending := 0, pipe := 0, wr := .absent, childOpen := true }
  | some n => { pending := n, pipe := 0, wr := .busy, childOpen := true }

def init (cfg : Cfg) (plan : Plan) : State :=
  { o := Side.init cfg.polOut plan.out, e := Side.init cfg.polErr plan.err, i := Inp.init cfg.stdin,
    child := .alive, flag := 0, now := 0, age := 0, pc := .load }

/-! ## Steps of one side -/

/-- The child writes the next `n` bytes: to the pipe if the stream is captured (blocks when they do
not fit; fails when the read end is closed), into the void otherwise. Impossible once the child has
closed its end of the stream. -/
def Side.write (pipeCap : Nat) (d : Side) (n : Nat) : Option Side :=
  if n = 0 ∨ d.pending.length < n ∨ d.wopen = false then none else
  match d.rd with
  | .absent => some { d with pending := d.pending.drop n, written := d.written ++ d.pending.take n }
  | .idle | .got _ =>
      if d.pipe.length + n ≤ pipeCap then
        some { d with pending := d.pending.drop n, written := d.written ++ d.pending.take n,
                      pipe := d.pipe ++ d.pending.take n }
      else none
  | .eof | .ovf | .failed => none

/-- A write to a pipe whose read end the reader has closed (it stopped on the size check, or a
`read` failed) fails with `EPIPE`; the child gives up on these `n` bytes and carries on. -/
def Side.drop (d : Side) (n : Nat) : Option Side :=
  if n = 0 ∨ d.pending.length < n then none else
  match d.rd with
  | .ovf | .failed => some { d with pending := d.pending.drop n }
  | _ => none

/-- `reader.read(&mut chunk)` with data available: `min(chunk, available)` bytes. -/
def Side.read (chunk : Nat) (d : Side) : Option Side :=
  match d.rd with
  | .idle =>
      if chunk = 0 ∨ d.pipe = [] then none
      else some { d with rd := .got (d.pipe.take chunk), pipe := d.pipe.drop chunk }
  | _ => none

/-- `read` returns 0: the pipe is empty and every write end is closed — the child is gone, **or it
has closed its end and lives on**. -/
def Side.eof (childAlive : Bool) (d : Side) : Option Side :=
  match d.rd with
  | .idle =>
      if d.pipe = [] ∧ (childAlive = false ∨ d.wopen = false) then some { d with rd := .eof } else none
  | _ => none

/-- The child closes its end of the stream (`close(1)`, `exec 1>&-`, `dup2(open("/dev/null"), 1)`, a
daemon detaching) after its last byte to it, and keeps running. What is in the pipe stays readable. -/
def Side.close (d : Side) : Option Side :=
  if d.wopen = true ∧ d.pending = [] then some { d with wopen := false } else none

/-- `reader.read(&mut chunk)` returns `Err` (whatever the pipe holds, whether or not the child is
alive): `?` ends the thread. -/
def Side.fail (d : Side) : Option Side :=
  match d.rd with
  | .idle => some { d with rd := .failed }
  | _ => none

/-- The size check after a successful `read`: over the cap → CAS `(0 → code)` and stop, keeping
the buffer as it was; otherwise `extend_from_slice`. Returns the side and the new flag. -/
def Side.check (cap : Nat) (myCode : Nat) (flag : Nat) (d : Side) : Option (Side × Nat) :=
  match d.rd with
  | .got c =>
      if d.acc.length + c.length > cap then
        some ({ d with rd := .ovf }, if flag = 0 then myCode else flag)
      else some ({ d with rd := .idle, acc := d.acc ++ c }, flag)
  | _ => none

/-- The overflow test of `join_capture(x)`: which stream, if any, it reports as over the limit. -/
def joinOverflow (fixedJoin : Bool) (flag : Nat) (x : Strm) : Option Strm :=
  if fixedJoin then (if flag ≠ 0 then some (fromCode flag) else none)
  else (if flag = code x then some x else none)

/-- The thread has finished with `Ok(buf)` (or never existed). -/
def Side.joined (d : Side) : Bool :=
  match d.rd with
  | .absent | .eof | .ovf => true
  | _ => false

/-- The thread has finished, with `Ok` or `Err` (or never existed): `handle.join()` returns. -/
def Side.finished (d : Side) : Bool :=
  match d.rd with
  | .absent | .eof | .ovf | .failed => true
  | _ => false

/-- The read end of the reader's pipe is closed (the `ChildStdout`/`ChildStderr` was dropped). -/
def Side.closed (d : Side) : Bool :=
  match d.rd with
  | .ovf | .failed => true
  | _ => false

/-! ## Steps of the stdin pipe -/

/-- Somebody can still read from the stdin pipe. -/
def Inp.readable (childAlive : Bool) (i : Inp) : Bool := childAlive && i.childOpen

/-- One `write` inside `write_all`: `n` more bytes go into the pipe (blocks when they do not fit). -/
def Inp.write (pipeCap : Nat) (childAlive : Bool) (i : Inp) (n : Nat) : Option Inp :=
  match i.wr with
  | .busy =>
      if 0 < n ∧ n ≤ i.pending ∧ i.readable childAlive = true ∧ i.pipe + n ≤ pipeCap then
        some { i with pending := i.pending - n, pipe := i.pipe + n }
      else none
  | _ => none

/-- Everything written (or the text was empty): the thread ends with `Ok(())`. -/
def Inp.finish (i : Inp) : Option Inp :=
  match i.wr with
  | .busy => if i.pending = 0 then some { i with wr := .fin } else none
  | _ => none

/-- `write` fails with `EPIPE` — nobody can read any more — which the thread maps to `Ok(())`. -/
def Inp.epipe (childAlive : Bool) (i : Inp) : Option Inp :=
  match i.wr with
  | .busy => if 0 < i.pending ∧ i.readable childAlive = false then some { i with wr := .fin } else none
  | _ => none

/-- `write` fails with another error: the thread ends with `Err`. -/
def Inp.fail (i : Inp) : Option Inp :=
  match i.wr with
  | .busy => if 0 < i.pending then some { i with wr := .failed } else none
  | _ => none

/-- The child reads `n` bytes of its stdin. -/
def Inp.childRead (i : Inp) (n : Nat) : Option Inp :=
  if 0 < n ∧ n ≤ i.pipe ∧ i.childOpen = true then some { i with pipe := i.pipe - n } else none

/-- The child closes its stdin. -/
def Inp.childClose (i : Inp) : Option Inp :=
  if i.childOpen = true then some { i with childOpen := false } else none

/-- The writer thread has finished (or never existed): `join_writer` returns. -/
def Inp.finished (i : Inp) : Bool :=
  match i.wr with
  | .busy => false
  | _ => true

/-! ## The transition relation -/

inductive Label where
  | childWrite (x : Strm) (n : Nat)
  | childDrop (x : Strm) (n : Nat)
  | childSigpipe (x : Strm)
  | childEnd
  | childClose (x : Strm) -- the child closes (or redirects away) its stdout / stderr and keeps running
  | rdRead (x : Strm)
  | rdCheck (x : Strm)
  | rdEof (x : Strm)
  | rdFail (x : Strm)    -- a `read` of the captured stream fails
  | wrWrite (n : Nat)    -- the stdin writer gets `n` more bytes into the pipe
  | wrEnd                -- … has written everything
  | wrEpipe              -- … gets `EPIPE`
  | wrFail               -- … gets another write error
  | childRead (n : Nat)  -- the child reads `n` bytes of its stdin
  | childCloseIn         -- the child closes its stdin
  | main                 -- the main thread executes the statement at its program counter
  | tick                 -- one unit of time passes
deriving DecidableEq, Repr

def Child.isAlive : Child → Bool
  | .alive => true
  | _ => false

/-- The main thread's next statement. `none` = blocked (sleeping, waiting in `join`/`wait`) or finished. -/
def stepMain (cfg : Cfg) (s : State) : Option State :=
  match s.pc with
  | .load =>
      if s.flag ≠ 0 then some { s with pc := .kill (.ole (fromCode s.flag)) }
      else some { s with pc := .tryWait }
  | .tryWait =>
      match s.child with
      | .zombie st c => some { s with child := .reaped st c, pc := .joinWr st }
      | .alive => some { s with pc := .deadline }
      | .reaped _ _ => none
  | .deadline =>
      if cfg.timeout ≤ s.now then some { s with pc := .kill .timeout }
      else some { s with pc := .sleep (s.now + max cfg.poll 1) }
  | .sleep wake => if wake ≤ s.now then some { s with pc := .load } else none
  | .kill e =>
      match s.child with
      | .alive => some { s with child := .zombie none .killed, pc := .reap e }
      | _ => some { s with pc := .reap e }
  | .reap e =>
      match s.child with
      | .zombie st c => some { s with child := .reaped st c, pc := .eJoinWr e }
      | _ => none
  | .eJoinWr e => if s.i.finished then some { s with pc := .eJoinOut e } else none
  | .eJoinOut e => if s.o.finished then some { s with pc := .eJoinErr e } else none
  | .eJoinErr e => if s.e.finished then some { s with pc := .done (.error e) } else none
  | .joinWr st =>
      match s.i.wr with
      | .busy => none
      | .failed => some { s with pc := .done (.error .writeFailed) }
      | .absent | .fin => some { s with pc := .joinOut st }
  | .joinOut st =>
      match s.o.rd with
      | .absent => some { s with pc := .joinErr st none }
      | .eof | .ovf => some { s with pc := .flagOut st }
      | .failed => some { s with pc := .done (.error (.readFailed .out)) }
      | _ => none
  | .flagOut st =>
      match joinOverflow cfg.fixedJoin s.flag .out with
      | some y => some { s with pc := .done (.error (.ole y)) }
      | none =>
          if validUtf8 s.o.acc then some { s with pc := .joinErr st (some s.o.acc) }
          else some { s with pc := .done (.error (.badUtf8 .out)) }
  | .joinErr st ro =>
      match s.e.rd with
      | .absent => some { s with pc := .done (.ok st ro none) }
      | .eof | .ovf => some { s with pc := .flagErr st ro }
      | .failed => some { s with pc := .done (.error (.readFailed .err)) }
      | _ => none
  | .flagErr st ro =>
      match joinOverflow cfg.fixedJoin s.flag .err with
      | some y => some { s with pc := .done (.error (.ole y)) }
      | none =>
          if validUtf8 s.e.acc then some { s with pc := .done (.ok st ro (some s.e.acc)) }
          else some { s with pc := .done (.error (.badUtf8 .err)) }
  | .done _ => none
  | .preJoinWr => none      -- not a statement of this program
  | .drainFlag _ => none    -- not a statement of this program
  | .blockWait => none      -- not a statement of this program

def step (cfg : Cfg) (plan : Plan) (s : State) : Label → Option State
  | .childWrite x n =>
      if s.child.isAlive then (Side.write cfg.pipeCap (s.side x) n).map (s.setSide x) else none
  | .childDrop x n =>
      if s.child.isAlive then (Side.drop (s.side x) n).map (s.setSide x) else none
  | .childSigpipe x =>
      if s.child.isAlive ∧ plan.sigpipeDies = true ∧ (s.side x).closed = true ∧ (s.side x).pending ≠ [] then
        some { s with child := .zombie none .sigpipe }
      else none
  | .childEnd =>
      if s.child.isAlive ∧ s.o.pending = [] ∧ s.e.pending = [] ∧ plan.endAfter ≤ s.age then
        match plan.ending.status with
        | some st => some { s with child := .zombie st .plan }
        | none => none
      else none
  | .childClose x =>
      if s.child.isAlive then (Side.close (s.side x)).map (s.setSide x) else none
  | .rdRead x => (Side.read cfg.chunk (s.side x)).map (s.setSide x)
  | .rdCheck x =>
      (Side.check cfg.cap (code x) s.flag (s.side x)).map (fun r => { s.setSide x r.1 with flag := r.2 })
  | .rdEof x => (Side.eof s.child.isAlive (s.side x)).map (s.setSide x)
  | .rdFail x => (Side.fail (s.side x)).map (s.setSide x)
  | .wrWrite n => (Inp.write cfg.pipeCap s.child.isAlive s.i n).map (fun i => { s with i := i })
  | .wrEnd => (Inp.finish s.i).map (fun i => { s with i := i })
  | .wrEpipe => (Inp.epipe s.child.isAlive s.i).map (fun i => { s with i := i })
  | .wrFail => (Inp.fail s.i).map (fun i => { s with i := i })
  | .childRead n => if s.child.isAlive then (Inp.childRead s.i n).map (fun i => { s with i := i }) else none
  | .childCloseIn => if s.child.isAlive then (Inp.childClose s.i).map (fun i => { s with i := i }) else none
  | .main => stepMain cfg s
  | .tick => match s.pc with
      | .done _ => none
      | _ => some { s with now := s.now + 1, age := s.age + 1 }

/-- An execution: every step must be enabled. -/
def run (cfg : Cfg) (plan : Plan) : State → List Label → Option State
  | s, [] => some s
  | s, l :: ls =>
      match step cfg plan s l with
      | some s' => run cfg plan s' ls
      | none => none

def State.result (s : State) : Option Outcome :=
  match s.pc with
  | .done r => some r
  | _ => none

/-! ## The other order: the stdin writer joined *before* the wait loop (seeded change C16-c2)

```text
if let Err(err) = join_writer(writer) { terminate_child(&mut child); return Err(SpawnFailed(err)); }
let status = match wait_for_child(..) { Ok(s) => s, Err(err) => { join_capture ×2; return Err(err) } };
join_capture(stdout)?; join_capture(stderr)?
```
`wait_for_child` takes `start = Instant::now()` when it is entered: the runner's clock restarts. The
writer-error path is routed through the ordinary kill path (the changed code does not join the
readers there; immaterial for what this definition is used for). -/

def stepMainWF (cfg : Cfg) (s : State) : Option State :=
  match s.pc with
  | .preJoinWr =>
      match s.i.wr with
      | .busy => none
      | .failed => some { s with pc := .kill .writeFailed }
      | .absent | .fin => some { s with pc := .load, now := 0 }
  | .tryWait =>
      match s.child with
      | .zombie st c => some { s with child := .reaped st c, pc := .joinOut st }
      | .alive => some { s with pc := .deadline }
      | .reaped _ _ => none
  | .reap e =>
      match s.child with
      | .zombie st c => some { s with child := .reaped st c, pc := .eJoinOut e }
      | _ => none
  | _ => stepMain cfg s

def stepWF (cfg : Cfg) (plan : Plan) (s : State) (l : Label) : Option State :=
  if l = .main then stepMainWF cfg s else step cfg plan s l

def runWF (cfg : Cfg) (plan : Plan) : State → List Label → Option State
  | s, [] => some s
  | s, l :: ls =>
      match stepWF cfg plan s l with
      | some s' => runWF cfg plan s' ls
      | none => none

def initWF (cfg : Cfg) (plan : Plan) : State := { init cfg plan with pc := .preJoinWr }

/-! ## The wait loop that stops polling at end of file (seeded change C16-d1)

```text
loop {
    if overflow.load() != 0 { terminate_child; return Err(OutputLimitExceeded) }
    if let Some(status) = child.try_wait()? { return Ok(status) }
    if start.elapsed() >= timeout { terminate_child; return Err(Timeout) }
    if captures_drained(readers) && overflow.load() == 0 { return child.wait() }   // <- added
    thread::sleep(sleep_for);
}
```
`captures_drained`: at least one stream is captured and every capture reader thread has returned
(`JoinHandle::is_finished`). From then on neither the clock nor the flag is looked at again. -/

/-- `captures_drained`. -/
def State.drained (s : State) : Bool :=
  (s.o.rd != .absent || s.e.rd != .absent) && s.o.finished && s.e.finished

def stepMainWE (cfg : Cfg) (s : State) : Option State :=
  match s.pc with
  | .deadline =>
      if cfg.timeout ≤ s.now then some { s with pc := .kill .timeout }
      else if s.drained then some { s with pc := .drainFlag (s.now + max cfg.poll 1) }
      else some { s with pc := .sleep (s.now + max cfg.poll 1) }
  | .drainFlag wake =>
      if s.flag = 0 then some { s with pc := .blockWait } else some { s with pc := .sleep wake }
  | .blockWait =>
      match s.child with
      | .zombie st c => some { s with child := .reaped st c, pc := .joinWr st }
      | _ => none
  | _ => stepMain cfg s

def stepWE (cfg : Cfg) (plan : Plan) (s : State) (l : Label) : Option State :=
  if l = .main then stepMainWE cfg s else step cfg plan s l

def runWE (cfg : Cfg) (plan : Plan) : State → List Label → Option State
  | s, [] => some s
  | s, l :: ls =>
      match stepWE cfg plan s l with
      | some s' => runWE cfg plan s' ls
      | none => none

/-- The main thread is *prompt* in an execution: time passes only while it is blocked (it is never
descheduled with a statement ready to run, and `sleep` does not oversleep). `mainF`/`stepF` select
the program (`stepMain`/`step`, or the `WF` pair). -/
def prompt (mainF : State → Option State) (stepF : State → Label → Option State) :
    State → List Label → Bool
  | _, [] => true
  | s, l :: ls =>
      (l != .tick || (mainF s).isNone) &&
        (match stepF s l with
         | some s' => prompt mainF stepF s' ls
         | none => true)

/-! ## The reader loop on a scripted `Read` (tie of `rdFail`: request `rd` of the `capture` protocol)

`read_captured_stream<R: Read>` is generic; the harness calls it (hook `verif_read_captured_stream`)
on a reader that plays a script. `readLoop` is the same loop on the same script;
`Props/C16.lean` proves it equal to iterating the transition system's own reader steps
(`Side.read`, `Side.check`, `Side.eof`, `Side.fail`). -/

inductive RdEv where
  | data (c : Bytes)   -- `read` returns `c.length` bytes (`data []` is a zero-length read)
  | zero               -- `read` returns `Ok(0)`
  | fail               -- `read` returns `Err(_)`
deriving DecidableEq, Repr

inductive RdRes where
  | ok (buf : Bytes)   -- `Ok(buf)`
  | err                -- `Err(_)`
deriving DecidableEq, Repr

/-- `read_captured_stream(reader, cap, my, flag)`: result and final value of the flag. A script that
runs out behaves like end of file. -/
def readLoop (cap my : Nat) : (flag : Nat) → (buf : Bytes) → List RdEv → RdRes × Nat
  | flag, buf, [] => (.ok buf, flag)
  | flag, buf, .zero :: _ => (.ok buf, flag)
  | flag, _, .fail :: _ => (.err, flag)
  | flag, buf, .data c :: rest =>
      if c = [] then (.ok buf, flag)
      else if buf.length + c.length > cap then (.ok buf, if flag = 0 then my else flag)
      else readLoop cap my flag (buf ++ c) rest

/-- The reader hands `read` a buffer of `chunk` bytes: a longer piece of data arrives in several reads. -/
def splitChunk (chunk : Nat) : (fuel : Nat) → Bytes → List RdEv
  | 0, c => [.data c]
  | fuel + 1, c =>
      if chunk = 0 ∨ c.length ≤ chunk then [.data c]
      else .data (c.take chunk) :: splitChunk chunk fuel (c.drop chunk)

def expandEvents (chunk : Nat) : List RdEv → List RdEv
  | [] => []
  | .data c :: rest => splitChunk chunk c.length c ++ expandEvents chunk rest
  | e :: rest => e :: expandEvents chunk rest

/-- `join_capture(x)` for a reader thread that ended with `r`, the flag at `flag`. -/
inductive JoinRes where
  | text (b : Bytes)
  | error (e : Err)
deriving DecidableEq, Repr

def joinCapture (fixedJoin : Bool) (flag : Nat) (x : Strm) : RdRes → JoinRes
  | .err => .error (.readFailed x)
  | .ok buf =>
      match joinOverflow fixedJoin flag x with
      | some y => .error (.ole y)
      | none => if validUtf8 buf then .text buf else .error (.badUtf8 x)

/-! ## The outcomes the theorem allows for a given configuration and plan

`allowed` is the closed form that `Props/C16.lean` proves sound for every terminal state of every
execution, and that the driver prints for the tie. -/

/-- The child wrote (or would write) more than the cap to a captured stream. -/
def over (cfg : Cfg) (plan : Plan) (x : Strm) : Bool :=
  cfg.captured x && decide (cfg.cap < (plan.bytes x).length)

/-- What a complete result holds for stream `x`. -/
def expect (cfg : Cfg) (plan : Plan) (x : Strm) : Option Bytes :=
  if cfg.captured x then some (plan.bytes x) else none

/-- Scan: is the decoder in a non-accepting state after 0, 1, …, `fuel` more bytes? -/
def prefixInvalidFrom : Option U8 → Nat → Bytes → Bool
  | st, fuel, bs =>
      !U8.accepting st ||
        (match fuel, bs with
         | f + 1, b :: r => prefixInvalidFrom (u8step st b) f r
         | _, _ => false)

/-- Some prefix of at most `cap` bytes is not valid UTF-8 (a cut inside a character). -/
def prefixInvalid (cap : Nat) (b : Bytes) : Bool := prefixInvalidFrom (some ⟨0, 0, 0⟩) cap b

def allowed (cfg : Cfg) (plan : Plan) : Outcome → Bool
  | .error .timeout => true
  | .error (.ole x) => over cfg plan x
  | .ok st out err =>
      plan.ending.status == some st && !over cfg plan .out && !over cfg plan .err
        && out == expect cfg plan .out && err == expect cfg plan .err
        && (!cfg.captured .out || validUtf8 plan.out) && (!cfg.captured .err || validUtf8 plan.err)
  | .error (.badUtf8 .out) =>
      cfg.captured .out &&
        ((!over cfg plan .out && !validUtf8 plan.out)
          || (!cfg.fixedJoin && over cfg plan .err && (over cfg plan .out || plan.sigpipeDies)
                && prefixInvalid cfg.cap plan.out))
  | .error (.badUtf8 .err) =>
      cfg.captured .err && !over cfg plan .err && !over cfg plan .out && !validUtf8 plan.err
        && (!cfg.captured .out || validUtf8 plan.out)
  | .error (.readFailed _) => false     -- needs a failing `read`: see `faultAllowed`
  | .error .writeFailed => false        -- needs a failing `write`

/-- What a **fault** of the runner's own I/O adds: `fo`/`fe` = a `read` of stdout/stderr has failed,
`fw` = a `write` of the stdin text has failed (with an error other than `EPIPE`). Never an `ok`.
`InvalidUtf8(stdout)`: stderr's reader failed and closed its pipe, the child died of `SIGPIPE`
writing to it, and what it had written to stdout until then ends inside a character. -/
def faultAllowed (cfg : Cfg) (plan : Plan) (fo fe fw : Bool) : Outcome → Bool
  | .error (.readFailed .out) => fo
  | .error (.readFailed .err) => fe
  | .error .writeFailed => fw
  | .error (.badUtf8 .out) =>
      fe && plan.sigpipeDies && cfg.captured .out && prefixInvalid cfg.cap plan.out
  | _ => false

/-- The allowed outcomes in state `s` (whose fault marks are permanent). -/
def allowedIn (cfg : Cfg) (plan : Plan) (s : State) (r : Outcome) : Bool :=
  allowed cfg plan r ||
    faultAllowed cfg plan (s.o.rd == .failed) (s.e.rd == .failed) (s.i.wr == .failed) r

/-- With the main thread prompt, a child that is still asleep one poll interval after the deadline
is never reported as a success (`outliving_child_is_never_ok`): the `ok` candidates of the tie. -/
def allowedTimed (cfg : Cfg) (plan : Plan) : Outcome → Bool
  | .ok st out err =>
      allowed cfg plan (.ok st out err) && decide (plan.endAfter < cfg.timeout + max cfg.poll 1)
  | r => allowed cfg plan r

/-- The shape of D-16 (pinned `join_capture` only): `InvalidUtf8(stdout)` although everything the
child was told to write to stdout is valid UTF-8 and it does not die half-way. -/
def d16Shape (cfg : Cfg) (plan : Plan) : Bool :=
  allowed cfg plan (.error (.badUtf8 .out)) && validUtf8 plan.out && !plan.sigpipeDies

/-- All candidate outcomes, for the driver. -/
def candidates (cfg : Cfg) (plan : Plan) : List Outcome :=
  (match plan.ending.status with
   | some st => [.ok st (expect cfg plan .out) (expect cfg plan .err)]
   | none => []) ++
  [.error (.ole .out), .error (.ole .err), .error (.badUtf8 .out), .error (.badUtf8 .err),
   .error .timeout, .error (.readFailed .out), .error (.readFailed .err), .error .writeFailed]

def allowedList (cfg : Cfg) (plan : Plan) : List Outcome :=
  (candidates cfg plan).filter (allowedTimed cfg plan)

end NaijaVerif.Capture
