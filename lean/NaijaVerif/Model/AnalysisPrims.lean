import NaijaVerif.Model.Eval
import NaijaVerif.Model.AnalysisEval
/-
The primitives of the shared evaluator model `Model/Eval.lean` as an instance of the
abstract `Prims` of the C03 evaluator `Model/AnalysisEval.lean`, for a number type `[NumOps N]` and
a run configuration `cfg` (of which only `std`, `policy`, `runProc` matter here).

The instance is for the CURRENT code: `cfg.panics = false`, so a fixed site is the runtime error
`site.fallback` and a residual site is `Err.panic`; spans are dropped (`Err.rt` carries the
`RtKind` only); `read_line` is the empty string (the bridge is for `cfg.input = []`); an index value
of a receiver / target path is checked as soon as it is computed (`idxChk`) and decoded where the path
is walked (`idxDec`).  A number lexeme that does not parse is `0` here (`Lawful.num` needs a value): the
refinement is for programs whose number lexemes parse (the scanner's guarantee, `NumLitsParse`).

Core-only (linked into `nvdriver`): the driver instantiates `evalPrims` at the float `NumOps` instance
and runs `AEval.run` on the real annotated AST, facts and plan (`arun` requests of family `plan`), so
the very instance the closed theorem `c03_concrete` (`Props/C03.lean`) speaks about is compared with
the real runtime, with and without the plan.  `Lawful` for this instance: `evalPrims_lawful`
(`Lemmas/AnalysisRefineLawful.lean`).
-/
namespace NaijaVerif.C03
open NaijaVerif NaijaVerif.Analysis

variable {N : Type} [NumOps N]

/-! ### Error kinds -/

def rtCode : Eval.RtKind → Nat
  | .io => 0 | .divisionByZero => 1 | .stackOverflow => 2 | .indexOutOfBounds => 3 | .typeMismatch => 4
  | .invalidIndex => 5 | .undefinedVariable => 6 | .processUnsupported => 7 | .processDenied => 8
  | .processSpawnFailed => 9 | .processTimeout => 10 | .processOutputLimitExceeded => 11
  | .processInvalidUtf8 => 12 | .processSpecInvalid => 13

def rtDecode : Nat → Eval.RtKind
  | 0 => .io | 1 => .divisionByZero | 2 => .stackOverflow | 3 => .indexOutOfBounds | 4 => .typeMismatch
  | 5 => .invalidIndex | 6 => .undefinedVariable | 7 => .processUnsupported | 8 => .processDenied
  | 9 => .processSpawnFailed | 10 => .processTimeout | 11 => .processOutputLimitExceeded
  | 12 => .processInvalidUtf8 | _ => .processSpecInvalid

theorem rtDecode_code (k : Eval.RtKind) : rtDecode (rtCode k) = k := by cases k <;> rfl

/-- The ending a site has in the current code (`trap` with `cfg.panics = false`). -/
def siteErr (site : Eval.PanicSite) : AEval.Err :=
  if site.fixed then .rt (rtCode site.fallback) else .panic

def faultErr : Eval.Fault → AEval.Err
  | .rt k _ => .rt (rtCode k)
  | .panic site => siteErr site

def liftE {α : Type} : Except Eval.Fault α → Except AEval.Err α
  | .ok a => .ok a
  | .error flt => .error (faultErr flt)

def tmErr : AEval.Err := .rt (rtCode .typeMismatch)

/-! ### Index values as values

`Prims.idx` returns a value: the checked index value itself is carried (a non-negative integral
number), and decoded again (`idxDec`) where the path is walked.  (A unary encoding — an array of that
length — would make the instance unusable as a program: `arr[2147483648] get 1`.) -/

def noSpan : Span := ⟨0, 0⟩

def idxDec (v : Eval.Value N) : Nat :=
  match Eval.indexValue v noSpan with
  | .ok n => n
  | .error _ => 0

/-- `eval_index_value`: the check made on an index value as soon as it is computed. -/
def idxChk (v : Eval.Value N) : Except AEval.Err (Eval.Value N) :=
  (liftE (Eval.indexValue v noSpan)).map fun _ => v

/-- An evaluated path as `walkMut` / `walkAssign` want it (spans only matter for the error span). -/
def pathOf (pvs : List (Eval.Value N)) : List (Nat × Span) := pvs.map fun v => (idxDec v, noSpan)

/-! ### Interpolated strings -/

/-- `eval_string_expr` from the values of the interpolated variables, in order. -/
def buildInterp : List Seg → List (Eval.Value N) → Bytes → Bytes
  | [], _, acc => acc
  | .lit s :: rest, vs, acc => buildInterp rest vs (acc ++ s)
  | .var _ _ :: rest, v :: vs, acc => buildInterp rest vs (acc ++ v.display)
  | .var _ _ :: rest, [], acc => buildInterp rest [] acc

/-! ### Methods -/

/-- Positions a non-mutating method of this receiver reads (`pick args m.argIdx`), or its error. -/
def memberSelE (field : Bytes) : Eval.Value N → Except AEval.Err (List Nat)
  | .str _ =>
    match Eval.StrM.ofName field with
    | some m => .ok (m.argIdx.map (·.1))
    | none => .error tmErr
  | .num _ =>
    match Eval.NumM.ofName field with
    | some _ => .ok []
    | none => .error tmErr
  | .arr _ =>
    match Eval.ArrM.ofName field with
    | some .len => .ok []
    | some .join => .ok [0]
    | _ => .error tmErr
  | .host (.command _) =>
    match Eval.CmdM.ofName field with
    | some .run => .ok []
    | _ => .error tmErr
  | .host (.result _) =>
    match Eval.ResM.ofName field with
    | some _ => .ok []
    | none => .error tmErr
  | .bool _ => .error (siteErr .boolReceiver)
  | .null => .error tmErr

/-- `run` on a process command without the state (`runCommand`). -/
def runCommandE (cfg : Eval.RunCfg) (c : Proc.Cmd) : Except AEval.Err (Eval.Value N) :=
  if cfg.policy.allow = false then .error (.rt (rtCode .processDenied))
  else
    match Proc.validate c cfg.policy.caps with
    | .error _ => .error (.rt (rtCode .processSpecInvalid))
    | .ok spec =>
      match cfg.runProc spec with
      | .error k => .error (.rt (rtCode k))
      | .ok r => .ok (.host (.result r))

def memberE (cfg : Eval.RunCfg) (field : Bytes) (recv : Eval.Value N) (vs : List (Eval.Value N)) :
    Except AEval.Err (Eval.Value N) :=
  match recv with
  | .str s =>
    match Eval.StrM.ofName field with
    | some m => liftE (Eval.strMethod cfg.std m s vs)
    | none => .error tmErr
  | .num n =>
    match Eval.NumM.ofName field with
    | some m => .ok (Eval.numMethod m n)
    | none => .error tmErr
  | .arr xs =>
    match Eval.ArrM.ofName field with
    | some .len => .ok (.num (NumOps.ofInt xs.length))
    | some .join =>
      match vs with
      | [.str sep] => .ok (.str (Eval.joinItems sep xs true))
      | _ => .error (siteErr .joinSep)
    | _ => .error tmErr
  | .host (.command c) =>
    match Eval.CmdM.ofName field with
    | some .run => runCommandE cfg c
    | _ => .error tmErr
  | .host (.result r) =>
    match Eval.ResM.ofName field with
    | some m => .ok (Eval.resMethod m r)
    | none => .error tmErr
  | .bool _ => .error (siteErr .boolReceiver)
  | .null => .error tmErr

/-- The checks `evalMutOp` makes on an argument value before it goes on. -/
def chkString (v : Eval.Value N) : Except AEval.Err (Eval.Value N) :=
  (liftE (Eval.requiredString v noSpan)).map fun _ => v
def chkTimeout (v : Eval.Value N) : Except AEval.Err (Eval.Value N) :=
  (liftE (Eval.timeoutMs v noSpan)).map fun _ => v

def mutStepsM : Eval.MutM → List (Nat × (Eval.Value N → Except AEval.Err (Eval.Value N)))
  | .push => [(0, .ok)]
  | .cmd .arg => [(0, .ok)]
  | .cmd .cwd => [(0, chkString)]
  | .cmd .env => [(0, chkString), (1, .ok)]
  | .cmd .stdinText => [(0, .ok)]
  | .cmd .timeoutMs => [(0, chkTimeout)]
  | _ => []

def strOf : Eval.Value N → Bytes
  | .str s => s
  | _ => []

def msOf (v : Eval.Value N) : Nat :=
  match Eval.timeoutMs v noSpan with
  | .ok ms => ms
  | .error _ => 0

/-- The mutation, from the values of the arguments read. -/
def mutOpOf : Eval.MutM → List (Eval.Value N) → Eval.MutOp N
  | .push, [v] => .push v
  | .push, _ => .pop
  | .pop, _ => .pop
  | .reverse, _ => .reverse
  | .cmd .arg, [v] => .cmd (.arg v.display)
  | .cmd .cwd, [v] => .cmd (.cwd (strOf v))
  | .cmd .env, [k, v] => .cmd (.env (strOf k) v.display)
  | .cmd .stdinText, [v] => .cmd (.stdinText v.display)
  | .cmd .timeoutMs, [v] => .cmd (.timeout (msOf v))
  | .cmd .stdinInherit, _ => .cmd .stdinInherit
  | .cmd .stdinNull, _ => .cmd .stdinNull
  | .cmd .stdoutCapture, _ => .cmd .stdoutCapture
  | .cmd .stdoutInherit, _ => .cmd .stdoutInherit
  | .cmd .stdoutNull, _ => .cmd .stdoutNull
  | .cmd .stderrCapture, _ => .cmd .stderrCapture
  | .cmd .stderrInherit, _ => .cmd .stderrInherit
  | .cmd .stderrNull, _ => .cmd .stderrNull
  | .cmd _, _ => .cmd .clone

/-- `applyMut` without the state: walk the path from the root value, mutate the cell. -/
def mutMemberE (field : Bytes) (root : Eval.Value N) (pvs avs : List (Eval.Value N)) :
    Except AEval.Err (Eval.Value N × Eval.Value N) :=
  match Eval.MutM.ofName field with
  | none => .error .panic
  | some m =>
    match Eval.walkMut root (pathOf pvs) with
    | .error flt => .error (faultErr flt)
    | .ok cell =>
      match (mutOpOf m avs).apply cell noSpan with
      | .error flt => .error (faultErr flt)
      | .ok (cell', res) => .ok (Eval.setPath root ((pathOf pvs).map (·.1)) cell', res)

def setPathE (root : Eval.Value N) (pvs : List (Eval.Value N)) (v : Eval.Value N) : Except AEval.Err (Eval.Value N) :=
  match Eval.walkAssign noSpan root (pathOf pvs) with
  | .error flt => .error (faultErr flt)
  | .ok () => .ok (Eval.setPath root ((pathOf pvs).map (·.1)) v)

/-! ### Nodes -/

def nodeE : Expr → List (Eval.Value N) → Except AEval.Err (Eval.Value N)
  | .num lex _, _ => .ok (.num ((NumOps.ofLit lex).getD (NumOps.ofInt 0)))
  | .str (.static s) _, _ => .ok (.str s)
  | .str (.interp segs) _, rs => .ok (.str (buildInterp segs rs []))
  | .bool b _, _ => .ok (.bool b)
  | .null _, _ => .ok .null
  | .binary op _ _ sp, [a, b] =>
    match Eval.ArithOp.ofBin op with
    | some o => liftE (Eval.arith o a b sp)
    | none => .error .panic
  | .unary op _ _, [a] => liftE (Eval.unary op a)
  | .array _ _, vs => .ok (.arr vs)
  | .index _ _ isp _, [a, i] => liftE (Eval.indexRead a i isp)
  | .member _ _ _ _, _ => .error (siteErr .bareMember)
  | .call _ _ _ _, _ => .error (siteErr .calleeShape)
  | _, _ => .error .panic

def globalE (name : Bytes) (vs : List (Eval.Value N)) : Except AEval.Err (Eval.Value N) :=
  match Eval.GlobalB.ofName name, vs with
  | some .typeOf, [v] => .ok (.str v.typeOf)
  | some .readLine, [_] => .ok (.str [])
  | some .toString, [v] => .ok (.str v.display)
  | some .command, [.str p] => .ok (.host (.command (Proc.Cmd.new p)))
  | some .command, [_] => .error (siteErr .commandArg)
  | some .shout, [_] => .ok .null
  | _, _ => .error .panic

/-- **The instance.** -/
def evalPrims (cfg : Eval.RunCfg) (ds ss : Nat → Option Nat) : AEval.Prims (Eval.Value N) where
  null := .null
  node := nodeE
  falsy := Eval.andStops
  truthy := Eval.orStops
  logicRhs := fun v => liftE (Eval.logicRhs .andRhs v)
  logicShort := fun op => match op with | .or => .bool true | _ => .bool false
  cond := fun v => liftE (Eval.truthy .ifCond v)
  isGlobal := fun name => (Eval.GlobalB.ofName name).isSome
  isShout := fun name => Eval.GlobalB.ofName name == some .shout
  global := globalE
  isMut := fun field => (Eval.MutM.ofName field).isSome
  memberSel := memberSelE
  member := fun e recv vs => match e with
    | .call (.member _ field _ _) _ _ _ => memberE cfg field recv vs
    | _ => .error .panic
  argMissing := tmErr
  mutSteps := fun field => match Eval.MutM.ofName field with | some m => mutStepsM m | none => []
  mutMember := mutMemberE
  setPath := setPathE
  idx := idxChk
  lvErr := tmErr
  dscope := ds
  sscope := ss

end NaijaVerif.C03
