/-
Model of `src/arena/pool.rs`: size classes, one `Pool` (slot block + LIFO free list + virgin bump
pointer + live counter) and the 20-class `PoolSet` with arena fallback.

Core-only imports (this file is linked into the `nvdriver` executable).

Addresses are natural numbers relative to the base of the backing arena; `live` is a ghost field
(the code has only `live_count`).
-/
namespace NaijaVerif.Pool

/-- `size_class` as written in `pool.rs` (`n.saturating_sub(1) / 8`, `16 + (n - 129) / 32`). -/
def sizeClass (n : Nat) : Option Nat :=
  if n ≤ 128 then some ((n - 1) / 8)
  else if n ≤ 256 then some (16 + (n - 129) / 32)
  else none

/-- `SLOT_SIZES[c]` as the two `while` loops of the const initialiser compute it. -/
def slotSizeOf (c : Nat) : Nat := if c < 16 then (c + 1) * 8 else 128 + (c - 15) * 32

/-- `SLOT_COUNTS[c]`. -/
def slotCountOf (c : Nat) : Nat :=
  if c < 4 then 16384 else if c < 8 then 4096 else if c < 16 then 1024 else 512

def classCount : Nat := 20

structure Pool where
  base      : Nat        -- address of slot 0 (relative to the arena base)
  slotSize  : Nat
  slotCount : Nat
  bump      : Nat        -- next never-used slot
  free      : List Nat   -- LIFO free list, head = top of stack
  live      : List Nat   -- ghost: indices currently handed out
  liveCount : Nat
deriving Repr

def Pool.new (base sz cnt : Nat) : Pool :=
  { base := base, slotSize := sz, slotCount := cnt, bump := 0, free := [], live := [], liveCount := 0 }

/-- `Pool::alloc`: pop the free list, else take the next virgin slot, else `None`. -/
def Pool.alloc (p : Pool) : Option (Nat × Pool) :=
  match p.free with
  | i :: rest =>
      some (i, { p with free := rest, live := i :: p.live, liveCount := p.liveCount + 1 })
  | [] =>
      if p.bump < p.slotCount then
        some (p.bump, { p with bump := p.bump + 1, live := p.bump :: p.live,
                               liveCount := p.liveCount + 1 })
      else none

/-- `Pool::dealloc` for slot index `i` (the code pushes the index unconditionally). -/
def Pool.dealloc (p : Pool) (i : Nat) : Pool :=
  { p with free := i :: p.free, live := p.live.erase i, liveCount := p.liveCount - 1 }

def Pool.total (p : Pool) : Nat := p.slotSize * p.slotCount

def Pool.slotAddr (p : Pool) (i : Nat) : Nat := p.base + i * p.slotSize

/-- `SlotBlock::contains`: `(ptr as usize).wrapping_sub(base) < total` on 64-bit words. -/
def containsWrap (base total a : Nat) : Bool :=
  decide ((a + 2 ^ 64 - base) % 2 ^ 64 < total)

def Pool.contains (p : Pool) (a : Nat) : Bool := containsWrap p.base p.total a

/-- `SlotBlock::index_of`. -/
def Pool.indexOf (p : Pool) (a : Nat) : Option Nat :=
  let off := (a + 2 ^ 64 - p.base) % 2 ^ 64
  if off ≥ p.total ∨ off % p.slotSize ≠ 0 then none else some (off / p.slotSize)

/-- The pool invariant (I-1 exclusive ownership bookkeeping, I-2 conservation). -/
structure Pool.Inv (p : Pool) : Prop where
  freeNodup : p.free.Nodup
  liveNodup : p.live.Nodup
  disjoint  : ∀ i, i ∈ p.free → i ∉ p.live
  below     : ∀ i, (i ∈ p.free ∨ i ∈ p.live) ↔ i < p.bump
  bumpLe    : p.bump ≤ p.slotCount
  liveLen   : p.liveCount = p.live.length
  count     : p.free.length + p.live.length = p.bump

/-! ## Pool set -/

def alignUp (off a : Nat) : Nat := (off + a - 1) / a * a

/-- A buffer handed out by the set. -/
inductive Buf where
  | pool  (cls idx : Nat) (addr len : Nat)
  | arena (addr len : Nat)
deriving Repr, DecidableEq

def Buf.addr : Buf → Nat
  | .pool _ _ a _ => a
  | .arena a _ => a

def Buf.len : Buf → Nat
  | .pool _ _ _ l => l
  | .arena _ l => l

structure PoolSet where
  pools    : List Pool
  arenaOff : Nat          -- offset of the backing arena after the last allocation
deriving Repr

/-- `PoolSet::new` on an arena whose offset is `off0`: per class a slot block (align 8) followed by
a free-list array of `u32` (align 4). -/
def PoolSet.newAux : Nat → Nat → Nat → List Pool
  | 0, _, _ => []
  | n + 1, c, off =>
      let b := alignUp off 8
      let afterBlock := b + slotSizeOf c * slotCountOf c
      let fl := alignUp afterBlock 4
      Pool.new b (slotSizeOf c) (slotCountOf c) :: PoolSet.newAux n (c + 1) (fl + 4 * slotCountOf c)

def PoolSet.offAfter : Nat → Nat → Nat → Nat
  | 0, _, off => off
  | n + 1, c, off =>
      let b := alignUp off 8
      let afterBlock := b + slotSizeOf c * slotCountOf c
      let fl := alignUp afterBlock 4
      PoolSet.offAfter n (c + 1) (fl + 4 * slotCountOf c)

def PoolSet.new (off0 : Nat) : PoolSet :=
  { pools := PoolSet.newAux classCount 0 off0, arenaOff := PoolSet.offAfter classCount 0 off0 }

def setAt (l : List α) (i : Nat) (x : α) : List α := l.set i x

/-- `PoolSet::alloc(size)`. -/
def PoolSet.alloc (s : PoolSet) (size : Nat) : Buf × PoolSet :=
  let fallback : Buf × PoolSet := (.arena s.arenaOff size, { s with arenaOff := s.arenaOff + size })
  match sizeClass size with
  | some c =>
      match s.pools[c]? with
      | some p =>
          match p.alloc with
          | some (i, p') => (.pool c i (p.slotAddr i) p.slotSize, { s with pools := s.pools.set c p' })
          | none => fallback
      | none => fallback
  | none => fallback

/-- `PoolSet::dealloc(ptr, size)`: address based, exactly as the code decides it. -/
def PoolSet.dealloc (s : PoolSet) (addr size : Nat) : PoolSet :=
  match sizeClass size with
  | some c =>
      match s.pools[c]? with
      | some p =>
          if p.contains addr then
            match p.indexOf addr with
            | some i => { s with pools := s.pools.set c (p.dealloc i) }
            | none => s   -- the code panics here (`expect`); unreachable for buffers it handed out
          else s
      | none => s
  | none => s

def PoolSet.contains (s : PoolSet) (a : Nat) : Bool := s.pools.any (·.contains a)

end NaijaVerif.Pool
