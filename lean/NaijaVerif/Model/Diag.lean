import NaijaVerif.Model.Token
/-
Diagnostics vocabulary shared by the lexer, parser, resolver, analysis and runtime models
(`src/diagnostics.rs`, the error enums of `scanner.rs`, `parser.rs`, `resolver.rs`,
`analysis/limits.rs`, `runtime.rs`).  The canonical text of a diagnostic in the line protocols is
`<sev>:<code>:<message with ' ' ',' ':' replaced by '_'>:<start>:<end>` (`harness/src/pipeline.rs::diags_str`).
-/
namespace NaijaVerif

inductive Sev where
  | error | warning | note
deriving DecidableEq, Repr, Inhabited

inductive DiagKind where
  -- LexError (code "lexical")
  | unexpectedChar | invalidNumber | invalidIdentifier | invalidStringEscape | unterminatedString
  -- SyntaxError (code "syntax")
  | expectedStatement | expectedIdentifier | expectedGetAfterIdentifier | expectedLParen
  | expectedRParen | expectedRBracket | expectedStartBlock | unterminatedBlock
  | expectedComparisonOperator | expectedNumberOrVariableOrLParen | trailingTokens
  | synReservedKeyword | invalidAssignmentTarget | synNestingTooDeep
  -- SemanticError (code "semantic")
  | duplicateIdentifier | assignmentToUndeclared | typeMismatch | undeclaredIdentifier
  | functionCallArity | unreachableCode | unusedAssignment | unusedVariable | unusedFunction
  | semReservedKeyword | semNestingTooDeep
  -- analysis (code "analysis")
  | analysisLimit
deriving DecidableEq, Repr, Inhabited

/-- The `code` string of the Rust diagnostic. -/
def DiagKind.code : DiagKind → String
  | .unexpectedChar | .invalidNumber | .invalidIdentifier | .invalidStringEscape
  | .unterminatedString => "lexical"
  | .expectedStatement | .expectedIdentifier | .expectedGetAfterIdentifier | .expectedLParen
  | .expectedRParen | .expectedRBracket | .expectedStartBlock | .unterminatedBlock
  | .expectedComparisonOperator | .expectedNumberOrVariableOrLParen | .trailingTokens
  | .synReservedKeyword | .invalidAssignmentTarget | .synNestingTooDeep => "syntax"
  | .duplicateIdentifier | .assignmentToUndeclared | .typeMismatch | .undeclaredIdentifier
  | .functionCallArity | .unreachableCode | .unusedAssignment | .unusedVariable | .unusedFunction
  | .semReservedKeyword | .semNestingTooDeep => "semantic"
  | .analysisLimit => "analysis"

/-- The `message` string (`AsStr::as_str`) with `' '`, `','`, `':'` replaced by `'_'`. -/
def DiagKind.msg : DiagKind → String
  | .unexpectedChar => "Unexpected_character"
  | .invalidNumber => "Invalid_number"
  | .invalidIdentifier => "Invalid_identifier"
  | .invalidStringEscape => "Invalid_string_escape"
  | .unterminatedString => "Unterminated_string"
  | .expectedStatement => "Missing_statement"
  | .expectedIdentifier => "Missing_identifier"
  | .expectedGetAfterIdentifier => "Missing_`get`_after_identifier"
  | .expectedLParen => "Missing_left_parenthesis"
  | .expectedRParen => "Missing_right_parenthesis"
  | .expectedRBracket => "Missing_right_bracket"
  | .expectedStartBlock => "Missing_start_block"
  | .unterminatedBlock => "Missing_end_block"
  | .expectedComparisonOperator => "Missing_comparison_operator"
  | .expectedNumberOrVariableOrLParen => "Missing_number__variable__or_left_parenthesis"
  | .trailingTokens => "Unexpected_token"
  | .synReservedKeyword => "Use_of_reserved_keyword"
  | .invalidAssignmentTarget => "Invalid_assignment_target"
  | .synNestingTooDeep => "Program_nest_too_deep"
  | .duplicateIdentifier => "Duplicate_identifier"
  | .assignmentToUndeclared => "Assignment_to_undeclared_variable"
  | .typeMismatch => "Type_mismatch"
  | .undeclaredIdentifier => "Undeclared_identifier"
  | .functionCallArity => "Invalid_parameter_count"
  | .unreachableCode => "Unreachable_code"
  | .unusedAssignment => "Unused_assignment"
  | .unusedVariable => "Unused_variable"
  | .unusedFunction => "Unused_function"
  | .semReservedKeyword => "Use_of_reserved_keyword"
  | .semNestingTooDeep => "Program_nest_too_deep"
  | .analysisLimit => "Analysis_skipped_after_reaching_a_configured_resource_limit"

structure Diag where
  sev : Sev
  kind : DiagKind
  span : Span
  /-- spans of the attached labels (their text is not modelled) -/
  labels : List Span := []
deriving DecidableEq, Repr, Inhabited

def Sev.name : Sev → String
  | .error => "error" | .warning => "warning" | .note => "note"

def Diag.str (d : Diag) : String :=
  s!"{d.sev.name}:{d.kind.code}:{d.kind.msg}:{d.span.lo}:{d.span.hi}"

/-- Canonical list form: comma separated, `-` when empty. -/
def diagsStr (ds : List Diag) : String :=
  if ds.isEmpty then "-" else ",".intercalate (ds.map Diag.str)

/-- Label spans, for the span-safety checks of C07: `lo:hi` joined by `;`, diagnostics by `,`. -/
def labelsStr (ds : List Diag) : String :=
  if ds.isEmpty then "-" else
    ",".intercalate (ds.map fun d =>
      if d.labels.isEmpty then "-" else ";".intercalate (d.labels.map fun s => s!"{s.lo}:{s.hi}"))

def hasErrors (ds : List Diag) : Bool := ds.any (·.sev == .error)

end NaijaVerif
