/-
Depth — native-stack accounting over a call-graph abstraction of the interpreter's recursion
(`src/runtime.rs`, and the unguarded front end: `scanner.rs`, `parser.rs`, `resolver.rs`, `analysis/cfg.rs`).

What is modelled: which Rust function may call which (edges), which frames probe the native stack
against `STACK_BUDGET` on entry (`guarded`), and a *symbolic* frame cost `c f` per function — the
compiled frame sizes are outside any model; the check measures them on the real binary.

A native stack is a list of frames, most recent first.  A frame may make a call only if it passed
its guard: a guarded frame `f` sitting on a stack `s` calls only when `depth s ≤ budget`
(`check_stack` compares `stack_base - &probe`, an address *inside* the new frame, with the budget;
passing implies that the depth below the frame is within the budget).  A guarded frame that fails the
check is a leaf (it returns the `StackOverflow` error at once).

Core-only (linked into `nvdriver`).
-/
import NaijaVerif.Model.Bytes

namespace NaijaVerif.Depth

/-- A call graph with guard annotations. -/
structure Graph (α : Type) where
  edges : List (α × α)
  guarded : α → Bool

variable {α : Type} [DecidableEq α]

def Graph.succ (g : Graph α) (f : α) : List α :=
  (g.edges.filter (fun e => e.1 = f)).map (·.2)

/-- Total cost of a native stack. -/
def depth (c : α → Nat) : List α → Nat
  | [] => 0
  | f :: s => c f + depth c s

/-- Stacks (most recent frame first) that the interpreter can build from `root`. -/
inductive Reachable (g : Graph α) (c : α → Nat) (budget : Nat) (root : α) : List α → Prop
  | root : Reachable g c budget root [root]
  | call {f h : α} {s : List α} :
      Reachable g c budget root (f :: s) → (f, h) ∈ g.edges →
      (g.guarded f = true → depth c s ≤ budget) →
      Reachable g c budget root (h :: f :: s)

/-- One machine step: a call (push) allowed by the guard discipline, or a return (pop). -/
inductive Step (g : Graph α) (c : α → Nat) (budget : Nat) : List α → List α → Prop
  | push {f h : α} {s : List α} : (f, h) ∈ g.edges →
      (g.guarded f = true → depth c s ≤ budget) → Step g c budget (f :: s) (h :: f :: s)
  | pop {h f : α} {s : List α} : Step g c budget (h :: f :: s) (f :: s)

/-- Executions: any interleaving of calls and returns starting from the root frame. -/
inductive Exec (g : Graph α) (c : α → Nat) (budget : Nat) (root : α) : List α → Prop
  | start : Exec g c budget root [root]
  | step {s t : List α} : Exec g c budget root s → Step g c budget s t → Exec g c budget root t

def listMax : List Nat → Nat
  | [] => 0
  | x :: xs => max x (listMax xs)

/-- `pot n f`: the largest cost of a chain of frames that starts with `f`, continues through
unguarded callees, and may end in one guarded callee (which counts with its own frame only: it is
either the next guard point or a failing leaf).  `n` is fuel; `n > rank f` suffices when the
guard-free part of the graph is acyclic. -/
def pot (g : Graph α) (c : α → Nat) : Nat → α → Nat
  | 0, f => c f
  | n + 1, f => c f + listMax ((g.succ f).map (fun h => if g.guarded h then c h else pot g c n h))

/-- Acyclicity certificate for the guard-free part: every edge into an unguarded function goes down
in rank.  (A cycle that avoids all guarded functions would have to go down for ever.) -/
def rankOK (g : Graph α) (r : α → Nat) : Bool :=
  g.edges.all (fun e => g.guarded e.2 || decide (r e.2 < r e.1))

/-- Potential of `f` with the fuel its rank calls for. -/
def potR (g : Graph α) (c : α → Nat) (r : α → Nat) (f : α) : Nat := pot g c (r f + 1) f

/-- The guard points: the root frame and every guarded function that is the target of a call. -/
def anchors (g : Graph α) (root : α) : List α :=
  root :: (g.edges.map (·.2)).filter (fun h => g.guarded h)

/-- `G`: the largest guard-free gap — the most native stack that can pile up above a guard point
before the next guard point (or a leaf) is reached. -/
def gap (g : Graph α) (c : α → Nat) (r : α → Nat) (root : α) : Nat :=
  listMax ((anchors g root).map (potR g c r))

/-- `l` lists successive callees starting at `f`; every caller on the way is unguarded. -/
def freeWalk (g : Graph α) : α → List α → Bool
  | _, [] => true
  | f, h :: t => !g.guarded f && g.edges.contains (f, h) && freeWalk g h t

/-! ### Answers for the driver: a path of function names -/

/-- Outcome of checking a path `f₁,f₂,…` against a graph. -/
inductive PathAns
  | ok (frames guardedFrames maxFreeRun : Nat)
  | noEdge (a b : α)
  | empty

/-- Walk a path (caller first): every consecutive pair must be an edge; report the number of frames,
of guarded frames, and the longest run of consecutive unguarded frames. -/
def checkPath (g : Graph α) : List α → PathAns (α := α)
  | [] => .empty
  | f :: rest =>
    let rec go (prev : α) (l : List α) (frames gd run best : Nat) : PathAns (α := α) :=
      match l with
      | [] => .ok frames gd (max best run)
      | h :: t =>
        if g.edges.contains (prev, h) then
          if g.guarded h then go h t (frames + 1) (gd + 1) 0 (max best run)
          else go h t (frames + 1) gd (run + 1) (max best (run + 1))
        else .noEdge prev h
    if g.guarded f then go f rest 1 1 0 0 else go f rest 1 0 1 1

/-! ### The evaluator's graph (hand-annotated from `src/runtime.rs`; tied to the source by
`Gen/Stack.lean`, see `Props/C08.lean`) -/

/-- Frames of the evaluator that lie on recursive cycles.  `exec_stmt` is split by the kind of
statement it executes, because the arms differ in whether they probe the stack before descending:

* `exec_stmt_cond`  — `If`/`Loop`: evaluates the condition (`eval_expr`, which probes at a deeper
  address) *before* it descends into the body, so it descends only after a successful probe: guarded;
* `exec_stmt_block` — `Stmt::Block`: calls `check_stack` itself before `exec_block_with_flow`
  (fix a3b6c8a; before it this arm descended unprobed): guarded;
* `exec_stmt_leaf`  — assignments, `return`, expression statements: call `eval_expr`/`assign_index`.

The value-recursive helpers recurse on the nesting depth of a *value* without any probe; a whole
traversal (at most `d + 1` frames for data nesting `d`) is folded into one frame (see `costFolded`):
`clone_into`, `promote`, `fmt` (Display, including the `core::fmt` frames in between), `join`, `nesting`
(the measure behind `MAX_ARRAY_NESTING`), and `drop_glue` (the compiler-generated drop of `Vec<Value>`, reachable from every frame). -/
inductive Fn
  | run_inner | exec_block | exec_stmt_leaf | exec_stmt_cond | exec_stmt_block
  | eval_expr | eval_function_call | eval_builtin_call | eval_member_call
  | eval_array_member_call | eval_array_member_call_mut | eval_process_command_call_mut
  | eval_string_member_call | eval_required_string | eval_timeout_ms
  | get_mutable_array | get_mutable_process_command | assign_index | eval_index_value
  | clone_into | promote | fmt | join | drop_glue | nesting
  deriving DecidableEq, Repr, Inhabited

namespace Fn

def all : List Fn :=
  [run_inner, exec_block, exec_stmt_leaf, exec_stmt_cond, exec_stmt_block, eval_expr, eval_function_call,
   eval_builtin_call, eval_member_call, eval_array_member_call, eval_array_member_call_mut,
   eval_process_command_call_mut, eval_string_member_call, eval_required_string, eval_timeout_ms,
   get_mutable_array, get_mutable_process_command, assign_index, eval_index_value,
   clone_into, promote, fmt, join, drop_glue, nesting]

/-- The Rust function a model frame stands for. -/
def rust : Fn → Bytes
  | run_inner => b!"run_inner"
  | exec_block => b!"exec_block_with_flow"
  | exec_stmt_leaf => b!"exec_stmt"
  | exec_stmt_cond => b!"exec_stmt"
  | exec_stmt_block => b!"exec_stmt"
  | eval_expr => b!"eval_expr"
  | eval_function_call => b!"eval_function_call"
  | eval_builtin_call => b!"eval_builtin_call"
  | eval_member_call => b!"eval_member_call"
  | eval_array_member_call => b!"eval_array_member_call"
  | eval_array_member_call_mut => b!"eval_array_member_call_mut"
  | eval_process_command_call_mut => b!"eval_process_command_call_mut"
  | eval_string_member_call => b!"eval_string_member_call"
  | eval_required_string => b!"eval_required_string"
  | eval_timeout_ms => b!"eval_timeout_ms"
  | get_mutable_array => b!"get_mutable_array"
  | get_mutable_process_command => b!"get_mutable_process_command"
  | assign_index => b!"assign_index"
  | eval_index_value => b!"eval_index_value"
  | clone_into => b!"clone_into"
  | promote => b!"promote"
  | fmt => b!"fmt"
  | join => b!"join"
  | drop_glue => b!"drop_glue"
  | nesting => b!"nesting"

/-- Value-recursive helpers (recursion on data nesting, no probe). -/
def isData : Fn → Bool
  | clone_into | promote | fmt | join | drop_glue | nesting => true
  | _ => false

end Fn

open Fn in
/-- Who calls whom (through non-recursive helpers, whose frames count towards the caller's cost). -/
def runtimeEdges : List (Fn × Fn) :=
  [ (run_inner, exec_block),
    (exec_block, exec_stmt_leaf), (exec_block, exec_stmt_cond), (exec_block, exec_stmt_block),
    -- Stmt::Block: probe (`check_stack`) in this frame, then the nested block
    (exec_stmt_block, exec_block),
    (exec_stmt_leaf, eval_expr), (exec_stmt_leaf, assign_index), (exec_stmt_leaf, promote),
    -- If / Loop: condition first (a probe below this frame), then the body
    (exec_stmt_cond, eval_expr), (exec_stmt_cond, exec_block),
    (eval_expr, eval_expr), (eval_expr, eval_function_call), (eval_expr, clone_into), (eval_expr, fmt),
    (eval_function_call, eval_member_call), (eval_function_call, eval_builtin_call),
    (eval_function_call, eval_expr), (eval_function_call, exec_block), (eval_function_call, promote),
    (eval_builtin_call, eval_expr), (eval_builtin_call, promote), (eval_builtin_call, fmt),
    (eval_member_call, eval_array_member_call_mut), (eval_member_call, eval_process_command_call_mut),
    (eval_member_call, eval_expr), (eval_member_call, eval_string_member_call),
    (eval_member_call, eval_array_member_call),
    (eval_array_member_call_mut, eval_expr), (eval_array_member_call_mut, get_mutable_array),
    (eval_array_member_call_mut, promote),
    (eval_process_command_call_mut, eval_expr), (eval_process_command_call_mut, eval_required_string),
    (eval_process_command_call_mut, eval_timeout_ms),
    (eval_process_command_call_mut, get_mutable_process_command), (eval_process_command_call_mut, fmt),
    (eval_array_member_call, eval_expr), (eval_array_member_call, join),
    (eval_string_member_call, eval_expr),
    (eval_required_string, eval_expr), (eval_timeout_ms, eval_expr),
    (get_mutable_array, eval_index_value), (get_mutable_process_command, eval_index_value),
    (assign_index, eval_index_value), (assign_index, promote),
    (eval_index_value, eval_expr),
    (join, fmt), (run_inner, fmt),
    -- `check_nesting` (array literal, push, index assignment) measures the nesting of the new element
    (eval_expr, nesting), (eval_array_member_call_mut, nesting), (assign_index, nesting) ]
  -- every frame that owns values may run their drop glue
  ++ (Fn.all.filter (fun f => !f.isData)).map (fun f => (f, drop_glue))

/-- Self-recursion of the folded frames: present in the source, represented by the cost multiplier. -/
def foldedLoops : List (Bytes × Bytes) :=
  [ (b!"clone_into", b!"clone_into"), (b!"promote", b!"promote"), (b!"fmt", b!"fmt"),
    (b!"join", b!"join"), (b!"nesting", b!"nesting") ]

/-- `eval_expr` probes on entry; an `If`/`Loop` statement descends only after the probe in its
condition succeeded; a `Block` statement probes before it descends. -/
def runtimeGuarded : Fn → Bool
  | .eval_expr | .exec_stmt_cond | .exec_stmt_block => true
  | _ => false

/-- Rust functions that contain a call of the probe (`Gen.Stack.guardSites`). -/
def probeSites : List Bytes := [Fn.eval_expr.rust, Fn.exec_stmt_block.rust]

def runtimeGraph : Graph Fn := { edges := runtimeEdges, guarded := runtimeGuarded }

/-! ### A probe on EVERY path to a descent

`exec_stmt_cond` is annotated as guarded although the `If`/`Loop` arm of `exec_stmt` contains no probe of its
own: the arm evaluates its condition first, and `eval_expr` probes.  That is an *implicit* dependency — a path
through the arm that reaches the body without evaluating anything (a condition that needs no evaluation)
would descend `exec_block_with_flow → exec_stmt → exec_block_with_flow` with no probe at all.  It is made
explicit here: the source scan lists, for each arm that descends and for every function reached from it, the
functions called on the *straight-line prefix* (what every execution runs through before it can branch), and
`mustProbe` decides from that table whether a probe is certain. -/

/-- `mustProbe t guards n f`: every execution of `f` calls a stack probe before it can branch — its
straight-line prefix (table `t`) calls a guard function, or (fuel `n`) a function that must probe. -/
def mustProbe (t : List (Bytes × List Bytes)) (guards : List Bytes) : Nat → Bytes → Bool
  | 0, _ => false
  | n + 1, f =>
    match t.find? (fun p => p.1 == f) with
    | none => false
    | some p => p.2.any (fun h => guards.contains h || mustProbe t guards n h)

/-- Statement kinds whose arm of `exec_stmt` never descends into a block. -/
def stmtLeafKinds : List Bytes :=
  [b!"Assign", b!"AssignExisting", b!"AssignIndex", b!"FunctionDef", b!"Return", b!"Break", b!"Continue",
   b!"Expression"]

/-- The model frame that stands for the arm of `exec_stmt` executing a statement of kind `k`. -/
def stmtKindFrame (k : Bytes) : Option Fn :=
  if k = b!"If" ∨ k = b!"Loop" then some .exec_stmt_cond
  else if k = b!"Block" then some .exec_stmt_block
  else if stmtLeafKinds.contains k then some .exec_stmt_leaf
  else none

/-- The name under which the source scan lists the arm for statement kind `k`. -/
def armName (k : Bytes) : Bytes := b!"exec_stmt::" ++ k

/-- The evaluator as it would be if the `If`/`Loop` arm could reach its body on some path without a probe. -/
def runtimeGraphCondUnprobed : Graph Fn :=
  { edges := runtimeEdges, guarded := fun f => f != .exec_stmt_cond && runtimeGuarded f }

/-- Topological rank of the guard-free part (edges into unguarded functions go down; the guarded
functions sit on top: only their outgoing edges are constrained). -/
def runtimeRank : Fn → Nat
  | .run_inner => 12
  | .eval_function_call => 11
  | .eval_member_call => 10
  | .eval_builtin_call => 9
  | .eval_array_member_call_mut => 9
  | .eval_process_command_call_mut => 9
  | .eval_array_member_call => 9
  | .eval_string_member_call => 9
  | .exec_block => 8
  | .exec_stmt_leaf => 6
  | .get_mutable_array => 5
  | .get_mutable_process_command => 5
  | .assign_index => 5
  | .eval_required_string => 4
  | .eval_timeout_ms => 4
  | .eval_index_value => 4
  | .join => 3
  | .clone_into => 2
  | .promote => 2
  | .fmt => 2
  | .drop_glue => 1
  | .nesting => 2
  | .eval_expr => 13
  | .exec_stmt_cond => 13
  | .exec_stmt_block => 13

/-- Cost of a model frame from per-function frame costs `c` and data nesting `d`: a folded frame
stands for a whole unguarded traversal of a value. -/
def costFolded (c : Fn → Nat) (d : Nat) (f : Fn) : Nat :=
  if f.isData then (d + 1) * c f else c f

/-! ### The stack the process has: documented constants of the arithmetic obligation (bytes) -/

/-- Default main-thread stack (`ulimit -s 8192`). -/
def mainStack : Nat := 8 * 1024 * 1024

/-- The kernel copies `argv`/`envp` to the top of the main-thread stack and caps them at a quarter of
the stack limit: an ARG_MAX-scale environment takes up to 2 MiB of the 8 MiB away from the interpreter. -/
def envAllowance : Nat := mainStack / 4

/-- What the evaluator may use beyond the budget line: frames above `stack_base` (main, CLI), the
guard-free gap `G` and the deepest builtin below it.  The check measures the real overshoot on the debug
and release binaries (28 KiB / 20 KiB) and requires it to stay within this allowance. -/
def overshootAllowance : Nat := 64 * 1024

/-- What one traversal of a value of the maximal nesting (`MAX_ARRAY_NESTING`) by the unprobed value
helpers may use below the budget line (measured: copy/promote/Display/join/drop at nesting 500 need
well under 400 KiB in the debug build). -/
def dataAllowance : Nat := 512 * 1024

/-- Slack for what no shape measured. -/
def headroom : Nat := 512 * 1024

/-! ### Front-end graphs: taken as they are extracted (names as bytes) -/

def flatten (calls : List (Bytes × List Bytes)) : List (Bytes × Bytes) :=
  calls.flatMap (fun p => p.2.map (fun h => (p.1, h)))

def frontGraph (calls : List (Bytes × List Bytes)) (guardSites : List Bytes) : Graph Bytes :=
  { edges := flatten calls, guarded := fun f => guardSites.contains f }

/-- A rank given as a table (0 for names not listed). -/
def rankOf (t : List (Bytes × Nat)) (f : Bytes) : Nat :=
  match t.find? (fun p => p.1 == f) with
  | some p => p.2
  | none => 0

/-- Parser (fix D-08): `parse_expression` and `parse_statement` probe the native stack on entry
(`nest_too_deep`: on failure one `Program nest too deep` syntax error, the cursor jumps to the end of
input, placeholders are returned).  Rank of the guard-free rest. -/
def parserRank : Bytes → Nat := rankOf
  [ (b!"parse_expression", 10), (b!"parse_statement", 10),
    (b!"parse_if", 3), (b!"parse_loop", 3), (b!"parse_function_def", 3),
    (b!"parse_block_body", 2), (b!"parse_expression_continuation", 1) ]

/-- Resolver (fix D-08): `check_block`, `check_expr`, `infer_expr_type`, `classify_expr`,
`literal_expr_type`, `collect_return_types` probe on entry (`too_deep`: the first failure records where;
from then on no walk descends; `resolve` reports one `Program nest too deep` semantic error and skips
the analyses). -/
def resolverRank : Bytes → Nat := rankOf
  [ (b!"check_block", 10), (b!"check_expr", 10), (b!"infer_expr_type", 10), (b!"classify_expr", 10),
    (b!"literal_expr_type", 10), (b!"collect_return_types", 10),
    (b!"check_stmt", 3), (b!"check_function_body", 2), (b!"collect_return_types_from_stmt", 1) ]

end NaijaVerif.Depth
