import NaijaVerif.Model.Ast
/-
`src/analysis/facts.rs` `ProgramFacts` by ids (the pointer-keyed binding tables are the annotations
on the AST, see `Model/Ast.lean`).  Produced by the resolver model, consumed by the analysis and
evaluator models.  All ids are positions in the corresponding list.
-/
namespace NaijaVerif

/-- `analysis/effects.rs` `ExprClass` (ordered: join = max). -/
inductive ExprClass where
  | pureNoTrap | pureMayTrap | impure
deriving DecidableEq, Repr, Inhabited

def ExprClass.join : ExprClass → ExprClass → ExprClass
  | .impure, _ | _, .impure => .impure
  | .pureMayTrap, _ | _, .pureMayTrap => .pureMayTrap
  | .pureNoTrap, .pureNoTrap => .pureNoTrap

def ExprClass.name : ExprClass → String
  | .pureNoTrap => "N" | .pureMayTrap => "T" | .impure => "I"

inductive LocalKind where
  | parameter | variable
deriving DecidableEq, Repr, Inhabited

/-- `FunctionInfo` (function 0 is the synthetic `<script>` root: `hasParams = false`). -/
structure FunctionInfo where
  name : Bytes
  hasParams : Bool            -- `params.is_some()` (false only for the root)
  paramCount : Nat
  parent : Option Nat
  definingScope : Option Nat  -- `none` = INVALID_SCOPE_ID
  defStmt : Option Nat
  localsStart : Nat
  localsLen : Nat
deriving DecidableEq, Repr, Inhabited

structure ScopeInfo where
  parent : Option Nat
  owner : Nat
deriving DecidableEq, Repr, Inhabited

structure LocalInfo where
  name : Bytes
  owner : Nat
  declaringScope : Nat
  declStmt : Option Nat
  kind : LocalKind
deriving DecidableEq, Repr, Inhabited

/-- `StmtEffectFacts` (index = `StmtId`). -/
structure StmtEffect where
  function : Nat
  scope : Nat
  reads : List Nat
  writes : List Nat
  directCallees : List Nat
  exprClass : ExprClass
deriving DecidableEq, Repr, Inhabited

structure FunctionDirect where
  directCallees : List Nat
  captureReads : List Nat
  captureWrites : List Nat
deriving DecidableEq, Repr, Inhabited

structure Facts where
  functions : List FunctionInfo := []
  scopes : List ScopeInfo := []
  scopeLocals : List (List Nat) := []
  locals : List LocalInfo := []
  stmtEffects : List StmtEffect := []
  functionDirects : List FunctionDirect := []
  /-- `user_calls` in recording order: (caller, callee). -/
  userCalls : List (Nat × Nat) := []
deriving Repr, Inhabited

/-- `ProgramFacts::local_range`. -/
def Facts.localRange (f : Facts) (fn : Nat) : Nat × Nat :=
  match f.functions[fn]? with
  | some i => (i.localsStart, i.localsStart + i.localsLen)
  | none => (0, 0)

end NaijaVerif
