import NaijaVerif.Model.Num
import NaijaVerif.Model.Token
import NaijaVerif.Model.Proc
/-
Run-time values of `src/runtime.rs` (`enum Value`), their `Display`, `typeof`, the runtime error
kinds and the panic sites of `runtime.rs` / `builtins/*`.

Values are PURE here: arena/pool/frame placement, `ArenaCow::{Borrowed,Owned}`, `promote`,
`relocate_return_value`, `return_to_pool` are not represented (that is the `Mem` model, C02); a
`HostHandle` is the `HostValue` it points to (`clone_into` copies deeply, so handles are values).
Core-only.
-/
namespace NaijaVerif.Eval
open NaijaVerif

/-- `ProcessResult`. -/
structure ProcResult where
  success : Bool
  exitCode : Option Int
  stdout : Option Bytes
  stderr : Option Bytes
deriving Repr, DecidableEq, Inhabited

/-- `HostValue`. -/
inductive Host where
  | command (c : Proc.Cmd)
  | result (r : ProcResult)
deriving Repr, DecidableEq

/-- `enum Value`. -/
inductive Value (N : Type) where
  | str (s : Bytes)
  | num (n : N)
  | bool (b : Bool)
  | arr (xs : List (Value N))
  | host (h : Host)
  | null
deriving Repr, Inhabited

def natDigitsAux : Nat → Nat → Bytes → Bytes
  | 0, _, acc => acc
  | fuel + 1, n, acc =>
    if n < 10 then (48 + n) :: acc else natDigitsAux fuel (n / 10) ((48 + n % 10) :: acc)

/-- Kernel-reducible decimal printer (used by `Host.display`). -/
def natDec (n : Nat) : Bytes := natDigitsAux (n + 1) n []

def intDec (i : Int) : Bytes :=
  if i < 0 then 45 :: natDec (-i).toNat else natDec i.toNat

def boolBytes (b : Bool) : Bytes := if b then b!"true" else b!"false"

/-- `impl Display for HostValue`. -/
def Host.display : Host → Bytes
  | .command c =>
      b!"<process_command program=\"" ++ c.program ++ b!"\" args=" ++ natDec c.args.length ++ b!">"
  | .result r =>
      b!"<process_result success=" ++ boolBytes r.success ++ b!" exit=" ++
        (match r.exitCode with | some c => intDec c | none => b!"null") ++ b!">"

mutual
  /-- `impl Display for Value`: strings bare at top level, quoted (without escaping) as array
  elements; numbers by Rust's `{}` for `f64`. -/
  def Value.display {N : Type} [NumOps N] : Value N → Bytes
    | .str s => s
    | .num n => NumOps.fmt n
    | .bool b => boolBytes b
    | .arr xs => b!"[" ++ Value.displayItems xs true ++ b!"]"
    | .host h => h.display
    | .null => b!"null"
  def Value.displayItems {N : Type} [NumOps N] : List (Value N) → Bool → Bytes
    | [], _ => []
    | x :: xs, first =>
        (if first then [] else b!", ") ++
        (match x with
         | .str s => b!"\"" ++ s ++ b!"\""
         | v => Value.display v) ++
        Value.displayItems xs false
end

/-- `GlobalBuiltin::type_of`. -/
def Value.typeOf {N : Type} : Value N → Bytes
  | .num _ => b!"number"
  | .str _ => b!"string"
  | .bool _ => b!"boolean"
  | .arr _ => b!"array"
  | .host (.command _) => b!"process_command"
  | .host (.result _) => b!"process_result"
  | .null => b!"null"

/-- `RuntimeErrorKind` without payloads. -/
inductive RtKind where
  | io | divisionByZero | stackOverflow | indexOutOfBounds | typeMismatch | invalidIndex
  | processUnsupported | processDenied | processSpawnFailed | processTimeout
  | processOutputLimitExceeded | processInvalidUtf8 | processSpecInvalid
deriving Repr, DecidableEq, Inhabited

/-- Variant name as the harness prints it. -/
def RtKind.name : RtKind → String
  | .io => "Io" | .divisionByZero => "DivisionByZero" | .stackOverflow => "StackOverflow"
  | .indexOutOfBounds => "IndexOutOfBounds" | .typeMismatch => "TypeMismatch"
  | .invalidIndex => "InvalidIndex" | .processUnsupported => "ProcessUnsupported"
  | .processDenied => "ProcessDenied" | .processSpawnFailed => "ProcessSpawnFailed"
  | .processTimeout => "ProcessTimeout"
  | .processOutputLimitExceeded => "ProcessOutputLimitExceeded"
  | .processInvalidUtf8 => "ProcessInvalidUtf8" | .processSpecInvalid => "ProcessSpecInvalid"

/-- One constructor per `unreachable!/unimplemented!/assert!/expect/args[i]/unwrap` site of
`runtime.rs` and `builtins/*` that an AST can reach (see `Gen/PanicSites.lean` and
`Props/C06Eval.lean` for the accounting against the source). -/
inductive PanicSite where
  | ifCond | loopCond | numLit | varLookup | andRhs | orRhs
  | strOp | strNumOp | numStrOp | boolOp | nullNullOp | nullOp | mismatchOp | unaryOp
  | indexBase | bareMember | calleeShape | callArity | flowEscape
  | builtinArity | commandArg | boolReceiver
  | pushArg0 | cmdArg0 | cmdCwd0 | cmdEnv0 | cmdEnv1 | cmdStdinText0 | cmdTimeout0
  | joinArg0 | joinSep
  | sliceArg0 | sliceArg1 | sliceArgs | findArg0 | findNeedle | replaceArg0 | replaceArg1
  | replaceArgs | splitArg0 | splitPat
  | mutArrVar | mutArrBase | mutCmdVar | mutCmdBase
  | segLookup | assignLookup | assignVarLookup
  | assignIndexLookup | assignIndexEmpty | indexTargetRoot
  | fnByName | fnById | paramRange
  | twMaximalSuffix
deriving Repr, DecidableEq, Inhabited

/-- The label (`Gen/PanicSites.lean`: `<file>.<fn>.<kind>.<ordinal>`) of the source site a
constructor stands for. -/
def PanicSite.label : PanicSite → Bytes
  | .ifCond => b!"runtime.exec_stmt.unreachable.0"
  | .loopCond => b!"runtime.exec_stmt.unreachable.1"
  | .numLit => b!"runtime.eval_expr.expect.0"
  | .varLookup => b!"runtime.eval_expr.expect.1"
  | .andRhs => b!"runtime.eval_expr.unreachable.0"
  | .orRhs => b!"runtime.eval_expr.unreachable.1"
  | .strOp => b!"runtime.eval_expr.unreachable.3"
  | .strNumOp => b!"runtime.eval_expr.assert.0"
  | .numStrOp => b!"runtime.eval_expr.assert.1"
  | .boolOp => b!"runtime.eval_expr.unreachable.4"
  | .nullNullOp => b!"runtime.eval_expr.unreachable.5"
  | .nullOp => b!"runtime.eval_expr.unreachable.6"
  | .mismatchOp => b!"runtime.eval_expr.unreachable.7"
  | .unaryOp => b!"runtime.eval_expr.unreachable.8"
  | .indexBase => b!"runtime.eval_expr.unreachable.9"
  | .bareMember => b!"runtime.eval_expr.unreachable.10"
  | .calleeShape => b!"runtime.eval_function_call.unreachable.1"
  | .callArity => b!"runtime.eval_function_call.assert_eq.0"
  | .flowEscape => b!"runtime.eval_function_call.unreachable.2"
  | .builtinArity => b!"runtime.eval_builtin_call.assert_eq.0"
  | .commandArg => b!"runtime.eval_builtin_call.unreachable.0"
  | .boolReceiver => b!"runtime.eval_member_call.unimplemented.0"
  | .pushArg0 => b!"runtime.eval_array_member_call_mut.args.0"
  | .cmdArg0 => b!"runtime.eval_process_command_call_mut.args.0"
  | .cmdCwd0 => b!"runtime.eval_process_command_call_mut.args.1"
  | .cmdEnv0 => b!"runtime.eval_process_command_call_mut.args.2"
  | .cmdEnv1 => b!"runtime.eval_process_command_call_mut.args.3"
  | .cmdStdinText0 => b!"runtime.eval_process_command_call_mut.args.4"
  | .cmdTimeout0 => b!"runtime.eval_process_command_call_mut.args.5"
  | .joinArg0 => b!"runtime.eval_array_member_call.args.0"
  | .joinSep => b!"runtime.eval_array_member_call.unreachable.0"
  | .sliceArg0 => b!"runtime.eval_string_member_call.args.0"
  | .sliceArg1 => b!"runtime.eval_string_member_call.args.1"
  | .sliceArgs => b!"runtime.eval_string_member_call.unreachable.0"
  | .findArg0 => b!"runtime.eval_string_member_call.args.2"
  | .findNeedle => b!"runtime.eval_string_member_call.unreachable.1"
  | .replaceArg0 => b!"runtime.eval_string_member_call.args.3"
  | .replaceArg1 => b!"runtime.eval_string_member_call.args.4"
  | .replaceArgs => b!"runtime.eval_string_member_call.unreachable.2"
  | .splitArg0 => b!"runtime.eval_string_member_call.args.5"
  | .splitPat => b!"runtime.eval_string_member_call.unreachable.3"
  | .mutArrVar => b!"runtime.get_mutable_array.expect.0"
  | .mutArrBase => b!"runtime.get_mutable_array.expect.1"
  | .mutCmdVar => b!"runtime.get_mutable_process_command.expect.0"
  | .mutCmdBase => b!"runtime.get_mutable_process_command.expect.1"
  | .segLookup => b!"runtime.eval_string_expr.expect.1"
  | .assignLookup => b!"runtime.assign_bound_local.unreachable.0"
  | .assignVarLookup => b!"runtime.assign_var.unreachable.0"
  | .assignIndexLookup => b!"runtime.assign_index.expect.0"
  | .assignIndexEmpty => b!"runtime.assign_index.unreachable.0"
  | .indexTargetRoot => b!"runtime.flatten_index_target.unreachable.0"
  | .fnByName => b!"runtime.lookup_func_by_name.expect.0"
  | .fnById => b!"runtime.lookup_func_by_id.expect.0"
  | .paramRange => b!"runtime.bound_param_ids.assert.0"
  | .twMaximalSuffix => b!"tw.maximal_suffix.index.1"

/-- All constructors (for `decide`d coverage statements). -/
def PanicSite.all : List PanicSite :=
  [.ifCond, .loopCond, .numLit, .varLookup, .andRhs, .orRhs, .strOp, .strNumOp, .numStrOp, .boolOp,
   .nullNullOp, .nullOp, .mismatchOp, .unaryOp, .indexBase, .bareMember, .calleeShape, .callArity,
   .flowEscape, .builtinArity, .commandArg, .boolReceiver, .pushArg0, .cmdArg0, .cmdCwd0, .cmdEnv0,
   .cmdEnv1, .cmdStdinText0, .cmdTimeout0, .joinArg0, .joinSep, .sliceArg0, .sliceArg1, .sliceArgs,
   .findArg0, .findNeedle, .replaceArg0, .replaceArg1, .replaceArgs, .splitArg0, .splitPat,
   .mutArrVar, .mutArrBase, .mutCmdVar, .mutCmdBase, .segLookup, .assignLookup, .assignVarLookup,
   .assignIndexLookup, .assignIndexEmpty, .indexTargetRoot, .fnByName, .fnById, .paramRange,
   .twMaximalSuffix]

/-- A failure of a pure built-in step. -/
inductive Fault where
  | rt (k : RtKind) (span : Span)
  | panic (s : PanicSite)
deriving Repr, DecidableEq

end NaijaVerif.Eval
