import NaijaVerif.Model.Num
import NaijaVerif.Model.Token
import NaijaVerif.Model.Proc
/-
Run-time values of `src/runtime.rs` (`enum Value`), their `Display`, `typeof`, the runtime error
kinds and the panic sites of `runtime.rs` / `builtins/*`.

Values are PURE here: arena/pool/frame placement, `ArenaCow::{Borrowed,Owned}`, `promote`,
`relocate_return_value`, `return_to_pool` are not represented (that is the `Mem` model, C02); a
`HostHandle` is the `HostValue` it points to (`clone_into` copies deeply, so handles are values).
Core-only.
-/
namespace NaijaVerif.Eval
open NaijaVerif

/-- `ProcessResult`. -/
structure ProcResult where
  success : Bool
  exitCode : Option Int
  stdout : Option Bytes
  stderr : Option Bytes
deriving Repr, DecidableEq, Inhabited

/-- `HostValue`. -/
inductive Host where
  | command (c : Proc.Cmd)
  | result (r : ProcResult)
deriving Repr, DecidableEq

/-- `enum Value`. -/
inductive Value (N : Type) where
  | str (s : Bytes)
  | num (n : N)
  | bool (b : Bool)
  | arr (xs : List (Value N))
  | host (h : Host)
  | null
deriving Repr, Inhabited

def natDigitsAux : Nat → Nat → Bytes → Bytes
  | 0, _, acc => acc
  | fuel + 1, n, acc =>
    if n < 10 then (48 + n) :: acc else natDigitsAux fuel (n / 10) ((48 + n % 10) :: acc)

/-- Kernel-reducible decimal printer (used by `Host.display`). -/
def natDec (n : Nat) : Bytes := natDigitsAux (n + 1) n []

def intDec (i : Int) : Bytes :=
  if i < 0 then 45 :: natDec (-i).toNat else natDec i.toNat

def boolBytes (b : Bool) : Bytes := if b then b!"true" else b!"false"

/-- `impl Display for HostValue`. -/
def Host.display : Host → Bytes
  | .command c =>
      b!"<process_command program=\"" ++ c.program ++ b!"\" args=" ++ natDec c.args.length ++ b!">"
  | .result r =>
      b!"<process_result success=" ++ boolBytes r.success ++ b!" exit=" ++
        (match r.exitCode with | some c => intDec c | none => b!"null") ++ b!">"

mutual
  /-- `impl Display for Value`: strings bare at top level, quoted (without escaping) as array
  elements; numbers by Rust's `{}` for `f64`. -/
  def Value.display {N : Type} [NumOps N] : Value N → Bytes
    | .str s => s
    | .num n => NumOps.fmt n
    | .bool b => boolBytes b
    | .arr xs => b!"[" ++ Value.displayItems xs true ++ b!"]"
    | .host h => h.display
    | .null => b!"null"
  def Value.displayItems {N : Type} [NumOps N] : List (Value N) → Bool → Bytes
    | [], _ => []
    | x :: xs, first =>
        (if first then [] else b!", ") ++
        (match x with
         | .str s => b!"\"" ++ s ++ b!"\""
         | v => Value.display v) ++
        Value.displayItems xs false
end

/-- `GlobalBuiltin::type_of`. -/
def Value.typeOf {N : Type} : Value N → Bytes
  | .num _ => b!"number"
  | .str _ => b!"string"
  | .bool _ => b!"boolean"
  | .arr _ => b!"array"
  | .host (.command _) => b!"process_command"
  | .host (.result _) => b!"process_result"
  | .null => b!"null"

/-- `RuntimeErrorKind` without payloads. -/
inductive RtKind where
  | io | divisionByZero | stackOverflow | indexOutOfBounds | typeMismatch | invalidIndex
  | undefinedVariable
  | processUnsupported | processDenied | processSpawnFailed | processTimeout
  | processOutputLimitExceeded | processInvalidUtf8 | processSpecInvalid
deriving Repr, DecidableEq, Inhabited

/-- Variant name as the harness prints it. -/
def RtKind.name : RtKind → String
  | .io => "Io" | .divisionByZero => "DivisionByZero" | .stackOverflow => "StackOverflow"
  | .indexOutOfBounds => "IndexOutOfBounds" | .typeMismatch => "TypeMismatch"
  | .invalidIndex => "InvalidIndex" | .undefinedVariable => "UndefinedVariable"
  | .processUnsupported => "ProcessUnsupported"
  | .processDenied => "ProcessDenied" | .processSpawnFailed => "ProcessSpawnFailed"
  | .processTimeout => "ProcessTimeout"
  | .processOutputLimitExceeded => "ProcessOutputLimitExceeded"
  | .processInvalidUtf8 => "ProcessInvalidUtf8" | .processSpecInvalid => "ProcessSpecInvalid"

/-- One constructor per site of `runtime.rs` and `builtins/*` that an AST can reach and that is — or,
in the originally pinned tree, was — an `unreachable!/unimplemented!/assert!/expect/args[i]`
(see `PanicSite.fixed`, `Gen/PanicSites.lean` and `Props/C06Eval.lean` for the accounting against
the source). -/
inductive PanicSite where
  | ifCond | loopCond | numLit | varLookup | andRhs | orRhs
  | strOp | strNumOp | numStrOp | boolOp | nullNullOp | nullOp | mismatchOp | unaryOp
  | indexBase | bareMember | calleeShape | callArity | flowEscape
  | builtinArity | commandArg | boolReceiver
  | pushArg0 | cmdArg0 | cmdCwd0 | cmdEnv0 | cmdEnv1 | cmdStdinText0 | cmdTimeout0
  | joinArg0 | joinSep
  | sliceArg0 | sliceArg1 | sliceArgs | findArg0 | findNeedle | replaceArg0 | replaceArg1
  | replaceArgs | splitArg0 | splitPat
  | mutArrVar | mutArrBase | mutCmdVar | mutCmdBase
  | segLookup | assignLookup | assignVarLookup
  | assignIndexLookup | assignIndexEmpty | indexTargetRoot
  | fnByName | fnById | paramRange
  | twMaximalSuffix
deriving Repr, DecidableEq, Inhabited

/-- `true`: the site was a panic (`unreachable!`, `assert!`, `unimplemented!`, `expect`, `args[i]`)
in the originally pinned tree and is an ordinary runtime error since the `fix:` commit for D-06 /
D-04 (it is reachable by accepted programs through dynamic typing, a short argument list on a
dynamic receiver, a bare member expression, a call before the captured variable's `make`, …).
`false`: RESIDUAL site — still a panic in the source; no accepted program reaches it (scanner:
number lexemes parse; resolver: arity of user and global calls, callee exists, `comot`/`next` stay
inside a loop of the same function, parameter ids fit the local range; parser: an index assignment
has an index; C13: `maximal_suffix` reads in range). -/
def PanicSite.fixed : PanicSite → Bool
  | .numLit | .callArity | .flowEscape | .builtinArity | .paramRange | .fnByName | .fnById
  | .assignIndexEmpty | .twMaximalSuffix => false
  | _ => true

/-- The label (`Gen/PanicSites.lean`: `<file>.<fn>.<kind>.<ordinal>`) of the source site a RESIDUAL
constructor stands for (`none` for the fixed ones: they are no panic sites any more). -/
def PanicSite.srcLabel : PanicSite → Option Bytes
  | .numLit => some (b!"runtime.eval_expr.expect.0")
  | .callArity => some (b!"runtime.eval_function_call.assert_eq.0")
  | .flowEscape => some (b!"runtime.eval_function_call.unreachable.1")
  | .builtinArity => some (b!"runtime.eval_builtin_call.assert_eq.0")
  | .assignIndexEmpty => some (b!"runtime.assign_index.unreachable.0")
  | .fnByName => some (b!"runtime.lookup_func_by_name.expect.0")
  | .fnById => some (b!"runtime.lookup_func_by_id.expect.0")
  | .paramRange => some (b!"runtime.bound_param_ids.assert.0")
  | .twMaximalSuffix => some (b!"tw.maximal_suffix.index.1")
  | _ => none

/-- A printable name of the site: its source label, `fixed-site` for the fixed ones. -/
def PanicSite.label (s : PanicSite) : Bytes := s.srcLabel.getD (b!"fixed-site")

/-- All constructors (for `decide`d coverage statements). -/
def PanicSite.all : List PanicSite :=
  [.ifCond, .loopCond, .numLit, .varLookup, .andRhs, .orRhs, .strOp, .strNumOp, .numStrOp, .boolOp,
   .nullNullOp, .nullOp, .mismatchOp, .unaryOp, .indexBase, .bareMember, .calleeShape, .callArity,
   .flowEscape, .builtinArity, .commandArg, .boolReceiver, .pushArg0, .cmdArg0, .cmdCwd0, .cmdEnv0,
   .cmdEnv1, .cmdStdinText0, .cmdTimeout0, .joinArg0, .joinSep, .sliceArg0, .sliceArg1, .sliceArgs,
   .findArg0, .findNeedle, .replaceArg0, .replaceArg1, .replaceArgs, .splitArg0, .splitPat,
   .mutArrVar, .mutArrBase, .mutCmdVar, .mutCmdBase, .segLookup, .assignLookup, .assignVarLookup,
   .assignIndexLookup, .assignIndexEmpty, .indexTargetRoot, .fnByName, .fnById, .paramRange,
   .twMaximalSuffix]

/-- A failure of a pure built-in step. -/
inductive Fault where
  | rt (k : RtKind) (span : Span)
  | panic (s : PanicSite)
deriving Repr, DecidableEq

end NaijaVerif.Eval
