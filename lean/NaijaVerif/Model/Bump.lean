/-
Model of `src/arena/bump.rs` (the bump arena behind `naijascript::arena::Arena`), of the scoped
reset + decommit of `src/arena/scratch.rs` (`ScratchArena::drop`) and of the debug fills, as compiled
with `debug_assertions` (the harness runs the debug build and compares bytes).

Core-only imports (this file is linked into the `nvdriver` executable).

Addresses: `base` is the absolute address of the reservation (an environment parameter: whatever
`mmap` returned); everything else (`offset`, `commit`, block starts, memory indices) is an offset
from `base`.  Memory is a function from offsets to bytes; bytes at or above `commit` are
inaccessible in the real arena and are kept at 0 here, which is what the kernel hands back when the
range is committed (again): fresh anonymous pages and pages dropped by `MADV_DONTNEED` read as zero.

The alignment formula is the one of the D-11 fix (`beg = align_up(base + offset) - base`, i.e. the
*absolute* address is aligned); the formula of the code before the fix is kept as `Arena.relBeg`.
They coincide whenever `align ∣ base` (`Props/C11.lean: absBeg_eq_relBeg`).

Not modelled: failure of `mprotect` in `virtual_memory::commit` (taken to succeed), `mmap` failure in
`Arena::new`, `alloc_uninit_slice`'s unchecked multiplication (DESIGN.md §7).
-/
namespace NaijaVerif.Bump

/-- `ALLOC_CHUNK_SIZE` (tied to `Gen.Arena.allocChunkSize` in `Props/C11.lean`). -/
def chunk : Nat := 65536
/-- The debug fills run this many bytes past the end of the block (clipped to `commit`). -/
def guardBytes : Nat := 128
/-- Debug fill of freshly handed-out memory. -/
def allocFill : Nat := 0xCD
/-- Debug fill of memory given back by `reset`. -/
def freeFill : Nat := 0xDD

/-- Round `x` up to a multiple of `a` (arithmetic form; for a power of two and without wrap-around
this is what `(x + a - 1) & !(a - 1)` computes, see `alignUpW` and `Props/C11.lean: alignUpW_eq`). -/
def alignUp (x a : Nat) : Nat := (x + a - 1) / a * a

/-- Machine word size of `usize`. -/
def word : Nat := 2 ^ 64

/-- `(x + a - 1) & !(a - 1)` exactly as the code computes it on 64-bit words (wrapping add/sub are
made explicit; in a debug build they would panic instead, which the no-wrap lemma excludes). -/
def alignUpW (x a : Nat) : Nat :=
  ((x + a + (word - 1)) % word) &&& ((word - 1) - ((a + (word - 1)) % word))

/-! ## Memory -/

abbrev Mem := Nat → Nat

/-- `slice.fill(v)` on `[lo, hi)`. -/
def Mem.fill (m : Mem) (lo hi v : Nat) : Mem := fun i => if lo ≤ i ∧ i < hi then v else m i

/-- `copy_nonoverlapping(src, dst, n)`. -/
def Mem.copy (m : Mem) (src dst n : Nat) : Mem :=
  fun i => if dst ≤ i ∧ i < dst + n then m (src + (i - dst)) else m i

/-- The owner of `[dst, dst+n)` writes `f 0 … f (n-1)` into it. -/
def Mem.store (m : Mem) (dst n : Nat) (f : Nat → Nat) : Mem :=
  fun i => if dst ≤ i ∧ i < dst + n then f (i - dst) else m i

/-! ## The arena -/

structure Arena where
  base   : Nat
  cap    : Nat
  commit : Nat
  offset : Nat
  mem    : Mem

/-- `Arena::new(capacity)` at the address `base` chosen by `mmap`. -/
def Arena.new (base capacity : Nat) : Arena :=
  { base := base, cap := alignUp (max capacity 1) chunk, commit := 0, offset := 0, mem := fun _ => 0 }

/-- Start of the next block (fixed code): align the absolute address, then go back to an offset. -/
def Arena.absBeg (a : Arena) (align : Nat) : Nat := alignUp (a.base + a.offset) align - a.base

/-- Start of the next block as computed before the D-11 fix: align the offset only. -/
def Arena.relBeg (a : Arena) (align : Nat) : Nat := alignUp a.offset align

/-- `alloc_raw` with its cold half `alloc_raw_bump`; `none` = `Err(AllocError)` (nothing is written
on that path).  Both halves run the 0xCD fill over `[offset, min(end + 128, commit))` where `commit`
is read *before* it is raised, so on the growing path the fill stops at the old commit mark. -/
def Arena.alloc (a : Arena) (bytes align : Nat) : Option (Nat × Arena) :=
  let beg := a.absBeg align
  let end_ := beg + bytes
  let hi := min (end_ + guardBytes) a.commit
  if end_ > a.commit then
    let commitNew := alignUp end_ chunk
    if commitNew > a.cap then none
    else some (beg, { a with commit := commitNew, offset := end_, mem := a.mem.fill a.offset hi allocFill })
  else
    some (beg, { a with offset := end_, mem := a.mem.fill a.offset hi allocFill })

/-- `Allocator::allocate_zeroed`. -/
def Arena.allocZeroed (a : Arena) (bytes align : Nat) : Option (Nat × Arena) :=
  match a.alloc bytes align with
  | none => none
  | some (beg, a') => some (beg, { a' with mem := a'.mem.fill beg (beg + bytes) 0 })

/-- `Arena::reset(to)` with the 0xDD fill of `[to, min(offset + 128, commit))`. -/
def Arena.reset (a : Arena) (to : Nat) : Arena :=
  if a.offset > to then
    { a with offset := to, mem := a.mem.fill to (min (a.offset + guardBytes) a.commit) freeFill }
  else { a with offset := to }

/-- `Arena::decommit`: give back whole chunks above the offset. -/
def Arena.decommit (a : Arena) : Arena :=
  let keep := alignUp a.offset chunk
  if keep < a.commit then { a with commit := keep, mem := a.mem.fill keep a.commit 0 } else a

/-- `Allocator::grow(base + beg, Layout(oldSize, align), Layout(newSize, align))`. -/
def Arena.grow (a : Arena) (beg oldSize newSize align : Nat) : Option (Nat × Arena) :=
  if beg + oldSize = a.offset then
    match a.alloc (newSize - oldSize) 1 with
    | none => none
    | some (_, a') => some (beg, a')
  else
    match a.alloc newSize align with
    | none => none
    | some (nb, a') => some (nb, { a' with mem := a'.mem.copy beg nb oldSize })

/-- `Allocator::shrink`; returns the length of the returned slice.  The non-tail case is a
`debug_assert!(false)` in debug builds and a no-op in release builds. -/
def Arena.shrink (a : Arena) (beg oldSize newSize : Nat) : Nat × Arena :=
  if beg + oldSize = a.offset then (newSize, { a with offset := a.offset - oldSize + newSize })
  else (oldSize, a)

/-- `ScratchArena::new`: remember the offset. -/
def Arena.borrow (a : Arena) : Nat := a.offset

/-- `ScratchArena::drop`: `reset(saved)` then `decommit()`. -/
def Arena.release (a : Arena) (saved : Nat) : Arena := (a.reset saved).decommit

/-- The arena invariant. -/
structure Arena.Inv (a : Arena) : Prop where
  offLe    : a.offset ≤ a.commit
  commitLe : a.commit ≤ a.cap
  commitCh : chunk ∣ a.commit
  capCh    : chunk ∣ a.cap

/-! ## Histories: the transition system the driver runs and the theorems quantify over -/

/-- A block handed out by the arena (ghost record kept by the client). `data` is what the owner last
wrote into it (for a fresh block: whatever it found there). -/
structure Block where
  id    : Nat
  beg   : Nat
  len   : Nat
  align : Nat
  data  : Nat → Nat

/-- Two blocks share no byte. -/
def Disj (b c : Block) : Prop :=
  b.len = 0 ∨ c.len = 0 ∨ b.beg + b.len ≤ c.beg ∨ c.beg + c.len ≤ b.beg

structure St where
  a       : Arena
  live    : List Block
  borrows : List Nat

def St.init (base capacity : Nat) : St := { a := Arena.new base capacity, live := [], borrows := [] }

inductive Op where
  | alloc (id bytes align : Nat) (zeroed : Bool)
  | grow (id newSize : Nat)
  | shrink (id newSize : Nat)
  | store (id : Nat) (f : Nat → Nat)
  | reset (to : Nat)
  | decommit
  | borrow
  | release

def findBlk (live : List Block) (id : Nat) : Option Block := live.find? (fun b => b.id == id)

def dropBlk (live : List Block) (id : Nat) : List Block := live.eraseP (fun b => b.id == id)

/-- Blocks that survive giving back everything at or above `m`. -/
def below (live : List Block) (m : Nat) : List Block := live.filter (fun c => decide (c.beg + c.len ≤ m))

/-- One client operation.  Requests outside the allocator's contract leave the state alone (the line
protocol answers `bad-op` for them and makes no call): alignment 0 (excluded by `Layout`), a block
that is not live, growing to a smaller / shrinking to a larger size, shrinking a block that is not
the tail (a `debug_assert!(false)`), resetting or releasing to a mark above the current offset. -/
def step (s : St) : Op → St
  | .alloc id bytes align zeroed =>
      if align = 0 then s else
      match (if zeroed then s.a.allocZeroed bytes align else s.a.alloc bytes align) with
      | none => s
      | some (beg, a') =>
          { s with a := a'
                   live := { id := id, beg := beg, len := bytes, align := align,
                             data := fun k => a'.mem (beg + k) } :: s.live }
  | .grow id newSize =>
      match findBlk s.live id with
      | none => s
      | some b =>
          if newSize < b.len then s else
          match s.a.grow b.beg b.len newSize b.align with
          | none => s
          | some (nb, a') =>
              { s with a := a'
                       live := { id := id, beg := nb, len := newSize, align := b.align,
                                 data := fun k => if k < b.len then b.data k else a'.mem (nb + k) }
                               :: dropBlk s.live id }
  | .shrink id newSize =>
      match findBlk s.live id with
      | none => s
      | some b =>
          if newSize ≤ b.len ∧ b.beg + b.len = s.a.offset then
            let a' := (s.a.shrink b.beg b.len newSize).2
            { s with a := a'
                     live := { b with len := newSize } :: below (dropBlk s.live id) a'.offset }
          else s
  | .store id f =>
      match findBlk s.live id with
      | none => s
      | some b =>
          { s with a := { s.a with mem := s.a.mem.store b.beg b.len f }
                   live := { b with data := f } :: dropBlk s.live id }
  | .reset to =>
      if to ≤ s.a.offset then { s with a := s.a.reset to, live := below s.live to } else s
  | .decommit => { s with a := s.a.decommit }
  | .borrow => { s with borrows := s.a.borrow :: s.borrows }
  | .release =>
      match s.borrows with
      | [] => s
      | saved :: rest =>
          if saved ≤ s.a.offset then
            { a := s.a.release saved, live := below s.live saved, borrows := rest }
          else { s with borrows := rest }

def run (s : St) : List Op → St
  | [] => s
  | op :: ops => run (step s op) ops

end NaijaVerif.Bump
