/-
Model of `src/arena/bump.rs` (the bump arena behind `naijascript::arena::Arena`), of the scoped
reset + decommit of `src/arena/scratch.rs` (`ScratchArena::drop`) and of the debug fills, as compiled
with `debug_assertions` (the harness runs the debug build and compares bytes).

Core-only imports (this file is linked into the `nvdriver` executable).

Addresses: `base` is the absolute address of the reservation (an environment parameter: whatever
`mmap` returned); everything else (`offset`, `commit`, block starts, memory indices) is an offset
from `base`.  Memory is a function from offsets to bytes; bytes at or above `commit` are
inaccessible in the real arena and are kept at 0 here, which is what the kernel hands back when the
range is committed (again): fresh anonymous pages and pages dropped by `MADV_DONTNEED` read as zero.

The alignment formula is the one of the D-11 fix (`beg = align_up(base + offset) - base`, i.e. the
*absolute* address is aligned); the formula of the code before the fix is kept as `Arena.relBeg`.
They coincide whenever `align ∣ base` (`Props/C11.lean: absBeg_eq_relBeg`).

Second half of the file: `ArenaString` (`src/arena/string.rs`), i.e. a `Vec<u8, &Arena>` driven through
std's `RawVec` growth policy (`reserveCap` / `reserveExactCap`, tied to the compiled crate by the
probe table `Gen.Arena.reserveProbe`), with the raw writes of `extend_from_slice` and of the unsafe
`vec_replace_impl` modelled as writes through the buffer pointer that are NOT confined to the block
by definition — that they stay inside it is a theorem (`Props/C11.lean`, section "strings").

Not modelled: failure of `mprotect` in `virtual_memory::commit` (taken to succeed), `mmap` failure in
`Arena::new`, `alloc_uninit_slice`'s unchecked multiplication (DESIGN.md §7).
-/
namespace NaijaVerif.Bump

/-- `ALLOC_CHUNK_SIZE` (tied to `Gen.Arena.allocChunkSize` in `Props/C11.lean`). -/
def chunk : Nat := 65536
/-- The debug fills run this many bytes past the end of the block (clipped to `commit`). -/
def guardBytes : Nat := 128
/-- Debug fill of freshly handed-out memory. -/
def allocFill : Nat := 0xCD
/-- Debug fill of memory given back by `reset`. -/
def freeFill : Nat := 0xDD

/-- Round `x` up to a multiple of `a` (arithmetic form; for a power of two and without wrap-around
this is what `(x + a - 1) & !(a - 1)` computes, see `alignUpW` and `Props/C11.lean: alignUpW_eq`). -/
def alignUp (x a : Nat) : Nat := (x + a - 1) / a * a

/-- Machine word size of `usize`. -/
def word : Nat := 2 ^ 64

/-- `(x + a - 1) & !(a - 1)` exactly as the code computes it on 64-bit words (wrapping add/sub are
made explicit; in a debug build they would panic instead, which the no-wrap lemma excludes). -/
def alignUpW (x a : Nat) : Nat :=
  ((x + a + (word - 1)) % word) &&& ((word - 1) - ((a + (word - 1)) % word))

/-! ## Memory -/

abbrev Mem := Nat → Nat

/-- `slice.fill(v)` on `[lo, hi)`. -/
def Mem.fill (m : Mem) (lo hi v : Nat) : Mem := fun i => if lo ≤ i ∧ i < hi then v else m i

/-- `copy_nonoverlapping(src, dst, n)`. -/
def Mem.copy (m : Mem) (src dst n : Nat) : Mem :=
  fun i => if dst ≤ i ∧ i < dst + n then m (src + (i - dst)) else m i

/-- The owner of `[dst, dst+n)` writes `f 0 … f (n-1)` into it. -/
def Mem.store (m : Mem) (dst n : Nat) (f : Nat → Nat) : Mem :=
  fun i => if dst ≤ i ∧ i < dst + n then f (i - dst) else m i

/-! ## The arena -/

structure Arena where
  base   : Nat
  cap    : Nat
  commit : Nat
  offset : Nat
  mem    : Mem

/-- `Arena::new(capacity)` at the address `base` chosen by `mmap`. -/
def Arena.new (base capacity : Nat) : Arena :=
  { base := base, cap := alignUp (max capacity 1) chunk, commit := 0, offset := 0, mem := fun _ => 0 }

/-- Start of the next block (fixed code): align the absolute address, then go back to an offset. -/
def Arena.absBeg (a : Arena) (align : Nat) : Nat := alignUp (a.base + a.offset) align - a.base

/-- Start of the next block as computed before the D-11 fix: align the offset only. -/
def Arena.relBeg (a : Arena) (align : Nat) : Nat := alignUp a.offset align

/-- `alloc_raw` with its cold half `alloc_raw_bump`; `none` = `Err(AllocError)` (nothing is written
on that path).  Both halves run the 0xCD fill over `[offset, min(end + 128, commit))` where `commit`
is read *before* it is raised, so on the growing path the fill stops at the old commit mark. -/
def Arena.alloc (a : Arena) (bytes align : Nat) : Option (Nat × Arena) :=
  let beg := a.absBeg align
  let end_ := beg + bytes
  let hi := min (end_ + guardBytes) a.commit
  if end_ > a.commit then
    let commitNew := alignUp end_ chunk
    if commitNew > a.cap then none
    else some (beg, { a with commit := commitNew, offset := end_, mem := a.mem.fill a.offset hi allocFill })
  else
    some (beg, { a with offset := end_, mem := a.mem.fill a.offset hi allocFill })

/-- `Allocator::allocate_zeroed`. -/
def Arena.allocZeroed (a : Arena) (bytes align : Nat) : Option (Nat × Arena) :=
  match a.alloc bytes align with
  | none => none
  | some (beg, a') => some (beg, { a' with mem := a'.mem.fill beg (beg + bytes) 0 })

/-- `Arena::reset(to)` with the 0xDD fill of `[to, min(offset + 128, commit))`. -/
def Arena.reset (a : Arena) (to : Nat) : Arena :=
  if a.offset > to then
    { a with offset := to, mem := a.mem.fill to (min (a.offset + guardBytes) a.commit) freeFill }
  else { a with offset := to }

/-- `Arena::decommit`: give back whole chunks above the offset. -/
def Arena.decommit (a : Arena) : Arena :=
  let keep := alignUp a.offset chunk
  if keep < a.commit then { a with commit := keep, mem := a.mem.fill keep a.commit 0 } else a

/-- `Allocator::grow(base + beg, Layout(oldSize, align), Layout(newSize, align))`. -/
def Arena.grow (a : Arena) (beg oldSize newSize align : Nat) : Option (Nat × Arena) :=
  if beg + oldSize = a.offset then
    match a.alloc (newSize - oldSize) 1 with
    | none => none
    | some (_, a') => some (beg, a')
  else
    match a.alloc newSize align with
    | none => none
    | some (nb, a') => some (nb, { a' with mem := a'.mem.copy beg nb oldSize })

/-- `Allocator::shrink`; returns the length of the returned slice.  The non-tail case is a
`debug_assert!(false)` in debug builds and a no-op in release builds. -/
def Arena.shrink (a : Arena) (beg oldSize newSize : Nat) : Nat × Arena :=
  if beg + oldSize = a.offset then (newSize, { a with offset := a.offset - oldSize + newSize })
  else (oldSize, a)

/-- `ScratchArena::new`: remember the offset. -/
def Arena.borrow (a : Arena) : Nat := a.offset

/-- `ScratchArena::drop`: `reset(saved)` then `decommit()`. -/
def Arena.release (a : Arena) (saved : Nat) : Arena := (a.reset saved).decommit

/-- The arena invariant. -/
structure Arena.Inv (a : Arena) : Prop where
  offLe    : a.offset ≤ a.commit
  commitLe : a.commit ≤ a.cap
  commitCh : chunk ∣ a.commit
  capCh    : chunk ∣ a.cap

/-! ## Histories: the transition system the driver runs and the theorems quantify over -/

/-- A block handed out by the arena (ghost record kept by the client). `data` is what the owner last
wrote into it (for a fresh block: whatever it found there). -/
structure Block where
  id    : Nat
  beg   : Nat
  len   : Nat
  align : Nat
  data  : Nat → Nat
  /-- For the buffer of an `ArenaString` / `Vec<u8,&Arena>`: the vector's length (`len` is then its
  capacity and the string is `data 0 … data (used-1)`); 0 for every other block. -/
  used  : Nat := 0

/-- Two blocks share no byte. -/
def Disj (b c : Block) : Prop :=
  b.len = 0 ∨ c.len = 0 ∨ b.beg + b.len ≤ c.beg ∨ c.beg + c.len ≤ b.beg

structure St where
  a       : Arena
  live    : List Block
  borrows : List Nat

def St.init (base capacity : Nat) : St := { a := Arena.new base capacity, live := [], borrows := [] }

inductive Op where
  | alloc (id bytes align : Nat) (zeroed : Bool)
  | grow (id newSize : Nat)
  | shrink (id newSize : Nat)
  | store (id : Nat) (f : Nat → Nat)
  | reset (to : Nat)
  | decommit
  | borrow
  | release
  /-- `ArenaString::reserve(additional)` / `reserve_exact(additional)` on the string whose buffer is
  block `id` (no such block = a string that has not allocated yet: capacity 0). -/
  | sReserve (id additional : Nat) (exact : Bool)
  /-- `push_str(src)`; also `push(ch)` (`src` = the UTF-8 bytes of `ch`) and `push_repeat(ch, n)`
  (`src` = `n` copies): one `reserve(src.length)` followed by a raw copy behind the old length. -/
  | sPush (id : Nat) (src : List Nat)
  /-- `shrink_to_fit()`. -/
  | sShrink (id : Nat)
  /-- `clear()`. -/
  | sClear (id : Nat)
  /-- `Vec::<u8,&Arena>::replace_range(lo..hi, src)` = `vec_replace_impl` (what
  `ArenaString::replace_range` calls once its char-boundary assertions have passed). -/
  | sReplace (id lo hi : Nat) (src : List Nat)
  /-- `replace_once_in_place(old, new)`. -/
  | sOnce (id : Nat) (old new : List Nat)

def findBlk (live : List Block) (id : Nat) : Option Block := live.find? (fun b => b.id == id)

def dropBlk (live : List Block) (id : Nat) : List Block := live.eraseP (fun b => b.id == id)

/-- Blocks that survive giving back everything at or above `m`. -/
def below (live : List Block) (m : Nat) : List Block := live.filter (fun c => decide (c.beg + c.len ≤ m))

/-! ### The allocator calls (ghost list of live blocks kept alongside)

Requests outside the allocator's contract leave the state alone (the line protocol answers `bad-op`
for them and makes no call): alignment 0 (excluded by `Layout`), a block that is not live, growing
to a smaller / shrinking to a larger size or below the length of the vector living in the block,
shrinking a block that is not the tail (a `debug_assert!(false)`), resetting or releasing to a mark
above the current offset. -/

def St.allocBlk (s : St) (id bytes align : Nat) (zeroed : Bool) : St :=
  if align = 0 then s else
  match (if zeroed then s.a.allocZeroed bytes align else s.a.alloc bytes align) with
  | none => s
  | some (beg, a') =>
      { s with a := a'
               live := { id := id, beg := beg, len := bytes, align := align,
                         data := fun k => a'.mem (beg + k) } :: s.live }

def St.growBlk (s : St) (id newSize : Nat) : St :=
  match findBlk s.live id with
  | none => s
  | some b =>
      if newSize < b.len then s else
      match s.a.grow b.beg b.len newSize b.align with
      | none => s
      | some (nb, a') =>
          { s with a := a'
                   live := { id := id, beg := nb, len := newSize, align := b.align,
                             data := fun k => if k < b.len then b.data k else a'.mem (nb + k),
                             used := b.used }
                           :: dropBlk s.live id }

def St.shrinkBlk (s : St) (id newSize : Nat) : St :=
  match findBlk s.live id with
  | none => s
  | some b =>
      if newSize ≤ b.len ∧ b.beg + b.len = s.a.offset ∧ b.used ≤ newSize then
        let a' := (s.a.shrink b.beg b.len newSize).2
        { s with a := a'
                 live := { b with len := newSize } :: below (dropBlk s.live id) a'.offset }
      else s

/-! ### `ArenaString` = `Vec<u8, &Arena>` over std's `RawVec` -/

/-- Capacity after `Vec::<u8,_>::reserve(additional)` (`RawVec::grow_amortized`): untouched when the
spare room suffices, else `max(2·cap, len + additional, 8)` (8 = `min_non_zero_cap` for bytes). -/
def reserveCap (cap len additional : Nat) : Nat :=
  if additional ≤ cap - len then cap else max (max (cap * 2) (len + additional)) 8

/-- Capacity after `Vec::<u8,_>::reserve_exact(additional)` (`RawVec::grow_exact`). -/
def reserveExactCap (cap len additional : Nat) : Nat :=
  if additional ≤ cap - len then cap else len + additional

/-- `(capacity, length)` of the string whose buffer is block `id`; no buffer = `(0, 0)`. -/
def strDims (s : St) (id : Nat) : Nat × Nat :=
  match findBlk s.live id with
  | some b => (b.len, b.used)
  | none => (0, 0)

/-- `RawVec::finish_grow` to a capacity of `newCap` bytes (nothing to do when the buffer already has
them): `allocate` when there is no buffer yet, `Allocator::grow` otherwise.  `none` = the allocator
said no, which `Vec::reserve` turns into `handle_alloc_error` (the process aborts). -/
def strEnsure (s : St) (id newCap : Nat) : Option St :=
  match findBlk s.live id with
  | none =>
      if newCap = 0 then some s
      else if (s.a.alloc newCap 1).isSome then some (s.allocBlk id newCap 1 false) else none
  | some b =>
      if newCap ≤ b.len then some s
      else if (s.a.grow b.beg b.len newCap b.align).isSome then some (s.growBlk id newCap) else none

/-- A write by the string's owner THROUGH THE BUFFER POINTER followed by `set_len(used')`: memory
becomes `w beg mem` where `beg` is the start of the buffer.  Nothing in this definition confines the
write to the block — that is what the unsafe code has to guarantee. -/
def strWrite (s : St) (id : Nat) (w : Nat → Mem → Mem) (used' : Nat) : St :=
  match findBlk s.live id with
  | none => s
  | some b =>
      let mem' := w b.beg s.a.mem
      { s with a := { s.a with mem := mem' }
               live := { b with used := used', data := fun k => mem' (b.beg + k) } :: dropBlk s.live id }

/-- Byte `k` of a source slice (held as an array: the driver reads memory through these closures). -/
def srcAt (src : Array Nat) (k : Nat) : Nat := src.getD k 0

def St.strReserve (s : St) (id additional : Nat) (exact : Bool) : St :=
  let (cap, len) := strDims s id
  match strEnsure s id (if exact then reserveExactCap cap len additional else reserveCap cap len additional) with
  | none => s
  | some s1 => s1

/-- `Vec::extend_from_slice`: `reserve(n)`, `copy_nonoverlapping(src, ptr + len, n)`, `len += n`. -/
def St.strPush (s : St) (id : Nat) (src : List Nat) : St :=
  let (cap, len) := strDims s id
  let bytes := src.toArray
  match strEnsure s id (reserveCap cap len src.length) with
  | none => s
  | some s1 => strWrite s1 id (fun beg m => m.store (beg + len) src.length (srcAt bytes)) (len + src.length)

/-- `Vec::shrink_to_fit`: nothing when `cap = len`; `deallocate` (a no-op of the arena) when the
vector is empty: the vector forgets its buffer — the ghost record keeps a block of length 0 under
the string's name, which is what "no buffer" looks like to every other operation; `Allocator::shrink`
otherwise, which is only legal for the tail block (elsewhere: `debug_assert!(false)`, the request is
outside the contract). -/
def St.strShrink (s : St) (id : Nat) : St :=
  match findBlk s.live id with
  | none => s
  | some b =>
      if b.len ≤ b.used then s
      else if b.used = 0 then { s with live := { b with len := 0 } :: dropBlk s.live id }
      else s.shrinkBlk id b.used

/-- What `vec_replace_impl` asks `Vec::reserve` for, as a function of `(cap, len, del, srcLen)`.
The pinned code: `if src_len > del_len { dst.reserve(src_len - del_len) }` (`reserve(0)` is a no-op). -/
def pinnedRule (_cap _len del srcLen : Nat) : Nat := srcLen - del

/-- The rule of seeded change C11-c2: `if new_len > capacity { reserve(new_len - capacity) }` — wrong,
because `Vec::reserve` counts from the length. -/
def seededRule (cap len del srcLen : Nat) : Nat := (len - del + srcLen) - cap

/-- `vec_replace_impl(dst, lo..hi, src)` with the reserve request given by `rule`: clamp the range,
reserve, `ptr::copy` the tail from `off + del` to `off + srcLen`, `copy_nonoverlapping` the
replacement to `off`, `set_len(len - del + srcLen)`. -/
def St.strReplaceWith (rule : Nat → Nat → Nat → Nat → Nat) (s : St) (id lo hi : Nat) (src : List Nat) : St :=
  let (cap, len) := strDims s id
  let off := min lo len
  let del := min (hi - off) (len - off)
  if del = 0 ∧ src.length = 0 then s else
  let tail := len - off - del
  let bytes := src.toArray
  match strEnsure s id (reserveCap cap len (rule cap len del src.length)) with
  | none => s
  | some s1 =>
      strWrite s1 id
        (fun beg m => (m.copy (beg + off + del) (beg + off + src.length) tail).store (beg + off) src.length (srcAt bytes))
        (len - del + src.length)

/-- The string (its bytes) held in a buffer. -/
def Block.content (b : Block) : List Nat := (List.range b.used).map b.data

def strContent (s : St) (id : Nat) : List Nat :=
  match findBlk s.live id with
  | some b => b.content
  | none => []

/-- `str::find`: byte index of the first occurrence (`"".find("") = Some(0)`); `i` = bytes already
skipped. -/
def findSubFrom (needle : List Nat) : List Nat → Nat → Option Nat
  | [], i => if needle.isEmpty then some i else none
  | h :: t, i => if needle.isPrefixOf (h :: t) then some i else findSubFrom needle t (i + 1)

def findSub (hay needle : List Nat) : Option Nat := findSubFrom needle hay 0

/-- `str::is_char_boundary(i)` on a string of `len` UTF-8 bytes `byte 0 …`. -/
def isCharBoundary (len : Nat) (byte : Nat → Nat) (i : Nat) : Bool :=
  i == 0 || i == len || (i < len && (byte i < 128 || byte i ≥ 192))

/-- The two assertions of `ArenaString::replace_range(lo..hi, _)` (`hi = none`: `lo..`) on the
string in block `id`: when one fails the real code panics before it touches anything. -/
def replaceRangeAccepts (s : St) (id lo : Nat) (hi : Option Nat) : Bool :=
  match findBlk s.live id with
  | some b => isCharBoundary b.used b.data lo && (hi.map (isCharBoundary b.used b.data)).getD true
  | none => lo == 0 && (hi.map (· == 0)).getD true

/-- The specification of `replace_range`: what the bytes should be afterwards. -/
def replaceBytes (c : List Nat) (off del : Nat) (src : List Nat) : List Nat :=
  c.take off ++ src ++ c.drop (off + del)

/-- One client operation. -/
def step (s : St) : Op → St
  | .alloc id bytes align zeroed => s.allocBlk id bytes align zeroed
  | .grow id newSize => s.growBlk id newSize
  | .shrink id newSize => s.shrinkBlk id newSize
  | .store id f =>
      match findBlk s.live id with
      | none => s
      | some b =>
          { s with a := { s.a with mem := s.a.mem.store b.beg b.len f }
                   live := { b with data := f } :: dropBlk s.live id }
  | .reset to =>
      if to ≤ s.a.offset then { s with a := s.a.reset to, live := below s.live to } else s
  | .decommit => { s with a := s.a.decommit }
  | .borrow => { s with borrows := s.a.borrow :: s.borrows }
  | .release =>
      match s.borrows with
      | [] => s
      | saved :: rest =>
          if saved ≤ s.a.offset then
            { a := s.a.release saved, live := below s.live saved, borrows := rest }
          else { s with borrows := rest }
  | .sReserve id additional exact => s.strReserve id additional exact
  | .sPush id src => s.strPush id src
  | .sShrink id => s.strShrink id
  | .sClear id => strWrite s id (fun _ m => m) 0
  | .sReplace id lo hi src => s.strReplaceWith pinnedRule id lo hi src
  | .sOnce id old new =>
      match findSub (strContent s id) old with
      | none => s
      | some at_ => s.strReplaceWith pinnedRule id at_ (at_ + old.length) new

/-- Does the operation end in `handle_alloc_error` (the allocator refuses the buffer `Vec::reserve`
asks for)?  The process aborts; `step` leaves the state alone (`Props/C11.lean: step_abort_clean`). -/
def aborts (s : St) : Op → Bool
  | .sReserve id additional exact =>
      let (cap, len) := strDims s id
      (strEnsure s id (if exact then reserveExactCap cap len additional else reserveCap cap len additional)).isNone
  | .sPush id src =>
      let (cap, len) := strDims s id
      (strEnsure s id (reserveCap cap len src.length)).isNone
  | .sReplace id lo hi src =>
      let (cap, len) := strDims s id
      let off := min lo len
      let del := min (hi - off) (len - off)
      !(del == 0 && src.length == 0) && (strEnsure s id (reserveCap cap len (pinnedRule cap len del src.length))).isNone
  | .sOnce id old new =>
      match findSub (strContent s id) old with
      | none => false
      | some at_ =>
          let (cap, len) := strDims s id
          let off := min at_ len
          let del := min (at_ + old.length - off) (len - off)
          !(del == 0 && new.length == 0) && (strEnsure s id (reserveCap cap len (pinnedRule cap len del new.length))).isNone
  | _ => false

def run (s : St) : List Op → St
  | [] => s
  | op :: ops => run (step s op) ops

end NaijaVerif.Bump
