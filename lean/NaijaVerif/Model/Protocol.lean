/-
The wiring of the scratch arenas in the shipped entry points (`src/bin/naija/main.rs` +
`cmd.rs::run_source`, `wasm/src/lib.rs::run_source`) as data, the decidable safety check on that
data, and the exit-status decision of `cmd.rs::run_source`.

The data itself (`Gen/Protocol.lean`) is extracted from the Rust source on every run by
`extract/gen_cli.py`; nothing in it is typed in by hand.

Three levels:
* `SrcOp`  — what the extractor sees in the function body: `arena::init`, `let v =
  scratch_arena(..)`, declarations of objects that captured guards (they deallocate through them
  when dropped), phases that allocate through guards, early `return`s, and the bare blocks that
  delimit scopes;
* `ProtoOp` — one control-flow path through that body with Rust's scope rule made explicit (a
  `return` or the end of a block drops the bindings of every scope left, innermost scope first,
  newest binding first): `paths`;
* `FOp` — a path whose `work` phases are filled with concrete allocations, offset reads and resets.

Core-only imports.
-/
import NaijaVerif.Model.Scratch
import NaijaVerif.Model.Bytes

namespace NaijaVerif.Scratch

/-! ## Source level -/

inductive SrcOp where
  | init
  /-- `let v = scratch_arena(None | Some(&w))` -/
  | letScratch (v : Nat) (conflict : Option Nat)
  /-- `let obj = …` where `obj` keeps references to the guards `uses` (allocator handles): when it
  is dropped at the end of its scope it deallocates through them (`delegate_target` asserts) -/
  | letObj (uses : List Nat)
  /-- a call that allocates / reads offsets / resets through these guards -/
  | work (uses : List Nat)
  /-- a `return` is reachable here -/
  | exit
  /-- `{` and `}` of a bare block -/
  | «open»
  | close
deriving DecidableEq, Repr

inductive ProtoOp where
  | init
  | borrow (v : Nat) (conflict : Option Nat)
  | work (uses : List Nat)
  | release (v : Nat)
deriving DecidableEq, Repr

/-- A binding of a scope: a guard or an object that captured guards. -/
inductive Binding where
  | guard (v : Nat)
  | obj (uses : List Nat)
deriving DecidableEq, Repr

def Binding.dropOp : Binding → ProtoOp
  | .guard v => .release v
  | .obj uses => .work uses

/-- Drops when leaving all the scopes in `scopes` (innermost first, each newest binding first). -/
def dropAll (scopes : List (List Binding)) : List ProtoOp := scopes.flatten.map Binding.dropOp

def bind (b : Binding) : List (List Binding) → List (List Binding)
  | [] => [[b]]
  | s :: ss => (b :: s) :: ss

/-- All control-flow paths of a body: one per `exit` plus the one that falls off the end. -/
def pathsAux : List SrcOp → List (List Binding) → List ProtoOp → List (List ProtoOp)
  | [], scopes, acc => [acc ++ dropAll scopes]
  | .init :: r, scopes, acc => pathsAux r scopes (acc ++ [.init])
  | .letScratch v c :: r, scopes, acc => pathsAux r (bind (.guard v) scopes) (acc ++ [.borrow v c])
  | .letObj uses :: r, scopes, acc => pathsAux r (bind (.obj uses) scopes) acc
  | .work uses :: r, scopes, acc => pathsAux r scopes (acc ++ [.work uses])
  | .exit :: r, scopes, acc => (acc ++ dropAll scopes) :: pathsAux r scopes acc
  | .open :: r, scopes, acc => pathsAux r ([] :: scopes) acc
  | .close :: r, [], acc => pathsAux r [] acc
  | .close :: r, s :: ss, acc => pathsAux r ss (acc ++ s.map Binding.dropOp)

def paths (src : List SrcOp) : List (List ProtoOp) := pathsAux src [] []

/-! ## The decidable check: only the shape (which guard sits on which arena, in which order) -/

/-- Live guards, newest first, with the arena each one delegates to. -/
abbrev Shape := List (Nat × Ix)

/-- The newest guard of arena `i`. -/
def topOf (sh : Shape) (i : Ix) : Option Nat := ((sh.filter (fun e => e.2 = i)).head?).map (·.1)

/-- `v` holds a guard and it is the newest one of its arena. -/
def isTop (sh : Shape) (v : Nat) : Bool :=
  match sh.lookup v with
  | none => false
  | some i => topOf sh i == some v

def absStep (sh : Shape) : ProtoOp → Option Shape
  | .init => if sh.isEmpty then some [] else none
  | .borrow v c =>
    match sh.lookup v with
    | some _ => none
    | none =>
      match c with
      | none => some ((v, scratchIndex none) :: sh)
      | some w =>
        match sh.lookup w with
        | none => none
        | some i => some ((v, scratchIndex (some (.scratch i))) :: sh)
  | .work uses => if uses.all (isTop sh) then some sh else none
  | .release v => if isTop sh v then some (sh.filter (fun e => e.1 != v)) else none

def absRun : Shape → List ProtoOp → Option Shape
  | sh, [] => some sh
  | sh, op :: ops =>
    match absStep sh op with
    | some sh' => absRun sh' ops
    | none => none

/-- A path is safe when every guard is used only while it is the newest borrow of its arena,
guards are released newest-first per arena, `init` happens with no guard alive, and no guard is left
over. -/
def pathSafe (p : List ProtoOp) : Bool :=
  match absRun [] p with
  | some [] => true
  | _ => false

def protocolSafe (src : List SrcOp) : Bool := (paths src).all pathSafe

/-! ## Filled paths -/

inductive WorkOp where
  | alloc (v bytes align : Nat)
  | mark (v : Nat)
  | reset (v k : Nat)
deriving DecidableEq, Repr

def WorkOp.var : WorkOp → Nat
  | .alloc v _ _ => v
  | .mark v => v
  | .reset v _ => v

def WorkOp.toOp : WorkOp → Op
  | .alloc v b a => .alloc v b a
  | .mark v => .mark v
  | .reset v k => .reset v k

/-- The `Layout` contract: alignments are at least 1. -/
def WorkOp.wf : WorkOp → Bool
  | .alloc _ _ a => decide (0 < a)
  | _ => true

inductive FOp where
  | init
  | borrow (v : Nat) (conflict : Option Nat)
  | work (uses : List Nat) (ws : List WorkOp)
  | release (v : Nat)
deriving Repr

def FOp.erase : FOp → ProtoOp
  | .init => .init
  | .borrow v c => .borrow v c
  | .work uses _ => .work uses
  | .release v => .release v

/-- The content of a phase goes through the guards the phase is declared to use. -/
def FOp.ok : FOp → Bool
  | .work uses ws => ws.all (fun w => uses.contains w.var && w.wf)
  | _ => true

def FOp.ops : FOp → List Op
  | .init => [.init]
  | .borrow v c => [.borrow v c]
  | .work _ ws => ws.map WorkOp.toOp
  | .release v => [.release v]

def flatOps (fs : List FOp) : List Op := fs.flatMap FOp.ops

/-! ## Exit status of `cmd.rs::run_source` -/

inductive Stage where
  | parse | resolve | run
deriving DecidableEq, Repr

inductive Cond where
  /-- `!d.diagnostics.is_empty()` -/
  | anyDiag
  /-- `d.has_errors()` -/
  | anyError
deriving DecidableEq, Repr

/-- `if <cond on the diagnostics of stage> { …; return ExitCode::<code>; }` -/
structure ExitRule where
  stage : Stage
  cond  : Cond
  code  : Nat
deriving DecidableEq, Repr

/-- The diagnostics the three stages produce (those of a later stage are what it would produce if it
were reached). -/
structure RunResult where
  parseDiags    : Nat
  parseErrors   : Nat
  resolveDiags  : Nat
  resolveErrors : Nat
  runDiags      : Nat
  runErrors     : Nat
deriving DecidableEq, Repr

def ExitRule.fires (r : ExitRule) (x : RunResult) : Bool :=
  match r.stage, r.cond with
  | .parse, .anyDiag => x.parseDiags != 0
  | .parse, .anyError => x.parseErrors != 0
  | .resolve, .anyDiag => x.resolveDiags != 0
  | .resolve, .anyError => x.resolveErrors != 0
  | .run, .anyDiag => x.runDiags != 0
  | .run, .anyError => x.runErrors != 0

/-- The first rule that fires decides; otherwise the value of the tail expression. -/
def exitCodeBy (rules : List ExitRule) (dflt : Nat) (x : RunResult) : Nat :=
  match rules.find? (·.fires x) with
  | some r => r.code
  | none => dflt

/-- The rules of the pinned `cmd.rs` (`ExitCode::FAILURE` is 1, `ExitCode::SUCCESS` is 0). -/
def docExitRules : List ExitRule :=
  [⟨.parse, .anyDiag, 1⟩, ⟨.resolve, .anyError, 1⟩, ⟨.run, .anyError, 1⟩]

/-! ## Process-global state the model accounts for -/

/-- `file:item` of every process-global item under `src/` and `wasm/src/` (sorted):
* `S_SCRATCH` — the two scratch arenas (this model);
* the two `Box::leak`s in `runtime.rs` leak the text of an I/O or spawn error into a `&'static str`
  that is only ever read by the diagnostic of the same run (write-once, never looked up again);
* `PENDING` (`src/sys/unix.rs`, added by the D-17 fix) — bytes read from stdin but not yet returned
  by `read_line`: deliberate state between the `read_line` calls of ONE run (modelled in C17).  It is
  not reset by `arena::init`; for the CLI one process is one run, and the playground is built with the
  wasm back end, where this item does not exist.  The sequences of the C14 tie never call `read_line`;
* `S_BASE_GEN` — Windows debug builds only: address hint for `VirtualAlloc`, not compiled here. -/
def accountedGlobals : List (List Nat) :=
  [ b!"src/arena/scratch.rs:static mut S_SCRATCH",
    b!"src/runtime.rs:Box::leak@from",
    b!"src/runtime.rs:Box::leak@map_process_error",
    b!"src/sys/unix.rs:static PENDING",
    b!"src/sys/windows.rs:static mut S_BASE_GEN" ]

/-- Every call of `scratch_arena` / `arena::init` outside `scratch.rs` (`file:function:callee`,
sorted): the three borrows and the `init` of each entry point, nothing inside the library. -/
def accountedCallSites : List (List Nat) :=
  [ b!"src/bin/naija/cmd.rs:run_source:scratch_arena",
    b!"src/bin/naija/cmd.rs:run_source:scratch_arena",
    b!"src/bin/naija/main.rs:main:arena::init",
    b!"src/bin/naija/main.rs:main:scratch_arena",
    b!"wasm/src/lib.rs:run_source:arena::init",
    b!"wasm/src/lib.rs:run_source:scratch_arena",
    b!"wasm/src/lib.rs:run_source:scratch_arena",
    b!"wasm/src/lib.rs:run_source:scratch_arena" ]

end NaijaVerif.Scratch
