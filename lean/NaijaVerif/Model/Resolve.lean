import NaijaVerif.Model.Types
import NaijaVerif.Model.Diag
/-
`src/resolver.rs` without the analysis passes it calls at the end (`emit_analysis_warnings`):
scope handling, per-block function pre-declaration with return-type inference at block entry,
`check_stmt`, `check_expr`, `infer_expr_type`, `classify_expr`, and the collection of
`ProgramFacts`.  The result is the AST with the resolver's bindings as annotations, the resolver's
own diagnostics (all of severity error; `check_*` emits no warning) and the facts by ids.

Rendering of the imperative code:
* The scope *stacks* (`variable_scopes`, `function_scopes`, `scope_stack`) and the saved/restored
  context (`current_function`, `current_owner`, `in_loop`, `current_stmt`) are passed downwards as
  an environment `Env`; the variable scope of the block being checked is threaded through its
  statements (`Cur`).  Push at block entry / pop at block exit is therefore structural.
* Diagnostics never influence the traversal; every function returns the list it emitted, in order.
* Ids are positions: `FunctionId` = `facts.functions.length` at pre-declaration, `ScopeId` =
  `facts.scopes.length` at `check_block` / parameter scope, `LocalId` = `facts.locals.length` at
  declaration, `StmtId` = `facts.stmtEffects.length` at `push_stmt_effect`.
* Pointer identity: `predeclared_function_id(body)` finds the function pushed for *this* definition;
  a definition is pushed iff no earlier definition of the block has its name, so the model keeps the
  names of the definitions already passed in the block (`Cur.seenFns`).

Operator typing on dynamic operands is the FIXED one (D-09e, commit b1ccf31: `add` with a dynamic
operand is dynamic unless an operand is a string; `not`/`minus` on a dynamic operand are typed).
Return types are inferred at block entry in the enclosing scopes, where every name that the function
(parameters, `make`s and function definitions anywhere in its body) or its defining block (`make`s) binds
is dynamic (`shadowed_vars` / `shadowed_funcs`, fix D-09b; `Env.shadowRet := false` is the pinned code,
which looked those names up in the enclosing scopes).
Quirk reproduced as it is (DESIGN §6): `x get e` is never checked against the declared type of `x`.  D-09a is FIXED in the code
(`in_loop` is 0 while a function body is checked), and so is D-18: `localsLen` is the span
`last own id − start + 1` (`spanLen := true`; `false` gives the count of the originally pinned code).
Core-only.
-/
namespace NaijaVerif.Resolve
open NaijaVerif

/-! ### Diagnostics: the rule behind each `emit_error` site -/

/-- One constructor per `emit_error` site of `check_*` / `predeclare_block_functions`. -/
inductive Rule where
  -- scoping rules
  | reservedVar | reservedFn | reservedParam
  | dupFunction | dupParam
  | undeclaredVar | undeclaredSeg | assignUndeclared | undeclaredFn
  | arityUser | arityGlobal
  | breakOutside | continueOutside | returnOutside
  -- typing rules
  | tyBinary | tyUnary | tyCond | tyIndexBase | tyIndexIdx | tyCommandArg | tyMethodArg
  | tyMutReceiver | methodUnknown | arityMethod
  -- shapes without a run-time meaning (fix D-09c)
  | bareMember | badCallee | badIndexRoot
deriving DecidableEq, Repr, Inhabited

/-- The `SemanticError` the site passes. -/
def Rule.kind : Rule → DiagKind
  | .reservedVar | .reservedFn | .reservedParam => .semReservedKeyword
  | .dupFunction | .dupParam => .duplicateIdentifier
  | .undeclaredVar | .undeclaredSeg | .undeclaredFn | .methodUnknown => .undeclaredIdentifier
  | .assignUndeclared => .assignmentToUndeclared
  | .arityUser | .arityGlobal | .arityMethod => .functionCallArity
  | .breakOutside | .continueOutside | .returnOutside => .unreachableCode
  | .tyBinary | .tyUnary | .tyCond | .tyIndexBase | .tyIndexIdx | .tyCommandArg | .tyMethodArg
  | .tyMutReceiver | .bareMember | .badCallee | .badIndexRoot => .typeMismatch

/-- The scoping fragment of the static rules (everything that does not depend on static types). -/
def Rule.isScoping : Rule → Bool
  | .reservedVar | .reservedFn | .reservedParam | .dupFunction | .dupParam | .undeclaredVar
  | .undeclaredSeg | .assignUndeclared | .undeclaredFn | .arityUser | .arityGlobal | .breakOutside
  | .continueOutside | .returnOutside => true
  | _ => false

structure RDiag where
  rule : Rule
  span : Span
  labels : List Span
deriving DecidableEq, Repr, Inhabited

def RDiag.at (r : Rule) (s : Span) : RDiag := ⟨r, s, [s]⟩

def RDiag.toDiag (d : RDiag) : Diag := { sev := .error, kind := d.rule.kind, span := d.span, labels := d.labels }

/-! ### Scopes -/

/-- `VariableScopeEntry`. -/
structure VarEntry where
  name : Bytes
  ty : VType
  id : Nat
deriving DecidableEq, Repr, Inhabited

/-- One variable scope, **newest entry first** (the Rust vector is searched from the back). -/
abbrev Scope := List VarEntry

/-- `FunctionSig`. -/
structure FnSig where
  name : Bytes
  id : Nat
  arity : Nat
  nameSpan : Span
  ret : VType
deriving DecidableEq, Repr, Inhabited

/-- The context of the statement being checked. -/
structure Env where
  /-- enclosing variable scopes, innermost first (without the scope of the current block) -/
  vars : List Scope
  /-- function scopes, innermost first (the head is the current block's) -/
  fns : List (List FnSig)
  curFn : Option Nat
  owner : Nat
  inLoop : Nat
  /-- `current_scope()` -/
  scope : Nat
  /-- `locals_len` is the span of the own ids (D-18 fix) instead of their count -/
  spanLen : Bool
  /-- return-type inference treats the names that the function or its defining block binds as dynamic
  (fix D-09b); `false` = the pinned code, which looked them up in the enclosing scopes -/
  shadowRet : Bool := true
deriving Repr, Inhabited

/-- The state threaded through the statements of one block. -/
structure Cur where
  /-- the block's own variable scope -/
  vars : Scope := []
  /-- names of the function definitions of this block already passed -/
  seenFns : List Bytes := []
deriving Repr, Inhabited

def findVar (s : Scope) (x : Bytes) : Option VarEntry := s.find? (fun e => e.name == x)

/-- `lookup_var_info`: innermost scope first, newest entry first. -/
def lookupScopes : List Scope → Bytes → Option VarEntry
  | [], _ => none
  | s :: ss, x => match findVar s x with
    | some e => some e
    | none => lookupScopes ss x

def lookupVar (env : Env) (cur : Scope) (x : Bytes) : Option VarEntry := lookupScopes (cur :: env.vars) x

def findFn (s : List FnSig) (x : Bytes) : Option FnSig := s.find? (fun g => g.name == x)

/-- `lookup_func`: innermost function scope first. -/
def lookupFns : List (List FnSig) → Bytes → Option FnSig
  | [], _ => none
  | s :: ss, x => match findFn s x with
    | some g => some g
    | none => lookupFns ss x

def lookupFn (env : Env) (x : Bytes) : Option FnSig := lookupFns env.fns x

/-- Re-declaration in the same scope: the entry keeps its id, the static type is replaced. -/
def updateTy : Scope → Bytes → VType → Scope
  | [], _, _ => []
  | e :: es, x, t => if e.name == x then { e with ty := t } :: es else e :: updateTy es x t

/-! ### Facts bookkeeping (`analysis/facts.rs`) -/

def modifyAt {α : Type} : List α → Nat → (α → α) → List α
  | [], _, _ => []
  | a :: as, 0, f => f a :: as
  | a :: as, n + 1, f => a :: modifyAt as n f

def addNew (l : List Nat) (x : Nat) : List Nat := if l.contains x then l else l ++ [x]

def rootName : Bytes := b!"<script>"

/-- `push_root_function`. -/
def rootFacts : Facts :=
  { functions := [{ name := rootName, hasParams := false, paramCount := 0, parent := none,
                    definingScope := none, defStmt := none, localsStart := 0, localsLen := 0 }],
    functionDirects := [⟨[], [], []⟩] }

def pushFunction (f : Facts) (name : Bytes) (nparams parent scope : Nat) : Facts :=
  { f with
    functions := f.functions ++ [{ name := name, hasParams := true, paramCount := nparams,
                                   parent := some parent, definingScope := some scope,
                                   defStmt := none, localsStart := f.locals.length, localsLen := 0 }],
    functionDirects := f.functionDirects ++ [⟨[], [], []⟩] }

def pushScope (f : Facts) (parent : Option Nat) (owner : Nat) : Facts :=
  { f with scopes := f.scopes ++ [⟨parent, owner⟩], scopeLocals := f.scopeLocals ++ [[]] }

def setRootScope (f : Facts) (scope : Nat) : Facts :=
  { f with functions := modifyAt f.functions 0 (fun i => { i with definingScope := some scope }) }

def setDefStmt (f : Facts) (fn sid : Nat) : Facts :=
  { f with functions := modifyAt f.functions fn (fun i => { i with defStmt := some sid }) }

/-- `push_stmt_effect`. -/
def pushStmt (f : Facts) (owner scope : Nat) : Facts :=
  { f with stmtEffects := f.stmtEffects ++ [⟨owner, scope, [], [], [], .pureNoTrap⟩] }

/-- `push_local_with_kind`. -/
def pushLocal (f : Facts) (spanLen : Bool) (name : Bytes) (owner scope : Nat) (declStmt : Option Nat)
    (kind : LocalKind) : Facts :=
  let id := f.locals.length
  { f with
    locals := f.locals ++ [⟨name, owner, scope, declStmt, kind⟩],
    scopeLocals := modifyAt f.scopeLocals scope (fun l => l ++ [id]),
    functions := modifyAt f.functions owner (fun i =>
      let start := if i.localsLen == 0 then id else i.localsStart
      { i with localsStart := start,
               localsLen := if spanLen then id - start + 1 else i.localsLen + 1 }) }

def ownedBy (f : Facts) (owner id : Nat) : Bool :=
  match f.locals[id]? with
  | some l => l.owner == owner
  | none => false

/-- `Resolver::record_stmt_read` (only locals of the current owner). -/
def recStmtRead (f : Facts) (owner sid id : Nat) : Facts :=
  if ownedBy f owner id then
    { f with stmtEffects := modifyAt f.stmtEffects sid (fun e => { e with reads := addNew e.reads id }) }
  else f

def recStmtWrite (f : Facts) (owner sid id : Nat) : Facts :=
  if ownedBy f owner id then
    { f with stmtEffects := modifyAt f.stmtEffects sid (fun e => { e with writes := addNew e.writes id }) }
  else f

def recStmtCallee (f : Facts) (sid callee : Nat) : Facts :=
  { f with stmtEffects :=
      modifyAt f.stmtEffects sid (fun e => { e with directCallees := addNew e.directCallees callee }) }

def joinClass (f : Facts) (sid : Nat) (c : ExprClass) : Facts :=
  { f with stmtEffects := modifyAt f.stmtEffects sid (fun e => { e with exprClass := e.exprClass.join c }) }

/-- `Resolver::record_capture_read` (only locals of another owner). -/
def recCapRead (f : Facts) (owner id : Nat) : Facts :=
  if ownedBy f owner id then f else
    match f.locals[id]? with
    | none => f
    | some _ =>
      { f with functionDirects :=
          modifyAt f.functionDirects owner (fun d => { d with captureReads := addNew d.captureReads id }) }

def recCapWrite (f : Facts) (owner id : Nat) : Facts :=
  if ownedBy f owner id then f else
    match f.locals[id]? with
    | none => f
    | some _ =>
      { f with functionDirects :=
          modifyAt f.functionDirects owner (fun d => { d with captureWrites := addNew d.captureWrites id }) }

def recDirectCallee (f : Facts) (caller callee : Nat) : Facts :=
  { f with functionDirects :=
      modifyAt f.functionDirects caller (fun d => { d with directCallees := addNew d.directCallees callee }) }

def recUserCall (f : Facts) (caller callee : Nat) : Facts :=
  { f with userCalls := f.userCalls ++ [(caller, callee)] }

/-- read + capture-read of a variable use -/
def recUse (f : Facts) (owner sid id : Nat) : Facts := recCapRead (recStmtRead f owner sid id) owner id

/-- `record_stmt_read; record_stmt_write; record_capture_read; record_capture_write` -/
def recReadWrite (f : Facts) (owner sid id : Nat) : Facts :=
  recCapWrite (recCapRead (recStmtWrite (recStmtRead f owner sid id) owner sid id) owner id) owner id

/-! ### `infer_expr_type`, `classify_expr`, `expr_root_local` -/

def inferExpr (env : Env) (cur : Scope) : Expr → Option VType
  | .num _ _ => some .number
  | .null _ => some .null
  | .str _ _ => some .string
  | .bool _ _ => some .bool
  | .array _ _ => some .array
  | .index _ _ _ _ => some .dynamic
  | .var v _ _ => (lookupVar env cur v).map (·.ty)
  | .binary op l r _ =>
      match inferExpr env cur l, inferExpr env cur r with
      | some a, some b => inferBinary op a b
      | _, _ => none
  | .unary op e _ =>
      match inferExpr env cur e with
      | some t => inferUnary op t
      | none => none
  | .member _ _ _ _ => some .dynamic
  | .call callee _ _ _ =>
      match callee with
      | .var fname _ _ =>
          match GlobalB.ofName fname with
          | some g => some g.retType
          | none => (lookupFn env fname).map (·.ret)
      | .member obj field _ _ =>
          match inferExpr env cur obj with
          | none => none
          | some rt =>
              match MemberKind.ofType rt with
              | none => some .dynamic
              | some k =>
                  match memberOf k field with
                  | some m => some m.ret
                  | none => some .dynamic
      | _ => none

/-- `Resolver::{shadowed_vars, shadowed_funcs}`: the names `infer_expr_type` must not look up while a
function's return type is inferred; both lists are empty at any other time. -/
structure Shadow where
  vars : List Bytes := []
  fns : List Bytes := []
deriving Repr, Inhabited

/-- `infer_expr_type` while the shadow lists are filled (fix D-09b): a shadowed variable and a call of
a shadowed function are dynamic; everything else as `inferExpr` (which is this function on empty
lists, `Lemmas/ResolveTypes.lean: inferExprSh_nil`). -/
def inferExprSh (sh : Shadow) (env : Env) (cur : Scope) : Expr → Option VType
  | .num _ _ => some .number
  | .null _ => some .null
  | .str _ _ => some .string
  | .bool _ _ => some .bool
  | .array _ _ => some .array
  | .index _ _ _ _ => some .dynamic
  | .var v _ _ => if sh.vars.contains v then some .dynamic else (lookupVar env cur v).map (·.ty)
  | .binary op l r _ =>
      match inferExprSh sh env cur l, inferExprSh sh env cur r with
      | some a, some b => inferBinary op a b
      | _, _ => none
  | .unary op e _ =>
      match inferExprSh sh env cur e with
      | some t => inferUnary op t
      | none => none
  | .member _ _ _ _ => some .dynamic
  | .call callee _ _ _ =>
      match callee with
      | .var fname _ _ =>
          match GlobalB.ofName fname with
          | some g => some g.retType
          | none => if sh.fns.contains fname then some .dynamic else (lookupFn env fname).map (·.ret)
      | .member obj field _ _ =>
          match inferExprSh sh env cur obj with
          | none => none
          | some rt =>
              match MemberKind.ofType rt with
              | none => some .dynamic
              | some k =>
                  match memberOf k field with
                  | some m => some m.ret
                  | none => some .dynamic
      | _ => none

/-- `Resolver::literal_expr_type`: the type of an expression built from literals and operators
only, when the run time has a case for every operator in it. -/
def literalType : Expr → Option VType
  | .num _ _ => some .number
  | .str _ _ => some .string
  | .bool _ _ => some .bool
  | .null _ => some .null
  | .unary op e _ =>
      match literalType e with
      | some t => literalUnary op t
      | none => none
  | .binary op l r _ =>
      match literalType l, literalType r with
      | some a, some b => literalMeaning op a b
      | _, _ => none
  | _ => none

/-- `variable_read_class` (fix D-03e): a read of a local of an ENCLOSING function may trap (the
function can be called before the variable's `make`); own locals, parameters and unresolved names
do not. -/
def varReadClass (env : Env) (cur : Scope) (fx : Facts) (v : Bytes) : ExprClass :=
  match lookupVar env cur v with
  | some e =>
      match fx.locals[e.id]? with
      | some l => if l.owner != env.owner then .pureMayTrap else .pureNoTrap
      | none => .pureNoTrap
  | none => .pureNoTrap

/-- The `{name}` segments of an interpolated string. -/
def segsClass (env : Env) (cur : Scope) (fx : Facts) : List Seg → ExprClass
  | [] => .pureNoTrap
  | .lit _ :: rest => segsClass env cur fx rest
  | .var v _ :: rest => (varReadClass env cur fx v).join (segsClass env cur fx rest)

mutual
  def classifyExpr (env : Env) (cur : Scope) (fx : Facts) : Expr → ExprClass
    | .num _ _ | .bool _ _ | .null _ | .str (.static _) _ => .pureNoTrap
    | .var v _ _ => varReadClass env cur fx v
    | .str (.interp segs) _ => segsClass env cur fx segs
    | .array es _ => classifyExprs env cur fx es
    | .index a i _ _ => ((classifyExpr env cur fx a).join (classifyExpr env cur fx i)).join .pureMayTrap
    | .binary op l r s =>
        let c := (classifyExpr env cur fx l).join (classifyExpr env cur fx r)
        if op = .divide || op = .mod || (literalType (.binary op l r s)).isNone then c.join .pureMayTrap else c
    | .unary op e s =>
        let c := classifyExpr env cur fx e
        if (literalType (.unary op e s)).isNone then c.join .pureMayTrap else c
    | .member o _ _ _ => (classifyExpr env cur fx o).join .pureMayTrap
    | .call callee args _ _ =>
        let c := classifyExprs env cur fx args
        match callee with
        | .var fname _ _ =>
            match GlobalB.ofName fname with
            | some g =>
                let c := c.join g.cls
                if g = .command && (args.head?.bind literalType) != some .string then c.join .pureMayTrap else c
            | none => if (lookupFn env fname).isNone then c.join .impure else c
        | .member obj field _ _ =>
            let c := (c.join (classifyExpr env cur fx obj)).join .pureMayTrap
            match memberAny field with
            | some m => c.join m.cls
            | none => c.join .impure
        | _ => c.join .impure
  /-- fold of `join` over a list, starting from `PureNoTrap` -/
  def classifyExprs (env : Env) (cur : Scope) (fx : Facts) : List Expr → ExprClass
    | [] => .pureNoTrap
    | e :: es => (classifyExpr env cur fx e).join (classifyExprs env cur fx es)
end

/-- `Resolver::condition_class` (fix D-03f): evaluating the condition of an `if` / `jasi` and then the
run-time test that its value is a boolean or null; only a type that follows from the condition's own
literals rules the `Type mismatch` out. -/
def condClass (env : Env) (cur : Scope) (fx : Facts) (c : Expr) : ExprClass :=
  let k := classifyExpr env cur fx c
  match literalType c with
  | some .bool | some .null => k
  | _ => k.join .pureMayTrap

/-- `expr_root_local`. -/
def exprRootLocal (env : Env) (cur : Scope) : Expr → Option Nat
  | .var n _ _ => (lookupVar env cur n).map (·.id)
  | .index a _ _ _ => exprRootLocal env cur a
  | .member o _ _ _ => exprRootLocal env cur o
  | _ => none

/-- `is_variable_rooted`: an index / member chain that starts at a variable. -/
def isVarRooted : Expr → Bool
  | .var _ _ _ => true
  | .index a _ _ _ => isVarRooted a
  | .member o _ _ _ => isVarRooted o
  | _ => false

/-! ### `check_expr` -/

structure Out (α : Type) where
  val : α
  ds : List RDiag
  facts : Facts

/-- The `{name}` segments of an interpolated string. -/
def checkSegs (env : Env) (cur : Scope) (sid : Nat) (span : Span) : List Seg → Facts → Out (List Seg)
  | [], f => ⟨[], [], f⟩
  | .lit s :: rest, f =>
      let r := checkSegs env cur sid span rest f
      ⟨.lit s :: r.val, r.ds, r.facts⟩
  | .var n _ :: rest, f =>
      match lookupVar env cur n with
      | some e =>
          let r := checkSegs env cur sid span rest (recUse f env.owner sid e.id)
          ⟨.var n (some e.id) :: r.val, r.ds, r.facts⟩
      | none =>
          let r := checkSegs env cur sid span rest f
          ⟨.var n none :: r.val, RDiag.at .undeclaredSeg span :: r.ds, r.facts⟩

def errIf (bad : Bool) (d : RDiag) : List RDiag := if bad then [d] else []

/-- `expect_member_string_arg` / `expect_member_number_arg` on the arguments the code looks at. -/
def argDiags (env : Env) (cur : Scope) (ck : ArgCheck) (args : List Expr) (mspan : Span) : List RDiag :=
  match ck with
  | .none => []
  | .string0 => ((args.take 1).map fun a => errIf (!stringArgOk (inferExpr env cur a)) (RDiag.at .tyMethodArg mspan)).flatten
  | .string0If2 =>
      if args.length ≥ 2 then
        ((args.take 1).map fun a => errIf (!stringArgOk (inferExpr env cur a)) (RDiag.at .tyMethodArg mspan)).flatten
      else []
  | .number0 => ((args.take 1).map fun a => errIf (!numberArgOk (inferExpr env cur a)) (RDiag.at .tyMethodArg mspan)).flatten
  | .strings2 => ((args.take 2).map fun a => errIf (!stringArgOk (inferExpr env cur a)) (RDiag.at .tyMethodArg mspan)).flatten
  | .numbers2 => ((args.take 2).map fun a => errIf (!numberArgOk (inferExpr env cur a)) (RDiag.at .tyMethodArg mspan)).flatten

/-- Checks of a method call whose receiver has the static type `rt` (after the receiver itself
has been checked): diagnostics and the receiver read/write facts. -/
def checkMethod (env : Env) (cur : Scope) (sid : Nat) (rt : VType) (obj : Expr) (field : Bytes)
    (args : List Expr) (mspan : Span) (f : Facts) : List RDiag × Facts :=
  match (MemberKind.ofType rt).bind (fun k => memberOf k field) with
  | some m =>
      let root := exprRootLocal env cur obj
      let f1 := if m.mutRecv then
          (match root with
           | some id => recReadWrite f env.owner sid id
           | none => f)
        else f
      let d1 := errIf (m.mutRecv && root.isNone && m.kind == .processCommand) (RDiag.at .tyMutReceiver mspan)
      let d2 := errIf (args.length != m.arity) (RDiag.at .arityMethod mspan)
      (d1 ++ d2 ++ argDiags env cur m.argCheck args mspan, f1)
  | none => (errIf (rt != .dynamic) (RDiag.at .methodUnknown mspan), f)

mutual
  def checkExpr (env : Env) (cur : Scope) (sid : Nat) : Expr → Facts → Out Expr
    | .num l s, f => ⟨.num l s, [], f⟩
    | .bool b s, f => ⟨.bool b s, [], f⟩
    | .null s, f => ⟨.null s, [], f⟩
    | .str (.static b) s, f => ⟨.str (.static b) s, [], f⟩
    | .str (.interp segs) s, f =>
        let r := checkSegs env cur sid s segs f
        ⟨.str (.interp r.val) s, r.ds, r.facts⟩
    | .array es s, f =>
        let r := checkExprs env cur sid es f
        ⟨.array r.val s, r.ds, r.facts⟩
    | .index a i isp s, f =>
        let ra := checkExpr env cur sid a f
        let ri := checkExpr env cur sid i ra.facts
        ⟨.index ra.val ri.val isp s,
         ra.ds ++ ri.ds ++ errIf (!indexBaseOk (inferExpr env cur a)) (RDiag.at .tyIndexBase s)
           ++ errIf (!indexIdxOk (inferExpr env cur i)) (RDiag.at .tyIndexIdx isp),
         ri.facts⟩
    | .var v _ s, f =>
        match lookupVar env cur v with
        | some e => ⟨.var v (some e.id) s, [], recUse f env.owner sid e.id⟩
        | none => ⟨.var v none s, [RDiag.at .undeclaredVar s], f⟩
    | .binary op l r s, f =>
        let rl := checkExpr env cur sid l f
        let rr := checkExpr env cur sid r rl.facts
        ⟨.binary op rl.val rr.val s,
         rl.ds ++ rr.ds ++ errIf (!binaryOk op (inferExpr env cur l) (inferExpr env cur r)) (RDiag.at .tyBinary s),
         rr.facts⟩
    | .unary op e s, f =>
        let r := checkExpr env cur sid e f
        ⟨.unary op r.val s, r.ds ++ errIf (!unaryOk op (inferExpr env cur e)) (RDiag.at .tyUnary s), r.facts⟩
    | .member o fld fs s, f =>
        let r := checkExpr env cur sid o f
        -- a member access that is not a callee has no meaning (fix D-09c)
        ⟨.member r.val fld fs s, r.ds ++ [RDiag.at .bareMember s], r.facts⟩
    | .call callee args _ s, f =>
        match callee with
        | .var fname vb vs =>
            match GlobalB.ofName fname with
            | some g =>
                let d1 := errIf (args.length != g.arity) (RDiag.at .arityGlobal s)
                let d2 := match g, args with
                  | .command, a :: _ => errIf (!stringArgOk (inferExpr env cur a)) (RDiag.at .tyCommandArg s)
                  | _, _ => []
                let ra := checkExprs env cur sid args f
                ⟨.call (.var fname vb vs) ra.val none s, d1 ++ d2 ++ ra.ds, ra.facts⟩
            | none =>
                match lookupFn env fname with
                | some g =>
                    let f1 := recStmtCallee (recUserCall (recDirectCallee f env.owner g.id) env.owner g.id) sid g.id
                    let ra := checkExprs env cur sid args f1
                    ⟨.call (.var fname vb vs) ra.val (some g.id) s,
                     errIf (args.length != g.arity) (RDiag.at .arityUser s) ++ ra.ds, ra.facts⟩
                | none =>
                    let ra := checkExprs env cur sid args f
                    ⟨.call (.var fname vb vs) ra.val none s, RDiag.at .undeclaredFn s :: ra.ds, ra.facts⟩
        | .member obj field fs ms =>
            let ro := checkExpr env cur sid obj f
            let m := match inferExpr env cur obj with
              | some rt => checkMethod env cur sid rt obj field args ms ro.facts
              | none => ([], ro.facts)
            let ra := checkExprs env cur sid args m.2
            ⟨.call (.member ro.val field fs ms) ra.val none s, ro.ds ++ m.1 ++ ra.ds, ra.facts⟩
        | c =>
            let rc := checkExpr env cur sid c f
            let ra := checkExprs env cur sid args rc.facts
            -- only a name or a method can be called (fix D-09c)
            ⟨.call rc.val ra.val none s, rc.ds ++ [RDiag.at .badCallee s] ++ ra.ds, ra.facts⟩
  def checkExprs (env : Env) (cur : Scope) (sid : Nat) : List Expr → Facts → Out (List Expr)
    | [], f => ⟨[], [], f⟩
    | e :: es, f =>
        let r := checkExpr env cur sid e f
        let rs := checkExprs env cur sid es r.facts
        ⟨r.val :: rs.val, r.ds ++ rs.ds, rs.facts⟩
end

/-! ### Function pre-declaration (`predeclare_block_functions`) -/

mutual
  /-- `collect_return_types_from_stmt`: nested function bodies are excluded. -/
  def collectRets (sh : Shadow) (env : Env) (cur : Scope) : Stmt → List VType
    | .ret (some e) _ _ => [(inferExprSh sh env cur e).getD .dynamic]
    | .ret none _ _ => [.null]
    | .ifS _ t e _ _ => collectRetsB sh env cur t ++ collectRetsO sh env cur e
    | .loop _ b _ _ => collectRetsB sh env cur b
    | .block b _ _ => collectRetsB sh env cur b
    | _ => []
  def collectRetsL (sh : Shadow) (env : Env) (cur : Scope) : List Stmt → List VType
    | [] => []
    | s :: ss => collectRets sh env cur s ++ collectRetsL sh env cur ss
  def collectRetsB (sh : Shadow) (env : Env) (cur : Scope) : Block → List VType
    | .mk ss _ => collectRetsL sh env cur ss
  def collectRetsO (sh : Shadow) (env : Env) (cur : Scope) : Option Block → List VType
    | none => []
    | some b => collectRetsB sh env cur b
end

mutual
  /-- `collect_body_bindings`: the names bound anywhere in a function body — by `make`
  (`fns := false`) or by a function definition (`fns := true`) — nested function bodies excluded.
  (The code fills both lists in one walk, in another order; they are only searched.) -/
  def bodyNames (fns : Bool) : Stmt → List Bytes
    | .assign x _ _ _ _ _ => if fns then [] else [x]
    | .fnDef name _ _ _ _ _ _ => if fns then [name] else []
    | .ifS _ t e _ _ => bodyNamesB fns t ++ bodyNamesO fns e
    | .loop _ b _ _ => bodyNamesB fns b
    | .block b _ _ => bodyNamesB fns b
    | _ => []
  def bodyNamesL (fns : Bool) : List Stmt → List Bytes
    | [] => []
    | s :: ss => bodyNames fns s ++ bodyNamesL fns ss
  def bodyNamesB (fns : Bool) : Block → List Bytes
    | .mk ss _ => bodyNamesL fns ss
  def bodyNamesO (fns : Bool) : Option Block → List Bytes
    | none => []
    | some b => bodyNamesB fns b
end

/-- The names a block declares with `make` directly (not in scope yet at block entry). -/
def ownMakes : List Stmt → List Bytes
  | [] => []
  | .assign x _ _ _ _ _ :: rest => x :: ownMakes rest
  | _ :: rest => ownMakes rest

/-- The shadow lists `infer_function_return_type` fills for a function with parameters `ps` and body
`body` whose defining block declares `makes` (none in the pinned code). -/
def shadowOf (env : Env) (makes : List Bytes) (ps : List Param) (body : Block) : Shadow :=
  if env.shadowRet then
    { vars := ps.map (·.name) ++ makes ++ bodyNamesB false body, fns := bodyNamesB true body }
  else {}

/-- `infer_function_return_type`, evaluated where the code evaluates it: at the entry of the
block that *contains* the definition, whose own variable scope is still empty. -/
def inferRet (env : Env) (sh : Shadow) (body : Block) : VType :=
  match collectRetsB sh env [] body with
  | [] => .null
  | t :: ts => if ts.all (· == t) then t else .dynamic

structure Pre where
  sigs : List FnSig
  /-- `pending`: parameters and body of the definitions that got a signature, in order -/
  bodies : List (List Param × Block)
  ds : List RDiag
  facts : Facts

def paramDiags (seen : List Bytes) : List Param → List RDiag
  | [] => []
  | p :: ps =>
      errIf (isReservedName p.name) (RDiag.at .reservedParam p.span)
        ++ errIf (seen.contains p.name) (RDiag.at .dupParam p.span)
        ++ paramDiags (p.name :: seen) ps

/-- First loop of `predeclare_block_functions`: signatures in definition order, duplicates
skipped (`continue`). -/
def predeclare (env : Env) : List Stmt → List FnSig → Facts → Pre
  | [], sigs, f => ⟨sigs, [], [], f⟩
  | .fnDef name nsp ps body _ _ _ :: rest, sigs, f =>
      let d1 := errIf (isReservedName name) (RDiag.at .reservedFn nsp)
      match findFn sigs name with
      | some ex =>
          let r := predeclare env rest sigs f
          ⟨r.sigs, r.bodies, d1 ++ [⟨.dupFunction, nsp, [ex.nameSpan, nsp]⟩] ++ r.ds, r.facts⟩
      | none =>
          let sig : FnSig := ⟨name, f.functions.length, ps.length, nsp, .dynamic⟩
          let r := predeclare env rest (sigs ++ [sig]) (pushFunction f name ps.length env.owner env.scope)
          ⟨r.sigs, (ps, body) :: r.bodies, d1 ++ paramDiags [] ps ++ r.ds, r.facts⟩
  | _ :: rest, sigs, f => predeclare env rest sigs f

/-- One round of the return-type loop: signatures are updated in place, in definition order;
`makes` are the names the defining block declares. -/
def retPass (env : Env) (makes : List Bytes) : List (List Param × Block) → Nat → List FnSig → Bool → List FnSig × Bool
  | [], _, sigs, ch => (sigs, ch)
  | (ps, body) :: bs, i, sigs, ch =>
      let rt := inferRet { env with fns := sigs :: env.fns } (shadowOf env makes ps body) body
      match sigs[i]? with
      | some g =>
          if g.ret == rt then retPass env makes bs (i + 1) sigs ch
          else retPass env makes bs (i + 1) (modifyAt sigs i (fun g => { g with ret := rt })) true
      | none => retPass env makes bs (i + 1) sigs ch

/-- At most `pending.len()` rounds, stopping at the first round without a change. -/
def retIter (env : Env) (makes : List Bytes) (bodies : List (List Param × Block)) : Nat → List FnSig → List FnSig
  | 0, sigs => sigs
  | n + 1, sigs =>
      let r := retPass env makes bodies 0 sigs false
      if r.2 then retIter env makes bodies n r.1 else r.1

/-! ### `check_stmt`, `check_block`, `check_function_body` -/

structure SOut where
  val : Stmt
  ds : List RDiag
  facts : Facts
  cur : Cur

structure SsOut where
  val : List Stmt
  ds : List RDiag
  facts : Facts
  cur : Cur

/-- Parameters become locals of the parameter scope (newest first). -/
def declareParams (spanLen : Bool) (owner scope : Nat) : List Param → Scope → Facts → List Param × Scope × Facts
  | [], sc, f => ([], sc, f)
  | p :: ps, sc, f =>
      let id := f.locals.length
      let f1 := pushLocal f spanLen p.name owner scope none .parameter
      let r := declareParams spanLen owner scope ps (⟨p.name, .dynamic, id⟩ :: sc) f1
      ({ p with bind := some id } :: r.1, r.2.1, r.2.2)

mutual
  def checkStmt (env : Env) (cur : Cur) : Stmt → Facts → SOut
    | .assign x xs e _ _ sp, f0 =>
        let sid := f0.stmtEffects.length
        let f1 := pushStmt f0 env.owner env.scope
        let d1 := errIf (isReservedName x) (RDiag.at .reservedVar xs)
        let r := checkExpr env cur.vars sid e f1
        let f2 := joinClass r.facts sid (classifyExpr env cur.vars r.facts e)
        let ty := (inferExpr env cur.vars e).getD .dynamic
        match findVar cur.vars x with
        | some ent =>
            ⟨.assign x xs r.val (some ent.id) (some sid) sp, d1 ++ r.ds,
             recStmtWrite f2 env.owner sid ent.id, { cur with vars := updateTy cur.vars x ty }⟩
        | none =>
            let id := f2.locals.length
            let f3 := pushLocal f2 env.spanLen x env.owner env.scope (some sid) .variable
            ⟨.assign x xs r.val (some id) (some sid) sp, d1 ++ r.ds,
             recStmtWrite f3 env.owner sid id, { cur with vars := ⟨x, ty, id⟩ :: cur.vars }⟩
    | .assignExisting x xs e _ _ sp, f0 =>
        let sid := f0.stmtEffects.length
        let f1 := pushStmt f0 env.owner env.scope
        match lookupVar env cur.vars x with
        | some ent =>
            let f2 := recCapWrite (recStmtWrite f1 env.owner sid ent.id) env.owner ent.id
            let r := checkExpr env cur.vars sid e f2
            ⟨.assignExisting x xs r.val (some ent.id) (some sid) sp, r.ds,
             joinClass r.facts sid (classifyExpr env cur.vars r.facts e), cur⟩
        | none =>
            let r := checkExpr env cur.vars sid e f1
            ⟨.assignExisting x xs r.val none (some sid) sp, RDiag.at .assignUndeclared xs :: r.ds,
             joinClass r.facts sid (classifyExpr env cur.vars r.facts e), cur⟩
    | .assignIndex t e _ sp, f0 =>
        let sid := f0.stmtEffects.length
        let f1 := pushStmt f0 env.owner env.scope
        let rt := checkExpr env cur.vars sid t f1
        let re := checkExpr env cur.vars sid e rt.facts
        let f2 := match exprRootLocal env cur.vars t with
          | some id => recReadWrite re.facts env.owner sid id
          | none => re.facts
        -- the target must be rooted in a variable (fix D-09c)
        ⟨.assignIndex rt.val re.val (some sid) sp,
         rt.ds ++ re.ds ++ errIf (!isVarRooted t) (RDiag.at .badIndexRoot sp), joinClass f2 sid .impure, cur⟩
    | .ifS c t e _ sp, f0 =>
        let sid := f0.stmtEffects.length
        let f1 := pushStmt f0 env.owner env.scope
        let rc := checkExpr env cur.vars sid c f1
        let d := errIf (!condOk (inferExpr env cur.vars c)) (RDiag.at .tyCond c.span)
        let f2 := joinClass rc.facts sid (condClass env cur.vars rc.facts c)
        let envB := { env with vars := cur.vars :: env.vars }
        let rt := checkBlock envB (some env.scope) t f2
        let re := checkOptBlock envB (some env.scope) e rt.facts
        ⟨.ifS rc.val rt.val re.val (some sid) sp, rc.ds ++ d ++ rt.ds ++ re.ds, re.facts, cur⟩
    | .loop c b _ sp, f0 =>
        let sid := f0.stmtEffects.length
        let f1 := pushStmt f0 env.owner env.scope
        let rc := checkExpr env cur.vars sid c f1
        let d := errIf (!condOk (inferExpr env cur.vars c)) (RDiag.at .tyCond c.span)
        let f2 := joinClass rc.facts sid (condClass env cur.vars rc.facts c)
        let envB := { env with vars := cur.vars :: env.vars, inLoop := env.inLoop + 1 }
        let rb := checkBlock envB (some env.scope) b f2
        ⟨.loop rc.val rb.val (some sid) sp, rc.ds ++ d ++ rb.ds, rb.facts, cur⟩
    | .block b _ sp, f0 =>
        let sid := f0.stmtEffects.length
        let f1 := pushStmt f0 env.owner env.scope
        let rb := checkBlock { env with vars := cur.vars :: env.vars } (some env.scope) b f1
        ⟨.block rb.val (some sid) sp, rb.ds, rb.facts, cur⟩
    | .fnDef name nsp ps body _ _ sp, f0 =>
        let sid := f0.stmtEffects.length
        let f1 := joinClass (pushStmt f0 env.owner env.scope) sid .impure
        -- `predeclared_function_id(body)`: the signature pushed for this very definition
        let sig := if cur.seenFns.contains name then none else
          match env.fns with
          | own :: _ => findFn own name
          | [] => none
        match sig with
        | none => ⟨.fnDef name nsp ps body none (some sid) sp, [], f1, cur⟩
        | some g =>
            let f2 := setDefStmt f1 g.id sid
            let pscope := f2.scopes.length
            let f3 := pushScope f2 (some env.scope) g.id
            let pr := declareParams env.spanLen g.id pscope ps [] f3
            -- D-09a FIXED: the loop depth does not leak into the function body
            let envB := { env with vars := pr.2.1 :: cur.vars :: env.vars, curFn := some g.id,
                                   owner := g.id, inLoop := 0, scope := pscope }
            let rb := checkBlock envB (some pscope) body pr.2.2
            ⟨.fnDef name nsp pr.1 rb.val (some g.id) (some sid) sp, rb.ds, rb.facts,
             { cur with seenFns := name :: cur.seenFns }⟩
    | .ret e _ sp, f0 =>
        let sid := f0.stmtEffects.length
        let f1 := pushStmt f0 env.owner env.scope
        let d := errIf env.curFn.isNone (RDiag.at .returnOutside sp)
        match e with
        | some e =>
            let r := checkExpr env cur.vars sid e f1
            ⟨.ret (some r.val) (some sid) sp, d ++ r.ds, joinClass r.facts sid (classifyExpr env cur.vars r.facts e), cur⟩
        | none => ⟨.ret none (some sid) sp, d, joinClass f1 sid .pureNoTrap, cur⟩
    | .brk _ sp, f0 =>
        let sid := f0.stmtEffects.length
        ⟨.brk (some sid) sp, errIf (env.inLoop == 0) (RDiag.at .breakOutside sp),
         pushStmt f0 env.owner env.scope, cur⟩
    | .cont _ sp, f0 =>
        let sid := f0.stmtEffects.length
        ⟨.cont (some sid) sp, errIf (env.inLoop == 0) (RDiag.at .continueOutside sp),
         pushStmt f0 env.owner env.scope, cur⟩
    | .expr e _ sp, f0 =>
        let sid := f0.stmtEffects.length
        let f1 := pushStmt f0 env.owner env.scope
        let r := checkExpr env cur.vars sid e f1
        ⟨.expr r.val (some sid) sp, r.ds, joinClass r.facts sid (classifyExpr env cur.vars r.facts e), cur⟩
  def checkStmts (env : Env) (cur : Cur) : List Stmt → Facts → SsOut
    | [], f => ⟨[], [], f, cur⟩
    | s :: ss, f =>
        let r := checkStmt env cur s f
        let rs := checkStmts env r.cur ss r.facts
        ⟨r.val :: rs.val, r.ds ++ rs.ds, rs.facts, rs.cur⟩
  /-- `check_block`; `env.vars` are all enclosing variable scopes, `parent` the enclosing
  `ScopeId` (`none` for the program root). -/
  def checkBlock (env : Env) (parent : Option Nat) : Block → Facts → Out Block
    | .mk ss sp, f =>
        let scope := f.scopes.length
        let f1 := pushScope f parent env.owner
        let f2 := if parent.isNone && env.owner == 0 then setRootScope f1 scope else f1
        let env1 := { env with scope := scope }
        let pre := predeclare env1 ss [] f2
        let sigs := retIter env1 (ownMakes ss) pre.bodies pre.bodies.length pre.sigs
        let r := checkStmts { env1 with fns := sigs :: env.fns } {} ss pre.facts
        ⟨.mk r.val sp, pre.ds ++ r.ds, r.facts⟩
  def checkOptBlock (env : Env) (parent : Option Nat) : Option Block → Facts → Out (Option Block)
    | none, f => ⟨none, [], f⟩
    | some b, f =>
        let r := checkBlock env parent b f
        ⟨some r.val, r.ds, r.facts⟩
end

/-! ### Entry point -/

structure Resolved where
  /-- the program with every binding annotation filled in -/
  root : Block
  /-- the resolver's own diagnostics in emission order (all errors) -/
  diags : List Diag
  facts : Facts
  /-- the same diagnostics with the rule each one reports -/
  rdiags : List RDiag

def rootEnv (spanLen : Bool) : Env :=
  { vars := [], fns := [], curFn := none, owner := 0, inLoop := 0, scope := 0, spanLen := spanLen }

def resolveWith (spanLen : Bool) (root : Block) : Resolved :=
  let r := checkBlock (rootEnv spanLen) none root rootFacts
  { root := r.val, diags := r.ds.map RDiag.toDiag, facts := r.facts, rdiags := r.ds }

/-- `Resolver::resolve` up to (excluding) `emit_analysis_warnings`; `locals_len` is the span of a
function's own local ids (fix D-18, commit c01db5f). -/
def resolve (root : Block) : Resolved := resolveWith true root

/-- The resolver as PINNED with respect to D-09b: return types inferred with the plain scopes of the
enclosing code (a `return x` is typed by a same-named outer `x`). -/
def resolvePinnedRet (root : Block) : Resolved :=
  let r := checkBlock { rootEnv true with shadowRet := false } none root rootFacts
  { root := r.val, diags := r.ds.map RDiag.toDiag, facts := r.facts, rdiags := r.ds }

end NaijaVerif.Resolve
