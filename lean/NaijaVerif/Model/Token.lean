import NaijaVerif.Model.Bytes
/-
`src/syntax/token.rs`: token kinds.  Variable-length tokens carry their payload as bytes:
`str` the *processed* content (escapes applied) plus whether the lexeme contained an escape (the
Rust side distinguishes `ArenaCow::Borrowed` (no escape) from `Owned`), `ident` and `num` the lexeme.
-/
namespace NaijaVerif

structure Span where
  lo : Nat
  hi : Nat
deriving DecidableEq, Repr, Inhabited

inductive Tok where
  | str (content : Bytes) (escaped : Bool)
  | ident (name : Bytes)
  | num (lexeme : Bytes)
  | make | get
  | add | minus | times | divide | mod
  | and | or | not
  | jasi | start | «end» | comot | next
  | na | pass | smallPass
  | ifToSay | ifNotSo
  | «do» | ret
  | tru | fals | null
  | lparen | rparen | lbracket | rbracket | comma | dot
  | eof
deriving DecidableEq, Repr, Inhabited

structure SpTok where
  tok : Tok
  span : Span
deriving DecidableEq, Repr, Inhabited

/-- `Token::is_reserved_keyword`. -/
def Tok.isReserved : Tok → Bool
  | .make | .get | .add | .minus | .times | .divide | .mod | .and | .or | .not | .jasi | .start
  | .end | .comot | .next | .na | .pass | .smallPass | .ifToSay | .ifNotSo | .tru | .fals | .null
  | .do | .ret => true
  | _ => false

/-- Canonical kind name used by the line protocols. -/
def Tok.kindName : Tok → String
  | .str _ _ => "str" | .ident _ => "ident" | .num _ => "num"
  | .make => "make" | .get => "get" | .add => "add" | .minus => "minus" | .times => "times"
  | .divide => "divide" | .mod => "mod" | .and => "and" | .or => "or" | .not => "not"
  | .jasi => "jasi" | .start => "start" | .end => "end" | .comot => "comot" | .next => "next"
  | .na => "na" | .pass => "pass" | .smallPass => "smallpass" | .ifToSay => "iftosay"
  | .ifNotSo => "ifnotso" | .do => "do" | .ret => "return" | .tru => "true" | .fals => "false"
  | .null => "null" | .lparen => "lparen" | .rparen => "rparen" | .lbracket => "lbracket"
  | .rbracket => "rbracket" | .comma => "comma" | .dot => "dot" | .eof => "eof"

end NaijaVerif
