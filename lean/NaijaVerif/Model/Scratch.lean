/-
Model of `src/arena/scratch.rs` (the two process-global scratch arenas `S_SCRATCH`, `init`,
`scratch_arena(conflict)`, `ScratchArena::drop`) together with the borrow tracking of
`src/arena/debug.rs` (`Arena::delegated`, `delegate_target`, `Drop for Arena`).

Core-only imports (this file is linked into the `nvdriver` executable).

The arena itself is abstract here: only what the scratch layer reads or writes — `offset`, `commit`
(for `decommit`) and the debug borrow counter `borrows`.  Memory contents, capacity and alignment to
absolute addresses are the business of `Model/Bump.lean` (C11); an allocation here always succeeds
(memory exhaustion is outside every property, DESIGN.md §6).

A program state `St` adds the live `ScratchArena` guards (by variable), the offsets the running
code has read through a guard (`mark`, i.e. `arena.offset()`), and two *ghost* lists: the blocks
handed out and not yet given back, and `lost` — blocks that were given back by a reset or a release
through a guard other than the one they were allocated through (what the property forbids).
-/
namespace NaijaVerif.Scratch

/-- `ALLOC_CHUNK_SIZE` of `bump.rs`. -/
def chunk : Nat := 65536

/-- `(x + a - 1) & !(a - 1)` for a power of two `a` (arithmetic form). -/
def alignUp (x a : Nat) : Nat := (x + a - 1) / a * a

/-- What the scratch layer sees of one `bump::Arena`. -/
structure Arena where
  offset  : Nat
  commit  : Nat
  /-- `borrows: Cell<usize>` (debug builds): number of live `debug::Arena::Delegated` wrappers. -/
  borrows : Nat
deriving DecidableEq, Repr

/-- `alloc_raw(bytes, align)`: returns the start of the block. -/
def Arena.alloc (a : Arena) (bytes align : Nat) : Nat × Arena :=
  let beg := alignUp a.offset align
  let fin := beg + bytes
  (beg, { a with offset := fin, commit := if fin > a.commit then alignUp fin chunk else a.commit })

/-- `Arena::reset(to)` ("GIGA UNSAFE": no check at all). -/
def Arena.reset (a : Arena) (to : Nat) : Arena := { a with offset := to }

/-- `Arena::decommit`: whole chunks above the offset are handed back. -/
def Arena.decommit (a : Arena) : Arena :=
  let keep := alignUp a.offset chunk
  if keep < a.commit then { a with commit := keep } else a

/-- Index into `S_SCRATCH`. -/
inductive Ix where
  | s0 | s1
deriving DecidableEq, Repr

def Ix.toNat : Ix → Nat
  | .s0 => 0
  | .s1 => 1

/-- `static mut S_SCRATCH: [bump::Arena; 2]`. -/
structure Scratch where
  s0 : Arena
  s1 : Arena
deriving DecidableEq, Repr

def Scratch.get (s : Scratch) : Ix → Arena
  | .s0 => s.s0
  | .s1 => s.s1

def Scratch.set (s : Scratch) (i : Ix) (a : Arena) : Scratch :=
  match i with
  | .s0 => { s with s0 := a }
  | .s1 => { s with s1 := a }

/-- `arena::init` on arenas that already exist: `s.reset(0)` for both (first call: `Arena::new`,
which also starts at offset 0).  Neither `commit` nor the borrow counter is touched. -/
def Scratch.init (s : Scratch) : Scratch := { s0 := s.s0.reset 0, s1 := s.s1.reset 0 }

/-- State of the process before the first `init` (`bump::Arena::empty()` twice). -/
def Scratch.empty : Scratch :=
  { s0 := { offset := 0, commit := 0, borrows := 0 }, s1 := { offset := 0, commit := 0, borrows := 0 } }

/-- What the `conflict: Option<&Arena>` argument can point to (after
`delegate_target_unchecked`): one of the two scratch arenas or some other, owned arena. -/
inductive Backing where
  | scratch (i : Ix)
  | owned
deriving DecidableEq, Repr

/-- `usize::from(opt_ptr_eq(conflict, Some(&S_SCRATCH[0])))`. -/
def scratchIndex (conflict : Option Backing) : Ix :=
  if conflict = some (.scratch .s0) then .s1 else .s0

/-- A live `ScratchArena`: the arena it delegates to, the offset saved by `ScratchArena::new` and
the borrow number given by `debug::Arena::delegated`. -/
structure Borrow where
  ix    : Ix
  saved : Nat
  no    : Nat
deriving DecidableEq, Repr

/-- Ghost: a block handed out through the guard held in variable `owner`. -/
structure Block where
  owner : Nat
  ix    : Ix
  beg   : Nat
  fin   : Nat
deriving DecidableEq, Repr

inductive Fault where
  /-- use of a variable that holds no live guard -/
  | unbound
  /-- `let v = scratch_arena(..)` while `v` still holds a guard (not expressible in the source) -/
  | rebound
  /-- `assert!(borrow == delegate.borrows.get(), "Arena already borrowed by a newer ScratchArena")` -/
  | stale
  /-- the same assertion (and `assert_eq!(*borrow, borrows)`) inside `drop`: a double panic, i.e. abort -/
  | dropOrder
  /-- reset to an offset that was not read through this guard, or that lies above the current offset
  (the runtime only ever resets *down* to an offset it read earlier through the same arena handle;
  `Arena::reset` itself checks nothing, and an offset above `commit` makes the next allocation's debug
  fill underflow) -/
  | badMark
deriving DecidableEq, Repr

structure St where
  sc     : Scratch
  /-- live guards, newest first -/
  env    : List (Nat × Borrow)
  /-- offsets read through a guard (`guard.offset()`), in the order they were read -/
  marks  : List (Nat × Nat)
  blocks : List Block
  lost   : List (Nat × Block)
deriving Repr

def St.start (sc : Scratch) : St := { sc := sc, env := [], marks := [], blocks := [], lost := [] }

/-- One operation of the code that uses the scratch arenas. -/
inductive Op where
  | init
  /-- `let v = scratch_arena(conflict)`; the conflict is named by the variable holding it -/
  | borrow (v : Nat) (conflict : Option Nat)
  /-- an allocation of `bytes` bytes aligned to `align` through the guard in `v` -/
  | alloc (v bytes align : Nat)
  /-- `let m = v.offset()` -/
  | mark (v : Nat)
  /-- `v.reset(m)` where `m` is the `k`-th offset read so far -/
  | reset (v k : Nat)
  /-- the guard in `v` goes out of scope -/
  | release (v : Nat)
deriving DecidableEq, Repr

/-- Is `b` the most recent borrow of its arena (what `delegate_target` asserts)? -/
def current (sc : Scratch) (b : Borrow) : Bool := b.no == (sc.get b.ix).borrows

/-- Blocks of arena `i` that end above `to` are given back by a reset to `to`. -/
def killed (i : Ix) (to : Nat) (blk : Block) : Bool := blk.ix == i && decide (to < blk.fin)

def St.doInit (st : St) : St :=
  { st with sc := st.sc.init, blocks := [],
            lost := st.lost ++ st.blocks.map (fun b => (0, b)) }

def St.doBorrow (st : St) (v : Nat) (conflict : Option Nat) : Except Fault St :=
  match st.env.lookup v with
  | some _ => .error .rebound
  | none =>
    let backing : Except Fault (Option Backing) :=
      match conflict with
      | none => .ok none
      | some w =>
        match st.env.lookup w with
        | none => .error .unbound
        | some b => .ok (some (.scratch b.ix))
    match backing with
    | .error e => .error e
    | .ok bk =>
      let i := scratchIndex bk
      let a := st.sc.get i
      let b : Borrow := { ix := i, saved := a.offset, no := a.borrows + 1 }
      .ok { st with sc := st.sc.set i { a with borrows := a.borrows + 1 }, env := (v, b) :: st.env }

def St.doAlloc (chk : Bool) (st : St) (v bytes align : Nat) : Except Fault St :=
  match st.env.lookup v with
  | none => .error .unbound
  | some b =>
    if chk && !current st.sc b then .error .stale
    else
      let (beg, a') := (st.sc.get b.ix).alloc bytes align
      .ok { st with sc := st.sc.set b.ix a',
                    blocks := { owner := v, ix := b.ix, beg := beg, fin := beg + bytes } :: st.blocks }

def St.doMark (chk : Bool) (st : St) (v : Nat) : Except Fault St :=
  match st.env.lookup v with
  | none => .error .unbound
  | some b =>
    if chk && !current st.sc b then .error .stale
    else .ok { st with marks := st.marks ++ [(v, (st.sc.get b.ix).offset)] }

def St.doReset (chk : Bool) (st : St) (v k : Nat) : Except Fault St :=
  match st.env.lookup v with
  | none => .error .unbound
  | some b =>
    match st.marks[k]? with
    | none => .error .badMark
    | some (w, m) =>
      if w ≠ v then .error .badMark
      else if chk && !current st.sc b then .error .stale
      else if (st.sc.get b.ix).offset < m then .error .badMark
      else
        .ok { st with sc := st.sc.set b.ix ((st.sc.get b.ix).reset m),
                      blocks := st.blocks.filter (fun blk => !killed b.ix m blk),
                      lost := st.lost ++ ((st.blocks.filter (fun blk => killed b.ix m blk && blk.owner != v)).map
                                (fun blk => (v, blk))) }

/-- `ScratchArena::drop`: `reset(saved)`, `decommit()`, then the field `debug::Arena` is dropped
(`borrows -= 1`).  The blocks of the guard itself are given back by definition. -/
def St.doRelease (chk : Bool) (st : St) (v : Nat) : Except Fault St :=
  match st.env.lookup v with
  | none => .error .unbound
  | some b =>
    if chk && !current st.sc b then .error .dropOrder
    else
      let a := ((st.sc.get b.ix).reset b.saved).decommit
      .ok { sc := st.sc.set b.ix { a with borrows := a.borrows - 1 },
            env := st.env.filter (fun e => e.1 != v),
            marks := st.marks.filter (fun e => e.1 != v),
            blocks := st.blocks.filter (fun blk => !killed b.ix b.saved blk && blk.owner != v),
            lost := st.lost ++ ((st.blocks.filter (fun blk => killed b.ix b.saved blk && blk.owner != v)).map
                      (fun blk => (v, blk))) }

/-- `chk` = compiled with `debug_assertions` (the borrow-order assertions exist). -/
def step (chk : Bool) (st : St) : Op → Except Fault St
  | .init => .ok st.doInit
  | .borrow v c => st.doBorrow v c
  | .alloc v bytes align => st.doAlloc chk v bytes align
  | .mark v => st.doMark chk v
  | .reset v k => st.doReset chk v k
  | .release v => st.doRelease chk v

def run (chk : Bool) : St → List Op → Except Fault St
  | st, [] => .ok st
  | st, op :: ops =>
    match step chk st op with
    | .ok st' => run chk st' ops
    | .error e => .error e

end NaijaVerif.Scratch
