import NaijaVerif.Model.Bytes
/-
Numbers of the evaluator model are ABSTRACT: `class NumOps (N)` lists the operations
`src/runtime.rs` and `src/builtins/*` perform on `f64`.  The evaluator (`Model/Eval.lean`) is
defined for any `[NumOps N]`; no theorem uses a floating-point fact.  The driver instantiates `N`
with Lean's `Float` plus exact `Nat`-arithmetic routines (`Driver/FloatOps.lean`); `Props/*` use a
toy `Int` instance for non-vacuity examples.  Core-only.
-/
namespace NaijaVerif

class NumOps (N : Type) where
  /-- `lexeme.parse::<f64>()` on a scanner-validated number lexeme (`digits[.digits]`);
  `none` = the `expect("Scanner should guarantee valid number format")` fails. -/
  ofLit : Bytes → Option N
  add : N → N → N
  sub : N → N → N
  mul : N → N → N
  div : N → N → N
  /-- Rust `%` on `f64` (C `fmod`). -/
  fmod : N → N → N
  neg : N → N
  /-- `l < r`, `l > r` (both false on NaN). -/
  lt : N → N → Bool
  gt : N → N → Bool
  /-- `(l - r).abs() <= FLOAT_EQ_EPS` (1e-12). -/
  approxEq : N → N → Bool
  /-- `rv == 0.0` (true for `-0.0`). -/
  isZero : N → Bool
  isFinite : N → Bool
  /-- `n.fract() == 0.0` (only consulted on finite numbers). -/
  fractIsZero : N → Bool
  /-- `n as isize` (saturating, NaN ↦ 0). -/
  toIsize : N → Int
  /-- `n as usize` (saturating at both ends, NaN ↦ 0). -/
  toUsize : N → Nat
  /-- `n as u32`. -/
  toU32 : N → Nat
  /-- `k as f64` for lengths, `find` results (`-1.0`), exit codes. -/
  ofInt : Int → N
  /-- Rust `{}` Display of `f64`. -/
  fmt : N → Bytes
  abs : N → N
  sqrt : N → N
  floor : N → N
  ceil : N → N
  round : N → N
  /-- `s.parse::<f64>().unwrap_or(f64::NAN)` (`to_number`). -/
  parseNumber : Bytes → N

end NaijaVerif
