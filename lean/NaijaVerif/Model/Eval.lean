import NaijaVerif.Model.Builtins
/-
Executable model of the evaluator `src/runtime.rs` (family `run`; properties C01, C04, C05, C06,
and — on top of it — C02, C03).

One fuel-indexed big-step interpreter over the annotated AST of `Model/Ast.lean`, defined for any
number type `[NumOps N]` and parameterised by `cfg : RunCfg`:

* `cfg.lookup` — `dynamic`: what the code does since the fix of D-04 (`local_scope_index` +
  `lookup_local_env`: a bound reference is looked up ONLY in the most recent scope instance whose
  tag is the declaring scope of the `LocalId`, most recently pushed slot first; by name over the
  whole stack when the node carries no binding); `dynamicWholeStack`: the code before that fix
  (search the WHOLE scope stack, innermost scope first, for the `LocalId`), kept so that the
  historical witness stays replayable; `lexical`: the whole-stack search restricted to the scopes
  on the ghost static chain of the running code (the reference semantics of C04).
* `cfg.plan` — the `OptimizationPlan`: a statement whose `StmtId` is in `plan.stmts` is skipped
  exactly where `exec_block_with_flow` skips it; a function whose `FunctionId` is in `plan.fns` is
  not hoisted (`register_function`).
* `cfg.panics` — `false` (the CURRENT code, after the `fix:` commit for D-06/D-04): a site with
  `site.fixed` ends the run with the runtime error `site.fallback`, a residual site with
  `Outcome.panic site`; `true` (the originally pinned code, kept so the defect stays replayable):
  every site ends the run with `Outcome.panic site`.
* `cfg.policy`, `cfg.runProc` — the host policy and the process runner (`sys::process::run`);
  `cfg.std` — std's `trim` / case mapping; `cfg.input` — the lines `read_line` will return.

State, as in the code, with the parallel vectors `env` / `function_scopes` merged into one list of
scopes (they are pushed and popped together by `push_scope_with_capacity` / `pop_scope`):
`st.env : List Scope`, HEAD = INNERMOST scope; `Scope.slots`, HEAD = MOST RECENTLY PUSHED slot (the
code searches `iter().rev()`); `Scope.fns`, head = most recently registered function.  Ghost
fields, read only in `lexical` mode: every scope has a fresh instance id `uid`, every hoisted
function records the static chain at its definition, `st.chain` is the static chain of the
running code (head = innermost).  `st.out` is `Runtime.output` (oldest first).

Not modelled here: arenas, pool, promotion, relocation (values are pure; C02's `Mem` model),
`check_stack` (C08), the text `shout` prints to stdout and the prompt of `read_line`.
Fuel bounds the NESTING depth, the number of iterations of one loop and the number of statements
of one block; `fuelOut` is a distinguished outcome and `run` is monotone in the fuel
(`Lemmas/EvalFuel.lean`).  Core-only.
-/
namespace NaijaVerif.Eval
open NaijaVerif

/-! ### Configuration -/

inductive LookupMode where
  | dynamic | lexical | dynamicWholeStack
deriving DecidableEq, Repr

/-- `OptimizationPlan`: removable statement ids and removable function ids. -/
structure Plan where
  stmts : List Nat := []
  fns : List Nat := []
deriving DecidableEq, Repr

structure RunCfg where
  lookup : LookupMode := .dynamic
  plan : Option Plan := none
  panics : Bool := true
  policy : Proc.Policy
  runProc : Proc.Spec → Except RtKind ProcResult
  std : StdOps
  input : List Bytes := []

/-- The runtime error a fixed site reports. -/
def PanicSite.fallback : PanicSite → RtKind
  | .indexBase => .invalidIndex
  | .varLookup | .segLookup | .assignLookup | .assignVarLookup | .mutArrVar | .mutArrBase
  | .mutCmdVar | .mutCmdBase | .assignIndexLookup => .undefinedVariable
  | _ => .typeMismatch

/-! ### State -/

variable {N : Type}

/-- `LocalSlot`. -/
structure Slot (N : Type) where
  id : Option Nat
  name : Bytes
  val : Value N

/-- `FunctionDef` plus the ghost static chain at the point of hoisting. -/
structure FnEntry where
  id : Option Nat
  name : Bytes
  params : List Param
  body : Block
  chain : List Nat

/-- Ghost: which piece of syntax a scope instantiates. -/
inductive ScopeKind where
  | root
  | block (span : Span)
  | params (fn : Option Nat)
deriving DecidableEq, Repr

/-- One entry of `env` together with the entries of `function_scopes` and `scope_ids` at the same
depth.  `decls` stands for the tag `scope_ids[i] : Option<ScopeId>`: the code compares the tag with
`facts.locals[l].declaring_scope`; the model records WHICH `LocalId`s have the instantiated scope as
their declaring scope — for a block the locals of its own `make` statements (`declIds`), for a
parameter scope the parameters' ids, none for the root scope — so that `tag = declaring_scope(l)`
is `l ∈ decls`.  (The resolver gives every local exactly one declaring scope: the block whose
statement list contains its `make`s, or the parameter scope of its function.) -/
structure Scope (N : Type) where
  uid : Nat
  kind : ScopeKind
  slots : List (Slot N)
  fns : List FnEntry
  decls : List Nat := []

structure State (N : Type) where
  env : List (Scope N)
  out : List (Value N)
  chain : List Nat
  next : Nat
  input : List Bytes

/-- Control flow out of a statement (`ExecFlow`). -/
inductive Flow (N : Type) where
  | cont
  | ret (v : Value N)
  | brk
  | next

/-- Result of a sub-evaluation. -/
inductive Res (N : Type) (α : Type) where
  | ok (a : α) (st : State N)
  | err (k : RtKind) (span : Span) (st : State N)
  | panic (site : PanicSite) (st : State N)
  | fuel

/-- Result of a run: the printed values and how it ended. -/
inductive Outcome (N : Type) where
  | ok (out : List (Value N))
  | rt (k : RtKind) (span : Span) (out : List (Value N))
  | panic (site : PanicSite) (out : List (Value N))
  | fuelOut

def Outcome.isPanic : Outcome N → Bool
  | .panic _ _ => true
  | _ => false

/-- A site is reached. -/
def trap {α : Type} (cfg : RunCfg) (site : PanicSite) (span : Span) (st : State N) : Res N α :=
  if cfg.panics || !site.fixed then .panic site st else .err site.fallback span st

/-- A pure step failed. -/
def Res.ofFault {α : Type} (cfg : RunCfg) (flt : Fault) (span : Span) (st : State N) : Res N α :=
  match flt with
  | .rt k sp => .err k sp st
  | .panic site => trap cfg site span st

/-! ### Scopes and lookup -/

/-- Whether a scope takes part in a whole-stack search. -/
def visible (cfg : RunCfg) (chain : List Nat) (s : Scope N) : Bool :=
  cfg.lookup != .lexical || chain.contains s.uid

/-- The slot a reference denotes: by `LocalId` when the node is bound, else by name. -/
def Slot.matches (bind : Option Nat) (name : Bytes) (sl : Slot N) : Bool :=
  match bind with
  | some l => sl.id == some l
  | none => sl.name == name

/-- Position `(scope index, slot index)` of the first matching slot in the first visible scope
that has one (`lookup_local_env` / `lookup_env` and their `_mut` variants). -/
def findPos (vis : Scope N → Bool) (p : Slot N → Bool) : List (Scope N) → Option (Nat × Nat)
  | [] => none
  | s :: r =>
    if vis s then
      match s.slots.findIdx? p with
      | some j => some (0, j)
      | none => (findPos vis p r).map (fun q => (q.1 + 1, q.2))
    else (findPos vis p r).map (fun q => (q.1 + 1, q.2))

def getAt (env : List (Scope N)) (pos : Nat × Nat) : Option (Value N) :=
  match env[pos.1]? with
  | some s => (s.slots[pos.2]?).map (·.val)
  | none => none

/-- Apply `f` to the value of the slot at a position. -/
def updateAt (env : List (Scope N)) (pos : Nat × Nat) (f : Value N → Value N) : List (Scope N) :=
  env.modify pos.1 (fun s => { s with slots := s.slots.modify pos.2 (fun sl => { sl with val := f sl.val }) })

/-- `local_scope_index` followed by the slot search of `lookup_local_env` / `lookup_local_mut` /
`assign_bound_local`: the MOST RECENT scope instance whose tag is the declaring scope of `l`, and in
it the most recently pushed slot with that id.  No other scope is searched: a miss there is a miss. -/
def findOwned (l : Nat) : List (Scope N) → Option (Nat × Nat)
  | [] => none
  | s :: r =>
    if s.decls.contains l then (s.slots.findIdx? (fun sl => sl.id == some l)).map (fun j => (0, j))
    else (findOwned l r).map (fun q => (q.1 + 1, q.2))

/-- Position of the slot a reference denotes in the current state. -/
def slotOf (cfg : RunCfg) (st : State N) (bind : Option Nat) (name : Bytes) : Option (Nat × Nat) :=
  match cfg.lookup, bind with
  | .dynamic, some l => findOwned l st.env
  | _, _ => findPos (visible cfg st.chain) (Slot.matches bind name) st.env

/-- `lookup_local` / `lookup_var` (the clone is the value itself). -/
def lookupVal (cfg : RunCfg) (st : State N) (bind : Option Nat) (name : Bytes) : Option (Value N) :=
  (slotOf cfg st bind name).bind (getAt st.env)

/-- `define_bound_local` / `define_var`: only the INNERMOST scope is searched; overwrite or push. -/
def define (st : State N) (bind : Option Nat) (name : Bytes) (v : Value N) : State N :=
  match st.env with
  | [] => st
  | s :: r =>
    match s.slots.findIdx? (Slot.matches bind name) with
    | some j => { st with env := { s with slots := s.slots.modify j (fun sl => { sl with val := v }) } :: r }
    | none => { st with env := { s with slots := { id := bind, name := name, val := v } :: s.slots } :: r }

/-- `assign_bound_local` / `assign_var`; `none` = the `unreachable!` after the loop. -/
def assign (cfg : RunCfg) (st : State N) (bind : Option Nat) (name : Bytes) (v : Value N) :
    Option (State N) :=
  match slotOf cfg st bind name with
  | some pos => some { st with env := updateAt st.env pos (fun _ => v) }
  | none => none

/-- `lookup_func_by_id` / `lookup_func_by_name`. -/
def findFn (vis : Scope N → Bool) (p : FnEntry → Bool) : List (Scope N) → Option FnEntry
  | [] => none
  | s :: r =>
    if vis s then
      match s.fns.find? p with
      | some fd => some fd
      | none => findFn vis p r
    else findFn vis p r

def lookupFn (cfg : RunCfg) (st : State N) (fnAnn : Option Nat) (name : Bytes) : Option FnEntry :=
  match fnAnn with
  | some i => findFn (visible cfg st.chain) (fun fd => fd.id == some i) st.env
  | none => findFn (visible cfg st.chain) (fun fd => fd.name == name) st.env

/-- `push_scope_with_capacity`: a fresh scope instance; `chain` is the static chain the new scope
extends (the current one for a block, the callee's for a parameter scope), `decls` its tag. -/
def pushScope (st : State N) (kind : ScopeKind) (chain : List Nat) (slots : List (Slot N))
    (decls : List Nat) : State N :=
  { st with env := { uid := st.next, kind := kind, slots := slots, fns := [], decls := decls } :: st.env,
            chain := st.next :: chain, next := st.next + 1 }

/-- The locals whose declaring scope is the block with these statements: the bindings of its own
`make` statements (`facts.scope_of_block(block)` is `declaring_scope` of exactly these). -/
def declIds : List Stmt → List Nat
  | [] => []
  | .assign _ _ _ (some l) _ _ :: rest => l :: declIds rest
  | _ :: rest => declIds rest

/-- `pop_scope`, restoring the static chain of the code that continues. -/
def popScope (st : State N) (chain : List Nat) : State N :=
  { st with env := st.env.tail, chain := chain }

def Plan.prunesStmt (plan : Option Plan) (sid : Option Nat) : Bool :=
  match plan, sid with
  | some p, some i => p.stmts.contains i
  | _, _ => false

def Plan.prunesFn (plan : Option Plan) (fid : Option Nat) : Bool :=
  match plan, fid with
  | some p, some i => p.fns.contains i
  | _, _ => false

/-- `hoist_block_functions` / `register_function` on the innermost scope. -/
def hoist (cfg : RunCfg) : List Stmt → State N → State N
  | [], st => st
  | .fnDef name _ params body fn _ _ :: rest, st =>
    if Plan.prunesFn cfg.plan fn then hoist cfg rest st
    else
      match st.env with
      | [] => hoist cfg rest st
      | s :: r =>
        let fd : FnEntry := { id := fn, name := name, params := params, body := body, chain := st.chain }
        hoist cfg rest { st with env := { s with fns := fd :: s.fns } :: r }
  | _ :: rest, st => hoist cfg rest st

/-- `bound_param_ids`: all `None` for an unbound function; for a bound one the ids
`local_range.start + i`, `none` = the `assert!` that they fit the range fails. -/
def paramIds (fd : FnEntry) : Option (List (Option Nat)) :=
  match fd.id with
  | none => some (fd.params.map (fun _ => none))
  | some _ => if fd.params.all (fun p => p.bind.isSome) then some (fd.params.map (·.bind)) else none

/-- The parameter scope's slots: pushed in parameter order, so the last parameter is the head. -/
def paramSlots (params : List Param) (ids : List (Option Nat)) (vs : List (Value N)) : List (Slot N) :=
  (((params.zip ids).zip vs).map (fun q => ({ id := q.1.2, name := q.1.1.name, val := q.2 } : Slot N))).reverse

/-! ### L-values -/

/-- Shape of a receiver / index-assignment target (`get_mutable_array`, `flatten_index_target`). -/
inductive Lv where
  | path (name : Bytes) (bind : Option Nat) (idxs : List (Expr × Span))
  | badRoot
  | other

def flattenIdx : Expr → List (Expr × Span) → Expr × List (Expr × Span)
  | .index a i isp _, acc => flattenIdx a ((i, isp) :: acc)
  | e, acc => (e, acc)

def lvOf (e : Expr) : Lv :=
  match e with
  | .var n b _ => .path n b []
  | .index _ _ _ _ =>
    match flattenIdx e [] with
    | (.var n b _, idxs) => .path n b idxs
    | _ => .badRoot
  | _ => .other

variable [NumOps N]

/-- `get_mutable_array` / `get_mutable_process_command` followed by the mutation, on evaluated
indices: find the variable, walk the path, mutate the cell in place. -/
def applyMut (cfg : RunCfg) (st : State N) (name : Bytes) (bind : Option Nat)
    (path : List (Nat × Span)) (op : MutOp N) (span : Span) : Res N (Value N) :=
  match slotOf cfg st bind name with
  | none =>
    let site : PanicSite := match op with
      | .cmd _ => if path.isEmpty then .mutCmdVar else .mutCmdBase
      | _ => if path.isEmpty then .mutArrVar else .mutArrBase
    trap cfg site span st
  | some pos =>
    match getAt st.env pos with
    | none => trap cfg .mutArrVar span st
    | some root =>
      match walkMut root path with
      | .error flt => Res.ofFault cfg flt span st
      | .ok cell =>
        match op.apply cell span with
        | .error flt => Res.ofFault cfg flt span st
        | .ok (cell', result) =>
          .ok result { st with env := updateAt st.env pos (fun r => setPath r (path.map (·.1)) cell') }

/-- `assign_index` on evaluated indices. -/
def assignIndex (cfg : RunCfg) (st : State N) (name : Bytes) (bind : Option Nat)
    (path : List (Nat × Span)) (v : Value N) (span : Span) : Res N Unit :=
  match slotOf cfg st bind name with
  | none => trap cfg .assignIndexLookup span st
  | some pos =>
    match getAt st.env pos with
    | none => trap cfg .assignIndexLookup span st
    | some root =>
      match walkAssign span root path with
      | .error flt => Res.ofFault cfg flt span st
      | .ok () => .ok () { st with env := updateAt st.env pos (fun r => setPath r (path.map (·.1)) v) }

/-- `eval_string_expr` for `StringParts::Interpolated`. -/
def interp (cfg : RunCfg) (st : State N) : List Seg → Bytes → Option Bytes
  | [], acc => some acc
  | .lit s :: rest, acc => interp cfg st rest (acc ++ s)
  | .var name bind :: rest, acc =>
    match lookupVal cfg st bind name with
    | some v => interp cfg st rest (acc ++ v.display)
    | none => none

/-- The arguments a built-in method reads (`args.args[i]`), in order; a missing one is its site. -/
def pick (args : List Expr) (idx : List (Nat × PanicSite)) (sp : Span) : List (Except (PanicSite × Span) Expr) :=
  idx.map (fun q => match args[q.1]? with | some e => .ok e | none => .error (q.2, sp))

/-- Methods dispatched BY NAME before the receiver is looked at (`requires_mut_receiver`). -/
inductive MutM where
  | push | pop | reverse
  | cmd (m : CmdM)
deriving DecidableEq, Repr

def MutM.ofName (field : Bytes) : Option MutM :=
  match ArrM.ofName field with
  | some .push => some .push
  | some .pop => some .pop
  | some .reverse => some .reverse
  | _ =>
    match CmdM.ofName field with
    | some .run => none
    | some m => some (.cmd m)
    | none => none

/-- `run` on a process command (`eval_process_command_call`). -/
def runCommand (cfg : RunCfg) (c : Proc.Cmd) (span : Span) (st : State N) : Res N (Value N) :=
  if cfg.policy.allow = false then .err .processDenied span st
  else
    match Proc.validate c cfg.policy.caps with
    | .error _ => .err .processSpecInvalid span st
    | .ok spec =>
      match cfg.runProc spec with
      | .error k => .err k span st
      | .ok r => .ok (.host (.result r)) st

/-- `eval_builtin_call` after the arguments are evaluated and the arity is asserted. -/
def globalCall (cfg : RunCfg) (b : GlobalB) (v : Value N) (span : Span) (st : State N) : Res N (Value N) :=
  match b with
  | .shout => .ok .null { st with out := st.out ++ [v] }
  | .typeOf => .ok (.str v.typeOf) st
  | .readLine =>
    match st.input with
    | [] => .ok (.str []) st
    | l :: rest => .ok (.str l) { st with input := rest }
  | .toString => .ok (.str v.display) st
  | .command =>
    match v with
    | .str p => .ok (.host (.command (Proc.Cmd.new p))) st
    | _ => trap cfg .commandArg span st

/-- Sequencing: continue with the value and the state of a successful sub-evaluation; an error, a
panic and fuel exhaustion end the evaluation. -/
def Res.bind {α β : Type} (r : Res N α) (k : α → State N → Res N β) : Res N β :=
  match r with
  | .ok a st => k a st
  | .err kd sp st => .err kd sp st
  | .panic site st => .panic site st
  | .fuel => .fuel

/-- Lift a pure step (`span` is where a panic site is reported when `cfg.panics = false`). -/
def Res.ofExcept {α : Type} (cfg : RunCfg) (x : Except Fault α) (span : Span) (st : State N) : Res N α :=
  match x with
  | .ok a => .ok a st
  | .error flt => Res.ofFault cfg flt span st

mutual

/-- `eval_expr`. -/
def evalExpr (cfg : RunCfg) : Nat → Expr → State N → Res N (Value N)
  | 0, _, _ => .fuel
  | f + 1, e, st =>
    match e with
    | .num lex sp =>
      match NumOps.ofLit lex with
      | some n => .ok (.num n) st
      | none => trap cfg .numLit sp st
    | .str (.static s) _ => .ok (.str s) st
    | .str (.interp segs) sp =>
      match interp cfg st segs [] with
      | some s => .ok (.str s) st
      | none => trap cfg .segLookup sp st
    | .bool b _ => .ok (.bool b) st
    | .null _ => .ok .null st
    | .var name bind sp =>
      match lookupVal cfg st bind name with
      | some v => .ok v st
      | none => trap cfg .varLookup sp st
    | .binary op l r sp =>
      (evalExpr cfg f l st).bind fun lv st1 =>
        match op with
        | .and =>
          if andStops lv then .ok (.bool false) st1
          else (evalExpr cfg f r st1).bind fun rv st2 => Res.ofExcept cfg (logicRhs .andRhs rv) r.span st2
        | .or =>
          if orStops lv then .ok (.bool true) st1
          else (evalExpr cfg f r st1).bind fun rv st2 => Res.ofExcept cfg (logicRhs .orRhs rv) r.span st2
        | .add => (evalExpr cfg f r st1).bind fun rv st2 => Res.ofExcept cfg (arith .add lv rv sp) sp st2
        | .minus => (evalExpr cfg f r st1).bind fun rv st2 => Res.ofExcept cfg (arith .minus lv rv sp) sp st2
        | .times => (evalExpr cfg f r st1).bind fun rv st2 => Res.ofExcept cfg (arith .times lv rv sp) sp st2
        | .divide => (evalExpr cfg f r st1).bind fun rv st2 => Res.ofExcept cfg (arith .divide lv rv sp) sp st2
        | .mod => (evalExpr cfg f r st1).bind fun rv st2 => Res.ofExcept cfg (arith .mod lv rv sp) sp st2
        | .eq => (evalExpr cfg f r st1).bind fun rv st2 => Res.ofExcept cfg (arith .eq lv rv sp) sp st2
        | .gt => (evalExpr cfg f r st1).bind fun rv st2 => Res.ofExcept cfg (arith .gt lv rv sp) sp st2
        | .lt => (evalExpr cfg f r st1).bind fun rv st2 => Res.ofExcept cfg (arith .lt lv rv sp) sp st2
    | .unary op x sp =>
      (evalExpr cfg f x st).bind fun v st1 => Res.ofExcept cfg (unary op v) sp st1
    | .array es _ =>
      (evalSel cfg f (es.map .ok) st).bind fun vs st1 => .ok (.arr vs) st1
    | .index a i isp sp =>
      (evalExpr cfg f a st).bind fun av st1 =>
        (evalExpr cfg f i st1).bind fun iv st2 => Res.ofExcept cfg (indexRead av iv isp) sp st2
    | .member _ _ _ sp => trap cfg .bareMember sp st
    | .call (.member obj field _ _) args _ sp =>
      match MutM.ofName field with
      | some m =>
        -- mutable methods are name-directed: arguments first, then the l-value
        (evalMutOp cfg f m args sp st).bind fun op st1 =>
          match lvOf obj with
          | .other => .err .typeMismatch sp st1
          | .badRoot => trap cfg .indexTargetRoot sp st1
          | .path name bind idxs =>
            (evalIdxs cfg f idxs st1).bind fun path st2 => applyMut cfg st2 name bind path op sp
      | none =>
        (evalExpr cfg f obj st).bind fun recv st1 =>
          match recv with
          | .str s =>
            match StrM.ofName field with
            | some m =>
              (evalSel cfg f (pick args m.argIdx sp) st1).bind fun vs st2 =>
                Res.ofExcept cfg (strMethod cfg.std m s vs) sp st2
            | none => .err .typeMismatch sp st1
          | .num n =>
            match NumM.ofName field with
            | some m => .ok (numMethod m n) st1
            | none => .err .typeMismatch sp st1
          | .arr xs =>
            match ArrM.ofName field with
            | some .len => .ok (.num (NumOps.ofInt xs.length)) st1
            | some .join =>
              (evalSel cfg f (pick args [(0, .joinArg0)] sp) st1).bind fun vs st2 =>
                match vs with
                | [.str sep] => .ok (.str (joinItems sep xs true)) st2
                | _ => trap cfg .joinSep sp st2
            | _ => .err .typeMismatch sp st1   -- no such method (push/pop/reverse went the name-directed way)
          | .host (.command c) =>
            match CmdM.ofName field with
            | some .run => runCommand cfg c sp st1
            | _ => .err .typeMismatch sp st1   -- no such method (the setters went the name-directed way)
          | .host (.result r) =>
            match ResM.ofName field with
            | some m => .ok (resMethod m r) st1
            | none => .err .typeMismatch sp st1
          | .bool _ => trap cfg .boolReceiver sp st1
          | .null => .err .typeMismatch sp st1
    | .call (.var name _ _) args fnAnn sp =>
      match GlobalB.ofName name with
      | some b =>
        (evalSel cfg f (args.map .ok) st).bind fun vs st1 =>
          match vs with
          | [v] => globalCall cfg b v sp st1
          | _ => trap cfg .builtinArity sp st1
      | none =>
        -- the callee is looked up BEFORE the arguments are evaluated
        match lookupFn cfg st fnAnn name with
        | none => trap cfg (if fnAnn.isSome then .fnById else .fnByName) sp st
        | some fd =>
          (evalSel cfg f (args.map .ok) st).bind fun vs st1 =>
            if vs.length ≠ fd.params.length then trap cfg .callArity sp st1
            else
              match paramIds fd with
              | none => trap cfg .paramRange sp st1
              | some ids =>
                (execBlock cfg f fd.body
                    (pushScope st1 (.params fd.id) fd.chain (paramSlots fd.params ids vs)
                      (ids.filterMap id))).bind fun flow st3 =>
                  let st4 := popScope st3 st1.chain
                  match flow with
                  | .cont => .ok .null st4
                  | .ret v => .ok v st4
                  | .brk => trap cfg .flowEscape sp st4
                  | .next => trap cfg .flowEscape sp st4
    | .call _ _ _ sp => trap cfg .calleeShape sp st

/-- Evaluate a list of expressions left to right (call arguments, array elements, the arguments a
built-in reads); an `error (site, span)` entry is an argument position past the end of the list
(`arg_at`), reported at the span of the call. -/
def evalSel (cfg : RunCfg) : Nat → List (Except (PanicSite × Span) Expr) → State N → Res N (List (Value N))
  | 0, _, _ => .fuel
  | _ + 1, [], st => .ok [] st
  | _ + 1, .error site :: _, st => trap cfg site.1 site.2 st
  | f + 1, .ok e :: rest, st =>
    (evalExpr cfg f e st).bind fun v st1 =>
      (evalSel cfg f rest st1).bind fun vs st2 => .ok (v :: vs) st2

/-- `eval_index_value` over the flattened index expressions, base outward; each value is checked
as soon as it is computed. -/
def evalIdxs (cfg : RunCfg) : Nat → List (Expr × Span) → State N → Res N (List (Nat × Span))
  | 0, _, _ => .fuel
  | _ + 1, [], st => .ok [] st
  | f + 1, (e, isp) :: rest, st =>
    (evalExpr cfg f e st).bind fun v st1 =>
      (Res.ofExcept cfg (indexValue v isp) isp st1).bind fun i st1' =>
        (evalIdxs cfg f rest st1').bind fun is st2 => .ok ((i, isp) :: is) st2

/-- Arguments of a name-directed mutable method (`eval_array_member_call_mut`,
`eval_process_command_call_mut`), evaluated BEFORE the receiver is resolved. -/
def evalMutOp (cfg : RunCfg) : Nat → MutM → List Expr → Span → State N → Res N (MutOp N)
  | 0, _, _, _, _ => .fuel
  | f + 1, m, args, sp, st =>
    match m with
    | .push =>
      (evalSel cfg f (pick args [(0, .pushArg0)] sp) st).bind fun vs st1 =>
        match vs with
        | [v] => .ok (.push v) st1
        | _ => trap cfg .pushArg0 sp st1
    | .pop => .ok .pop st
    | .reverse => .ok .reverse st
    | .cmd .arg =>
      (evalSel cfg f (pick args [(0, .cmdArg0)] sp) st).bind fun vs st1 =>
        match vs with
        | [v] => .ok (.cmd (.arg v.display)) st1
        | _ => trap cfg .cmdArg0 sp st1
    | .cmd .cwd =>
      (evalSel cfg f (pick args [(0, .cmdCwd0)] sp) st).bind fun vs st1 =>
        match vs with
        | [v] => (Res.ofExcept cfg (requiredString v sp) sp st1).bind fun s st2 => .ok (.cmd (.cwd s)) st2
        | _ => trap cfg .cmdCwd0 sp st1
    | .cmd .env =>
      (evalSel cfg f (pick args [(0, .cmdEnv0)] sp) st).bind fun vs st1 =>
        match vs with
        | [kv] =>
          (Res.ofExcept cfg (requiredString kv sp) sp st1).bind fun key st1' =>
            (evalSel cfg f (pick args [(1, .cmdEnv1)] sp) st1').bind fun ws st2 =>
              match ws with
              | [v] => .ok (.cmd (.env key v.display)) st2
              | _ => trap cfg .cmdEnv1 sp st2
        | _ => trap cfg .cmdEnv0 sp st1
    | .cmd .stdinText =>
      (evalSel cfg f (pick args [(0, .cmdStdinText0)] sp) st).bind fun vs st1 =>
        match vs with
        | [v] => .ok (.cmd (.stdinText v.display)) st1
        | _ => trap cfg .cmdStdinText0 sp st1
    | .cmd .timeoutMs =>
      (evalSel cfg f (pick args [(0, .cmdTimeout0)] sp) st).bind fun vs st1 =>
        match vs with
        | [v] => (Res.ofExcept cfg (timeoutMs v sp) sp st1).bind fun ms st2 => .ok (.cmd (.timeout ms)) st2
        | _ => trap cfg .cmdTimeout0 sp st1
    | .cmd .stdinInherit => .ok (.cmd .stdinInherit) st
    | .cmd .stdinNull => .ok (.cmd .stdinNull) st
    | .cmd .stdoutCapture => .ok (.cmd .stdoutCapture) st
    | .cmd .stdoutInherit => .ok (.cmd .stdoutInherit) st
    | .cmd .stdoutNull => .ok (.cmd .stdoutNull) st
    | .cmd .stderrCapture => .ok (.cmd .stderrCapture) st
    | .cmd .stderrInherit => .ok (.cmd .stderrInherit) st
    | .cmd .stderrNull => .ok (.cmd .stderrNull) st
    | .cmd .run => .ok (.cmd .clone) st   -- not reached: `MutM.ofName` never yields `run`

/-- `exec_stmt`. -/
def execStmt (cfg : RunCfg) : Nat → Stmt → State N → Res N (Flow N)
  | 0, _, _ => .fuel
  | f + 1, s, st =>
    match s with
    | .assign var _ e bind _ _ =>
      (evalExpr cfg f e st).bind fun v st1 => .ok .cont (define st1 bind var v)
    | .assignExisting var vsp e bind _ _ =>
      (evalExpr cfg f e st).bind fun v st1 =>
        match assign cfg st1 bind var v with
        | some st2 => .ok .cont st2
        | none => trap cfg (if bind.isSome then .assignLookup else .assignVarLookup) vsp st1
    | .assignIndex target e _ sp =>
      (evalExpr cfg f e st).bind fun v st1 =>
        match lvOf target with
        | .other => trap cfg .indexTargetRoot sp st1
        | .badRoot => trap cfg .indexTargetRoot sp st1
        | .path name bind idxs =>
          (evalIdxs cfg f idxs st1).bind fun path st2 =>
            (assignIndex cfg st2 name bind path v sp).bind fun _ st3 => .ok .cont st3
    | .ifS cond thenB elseB _ _ =>
      (evalExpr cfg f cond st).bind fun v st1 =>
        (Res.ofExcept cfg (truthy .ifCond v) cond.span st1).bind fun c st1' =>
          if c then execBlock cfg f thenB st1'
          else
            match elseB with
            | some eb => execBlock cfg f eb st1'
            | none => .ok .cont st1'
    | .loop cond body _ _ => loopW cfg f cond body cond.span st
    | .block b _ _ => execBlock cfg f b st
    | .fnDef _ _ _ _ _ _ _ => .ok .cont st
    | .ret none _ _ => .ok (.ret .null) st
    | .ret (some e) _ _ => (evalExpr cfg f e st).bind fun v st1 => .ok (.ret v) st1
    | .brk _ _ => .ok .brk st
    | .cont _ _ => .ok .next st
    | .expr e _ _ => (evalExpr cfg f e st).bind fun _ st1 => .ok .cont st1

/-- The statement loop of `exec_block_with_flow`: pruned statements are skipped. -/
def execStmts (cfg : RunCfg) : Nat → List Stmt → State N → Res N (Flow N)
  | 0, _, _ => .fuel
  | _ + 1, [], st => .ok .cont st
  | f + 1, s :: rest, st =>
    if Plan.prunesStmt cfg.plan s.sid then execStmts cfg f rest st
    else
      (execStmt cfg f s st).bind fun flow st1 =>
        match flow with
        | .cont => execStmts cfg f rest st1
        | _ => .ok flow st1

/-- `exec_block_with_flow`: push a scope, hoist the block's functions, run the statements, pop.
(An error leaves the scope in place, as `?` does; nothing observes it.) -/
def execBlock (cfg : RunCfg) : Nat → Block → State N → Res N (Flow N)
  | 0, _, _ => .fuel
  | f + 1, b, st =>
    (execStmts cfg f b.stmts (hoist cfg b.stmts (pushScope st (.block b.span) st.chain [] (declIds b.stmts)))).bind
      fun flow st2 => .ok flow (popScope st2 st.chain)

/-- `Stmt::Loop`. -/
def loopW (cfg : RunCfg) : Nat → Expr → Block → Span → State N → Res N (Flow N)
  | 0, _, _, _, _ => .fuel
  | f + 1, cond, body, sp, st =>
    (evalExpr cfg f cond st).bind fun v st1 =>
      (Res.ofExcept cfg (truthy .loopCond v) sp st1).bind fun c st1' =>
        if c then
          (execBlock cfg f body st1').bind fun flow st2 =>
            match flow with
            | .brk => .ok .cont st2
            | .ret v => .ok (.ret v) st2
            | _ => loopW cfg f cond body sp st2
        else .ok .cont st1'

end

/-- The state `run_inner` starts from: one empty root scope (`push_scope_with_capacity(0, arena)`). -/
def State.init (cfg : RunCfg) : State N :=
  { env := [{ uid := 0, kind := .root, slots := [], fns := [], decls := [] }], out := [], chain := [0], next := 1,
    input := cfg.input }

/-- `run_inner` (`Runtime::run_with_analysis`): the flow the root block ends with is ignored. -/
def run (cfg : RunCfg) (fuel : Nat) (prog : Block) : Outcome N :=
  match execBlock cfg fuel prog (State.init cfg) with
  | .ok _ st => .ok st.out
  | .err k sp st => .rt k sp st.out
  | .panic site st => .panic site st.out
  | .fuel => .fuelOut

/-! ### Well-scoped annotations (the hypothesis of C04's dynamic theorem)

A decidable structural check of an ANNOTATED program, evaluated by the driver (`ws` requests) on the
real resolver's output: every variable reference / assignment target / `{name}` segment carries a
`LocalId` that a lexically enclosing binder (block or parameter list) declares, every `make` one of
its own block, every call of a user function a `FunctionId` that a lexically enclosing block
defines, and along every lexical path the binders declare disjoint ids. -/

/-- What a block or a parameter list declares: `LocalId`s and `FunctionId`s. -/
structure Binder where
  decls : List Nat
  fnIds : List Nat

/-- The `FunctionId`s of the definitions of a statement list (what `hoist` registers). -/
def fnIdsOf : List Stmt → List Nat
  | [] => []
  | .fnDef _ _ _ _ (some i) _ _ :: rest => i :: fnIdsOf rest
  | _ :: rest => fnIdsOf rest

def Binder.ofStmts (ss : List Stmt) : Binder := ⟨declIds ss, fnIdsOf ss⟩
def Binder.ofParams (ps : List Param) : Binder := ⟨ps.filterMap (·.bind), []⟩
/-- The extra root scope of `run_inner` declares nothing. -/
def Binder.root : Binder := ⟨[], []⟩

/-- `l` is declared by a binder of the lexical context. -/
def declared (Γ : List Binder) (l : Nat) : Bool := Γ.any (fun β => β.decls.contains l)
def fnDeclared (Γ : List Binder) (i : Nat) : Bool := Γ.any (fun β => β.fnIds.contains i)

def boundIn (Γ : List Binder) : Option Nat → Bool
  | some l => declared Γ l
  | none => false

def fnBoundIn (Γ : List Binder) : Option Nat → Bool
  | some i => fnDeclared Γ i
  | none => false

/-- The binding of a `make`: a local of the statement's own block. -/
def headDecl : List Binder → Option Nat → Bool
  | β :: _, some l => β.decls.contains l
  | _, _ => false

def headFn : List Binder → Option Nat → Bool
  | β :: _, some i => β.fnIds.contains i
  | _, _ => false

/-- The binder declares nothing an enclosing binder declares. -/
def freshIn (Γ : List Binder) (β : Binder) : Bool :=
  β.decls.all (fun l => !declared Γ l) && β.fnIds.all (fun i => !fnDeclared Γ i)

def wsSeg (Γ : List Binder) : Seg → Bool
  | .lit _ => true
  | .var _ b => boundIn Γ b

mutual
  def wsExpr (Γ : List Binder) : Expr → Bool
    | .num _ _ | .bool _ _ | .null _ => true
    | .str (.static _) _ => true
    | .str (.interp segs) _ => segs.all (wsSeg Γ)
    | .var _ b _ => boundIn Γ b
    | .binary _ l r _ => wsExpr Γ l && wsExpr Γ r
    | .unary _ x _ => wsExpr Γ x
    | .array es _ => wsExprs Γ es
    | .index a i _ _ => wsExpr Γ a && wsExpr Γ i
    | .member o _ _ _ => wsExpr Γ o
    | .call (.member obj _ _ _) args _ _ => wsExpr Γ obj && wsExprs Γ args
    | .call (.var name _ _) args fn _ =>
        wsExprs Γ args && ((GlobalB.ofName name).isSome || fnBoundIn Γ fn)
    | .call _ args _ _ => wsExprs Γ args
  def wsExprs (Γ : List Binder) : List Expr → Bool
    | [] => true
    | e :: es => wsExpr Γ e && wsExprs Γ es
end

mutual
  /-- `Γ` includes the binder of the statement's own block (its head). -/
  def wsStmt (Γ : List Binder) : Stmt → Bool
    | .assign _ _ e b _ _ => wsExpr Γ e && headDecl Γ b
    | .assignExisting _ _ e b _ _ => wsExpr Γ e && boundIn Γ b
    | .assignIndex t e _ _ => wsExpr Γ t && wsExpr Γ e
    | .ifS c t e _ _ => wsExpr Γ c && wsBlock Γ t && wsOptBlock Γ e
    | .loop c b _ _ => wsExpr Γ c && wsBlock Γ b
    | .block b _ _ => wsBlock Γ b
    | .fnDef _ _ ps body fn _ _ =>
        headFn Γ fn && ps.all (fun p => p.bind.isSome) && freshIn Γ (.ofParams ps) &&
          wsBlock (.ofParams ps :: Γ) body
    | .ret (some e) _ _ => wsExpr Γ e
    | .ret none _ _ => true
    | .brk _ _ => true
    | .cont _ _ => true
    | .expr e _ _ => wsExpr Γ e
  def wsStmts (Γ : List Binder) : List Stmt → Bool
    | [] => true
    | s :: rest => wsStmt Γ s && wsStmts Γ rest
  def wsBlock (Γ : List Binder) : Block → Bool
    | .mk ss _ => freshIn Γ (.ofStmts ss) && wsStmts (.ofStmts ss :: Γ) ss
  def wsOptBlock (Γ : List Binder) : Option Block → Bool
    | none => true
    | some b => wsBlock Γ b
end

/-- The hypothesis of the dynamic theorem, a decidable check of the annotated program: every
reference is bound to a declaration of a lexically enclosing binder, ids are not re-used along a
lexical path. -/
def WellScoped (p : Block) : Prop := wsBlock [Binder.root] p = true

instance (p : Block) : Decidable (WellScoped p) := inferInstanceAs (Decidable (_ = true))

end NaijaVerif.Eval
