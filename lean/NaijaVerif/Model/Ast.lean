import NaijaVerif.Model.Token
/-
`src/syntax/parser.rs` AST, plus the resolver's bindings as optional annotations on the nodes the
Rust code keys its pointer tables by (`ProgramFacts::{expr_locals, stmt_locals,
string_segment_locals, user_calls, function_bodies, stmt_ids}`).  The parser leaves every
annotation `none`; the resolver model fills them in.
-/
namespace NaijaVerif

inductive BinOp where
  | add | minus | times | divide | mod | and | or | eq | gt | lt
deriving DecidableEq, Repr, Inhabited

inductive UnOp where
  | not | neg
deriving DecidableEq, Repr, Inhabited

/-- One segment of an interpolated string; `bind` = `string_segment_local`. -/
inductive Seg where
  | lit (s : Bytes)
  | var (name : Bytes) (bind : Option Nat)
deriving DecidableEq, Repr, Inhabited

inductive StrParts where
  | static (s : Bytes)
  | interp (segs : List Seg)
deriving DecidableEq, Repr, Inhabited

inductive Expr where
  | index (arr idx : Expr) (idxSpan span : Span)
  | str (parts : StrParts) (span : Span)
  | num (lexeme : Bytes) (span : Span)
  /-- `bind` = `expr_local`. -/
  | var (name : Bytes) (bind : Option Nat) (span : Span)
  | binary (op : BinOp) (lhs rhs : Expr) (span : Span)
  /-- `fn` = `user_call_callee`. -/
  | call (callee : Expr) (args : List Expr) (fn : Option Nat) (span : Span)
  | array (elems : List Expr) (span : Span)
  | unary (op : UnOp) (e : Expr) (span : Span)
  | bool (b : Bool) (span : Span)
  | member (obj : Expr) (field : Bytes) (fieldSpan span : Span)
  | null (span : Span)
deriving Repr, Inhabited

def Expr.span : Expr → Span
  | .index _ _ _ s | .str _ s | .num _ s | .var _ _ s | .binary _ _ _ s | .call _ _ _ s
  | .array _ s | .unary _ _ s | .bool _ s | .member _ _ _ s | .null s => s

/-- A parameter; `bind` = its `LocalId` (`local_range(f).start + position`). -/
structure Param where
  name : Bytes
  span : Span
  bind : Option Nat := none
deriving DecidableEq, Repr, Inhabited

mutual
  /-- Every statement carries `sid` = `stmt_id`. -/
  inductive Stmt where
    /-- `fn` = `function_by_body`. -/
    | fnDef (name : Bytes) (nameSpan : Span) (params : List Param) (body : Block)
        (fn : Option Nat) (sid : Option Nat) (span : Span)
    /-- `make x get e`; `bind` = `stmt_local`. -/
    | assign (var : Bytes) (varSpan : Span) (e : Expr) (bind : Option Nat) (sid : Option Nat)
        (span : Span)
    /-- `x get e`. -/
    | assignExisting (var : Bytes) (varSpan : Span) (e : Expr) (bind : Option Nat)
        (sid : Option Nat) (span : Span)
    | assignIndex (target e : Expr) (sid : Option Nat) (span : Span)
    | ifS (cond : Expr) (thenB : Block) (elseB : Option Block) (sid : Option Nat) (span : Span)
    | loop (cond : Expr) (body : Block) (sid : Option Nat) (span : Span)
    | block (b : Block) (sid : Option Nat) (span : Span)
    | ret (e : Option Expr) (sid : Option Nat) (span : Span)
    | brk (sid : Option Nat) (span : Span)
    | cont (sid : Option Nat) (span : Span)
    | expr (e : Expr) (sid : Option Nat) (span : Span)
  inductive Block where
    | mk (stmts : List Stmt) (span : Span)
end

instance : Inhabited Block := ⟨.mk [] default⟩
instance : Inhabited Stmt := ⟨.brk none default⟩

def Block.stmts : Block → List Stmt | .mk s _ => s
def Block.span : Block → Span | .mk _ s => s

def Stmt.sid : Stmt → Option Nat
  | .fnDef _ _ _ _ _ s _ | .assign _ _ _ _ s _ | .assignExisting _ _ _ _ s _ | .assignIndex _ _ s _
  | .ifS _ _ _ s _ | .loop _ _ s _ | .block _ s _ | .ret _ s _ | .brk s _ | .cont s _
  | .expr _ s _ => s

def Stmt.span : Stmt → Span
  | .fnDef _ _ _ _ _ _ s | .assign _ _ _ _ _ s | .assignExisting _ _ _ _ _ s | .assignIndex _ _ _ s
  | .ifS _ _ _ _ s | .loop _ _ _ s | .block _ _ s | .ret _ _ s | .brk _ s | .cont _ s
  | .expr _ _ s => s

end NaijaVerif
