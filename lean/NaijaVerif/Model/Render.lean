import NaijaVerif.Model.Diag
/-
`src/diagnostics.rs`: the diagnostic renderer (`render_ansi`, `render_diagnostic`,
`line_col_from_span`, `compute_line_starts`, `compute_gutter_width`, `expand_tabs`, `visual_col`, the
caret and label lines) — the last stage of property C07.

The model produces the exact bytes `render_ansi(src, filename)` returns.  What can make the Rust code
panic is made explicit:

* every `&src[a..b]` goes through the ONE checked function `slice?`, which is `none` exactly when Rust
  panics: `a > b`, `b > len`, or an end that is not on a character boundary;
* every `x - 1` on a `usize` goes through `sub1?` (`none` for `x = 0`: debug builds panic on the
  underflow, release builds wrap and then index out of bounds);
* every `v[i]` goes through `[i]?`.

So the renderer model returns `Option Bytes`; `none` = the Rust code panics.  Memory is not modelled
(every buffer lives in the bump arena; see the unit's report for what that hides).

Text is bytes.  `str::chars()` of a (valid UTF-8) slice is modelled on bytes: a character is counted /
acted upon at its lead byte, i.e. at every byte that is not a continuation byte `10xxxxxx`; continuation
bytes are copied and never counted.  Core-only.
-/
namespace NaijaVerif.Render
open NaijaVerif
open NaijaVerif.Bytes (isCont isBoundary)

/-! ## constants (tied to the source by `Gen/Render.lean`, see `Props/C07Render.lean`) -/

/-- `Diagnostics::TAB_WIDTH` -/
def tabWidth : Nat := 4
/-- `BOLD = "\x1b[1m"` -/
def bold : Bytes := [27, 91, 49, 109]
/-- `RESET = "\x1b[0m"` -/
def reset : Bytes := [27, 91, 48, 109]
/-- `Severity::color_code` -/
def color : Sev → Bytes
  | .error => [27, 91, 51, 49, 109]
  | .warning => [27, 91, 51, 51, 109]
  | .note => [27, 91, 51, 52, 109]
/-- `Severity::label` -/
def sevLabel : Sev → Bytes
  | .error => b!"error"
  | .warning => b!"warning"
  | .note => b!"note"

abbrev nl : Nat := 10
abbrev cr : Nat := 13
abbrev tab : Nat := 9
abbrev space : Nat := 32

/-! ## the checked primitives -/

/-- `&src[a..b]`: `none` exactly when Rust's `str` slicing panics. -/
def slice? (src : Bytes) (a b : Nat) : Option Bytes :=
  if a ≤ b ∧ b ≤ src.length ∧ isBoundary src a = true ∧ isBoundary src b = true then
    some ((src.drop a).take (b - a))
  else none

/-- `x - 1` on `usize`. -/
def sub1? (x : Nat) : Option Nat := if x = 0 then none else some (x - 1)

/-- `mapM` for `Option`, written out (structural, easy to induct on). -/
def mapOpt {α β : Type} (f : α → Option β) : List α → Option (List β)
  | [] => some []
  | a :: as =>
    match f a with
    | none => none
    | some b =>
      match mapOpt f as with
      | none => none
      | some bs => some (b :: bs)

/-! ## `compute_line_starts` -/

/-- The loop of `compute_line_starts` from offset `i` on (`rest` = `src[i..]`): `memchr2` skips to the
next `'\r'` / `'\n'`; `"\r\n"` pushes `idx + 2`, a lone `'\r'` and a `'\n'` push `idx + 1`. -/
def lineStartsFrom : Nat → Bytes → List Nat
  | _, [] => []
  | i, [b] => if b = cr then [i + 1] else if b = nl then [i + 1] else []
  | i, b :: c :: r' =>
    if b = cr then
      if c = nl then (i + 2) :: lineStartsFrom (i + 2) r'
      else (i + 1) :: lineStartsFrom (i + 1) (c :: r')
    else if b = nl then (i + 1) :: lineStartsFrom (i + 1) (c :: r')
    else lineStartsFrom (i + 1) (c :: r')

/-- `compute_line_starts(src)`: `starts.push(0)` and the loop. -/
def computeLineStarts (src : Bytes) : List Nat := 0 :: lineStartsFrom 0 src

/-! ## `visual_col`, `expand_tabs`, `chars().count()` -/

/-- the fold of `visual_col`, from column `col` -/
def visualColGo : Nat → Bytes → Nat
  | col, [] => col
  | col, b :: r =>
    if isCont b then visualColGo col r
    else if b = tab then visualColGo (col + (tabWidth - col % tabWidth)) r
    else visualColGo (col + 1) r

/-- `Diagnostics::visual_col(text)` -/
def visualCol (text : Bytes) : Nat := visualColGo 0 text

/-- the loop of `expand_tabs`, from column `col` -/
def expandTabsGo : Nat → Bytes → Bytes
  | _, [] => []
  | col, b :: r =>
    if isCont b then b :: expandTabsGo col r
    else if b = tab then
      List.replicate (tabWidth - col % tabWidth) space ++ expandTabsGo (col + (tabWidth - col % tabWidth)) r
    else b :: expandTabsGo (col + 1) r

/-- `expand_tabs(text)` -/
def expandTabs (text : Bytes) : Bytes := expandTabsGo 0 text

/-- `text.chars().count()` -/
def charCount : Bytes → Nat
  | [] => 0
  | b :: r => if isCont b then charCount r else charCount r + 1

/-! ## `line_col_from_span` -/

/-- result of `slice::binary_search` -/
inductive BS where
  | found (i : Nat)
  | insertAt (i : Nat)
deriving DecidableEq, Repr

/-- `xs.binary_search(&t)` on a strictly increasing vector (`Props.C07Render.lineStarts_sorted`), where
the result is determined: `Ok(i)` for the one `i` with `xs[i] = t`, else `Err(number of elements < t)`.
Computed here by a scan from the left, `i` = index of the head. -/
def bsearch : List Nat → Nat → Nat → BS
  | [], i, _ => .insertAt i
  | x :: xs, i, t => if x = t then .found i else if t < x then .insertAt i else bsearch xs (i + 1) t

/-- `line_starts.binary_search(&start).unwrap_or_else(|x| x - 1)` -/
def lineIdx (starts : List Nat) (start : Nat) : Option Nat :=
  match bsearch starts 0 start with
  | .found i => some i
  | .insertAt x => sub1? x

/-- `(line_start, line_end)` of line index `idx`: `line_starts[idx]` and
`line_starts[idx + 1] - 1` (the position of the `'\n'` / lone `'\r'` that ends the line — for `"\r\n"` the
position of the `'\n'`, so the `'\r'` belongs to the line) or `src.len()` for the last line. -/
def lineBounds (src : Bytes) (starts : List Nat) (idx : Nat) : Option (Nat × Nat) :=
  match starts[idx]? with
  | none => none
  | some ls =>
    if idx + 1 < starts.length then
      match starts[idx + 1]? with
      | none => none
      | some nx =>
        match sub1? nx with
        | none => none
        | some le => some (ls, le)
    else some (ls, src.length)

structure LineCol where
  line : Nat
  col : Nat
  lineStart : Nat
  lineEnd : Nat
deriving DecidableEq, Repr

/-- `line_col_from_span(src, start)` -/
def lineColFromSpan (src : Bytes) (start : Nat) : Option LineCol :=
  let starts := computeLineStarts src
  match lineIdx starts start with
  | none => none
  | some idx =>
    match lineBounds src starts idx with
    | none => none
    | some (ls, le) =>
      match slice? src ls start with
      | none => none
      | some pre => some ⟨idx + 1, visualCol pre + 1, ls, le⟩

/-! ## diagnostics as the renderer sees them -/

structure RLabel where
  msg : Bytes
  span : Span
deriving DecidableEq, Repr

structure RDiag where
  sev : Sev
  code : Bytes
  msg : Bytes
  span : Span
  labels : List RLabel := []
deriving DecidableEq, Repr

/-! ## formatting -/

/-- decimal digits of `n`, most significant first (`fuel` ≥ number of digits) -/
def digitsGo : Nat → Nat → Bytes → Bytes
  | 0, _, acc => acc
  | fuel + 1, n, acc => if n < 10 then (48 + n) :: acc else digitsGo fuel (n / 10) ((48 + n % 10) :: acc)

/-- `format!("{n}")` -/
def natStr (n : Nat) : Bytes := digitsGo (n + 1) n []

/-- `format!("{s:>width$}")` for an ASCII `s` -/
def padLeft (width : Nat) (s : Bytes) : Bytes := List.replicate (width - s.length) space ++ s

/-- the positions `compute_gutter_width` calls `line_col_from_span` on, in order: each diagnostic's
`span.start`, then its labels' -/
def spanStarts (ds : List RDiag) : List Nat :=
  ds.flatMap fun d => d.span.lo :: d.labels.map (·.span.lo)

/-- `compute_gutter_width`: the number of digits of the largest line number that will be shown
(`max_line` starts at 1). -/
def computeGutterWidth (src : Bytes) (ds : List RDiag) : Option Nat :=
  (mapOpt (lineColFromSpan src) (spanStarts ds)).map fun lcs =>
    (natStr (lcs.foldl (fun m lc => max m lc.line) 1)).length

/-- `render_header` -/
def renderHeader (sev : Sev) (code msg : Bytes) : Bytes :=
  bold ++ color sev ++ sevLabel sev ++ b!"[" ++ code ++ b!"]" ++ reset ++ b!": " ++ bold ++ msg ++ reset

/-- `render_location` -/
def renderLocation (file : Bytes) (line col : Nat) (c : Bytes) : Bytes :=
  b!" " ++ bold ++ c ++ b!"-->" ++ reset ++ b!" " ++ file ++ b!":" ++ natStr line ++ b!":" ++ natStr col

/-- `render_gutter` -/
def renderGutter (line : Nat) (c : Bytes) (width : Nat) : Bytes :=
  bold ++ c ++ padLeft width (natStr line) ++ b!" |" ++ reset ++ b!" "

/-- `render_plain_gutter` -/
def renderPlainGutter (c : Bytes) (width : Nat) : Bytes :=
  bold ++ c ++ padLeft width [] ++ b!" |" ++ reset ++ b!" "

/-- `render_caret_line` (`col - 1` spaces, `len` carets) -/
def renderCaretLine (col len : Nat) (c plain : Bytes) : Option Bytes :=
  match sub1? col with
  | none => none
  | some k => some (plain ++ List.replicate k space ++ bold ++ c ++ List.replicate len 94 ++ reset)

/-- `render_label_line` (`lbl_col - 1` spaces, `dash_count` dashes, the message) -/
def renderLabelLine (col dashes : Nat) (c msg plain : Bytes) : Option Bytes :=
  match sub1? col with
  | none => none
  | some k =>
    some (plain ++ List.replicate k space ++ bold ++ c ++ List.replicate dashes 45 ++ reset ++ b!" "
      ++ bold ++ msg ++ reset)

/-! ## `render_diagnostic` -/

/-- the body of the `for label in same_line_labels` loop -/
def sameLineLabel (src : Bytes) (ls le : Nat) (c plain : Bytes) (l : RLabel) : Option Bytes :=
  match slice? src ls l.span.lo with
  | none => none
  | some pre =>
    match slice? src l.span.lo (min l.span.hi le) with
    | none => none
    | some body => renderLabelLine (visualCol pre + 1) (max (visualCol body) 1) c l.msg plain

/-- the body of the `for label in cross_line_labels` loop followed by the three lines written for it:
the label's source line, its underline, a plain gutter -/
def crossLineLabel (src : Bytes) (width : Nat) (c plain : Bytes) (l : RLabel) : Option Bytes :=
  match lineColFromSpan src l.span.lo with
  | none => none
  | some lc =>
    match slice? src lc.lineStart lc.lineEnd with
    | none => none
    | some lineTxt =>
      match slice? src l.span.lo (min l.span.hi lc.lineEnd) with
      | none => none
      | some body =>
        match renderLabelLine lc.col (max (visualCol body) 1) c l.msg plain with
        | none => none
        | some underline =>
          some (renderGutter lc.line c width ++ expandTabs lineTxt ++ [nl] ++ underline ++ [nl] ++ plain ++ [nl])

/-- `render_diagnostic(diag, src, filename, gutter_width, Some(buf))`: the bytes appended to `buf`. -/
def renderDiagnostic (src file : Bytes) (width : Nat) (d : RDiag) : Option Bytes :=
  let c := color d.sev
  match lineColFromSpan src d.span.lo with
  | none => none
  | some lc =>
    match slice? src lc.lineStart lc.lineEnd with
    | none => none
    | some lineTxt =>
      let plain := renderPlainGutter c width
      match slice? src d.span.lo (min d.span.hi lc.lineEnd) with
      | none => none
      | some caretTxt =>
        match renderCaretLine lc.col (max (charCount caretTxt) 1) c plain with
        | none => none
        | some caretLine =>
          -- `partition`: the closure computes the line of every label
          match mapOpt (fun l => (lineColFromSpan src l.span.lo).map fun llc => (l, llc.line == lc.line)) d.labels with
          | none => none
          | some tagged =>
            let same := (tagged.filter (·.2)).map (·.1)
            let cross := (tagged.filter (!·.2)).map (·.1)
            match mapOpt (sameLineLabel src lc.lineStart lc.lineEnd c plain) same with
            | none => none
            | some labelLines =>
              match mapOpt (crossLineLabel src width c plain) cross with
              | none => none
              | some crossBlocks =>
                some (renderHeader d.sev d.code d.msg ++ [nl]
                  ++ renderLocation file lc.line lc.col c ++ [nl]
                  ++ plain ++ [nl]
                  ++ crossBlocks.flatten
                  ++ renderGutter lc.line c width ++ expandTabs lineTxt ++ [nl]
                  ++ caretLine ++ [nl]
                  ++ (labelLines.map (· ++ [nl])).flatten)

/-- `Diagnostics::render_ansi(src, filename)`: `none` = the Rust code panics. -/
def renderAnsi (src file : Bytes) (ds : List RDiag) : Option Bytes :=
  match computeGutterWidth src ds with
  | none => none
  | some width => (mapOpt (renderDiagnostic src file width) ds).map List.flatten

end NaijaVerif.Render
