/-
Executable model of naijascript's string built-ins (family `strs`, property C13):

* `src/builtins/tw.rs`      `find` (four length tiers + anchor scan on the critical position),
                            `maximal_suffix`, `crit_period` — **as repaired by (/repo commit 3369f34 =)
                            `proposed-fixes/D-13.diff`** (0-based reads in `maximal_suffix`, restart at
                            `index + 1`, loop bound `offset + (nlen - crit) <= hlen`);
* `src/builtins/replace.rs` `replace` (loop over `find` with unchecked slicing; empty pattern);
* `src/builtins/string.rs`  `len`, `slice` (`find`, `replace`, `split`, `trim`, case mapping and
                            `to_number` delegate to the above / to std, see `Model/StrsStd.lean`);
* `src/builtins/array.rs`   `join` on an array of strings.

Conventions: bytes are `Nat`s; every index read, slice and subtraction the Rust code performs is
an explicit check that yields `Fail.oob` / `Fail.underflow` when the Rust would panic (or, for
`get_unchecked`, be undefined), and every `while` loop takes fuel and yields `Fail.fuel` when it
runs out.  `Props/C13.lean` proves that none of the three ever happens.

`memchr` is an external crate (`memchr-rs`): `find` is parametric in it (`findWith mc`), the
theorems assume only `MemchrSpec mc` (first index of the byte at or after the offset, else the
length), and the driver instantiates it with the obvious scan `memchrRef`.

Core-only: linked into `nvdriver`.
-/
import NaijaVerif.Model.Bytes
import NaijaVerif.Model.StrsStd

namespace NaijaVerif.Strs
open NaijaVerif NaijaVerif.Bytes

inductive Fail where
  | oob        -- index / slice out of range (a Rust panic, or UB under `get_unchecked`)
  | underflow  -- `usize` subtraction below zero
  | fuel       -- a `while` loop did not finish within its fuel (non-termination)
  deriving Repr, DecidableEq

/-- `const SIMD_THRESHOLD: usize = 16;` (re-extracted into `Gen/Strs.lean` on every run). -/
def simdThreshold : Nat := 16

/-- The tests that select the tier, in source order, in the encoding of `Gen/Strs.lean`
(`(op, rhs)`, op 0 `==`, 1 `>`, 2 `<=`; rhs 1000000 = `hlen`, 1000001 = `SIMD_THRESHOLD`):
`nlen == 0`, `nlen > hlen`, `nlen == 1`, `nlen == 2`, `nlen <= SIMD_THRESHOLD` — the `if` chain of
`findWith` below. -/
def tierTests : List (Nat × Nat) := [(0, 0), (1, 1000000), (0, 1), (0, 2), (2, 1000001)]

/-- Reference `memchr(needle, haystack, offset)` of `memchr-rs`: index of the first `b` at or after
`offset`, `haystack.len()` if there is none (the offset is clamped to the length). -/
def memchrRef (b : Nat) (h : Bytes) (o : Nat) : Nat :=
  match (h.drop o).findIdx? (· == b) with
  | some k => o + k
  | none => h.length

/-- `&h[i..j]` (panics unless `i ≤ j ≤ len`). -/
def slice? (h : Bytes) (i j : Nat) : Except Fail Bytes :=
  if i ≤ j ∧ j ≤ h.length then .ok ((h.drop i).take (j - i)) else .error .oob

/-- `h[i]`. -/
def idx? (h : Bytes) (i : Nat) : Except Fail Nat :=
  match h[i]? with
  | some b => .ok b
  | none => .error .oob

/-! ### tw.rs -/

/-- The loop shared by the `nlen == 2` and `nlen <= SIMD_THRESHOLD` tiers:
```
while offset < hlen {
    let index = memchr(first, h, offset);
    if index >= hlen { return None; }
    if index + nlen <= hlen && &h[index..index + nlen] == n { return Some(index); }
    offset = index + 1;
}
return None;
``` -/
def scanLoop (mc : Nat → Bytes → Nat → Nat) (h n : Bytes) (first : Nat) :
    Nat → Nat → Except Fail (Option Nat)
  | 0, _ => .error .fuel
  | fuel + 1, offset =>
    if offset < h.length then
      let index := mc first h offset
      if index ≥ h.length then .ok none
      else if index + n.length ≤ h.length then
        match slice? h index (index + n.length) with
        | .error e => .error e
        | .ok w => if w == n then .ok (some index) else scanLoop mc h n first fuel (index + 1)
      else scanLoop mc h n first fuel (index + 1)
    else .ok none

/-- The long-needle loop (after the repair):
```
while offset + (nlen - crit) <= hlen {
    let index = memchr(anchor, h, offset);
    if index >= hlen { return None; }
    if index < crit { offset = index + 1; continue; }
    let start = index - crit;
    if start + nlen <= hlen && &h[start..start + nlen] == n { return Some(start); }
    offset = index + 1;
}
None
``` -/
def longLoop (mc : Nat → Bytes → Nat → Nat) (h n : Bytes) (crit anchor : Nat) :
    Nat → Nat → Except Fail (Option Nat)
  | 0, _ => .error .fuel
  | fuel + 1, offset =>
    if n.length < crit then .error .underflow           -- `nlen - crit`
    else if offset + (n.length - crit) ≤ h.length then
      let index := mc anchor h offset
      if index ≥ h.length then .ok none
      else if index < crit then longLoop mc h n crit anchor fuel (index + 1)
      else
        let start := index - crit
        if start + n.length ≤ h.length then
          match slice? h start (start + n.length) with
          | .error e => .error e
          | .ok w =>
            if w == n then .ok (some start) else longLoop mc h n crit anchor fuel (index + 1)
        else longLoop mc h n crit anchor fuel (index + 1)
    else .ok none

/-- `maximal_suffix(x, rev)` (after the repair: reads `x[i + k - 1]`, `x[j + k - 1]`), state
`(i, j, k, p)`, returns `(i, p)`. -/
def maxSufLoop (x : Bytes) (rev : Bool) : Nat → Nat → Nat → Nat → Nat → Except Fail (Nat × Nat)
  | 0, _, _, _, _ => .error .fuel
  | fuel + 1, i, j, k, p =>
    if j + k ≤ x.length then
      if i + k < 1 ∨ j + k < 1 then .error .underflow     -- `i + k - 1`, `j + k - 1`
      else
        match x[i + k - 1]?, x[j + k - 1]? with
        | some ap, some a =>
          if (a < ap && !rev) || (a > ap && rev) then
            if j + k < i then .error .underflow           -- `p = j - i`
            else maxSufLoop x rev fuel i (j + k) 1 (j + k - i)
          else if a == ap then
            if k == p then maxSufLoop x rev fuel i (j + p) 1 p
            else maxSufLoop x rev fuel i j (k + 1) p
          else maxSufLoop x rev fuel j (j + 1) 1 1
        | _, _ => .error .oob
    else .ok (i, p)

/-- Fuel that is always enough for `maximal_suffix` (`2i + j + k` grows with every iteration and
stays below `3|x| + 2`). -/
def maxSufFuel (x : Bytes) : Nat := 3 * x.length + 3

def maximalSuffix (x : Bytes) (rev : Bool) : Except Fail (Nat × Nat) :=
  maxSufLoop x rev (maxSufFuel x) 0 1 1 1

/-- `crit_period`. -/
def critPeriod (x : Bytes) : Except Fail (Nat × Nat) :=
  match maximalSuffix x false with
  | .error e => .error e
  | .ok (i, p) =>
    match maximalSuffix x true with
    | .error e => .error e
    | .ok (j, q) => if i ≥ j then .ok (i, p) else .ok (j, q)

/-- `tw::find` on bytes, parametric in `memchr` and in the tier threshold. -/
def findWith (mc : Nat → Bytes → Nat → Nat) (T : Nat) (h n : Bytes) : Except Fail (Option Nat) :=
  let hlen := h.length
  let nlen := n.length
  if nlen == 0 then .ok (some 0)
  else if nlen > hlen then .ok none
  else if nlen == 1 then
    match idx? n 0 with
    | .error e => .error e
    | .ok b =>
      let index := mc b h 0
      if index < hlen then .ok (some index) else .ok none
  else if nlen == 2 then
    match idx? n 0 with
    | .error e => .error e
    | .ok first => scanLoop mc h n first (hlen + 1) 0
  else if nlen ≤ T then
    match idx? n 0 with
    | .error e => .error e
    | .ok first => scanLoop mc h n first (hlen + 1) 0
  else
    match critPeriod n with
    | .error e => .error e
    | .ok (crit, _period) =>
      match idx? n crit with
      | .error e => .error e
      | .ok anchor => longLoop mc h n crit anchor (hlen + 1) 0

/-- The function the driver runs and the other built-ins call. -/
def find (h n : Bytes) : Except Fail (Option Nat) := findWith memchrRef simdThreshold h n

/-! ### replace.rs -/

/-- `for (i, ch) in haystack.char_indices() { push_str(to); push(ch);
if i + ch.len_utf8() == haystack.len() { push_str(to) } }` -/
def replaceEmptyLoop (to : Bytes) (hlen : Nat) : List Bytes → Nat → Bytes → Bytes
  | [], _, buf => buf
  | ch :: rest, i, buf =>
    let buf := buf ++ to ++ ch
    let buf := if i + ch.length == hlen then buf ++ to else buf
    replaceEmptyLoop to hlen rest (i + ch.length) buf

/-- `from.is_empty()` branch (the loop above, then `if haystack.is_empty() { push_str(to) }`). -/
def replaceEmpty (h to : Bytes) : Bytes :=
  let buf := replaceEmptyLoop to h.length (chars h) 0 []
  if h.isEmpty then buf ++ to else buf

/-- The `while let Some(index) = find(&haystack[pos..], from)` loop; `buf` is the output so far. -/
def replaceLoop (fnd : Bytes → Bytes → Except Fail (Option Nat)) (h f t : Bytes) :
    Nat → Nat → Bytes → Except Fail Bytes
  | 0, _, _ => .error .fuel
  | fuel + 1, pos, buf =>
    match slice? h pos h.length with                      -- `haystack.get_unchecked(pos..)`
    | .error e => .error e
    | .ok rest =>
      match fnd rest f with
      | .error e => .error e
      | .ok none => .ok (buf ++ rest)
      | .ok (some i) =>
        let index := pos + i
        match slice? h pos index with                     -- `haystack.get_unchecked(pos..index)`
        | .error e => .error e
        | .ok seg => replaceLoop fnd h f t fuel (index + f.length) (buf ++ seg ++ t)

def replaceWith (fnd : Bytes → Bytes → Except Fail (Option Nat)) (h f t : Bytes) : Except Fail Bytes :=
  if f.isEmpty then .ok (replaceEmpty h t) else replaceLoop fnd h f t (h.length + 1) 0 []

def replace (h f t : Bytes) : Except Fail Bytes := replaceWith find h f t

/-! ### string.rs -/

/-- `s.chars().count()`. -/
def len (s : Bytes) : Nat := (chars s).length

/-- `StringBuiltin::slice` after the two `floor() as isize` casts (`a`, `b` are the `isize`s). -/
def slice (s : Bytes) (a b : Int) : Bytes :=
  let cs := chars s
  let len : Int := cs.length
  let start := if a < 0 then a + len else a
  let stop := if b < 0 then b + len else b
  let start := max 0 (min start len)       -- `clamp(0, len)`
  let stop := max 0 (min stop len)
  if start ≥ stop then []
  else if start == 0 && stop == len then s
  else ((cs.drop start.toNat).take (stop - start).toNat).flatten

/-- `slice` on the `f64` arguments (given as bit patterns). -/
def sliceBits (s : Bytes) (a b : Nat) : Bytes := slice s (f64FloorToIsize a) (f64FloorToIsize b)

/-! ### array.rs -/

/-- `ArrayBuiltin::join` on string elements: `for (i, v) in array.iter().enumerate()
{ if i > 0 { push sep } push v }`. -/
def joinLoop (sep : Bytes) : List Bytes → Nat → Bytes → Bytes
  | [], _, buf => buf
  | x :: xs, i, buf => joinLoop sep xs (i + 1) ((if i > 0 then buf ++ sep else buf) ++ x)

def join (xs : List Bytes) (sep : Bytes) : Bytes := joinLoop sep xs 0 []

/-- `StringBuiltin::split` is `str::split` of std. -/
def split (s p : Bytes) : List Bytes := splitOn s p

end NaijaVerif.Strs
