/-
Text is a list of bytes (`Nat`s below 256) in every model: source text, lexemes, identifiers,
string values.  `b!"..."` writes a byte-list literal (expanded at elaboration time, so the kernel
never has to reduce a `String`).  Core-only.
-/
namespace NaijaVerif

abbrev Bytes := List Nat

/-- `b!"abc"` elaborates to `[97, 98, 99]`. -/
macro "b!" s:str : term => do
  let bytes := s.getString.toUTF8.toList.map (·.toNat)
  let lits := bytes.toArray.map (fun b => Lean.Syntax.mkNumLit (toString b))
  `(([$lits,*] : List Nat))

namespace Bytes

def ofString (s : String) : Bytes := s.toUTF8.toList.map (·.toNat)

/-- Lossy only on invalid UTF-8 (used by the driver for messages, never in theorems). -/
def toString (b : Bytes) : String :=
  match String.fromUTF8? (ByteArray.mk (b.map (fun n => n.toUInt8)).toArray) with
  | some s => s
  | none => "<invalid utf-8>"

/-- Continuation byte `10xxxxxx`. -/
def isCont (b : Nat) : Bool := 128 ≤ b && b < 192

/-- `i` is a character boundary of `s` (like `str::is_char_boundary`). -/
def isBoundary (s : Bytes) (i : Nat) : Bool :=
  i == 0 || i == s.length || (match s[i]? with | some b => !isCont b | none => false)

/-- Lexicographic byte order (`str` comparison in Rust is bytewise). -/
def lt : Bytes → Bytes → Bool
  | [], [] => false
  | [], _ :: _ => true
  | _ :: _, [] => false
  | a :: as, b :: bs => if a < b then true else if b < a then false else lt as bs

end Bytes
end NaijaVerif
