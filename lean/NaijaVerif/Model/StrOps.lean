import NaijaVerif.Model.Strs
/-
The evaluator's interface to the string built-ins.  The definitions come from the `strs` unit
(`Model/Strs.lean`, `Model/StrsStd.lean`); to swap the implementation change the right-hand sides
here.  `none` means "the Rust code panics here".

`Model/Strs.lean` models `tw.rs` as repaired by the `fix:` commit for D-13 (now in /repo).  The
originally pinned tree panicked in `maximal_suffix` (index `x[n]`) for every needle longer than
`SIMD_THRESHOLD` (16) bytes that is not longer than the haystack; `pinnedD13 = true` reproduces
that behaviour (kept as a switch so the historical defect stays replayable).  Core-only.
-/
namespace NaijaVerif.StrOps
open NaijaVerif

/-- The one-line switch for defect D-13 (see above). -/
def pinnedD13 : Bool := false

def twPanics (h n : Bytes) : Bool := pinnedD13 && decide (Strs.simdThreshold < n.length) && decide (n.length ≤ h.length)

/-- `tw::find`: `none` = panic, `some none` = not found, `some (some i)` = byte offset. -/
def find (h n : Bytes) : Option (Option Nat) :=
  if twPanics h n then none else
  match Strs.find h n with
  | .ok r => some r
  | .error _ => none

/-- `replace::replace` (`none` = panic: its first `find` call runs on the whole haystack). -/
def replace (h f t : Bytes) : Option Bytes :=
  if twPanics h f then none else
  match Strs.replace h f t with
  | .ok r => some r
  | .error _ => none

/-- `str::split`. -/
def split (s p : Bytes) : List Bytes := Strs.split s p

/-- `StringBuiltin::slice` after the `floor() as isize` casts. -/
def slice (s : Bytes) (a b : Int) : Bytes := Strs.slice s a b

/-- `s.chars().count()`. -/
def len (s : Bytes) : Nat := Strs.len s

end NaijaVerif.StrOps
