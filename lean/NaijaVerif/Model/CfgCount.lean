import NaijaVerif.Model.Facts
import NaijaVerif.Model.Limits
/-
Model of the counting pass of `src/analysis/cfg.rs` (`count_program`, `CountProgramBuilder`,
`CountFunctionBuilder`): the number of basic blocks and linear ops every function will lower to,
computed *without* building the CFG, over the AST annotated with the resolver's
`function_by_body` binding (`Stmt.fnDef … (fn : Option Nat)`).

Core-only imports (linked into `nvdriver`).

What each statement contributes (`CountFunctionBuilder::count_stmt`; every statement is one op):

* assignment / index assignment / expression / function definition: a block only if the cursor is
  dead (`ensure_block`); a function definition does **not** descend into the body (the body is a
  function of its own);
* `return` / `comot` / `next`: `ensure_block`, then the cursor is dead — the next statement of the
  same sequence opens a new (unreachable) block;
* nested block: `ensure_block`, the body continues in the same block, the cursor after it is the
  body's cursor;
* `if`: `ensure_block`, two new blocks (then entry, else entry — the else entry exists even without
  an `else`), both branches start live; a join block iff at least one branch can fall through (a
  missing `else` always can), otherwise the cursor is dead;
* loop: `ensure_block`, three new blocks (condition, body entry, exit); the body starts live; the
  cursor after the loop is live (the exit block) whatever the body does.

A function starts with two blocks (entry, exit) and a live cursor.
-/
namespace NaijaVerif.CfgCount
open NaijaVerif NaijaVerif.Limits

/-- `CountFunctionBuilder { blocks, ops }`. -/
structure FB where
  blocks : Nat
  ops : Nat
deriving DecidableEq, Repr, Inhabited

/-- `ensure_block`: a dead cursor opens a new block. -/
def ensure (fb : FB) (hasBlock : Bool) : FB :=
  if hasBlock then fb else { fb with blocks := fb.blocks + 1 }

mutual
  /-- `count_stmt(stmt, cursor)`: the builder after the statement and the cursor's `has_block`. -/
  def countStmt : Stmt → FB → Bool → FB × Bool
    | .assign .., fb, cur | .assignExisting .., fb, cur | .assignIndex .., fb, cur
    | .expr .., fb, cur | .fnDef .., fb, cur =>
        (ensure { fb with ops := fb.ops + 1 } cur, true)
    | .ret .., fb, cur | .brk .., fb, cur | .cont .., fb, cur =>
        (ensure { fb with ops := fb.ops + 1 } cur, false)
    | .block b _ _, fb, cur =>
        countBlock b (ensure { fb with ops := fb.ops + 1 } cur) true
    | .ifS _ t e _ _, fb, cur =>
        let fb1 := ensure { fb with ops := fb.ops + 1 } cur
        let fb2 := { fb1 with blocks := fb1.blocks + 2 }
        let (fb3, tc) := countBlock t fb2 true
        let (fb4, ec) := countElse e fb3
        if tc || ec then ({ fb4 with blocks := fb4.blocks + 1 }, true) else (fb4, false)
    | .loop _ b _ _, fb, cur =>
        let fb1 := ensure { fb with ops := fb.ops + 1 } cur
        let fb2 := { fb1 with blocks := fb1.blocks + 3 }
        ((countBlock b fb2 true).1, true)
  /-- The optional else branch: absent = a live cursor on the else entry block. -/
  def countElse : Option Block → FB → FB × Bool
    | none, fb => (fb, true)
    | some b, fb => countBlock b fb true
  /-- `count_block`: the statements in order, threading the cursor. -/
  def countStmts : List Stmt → FB → Bool → FB × Bool
    | [], fb, cur => (fb, cur)
    | s :: ss, fb, cur =>
        let (fb', cur') := countStmt s fb cur
        countStmts ss fb' cur'
  def countBlock : Block → FB → Bool → FB × Bool
    | .mk ss _, fb, cur => countStmts ss fb cur
end

/-- `CountFunctionBuilder::count(body)`: `(blocks, ops)` of one function body. -/
def countBody (body : Block) : Nat × Nat :=
  let fb := (countBlock body { blocks := 2, ops := 0 } true).1
  (fb.blocks, fb.ops)

/-- `CountProgramBuilder`'s three vectors, indexed by function id. -/
structure PB where
  fnBlocks : List Nat
  fnOps : List Nat
  counted : List Bool
deriving DecidableEq, Repr, Inhabited

/-- The gate and the stores at the head of `count_function`: `none` = the function id is outside the
vectors (the code indexes out of bounds and panics; cannot happen for ids the resolver handed out);
`some (pb, false)` = already counted, nothing to do. -/
def enter (f : Nat) (body : Block) (pb : PB) : Option (PB × Bool) :=
  match pb.counted[f]? with
  | none => none
  | some true => some (pb, false)
  | some false =>
      let (b, o) := countBody body
      some ({ fnBlocks := pb.fnBlocks.set f b, fnOps := pb.fnOps.set f o,
              counted := pb.counted.set f true }, true)

mutual
  /-- The discovery walk of `count_function` over one statement: nested function definitions that
  the resolver bound (`fn = some f`) are counted as functions of their own (first definition seen
  wins the `counted` gate); unbound ones (duplicate names, rejected by the resolver) are skipped
  with their bodies; `if` / loop / block bodies are searched. -/
  def discoverStmt : Stmt → PB → Option PB
    | .fnDef _ _ _ body (some f) _ _, pb =>
        match enter f body pb with
        | none => none
        | some (pb', false) => some pb'
        | some (pb', true) => discoverBlock body pb'
    | .fnDef _ _ _ _ none _ _, pb => some pb
    | .ifS _ t e _ _, pb =>
        match discoverBlock t pb with
        | none => none
        | some pb' => discoverElse e pb'
    | .loop _ b _ _, pb => discoverBlock b pb
    | .block b _ _, pb => discoverBlock b pb
    | .assign .., pb | .assignExisting .., pb | .assignIndex .., pb | .ret .., pb | .brk .., pb
    | .cont .., pb | .expr .., pb => some pb
  def discoverElse : Option Block → PB → Option PB
    | none, pb => some pb
    | some b, pb => discoverBlock b pb
  def discoverStmts : List Stmt → PB → Option PB
    | [], pb => some pb
    | s :: ss, pb =>
        match discoverStmt s pb with
        | none => none
        | some pb' => discoverStmts ss pb'
  def discoverBlock : Block → PB → Option PB
    | .mk ss _, pb => discoverStmts ss pb
end

/-- `count_function(root_function)` on fresh vectors of `n` zeros. -/
def countFunctions (root : Block) (n : Nat) : Option PB :=
  let pb0 : PB := { fnBlocks := List.replicate n 0, fnOps := List.replicate n 0,
                    counted := List.replicate n false }
  match enter 0 root pb0 with
  | none => none
  | some (pb, false) => some pb
  | some (pb, true) => discoverBlock root pb

/-- Zip the two count vectors with each function's `locals_len`. -/
def zipFn : List Nat → List Nat → List Nat → List FnCount
  | b :: bs, o :: os, l :: ls => ⟨b, o, l⟩ :: zipFn bs os ls
  | _, _, _ => []

/-- `count_program(facts)` together with the facts `first_exceeded_limit` reads: everything the
preflight looks at.  `none` only if a function annotation is out of range (see `enter`) or there is
no root function. -/
def countProgram (root : Block) (facts : Facts) : Option Counts :=
  match countFunctions root facts.functions.length with
  | none => none
  | some pb =>
      some { functions := facts.functions.length
             locals := facts.locals.length
             scopes := facts.scopes.length
             statements := facts.stmtEffects.length
             totalOps := pb.fnOps.sum
             totalBlocks := pb.fnBlocks.sum
             directUserCalls := facts.userCalls.length
             perFn := zipFn pb.fnBlocks pb.fnOps (facts.functions.map (·.localsLen)) }

end NaijaVerif.CfgCount
