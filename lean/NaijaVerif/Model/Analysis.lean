import NaijaVerif.Model.Facts
import NaijaVerif.Model.Diag
import NaijaVerif.Gen.Builtins
/-
Model of the static analyses that build the optimisation plan (`src/analysis/{cfg,reachability,
summary,liveness,diagnostics,opt,effects}.rs`, `classify_expr` / `emit_analysis_warnings` in
`src/resolver.rs`) as they are after the fixes D-03a … D-03f (`/verif/proposed-fixes/D-03*.diff`,
committed to /repo as `fix:` commits).

The Rust code lowers every function body to a side CFG and runs worklist / bit-set dataflow on it.
The model is *structural*: it walks the annotated AST (statement ids `sid`, bindings) with the
per-statement facts of the resolver (`Facts.stmtEffects`) and reproduces what the CFG passes compute:

* reachability: a `live` flag threaded through statement sequences (`afterStmt`): `return`, `comot`,
  `next` clear it, an `if` joins its branches with `or`, a loop passes it through, a nested function
  body starts live (every function has its own CFG whose entry is reachable);
* liveness: backward, continuation style (`lvStmt`): live-after-normal is the threaded state, the
  `comot`/`next` continuations and the scope locals to kill on those edges sit in `LoopCtx`, `return`
  continues with ∅, loops iterate to the least fixpoint.  One quirk of the CFG is reproduced exactly:
  the locals of a bare `start … end` block are killed at the end of the *basic block* in which the
  block closes, not at the `end` itself (cfg.rs `add_scope_kills(nested_cursor.block, …)` followed
  by more statements in the same block).  The state therefore carries `gen`, the locals made live
  by the statements since the last basic-block boundary: at the `end` of a bare block its locals
  survive iff they are in `gen`;
* summaries: transitive closure over direct callees.  The event budget of summary.rs is not
  modelled: the limit preflight bounds the number of events by `max_summary_events` before the
  summaries run, so `available = false` cannot happen on the path from the resolver;
* plan construction as in opt.rs.

Everything indexed by an id goes through `[i]?`; ids out of range (facts that do not belong to the
AST) are rejected up front by `wf` — the driver answers `malformed` — and never reach these
functions on the path from the real front end.
-/
namespace NaijaVerif.Analysis
open NaijaVerif

/-! ### Finite sets of ids as lists -/

def ins (x : Nat) (s : List Nat) : List Nat := if s.contains x then s else x :: s
def uni (a b : List Nat) : List Nat := a.foldr ins b
def dif (a b : List Nat) : List Nat := a.filter (fun x => !b.contains x)
def inter (a b : List Nat) : List Nat := a.filter (fun x => b.contains x)
def subset (a b : List Nat) : Bool := a.all (fun x => b.contains x)

def insertSorted (x : Nat) : List Nat → List Nat
  | [] => [x]
  | y :: ys => if x < y then x :: y :: ys else if x = y then y :: ys else y :: insertSorted x ys

/-- Ascending, duplicate free (canonical output form). -/
def sortDedup (l : List Nat) : List Nat := l.foldr insertSorted []

/-! ### Effect classes: `classify_expr` with fix D-03a -/

def globalClass (name : Bytes) : Option ExprClass :=
  (Gen.Builtins.globals.find? (fun g => g.1 == name)).map (fun g => g.2.2.2)

/-- `MemberBuiltin::from_name(field)` then `member_builtin_class`; `none` for an unknown method. -/
def memberClass (field : Bytes) : Option ExprClass :=
  match Gen.Builtins.memberAny.find? (fun m => m.1 == field) with
  | some (_, k) => (Gen.Builtins.members.find? (fun m => m.kind == k && m.name == field)).map (·.cls)
  | none => none

inductive LTy where
  | num | str | bool | null
deriving DecidableEq, Repr

def litUnary : UnOp → LTy → Option LTy
  | .not, .bool | .not, .null => some .bool
  | .neg, .num => some .num
  | _, _ => none

def isArith : BinOp → Bool
  | .add | .minus | .times | .divide | .mod => true
  | _ => false

def isCmp : BinOp → Bool
  | .eq | .gt | .lt => true
  | _ => false

def isLogic : BinOp → Bool
  | .and | .or => true
  | _ => false

/-- The operator/operand-type combinations the runtime has a case for (`literal_expr_type`). -/
def litBinary (op : BinOp) (l r : LTy) : Option LTy :=
  if isArith op && l == .num && r == .num then some .num
  else if op == .add && ((l == .str && (r == .str || r == .num)) || (l == .num && r == .str)) then some .str
  else if isCmp op && (l == r || l == .null || r == .null) then some .bool
  else if isLogic op && (l == .bool || l == .null) && (r == .bool || r == .null) then some .bool
  else none

/-- Type of an expression built from literals and operators only (`Resolver::literal_expr_type`). -/
def literalTy : Expr → Option LTy
  | .num _ _ => some .num
  | .str _ _ => some .str
  | .bool _ _ => some .bool
  | .null _ => some .null
  | .unary op e _ => (literalTy e).bind (litUnary op)
  | .binary op l r _ =>
      match literalTy l, literalTy r with
      | some a, some b => litBinary op a b
      | _, _ => none
  | _ => none

def commandName : Bytes := b!"command"

/-- `variable_read_class` (fix D-03e): a read of a variable of an enclosing function may come
before that variable's `make` (hoisted call) and is then an `Undefined variable` error. -/
def readClass (capt : Nat → Bool) : Option Nat → ExprClass
  | some id => if capt id then .pureMayTrap else .pureNoTrap
  | none => .pureNoTrap

def segsClass (capt : Nat → Bool) : List Seg → ExprClass
  | [] => .pureNoTrap
  | .lit _ :: ss => segsClass capt ss
  | .var _ b :: ss => (readClass capt b).join (segsClass capt ss)

mutual
  /-- `Resolver::classify_expr` (fixed; `capt id` = local `id` belongs to an enclosing function):
  a user call contributes only its arguments here; the callee's class is joined per statement
  through the summaries (`effClass`). -/
  def classify (capt : Nat → Bool) : Expr → ExprClass
    | .num _ _ | .bool _ _ | .null _ => .pureNoTrap
    | .var _ b _ => readClass capt b
    | .str (.static _) _ => .pureNoTrap
    | .str (.interp segs) _ => segsClass capt segs
    | .array es _ => classifyList capt es
    | .index a i _ _ => ((classify capt a).join (classify capt i)).join .pureMayTrap
    | .binary op l r s =>
        let c := (classify capt l).join (classify capt r)
        if op == .divide || op == .mod || (literalTy (.binary op l r s)).isNone then c.join .pureMayTrap else c
    | .unary op x s =>
        let c := classify capt x
        if (literalTy (.unary op x s)).isNone then c.join .pureMayTrap else c
    | .member o _ _ _ => (classify capt o).join .pureMayTrap
    | .call (.var name _ _) args fn _ =>
        let c := classifyList capt args
        match globalClass name with
        | some gc =>
            let c := c.join gc
            if name == commandName && (args.head?.bind literalTy) != some .str then c.join .pureMayTrap else c
        | none => if fn.isSome then c else c.join .impure
    | .call (.member o field _ _) args _ _ =>
        let c := ((classifyList capt args).join (classify capt o)).join .pureMayTrap
        match memberClass field with
        | some mc => c.join mc
        | none => c.join .impure
    | .call _ args _ _ => (classifyList capt args).join .impure
  def classifyList (capt : Nat → Bool) : List Expr → ExprClass
    | [] => .pureNoTrap
    | e :: es => (classify capt e).join (classifyList capt es)
end

/-- `Resolver::condition_class` (fix D-03f): evaluating the condition of an `if` / `jasi` and then
the run-time test that its value is a boolean or null (`Type mismatch` otherwise); only a type that
follows from the condition's own literals rules the failure out. -/
def condClass (capt : Nat → Bool) (c : Expr) : ExprClass :=
  match literalTy c with
  | some .bool | some .null => classify capt c
  | _ => (classify capt c).join .pureMayTrap

/-- The class `check_stmt` records for a statement (before callee summaries are joined). -/
def stmtClass (capt : Nat → Bool) : Stmt → ExprClass
  | .assign _ _ e _ _ _ | .assignExisting _ _ e _ _ _ | .expr e _ _ => classify capt e
  | .assignIndex _ _ _ _ | .fnDef _ _ _ _ _ _ _ => .impure
  | .ifS c _ _ _ _ | .loop c _ _ _ => condClass capt c
  | .ret (some e) _ _ => classify capt e
  | .ret none _ _ | .brk _ _ | .cont _ _ | .block _ _ _ => .pureNoTrap

mutual
  /-- (statement id, class) of every statement; `cur` = the function whose body is being walked,
  `lo` = owner of a local. -/
  def clsStmt (lo : Nat → Option Nat) (cur : Nat) : Stmt → List (Nat × ExprClass)
    | .fnDef n ns ps (.mk body bs) f sid sp =>
        (match sid with | some i => [(i, stmtClass (fun l => lo l != some cur) (.fnDef n ns ps (.mk body bs) f sid sp))] | none => []) ++
        clsStmts lo (match f with | some g => g | none => cur) body
    | .ifS c (.mk t ts) none sid sp =>
        (match sid with | some i => [(i, stmtClass (fun l => lo l != some cur) (.ifS c (.mk t ts) none sid sp))] | none => []) ++
        clsStmts lo cur t
    | .ifS c (.mk t ts) (some (.mk e es)) sid sp =>
        (match sid with | some i => [(i, stmtClass (fun l => lo l != some cur) (.ifS c (.mk t ts) (some (.mk e es)) sid sp))] | none => []) ++
        clsStmts lo cur t ++ clsStmts lo cur e
    | .loop c (.mk b bs) sid sp =>
        (match sid with | some i => [(i, stmtClass (fun l => lo l != some cur) (.loop c (.mk b bs) sid sp))] | none => []) ++
        clsStmts lo cur b
    | .block (.mk b bs) sid sp =>
        (match sid with | some i => [(i, ExprClass.pureNoTrap)] | none => []) ++ clsStmts lo cur b
    | s => match s.sid with | some i => [(i, stmtClass (fun l => lo l != some cur) s)] | none => []
  def clsStmts (lo : Nat → Option Nat) (cur : Nat) : List Stmt → List (Nat × ExprClass)
    | [] => []
    | s :: ss => clsStmt lo cur s ++ clsStmts lo cur ss
end

/-! ### Statement table -/

inductive Kind where
  | assign | assignExisting | fnDef | other
deriving DecidableEq, Repr

/-- What the passes need to know about one statement besides the resolver's facts. -/
structure Row where
  sid : Nat
  kind : Kind
  span : Span
  /-- `var_span` of an assignment / `name_span` of a function definition -/
  auxSpan : Span
  /-- reachable inside its own function (reachability.rs `reachable_statement_mask`) -/
  live : Bool
  /-- the enclosing statement (or, for a function body's statements, the definition) is reachable -/
  parentLive : Bool
deriving Repr

def stmtKind : Stmt → Kind
  | .assign .. => .assign
  | .assignExisting .. => .assignExisting
  | .fnDef .. => .fnDef
  | _ => .other

def stmtAux : Stmt → Span
  | .assign _ vs _ _ _ _ | .assignExisting _ vs _ _ _ _ => vs
  | .fnDef _ ns _ _ _ _ _ => ns
  | s => s.span

/-! ### Reachability (cfg.rs lowering + reachability.rs, structurally) -/

mutual
  /-- Is the point after `s` reachable when the point before it is (`live`)? -/
  def afterStmt (live : Bool) : Stmt → Bool
    | .ret _ _ _ | .brk _ _ | .cont _ _ => false
    | .block (.mk b _) _ _ => afterStmts live b
    | .ifS _ (.mk t _) none _ _ => afterStmts live t || live
    | .ifS _ (.mk t _) (some (.mk e _)) _ _ => afterStmts live t || afterStmts live e
    | _ => live
  def afterStmts (live : Bool) : List Stmt → Bool
    | [] => live
    | s :: ss => afterStmts (afterStmt live s) ss
end

def mkRow (pl live : Bool) (s : Stmt) : List Row :=
  match s.sid with
  | some i => [{ sid := i, kind := stmtKind s, span := s.span, auxSpan := stmtAux s,
                 live := live, parentLive := pl }]
  | none => []

mutual
  /-- All statements of the program (nested function bodies included) with their reachability.
  `pl`: reachability of the parent statement; a function body starts live, its statements' parent
  is the definition statement. -/
  def rowsStmt (pl live : Bool) : Stmt → List Row
    | .fnDef n ns ps (.mk body bs) f sid sp =>
        mkRow pl live (.fnDef n ns ps (.mk body bs) f sid sp) ++ rowsStmts live true body
    | .ifS c (.mk t ts) none sid sp =>
        mkRow pl live (.ifS c (.mk t ts) none sid sp) ++ rowsStmts live live t
    | .ifS c (.mk t ts) (some (.mk e es)) sid sp =>
        mkRow pl live (.ifS c (.mk t ts) (some (.mk e es)) sid sp) ++ rowsStmts live live t ++ rowsStmts live live e
    | .loop c (.mk b bs) sid sp => mkRow pl live (.loop c (.mk b bs) sid sp) ++ rowsStmts live live b
    | .block (.mk b bs) sid sp => mkRow pl live (.block (.mk b bs) sid sp) ++ rowsStmts live live b
    | .assign v vs e b sid sp => mkRow pl live (.assign v vs e b sid sp)
    | .assignExisting v vs e b sid sp => mkRow pl live (.assignExisting v vs e b sid sp)
    | .assignIndex t e sid sp => mkRow pl live (.assignIndex t e sid sp)
    | .ret e sid sp => mkRow pl live (.ret e sid sp)
    | .brk sid sp => mkRow pl live (.brk sid sp)
    | .cont sid sp => mkRow pl live (.cont sid sp)
    | .expr e sid sp => mkRow pl live (.expr e sid sp)
  def rowsStmts (pl live : Bool) : List Stmt → List Row
    | [] => []
    | s :: ss => rowsStmt pl live s ++ rowsStmts pl (afterStmt live s) ss
end

def rows (root : Block) : List Row := rowsStmts true true root.stmts

/-- Statement ids the analysis calls unreachable. -/
def unreachable (root : Block) : List Nat :=
  ((rows root).filter (fun r => !r.live)).map (·.sid)

/-! ### The analysis context -/

structure Ctx where
  facts : Facts
  rows : List Row
  /-- (statement id, class recorded by `check_stmt`) -/
  cls : List (Nat × ExprClass)

/-- Class of a statement; an id that is not in the table counts as `Impure`. -/
def Ctx.clsOf (c : Ctx) (sid : Nat) : ExprClass :=
  match c.cls.find? (fun p => p.1 == sid) with
  | some p => p.2
  | none => .impure

def Ctx.row? (c : Ctx) (sid : Nat) : Option Row := c.rows.find? (fun r => r.sid == sid)
def Ctx.live (c : Ctx) (sid : Nat) : Bool := match c.row? sid with | some r => r.live | none => false
def Ctx.eff? (c : Ctx) (sid : Nat) : Option StmtEffect := c.facts.stmtEffects[sid]?
def Ctx.reads (c : Ctx) (sid : Nat) : List Nat := match c.eff? sid with | some e => e.reads | none => []
def Ctx.writes (c : Ctx) (sid : Nat) : List Nat := match c.eff? sid with | some e => e.writes | none => []
def Ctx.callees (c : Ctx) (sid : Nat) : List Nat := match c.eff? sid with | some e => e.directCallees | none => []
def Ctx.fnOf (c : Ctx) (sid : Nat) : Nat := match c.eff? sid with | some e => e.function | none => 0
def Ctx.owner (c : Ctx) (l : Nat) : Option Nat := (c.facts.locals[l]?).map (·.owner)
def Ctx.nFns (c : Ctx) : Nat := c.facts.functions.length

/-- Facts and AST belong together: every statement has an id, ids are distinct and index
`stmtEffects`, every id mentioned in the facts is in range. -/
def wf (root : Block) (facts : Facts) : Bool :=
  let rs := rows root
  let nS := facts.stmtEffects.length
  let nF := facts.functions.length
  let nL := facts.locals.length
  let sids := rs.map (·.sid)
  sids.length == nS && (sortDedup sids).length == nS && sids.all (· < nS) &&
  facts.functionDirects.length == nF && facts.scopeLocals.length == facts.scopes.length && 0 < nF &&
  facts.stmtEffects.all (fun e =>
    e.function < nF && e.scope < facts.scopes.length && e.reads.all (· < nL) && e.writes.all (· < nL) &&
    e.directCallees.all (· < nF)) &&
  facts.functionDirects.all (fun d =>
    d.directCallees.all (· < nF) && d.captureReads.all (· < nL) && d.captureWrites.all (· < nL)) &&
  facts.locals.all (fun l => l.owner < nF && l.declaringScope < facts.scopes.length &&
    (match l.declStmt with | some s => s < nS | none => true)) &&
  facts.functions.all (fun f => match f.defStmt with | some s => s < nS | none => true) &&
  facts.scopeLocals.all (fun ls => ls.all (· < nL))

/-! ### Summaries (summary.rs; fix D-03c) -/

def Ctx.direct (c : Ctx) (f : Nat) : FunctionDirect :=
  match c.facts.functionDirects[f]? with
  | some d => d
  | none => { directCallees := [], captureReads := [], captureWrites := [] }

def iter {α : Type} (f : α → α) : Nat → α → α
  | 0, x => x
  | n + 1, x => iter f n (f x)

/-- Functions reachable from `f` through direct calls (reflexive). -/
def Ctx.calleesStar (c : Ctx) (f : Nat) : List Nat :=
  iter (fun s => s.foldl (fun acc g => uni (c.direct g).directCallees acc) s) c.nFns [f]

def Ctx.transReads (c : Ctx) (f : Nat) : List Nat :=
  (c.calleesStar f).foldl (fun acc g => uni (c.direct g).captureReads acc) []

def Ctx.transWrites (c : Ctx) (f : Nat) : List Nat :=
  (c.calleesStar f).foldl (fun acc g => uni (c.direct g).captureWrites acc) []

/-- `compute_body_classes`: join of the statement classes of the body; `Impure` when the body
stores into a captured variable (D-03c). -/
def Ctx.bodyClass (c : Ctx) (f : Nat) : ExprClass :=
  let j := c.rows.foldl (fun acc r => if c.fnOf r.sid == f then acc.join (c.clsOf r.sid) else acc) ExprClass.pureNoTrap
  if (c.direct f).captureWrites.isEmpty then j else .impure

def Ctx.transClass (c : Ctx) (f : Nat) : ExprClass :=
  (c.calleesStar f).foldl (fun acc g => acc.join (c.bodyClass g)) .pureNoTrap

/-- opt.rs `stmt_effective_class`. -/
def Ctx.effClass (c : Ctx) (sid : Nat) : ExprClass :=
  (c.callees sid).foldl (fun acc g => acc.join (c.transClass g)) (c.clsOf sid)

/-! ### Call-graph reachability (diagnostics.rs `compute_function_reachability`) -/

def Ctx.bodyReachStep (c : Ctx) (s : List Nat) : List Nat :=
  c.rows.foldl (fun acc r => if r.live && s.contains (c.fnOf r.sid) then uni (c.callees r.sid) acc else acc) s

def Ctx.bodyReachable (c : Ctx) : List Nat := iter c.bodyReachStep c.nFns [0]

def Ctx.defReachable (c : Ctx) (g : Nat) : Bool :=
  if g == 0 then true else
  match (c.facts.functions[g]?).bind (·.defStmt) with
  | some s => c.live s && c.bodyReachable.contains (c.fnOf s)
  | none => false

/-- The body-reachable set is closed under the calls of reachable statements of body-reachable
functions (the fixpoint iteration ran long enough).  Part of `wf`; hypothesis of T3. -/
def Ctx.brClosed (c : Ctx) : Bool :=
  let br := c.bodyReachable
  c.rows.all fun r => !(r.live && br.contains (c.fnOf r.sid)) || (c.callees r.sid).all (fun g => br.contains g)

/-- `unused_functions`: (definition statement, function id). -/
def Ctx.unusedFns (c : Ctx) : List (Nat × Nat) :=
  let br := c.bodyReachable
  (List.range c.nFns).filterMap fun g =>
    if g == 0 then none else
    match (c.facts.functions[g]?).bind (·.defStmt) with
    | some s => if c.live s && c.defReachable g && !br.contains g then some (s, g) else none
    | none => none

/-! ### Liveness (liveness.rs over the CFG of cfg.rs; fixes D-03b, D-03d) -/

/-- Own locals of the scope of a statement list (`scope_of_block` → `scope_locals`); the scope is
read off the first statement's facts, an empty block declares nothing. -/
def Ctx.scopeLocalsOf (c : Ctx) (ss : List Stmt) : List Nat :=
  match ss with
  | [] => []
  | s :: _ =>
      match s.sid.bind c.eff? with
      | some e => match c.facts.scopeLocals[e.scope]? with | some ls => ls | none => []
      | none => []

/-- Locals of function `f` a statement's callees may read (transitive capture reads). -/
def Ctx.calleeReads (c : Ctx) (f sid : Nat) : List Nat :=
  (c.callees sid).foldl (fun acc g => uni ((c.transReads g).filter (fun l => c.owner l == some f)) acc) []

/-- Backward state: `live` = live set, `gen` = locals made live since the last basic-block end. -/
structure LS where
  live : List Nat
  gen : List Nat
deriving Repr

/-- `apply_op_transfer` (fixed: only the statement's own writes kill). -/
def Ctx.transfer (c : Ctx) (f sid : Nat) (s : LS) : LS :=
  let r := uni (c.reads sid) (c.calleeReads f sid)
  { live := uni r (dif s.live (c.writes sid)), gen := uni r (dif s.gen (c.writes sid)) }

structure LoopCtx where
  /-- live-in of the `comot` target / of the `next` target; `none` outside a loop -/
  brk : Option (List Nat)
  cont : Option (List Nat)
  /-- own locals of every scope from the innermost one through the loop body (`kill_scopes_through`) -/
  kills : List Nat

def boundary (l : List Nat) : LS := { live := l, gen := [] }

/-- Least fixpoint by iteration from ∅ (at most `fuel` rounds; the sets only grow). -/
def lfp (step : List Nat → List Nat) : Nat → List Nat → List Nat
  | 0, x => x
  | n + 1, x => let y := step x; if subset y x then x else lfp step n (uni y x)

mutual
  /-- State before `s` from the state after it, and the assignments whose value is dead
  (`unused_assignments`, reachable statements only).  `nl` bounds the fixpoint rounds. -/
  def lvStmt (c : Ctx) (f nl : Nat) (lc : LoopCtx) : Stmt → LS → LS × List Nat
    | .ret _ (some sid) _, _ => (c.transfer f sid (boundary []), [])
    | .brk (some sid) _, _ =>
        (c.transfer f sid (boundary (match lc.brk with | some b => dif b lc.kills | none => [])), [])
    | .cont (some sid) _, _ =>
        (c.transfer f sid (boundary (match lc.cont with | some b => dif b lc.kills | none => [])), [])
    | .block (.mk b _) (some sid) _, st =>
        let sl := c.scopeLocalsOf b
        -- the block's locals die at the end of the basic block: they survive here iff generated since
        let st' : LS := { live := uni (inter st.gen sl) (dif st.live sl), gen := st.gen }
        let (st1, w) := lvStmts c f nl { lc with kills := uni sl lc.kills } b st'
        (c.transfer f sid st1, w)
    | .ifS _ (.mk t _) els (some sid) _, st =>
        let tl := c.scopeLocalsOf t
        let (tIn, wt) := lvStmts c f nl { lc with kills := uni tl lc.kills } t (boundary (dif st.live tl))
        let (eIn, we) :=
          match els with
          | some (.mk e _) =>
              let el := c.scopeLocalsOf e
              lvStmts c f nl { lc with kills := uni el lc.kills } e (boundary (dif st.live el))
          | none => (boundary st.live, [])
        (c.transfer f sid (boundary (uni tIn.live eIn.live)), wt ++ we)
    | .loop _ (.mk b _) (some sid) _, st =>
        let bl := c.scopeLocalsOf b
        let a := st.live
        let head (x : List Nat) : List Nat :=
          let (bIn, _) := lvStmts c f nl { brk := some a, cont := some x, kills := bl } b (boundary (dif x bl))
          (c.transfer f sid (boundary (uni bIn.live a))).live
        let x := lfp head (nl + 1) []
        let (_, w) := lvStmts c f nl { brk := some a, cont := some x, kills := bl } b (boundary (dif x bl))
        (boundary x, w)
    | .fnDef _ _ _ _ _ (some sid) _, st => (c.transfer f sid st, [])
    | .assign _ _ _ _ (some sid) _, st =>
        let w := match (c.writes sid).head? with
          | some l => if c.live sid && !st.live.contains l then [sid] else []
          | none => []
        (c.transfer f sid st, w)
    | .assignExisting _ _ _ _ (some sid) _, st =>
        let w := match (c.writes sid).head? with
          | some l => if c.live sid && !st.live.contains l then [sid] else []
          | none => []
        (c.transfer f sid st, w)
    | .assignIndex _ _ (some sid) _, st => (c.transfer f sid st, [])
    | .expr _ (some sid) _, st => (c.transfer f sid st, [])
    | _, st => (st, [])
  def lvStmts (c : Ctx) (f nl : Nat) (lc : LoopCtx) : List Stmt → LS → LS × List Nat
    | [], st => (st, [])
    | s :: ss, st =>
        let (st1, w1) := lvStmts c f nl lc ss st
        let (st2, w2) := lvStmt c f nl lc s st1
        (st2, w2 ++ w1)
end

/-- Dead assignments of one function body. -/
def Ctx.deadStoresIn (c : Ctx) (f : Nat) (body : List Stmt) : List Nat :=
  (lvStmts c f c.facts.locals.length { brk := none, cont := none, kills := [] } body (boundary [])).2

mutual
  /-- Every function body of the program with its function id (`function_by_body`). -/
  def bodiesStmt : Stmt → List (Nat × List Stmt)
    | .fnDef _ _ _ (.mk body _) (some f) _ _ => (f, body) :: bodiesStmts body
    | .fnDef _ _ _ (.mk body _) none _ _ => bodiesStmts body
    | .ifS _ (.mk t _) none _ _ => bodiesStmts t
    | .ifS _ (.mk t _) (some (.mk e _)) _ _ => bodiesStmts t ++ bodiesStmts e
    | .loop _ (.mk b _) _ _ => bodiesStmts b
    | .block (.mk b _) _ _ => bodiesStmts b
    | _ => []
  def bodiesStmts : List Stmt → List (Nat × List Stmt)
    | [] => []
    | s :: ss => bodiesStmt s ++ bodiesStmts ss
end

/-- `unused_assignments` for the whole program. -/
def Ctx.unusedAsg (c : Ctx) (root : Block) : List Nat :=
  ((0, root.stmts) :: bodiesStmts root.stmts).foldl (fun acc fb => acc ++ c.deadStoresIn fb.1 fb.2) []

/-! ### Unused variables (diagnostics.rs) -/

def Ctx.usedLocals (c : Ctx) : List Nat :=
  let br := c.bodyReachable
  c.rows.foldl (fun acc r =>
    if r.live && br.contains (c.fnOf r.sid) then
      (c.callees r.sid).foldl (fun acc g => uni (c.transReads g) acc) (uni (c.reads r.sid) acc)
    else acc) []

/-- (declaration statement, local id). -/
def Ctx.unusedVars (c : Ctx) : List (Nat × Nat) :=
  let used := c.usedLocals
  let br := c.bodyReachable
  (List.range c.facts.locals.length).filterMap fun l =>
    match c.facts.locals[l]? with
    | some li =>
        if li.kind == .variable && !used.contains l && br.contains li.owner then
          match li.declStmt with
          | some s => if c.live s then some (s, l) else none
          | none => none
        else none
    | none => none

/-! ### Plan (opt.rs) -/

/-- `compute_max_local_reference_stmt` for one local. -/
def Ctx.maxRef (c : Ctx) (l : Nat) : Option Nat :=
  c.rows.foldl (fun acc r =>
    if !r.live then acc else
    let f := c.fnOf r.sid
    let viaCallee := (c.callees r.sid).any fun g =>
      c.owner l == some f && ((c.transReads g).contains l || (c.transWrites g).contains l)
    if (c.reads r.sid).contains l || (c.writes r.sid).contains l || viaCallee then
      match acc with
      | some m => some (max m r.sid)
      | none => some r.sid
    else acc) none

def Ctx.declRemovable (c : Ctx) (l sid : Nat) : Bool :=
  match c.maxRef l with
  | none => true
  | some m => m ≤ sid

structure Plan where
  stmts : List Nat
  fns : List Nat
deriving Repr, DecidableEq

def Plan.empty : Plan := ⟨[], []⟩

/-- `p` removes nothing that `q` keeps. -/
def Plan.sub (p q : Plan) : Bool := subset p.stmts q.stmts && subset p.fns q.fns

inductive WKind where
  | unreachable | unusedAsg | unusedVar | unusedFn
deriving DecidableEq, Repr

def WKind.ord : WKind → Nat
  | .unreachable => 0 | .unusedAsg => 1 | .unusedVar => 2 | .unusedFn => 3

def WKind.name : WKind → String
  | .unreachable => "unreachable" | .unusedAsg => "unusedAsg" | .unusedVar => "unusedVar" | .unusedFn => "unusedFn"

def WKind.diag : WKind → DiagKind
  | .unreachable => .unreachableCode | .unusedAsg => .unusedAssignment | .unusedVar => .unusedVariable
  | .unusedFn => .unusedFunction

structure Warn where
  sid : Nat
  kind : WKind
  span : Span
deriving Repr

def insertWarn (w : Warn) : List Warn → List Warn
  | [] => [w]
  | x :: xs =>
      if w.sid < x.sid || (w.sid == x.sid && w.kind.ord < x.kind.ord) then w :: x :: xs
      else x :: insertWarn w xs

structure Result where
  unreach : List Nat
  unusedAsg : List Nat
  unusedVar : List (Nat × Nat)
  unusedFn : List (Nat × Nat)
  plan : Plan
  /-- in emission order: by statement id, then unreachable < assignment < variable < function -/
  warns : List Warn
  cls : List ExprClass
deriving Repr

def ownerFn (facts : Facts) (l : Nat) : Option Nat := (facts.locals[l]?).map (·.owner)

def mkCtx (root : Block) (facts : Facts) : Ctx :=
  { facts := facts, rows := rows root, cls := clsStmts (ownerFn facts) 0 root.stmts }

/-- Statements the unused-assignment verdicts make removable. -/
def Ctx.removableAsg (c : Ctx) (ua : List Nat) : List Nat :=
  ua.filter fun s =>
    c.effClass s == .pureNoTrap &&
    (match c.row? s with
     | some r =>
        if r.kind == .assign then
          (match (c.writes s).head? with | some l => c.declRemovable l s | none => false)
        else true
     | none => false)

/-- Declarations of never-read variables that are removable. -/
def Ctx.removableDecls (c : Ctx) (uv : List (Nat × Nat)) : List Nat :=
  (uv.filter fun (s, l) => c.effClass s == .pureNoTrap && c.declRemovable l s).map (·.1)

/-- `emit_analysis_warnings` below the limit preflight. -/
def analyse (root : Block) (facts : Facts) : Result :=
  let c := mkCtx root facts
  let unreach := unreachable root
  let ua := c.unusedAsg root
  let uv := c.unusedVars
  let uf := c.unusedFns
  let spanOf (s : Nat) (aux : Bool) : Span :=
    match c.row? s with
    | some r => if aux then r.auxSpan else r.span
    | none => ⟨0, 0⟩
  let w1 := (c.rows.filter (fun r => !r.live && r.parentLive)).map fun r => ({ sid := r.sid, kind := .unreachable, span := r.span } : Warn)
  let w2 := ua.map fun s => ({ sid := s, kind := .unusedAsg, span := spanOf s false } : Warn)
  let w3 := uv.map fun (s, _) => ({ sid := s, kind := .unusedVar, span := spanOf s true } : Warn)
  let w4 := uf.map fun (s, _) => ({ sid := s, kind := .unusedFn, span := spanOf s true } : Warn)
  { unreach := unreach
    unusedAsg := ua
    unusedVar := uv
    unusedFn := uf
    plan := { stmts := uni unreach (uni (c.removableAsg ua) (c.removableDecls uv)), fns := uf.map (·.2) }
    warns := (w1 ++ w2 ++ w3 ++ w4).foldr insertWarn []
    cls := (List.range facts.stmtEffects.length).map c.clsOf }

/-- The plan of the model (`build_optimization_plan`). -/
def planModel (root : Block) (facts : Facts) : Plan := (analyse root facts).plan

end NaijaVerif.Analysis
