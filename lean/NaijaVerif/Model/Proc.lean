/-
Model of the process-command path of naijascript:

* `src/process.rs`      — `ProcessCaps`, `HostPolicy`, the `ProcessCommand` builder (`new`, `push_arg`,
                          `set_cwd`, `set_env`, `set_stdin_*`, `set_stdout_policy`, `set_stderr_policy`,
                          `set_timeout_ms`, `clone_into`), `validate` with its helper routines
                          `validate_named_text` / `validate_count`, and `ProcessSpec`;
* `src/runtime.rs`      — `eval_process_command_call` (`run`: policy gate → validate → spawn) and
                          `eval_timeout_ms` (script number → `u32`);
* `src/sys/process_common.rs` — `run_host_process` up to `command.spawn()`: the `std::process::Command`
                          that is built from the spec, as data.

Strings are byte lists.  All `u32` quantities are `Nat`s; the places where the code converts or adds
with overflow checks (`u32::try_from(len)`, `checked_add`) are modelled by explicit comparisons with
`2^32`.  Core-only imports (this file is linked into the `nvdriver` executable).
-/
import NaijaVerif.Model.Bytes

namespace NaijaVerif.Proc

/-- `2^32`: first value that does not fit a `u32`. -/
def u32Lim : Nat := 4294967296

/-- `ProcessCaps` (field order as in the struct). -/
structure Caps where
  maxProgram     : Nat
  maxCwd         : Nat
  maxArgs        : Nat
  maxArg         : Nat
  maxTotalArg    : Nat
  maxEnvPairs    : Nat
  maxEnvKey      : Nat
  maxEnvValue    : Nat
  maxTotalEnv    : Nat
  maxStdin       : Nat
  maxCapture     : Nat
  defaultTimeout : Nat
  maxTimeout     : Nat
  waitPoll       : Nat
deriving Repr, DecidableEq

/-- The fields of the Rust struct are `u32`. -/
def Caps.IsU32 (c : Caps) : Prop :=
  c.maxProgram < u32Lim ∧ c.maxCwd < u32Lim ∧ c.maxArgs < u32Lim ∧ c.maxArg < u32Lim ∧
  c.maxTotalArg < u32Lim ∧ c.maxEnvPairs < u32Lim ∧ c.maxEnvKey < u32Lim ∧ c.maxEnvValue < u32Lim ∧
  c.maxTotalEnv < u32Lim ∧ c.maxStdin < u32Lim ∧ c.maxCapture < u32Lim ∧ c.defaultTimeout < u32Lim ∧
  c.maxTimeout < u32Lim ∧ c.waitPoll < u32Lim

instance (c : Caps) : Decidable c.IsU32 := by unfold Caps.IsU32; exact inferInstance

/-- `StdinPolicy`. -/
inductive StdinPol where
  | inherit
  | null
  | text (t : Bytes)
deriving Repr, DecidableEq

/-- `OutputPolicy`. -/
inductive OutPol where
  | inherit
  | null
  | capture
deriving Repr, DecidableEq

/-- `ProcessCommand`. `env` is the `Vec<EnvPair>` in vector order. -/
structure Cmd where
  program : Bytes
  args    : List Bytes
  cwd     : Option Bytes
  env     : List (Bytes × Bytes)
  stdin   : StdinPol
  stdout  : OutPol
  stderr  : OutPol
  timeout : Option Nat
deriving Repr, DecidableEq

/-- `ProcessCommand::new`. -/
def Cmd.new (program : Bytes) : Cmd :=
  { program := program, args := [], cwd := none, env := [], stdin := .inherit, stdout := .inherit,
    stderr := .inherit, timeout := none }

/-- Replace the value of the first pair whose key is `k`; `none` when there is no such pair. -/
def replaceFirst (k v : Bytes) : List (Bytes × Bytes) → Option (List (Bytes × Bytes))
  | [] => none
  | (k', v') :: rest =>
      if k' = k then some ((k', v) :: rest)
      else match replaceFirst k v rest with
        | some r => some ((k', v') :: r)
        | none => none

/-- `ProcessCommand::set_env`: `self.env.iter_mut().rev().find(|p| p.key == key)` — the *last* pair
with that key gets the new value (its position is kept); otherwise the pair is pushed at the end. -/
def setEnv (env : List (Bytes × Bytes)) (k v : Bytes) : List (Bytes × Bytes) :=
  match replaceFirst k v env.reverse with
  | some r => r.reverse
  | none => env ++ [(k, v)]

/-- The builder calls a script (or an embedder) can make. `timeout` carries the `u32` that
`set_timeout_ms` receives; `clone` is `clone_into` (a deep copy into another arena). -/
inductive Op where
  | arg (v : Bytes)
  | cwd (v : Bytes)
  | env (k v : Bytes)
  | stdinText (v : Bytes)
  | stdinInherit
  | stdinNull
  | stdoutCapture
  | stdoutInherit
  | stdoutNull
  | stderrCapture
  | stderrInherit
  | stderrNull
  | timeout (ms : Nat)
  | clone
deriving Repr, DecidableEq

def step (c : Cmd) : Op → Cmd
  | .arg v => { c with args := c.args ++ [v] }
  | .cwd v => { c with cwd := some v }
  | .env k v => { c with env := setEnv c.env k v }
  | .stdinText v => { c with stdin := .text v }
  | .stdinInherit => { c with stdin := .inherit }
  | .stdinNull => { c with stdin := .null }
  | .stdoutCapture => { c with stdout := .capture }
  | .stdoutInherit => { c with stdout := .inherit }
  | .stdoutNull => { c with stdout := .null }
  | .stderrCapture => { c with stderr := .capture }
  | .stderrInherit => { c with stderr := .inherit }
  | .stderrNull => { c with stderr := .null }
  | .timeout ms => { c with timeout := some ms }
  | .clone => c

/-- The command a call sequence builds. -/
def build (program : Bytes) (ops : List Op) : Cmd := ops.foldl step (Cmd.new program)

/-- `eval_timeout_ms` on a positive whole number `n` (the other numbers are refused there with
"Timeout must be positive whole number"): `number as u32` saturates. -/
def timeoutOfWhole (n : Nat) : Option Nat :=
  if n = 0 then none else some (if n < u32Lim then n else u32Lim - 1)

/-! ## Validation -/

/-- The `&'static str` carried by `ProcessError::SpecInvalid`. -/
inductive Err where
  | program        -- "program"
  | argCount       -- "argument count"
  | envCount       -- "environment pair count"
  | argument       -- "argument"
  | argBytes       -- "Argument bytes pass configured limit"
  | cwd            -- "cwd"
  | envKey         -- "environment key"
  | envValue       -- "environment value"
  | envBytes       -- "Environment bytes pass configured limit"
  | stdinText      -- "stdin text"
  | timeoutZero    -- "Timeout must be positive"
  | timeoutLimit   -- "Timeout pass configured limit"
deriving Repr, DecidableEq

def Err.name : Err → String
  | .program => "program"
  | .argCount => "argument count"
  | .envCount => "environment pair count"
  | .argument => "argument"
  | .argBytes => "Argument bytes pass configured limit"
  | .cwd => "cwd"
  | .envKey => "environment key"
  | .envValue => "environment value"
  | .envBytes => "Environment bytes pass configured limit"
  | .stdinText => "stdin text"
  | .timeoutZero => "Timeout must be positive"
  | .timeoutLimit => "Timeout pass configured limit"

/-- `?` on a `Result`. -/
def andThen {α β : Type} (x : Except Err α) (f : α → Except Err β) : Except Err β :=
  match x with
  | .error e => .error e
  | .ok a => f a

def check (p : Prop) [Decidable p] (e : Err) : Except Err Unit :=
  if p then .ok () else .error e

/-- `validate_named_text`: empty (unless allowed), NUL, `=` (if forbidden), length as `u32`, cap —
in this order, all reported under the same name; returns the length. -/
def validateText (e : Err) (v : Bytes) (max : Nat) (allowEmpty forbidEq : Bool) : Except Err Nat :=
  if allowEmpty = false ∧ v = [] then .error e
  else if 0 ∈ v then .error e
  else if forbidEq = true ∧ 61 ∈ v then .error e
  else if u32Lim ≤ v.length then .error e
  else if max < v.length then .error e
  else .ok v.length

/-- `validate_count`. -/
def validateCount (len max : Nat) (e : Err) : Except Err Unit :=
  if u32Lim ≤ len then .error e
  else if max < len then .error e
  else .ok ()

/-- The argument loop: every argument is validated in order and its length added with
`checked_add`; returns the total. -/
def argsLoop (caps : Caps) : List Bytes → Nat → Except Err Nat
  | [], t => .ok t
  | a :: rest, t =>
      andThen (validateText .argument a caps.maxArg true false) fun len =>
      if u32Lim ≤ t + len then .error .argBytes else argsLoop caps rest (t + len)

/-- The environment loop: key, then value, then `total.checked_add(key).and_then(checked_add(value))`
(overflow of either addition is the same error, and `t + k` overflows only if `t + k + v` does). -/
def envLoop (caps : Caps) : List (Bytes × Bytes) → Nat → Except Err Nat
  | [], t => .ok t
  | (k, v) :: rest, t =>
      andThen (validateText .envKey k caps.maxEnvKey false true) fun kl =>
      andThen (validateText .envValue v caps.maxEnvValue true false) fun vl =>
      if u32Lim ≤ t + kl + vl then .error .envBytes else envLoop caps rest (t + kl + vl)

/-- `ProcessSpec`. -/
structure Spec where
  program : Bytes
  args    : List Bytes
  cwd     : Option Bytes
  env     : List (Bytes × Bytes)
  stdin   : StdinPol
  stdout  : OutPol
  stderr  : OutPol
  timeout : Nat
deriving Repr, DecidableEq

def validateCwd (cwd : Option Bytes) (caps : Caps) : Except Err Unit :=
  match cwd with
  | some d => andThen (validateText .cwd d caps.maxCwd false false) fun _ => .ok ()
  | none => .ok ()

def validateStdin (s : StdinPol) (caps : Caps) : Except Err Unit :=
  match s with
  | .text t => andThen (validateText .stdinText t caps.maxStdin true false) fun _ => .ok ()
  | .inherit => .ok ()
  | .null => .ok ()

/-- `self.timeout_ms.unwrap_or(caps.default_timeout_ms)`. -/
def effTimeout (c : Cmd) (caps : Caps) : Nat :=
  match c.timeout with
  | some t => t
  | none => caps.defaultTimeout

/-- `ProcessCommand::validate`, check by check in the order of the code: the first failing check
determines the error. -/
def validate (c : Cmd) (caps : Caps) : Except Err Spec :=
  andThen (validateText .program c.program caps.maxProgram false false) fun _ =>
  andThen (validateCount c.args.length caps.maxArgs .argCount) fun _ =>
  andThen (validateCount c.env.length caps.maxEnvPairs .envCount) fun _ =>
  andThen (argsLoop caps c.args 0) fun totalArg =>
  andThen (check (totalArg ≤ caps.maxTotalArg) .argBytes) fun _ =>
  andThen (validateCwd c.cwd caps) fun _ =>
  andThen (envLoop caps c.env 0) fun totalEnv =>
  andThen (check (totalEnv ≤ caps.maxTotalEnv) .envBytes) fun _ =>
  andThen (validateStdin c.stdin caps) fun _ =>
  andThen (check (effTimeout c caps ≠ 0) .timeoutZero) fun _ =>
  andThen (check (effTimeout c caps ≤ caps.maxTimeout) .timeoutLimit) fun _ =>
  .ok { program := c.program, args := c.args, cwd := c.cwd, env := c.env, stdin := c.stdin,
        stdout := c.stdout, stderr := c.stderr, timeout := effTimeout c caps }

/-! ## The `std::process::Command` built from a spec (`run_host_process`, `configure_stdio`) -/

inductive Stdio where
  | inherit
  | null
  | piped
deriving Repr, DecidableEq

/-- What `run_host_process` hands to `std`: `Command::new(program)`, `.args(...)`, `.current_dir`,
one `.env(k, v)` call per pair in vector order, the three `Stdio`s, and the bytes the stdin writer
thread sends into the pipe. -/
structure Command where
  program   : Bytes
  args      : List Bytes
  cwd       : Option Bytes
  envCalls  : List (Bytes × Bytes)
  stdin     : Stdio
  stdout    : Stdio
  stderr    : Stdio
  stdinData : Option Bytes
deriving Repr, DecidableEq

def outStdio : OutPol → Stdio
  | .inherit => .inherit
  | .null => .null
  | .capture => .piped

def commandOf (s : Spec) : Command :=
  { program := s.program, args := s.args, cwd := s.cwd, envCalls := s.env,
    stdin := (match s.stdin with | .inherit => .inherit | .null => .null | .text _ => .piped),
    stdout := outStdio s.stdout, stderr := outStdio s.stderr,
    stdinData := (match s.stdin with | .text t => some t | _ => none) }

/-- The child's argument vector (`argv[0]` is the program as given; trusted `std` behaviour). -/
def Command.argv (c : Command) : List Bytes := c.program :: c.args

/-- Value of the last write to key `k` in a list of writes. -/
def lastWrite : List (Bytes × Bytes) → Bytes → Option Bytes
  | [], _ => none
  | (k', v') :: rest, k =>
      match lastWrite rest k with
      | some v => some v
      | none => if k' = k then some v' else none

/-- The override the child sees for key `k`: `Command::env` keeps the last call per key
(trusted `std` behaviour). -/
def Command.override (c : Command) (k : Bytes) : Option Bytes := lastWrite c.envCalls k

/-! ## `run`: policy gate → validate → spawn -/

/-- `HostPolicy`. -/
structure Policy where
  allow : Bool
  caps  : Caps
deriving Repr, DecidableEq

inductive Outcome where
  | denied                       -- RuntimeErrorKind::ProcessDenied
  | invalid (e : Err)            -- RuntimeErrorKind::ProcessSpecInvalid(name)
  | spawned (c : Command)        -- `sys::process::run` was entered with this command
deriving Repr, DecidableEq

/-- The host: every command handed to the OS, in order (`spawns.length` is the spawn counter). -/
structure World where
  spawns : List Command
deriving Repr, DecidableEq

/-- `eval_process_command_call` for `run`. -/
def run (pol : Policy) (c : Cmd) (w : World) : Outcome × World :=
  if pol.allow = false then (.denied, w)
  else match validate c pol.caps with
    | .error e => (.invalid e, w)
    | .ok spec => (.spawned (commandOf spec), { spawns := w.spawns ++ [commandOf spec] })

end NaijaVerif.Proc
