/-
Models of the Rust **std** pieces the string built-ins are written with (family `strs`, C13).

Everything here stands for library code that is *not* part of naijascript: `str::find`/`str::split`
(modelled by their specification: naive first occurrence), `str::chars` (grouping of a byte string
into encoded characters), `str::from_utf8` (Unicode Table 3-7), `str::trim`, `char::to_uppercase` /
`to_lowercase` (a small explicit table, enough for the alphabet the generator uses),
`str::parse::<f64>` (correctly rounded decimal → binary64 with `Nat` arithmetic) and the
`f64 → isize` cast (`floor`, saturating, NaN ↦ 0).  The first four are given a declarative
characterisation in `Spec/Strs.lean` and `Lemmas/Strs*.lean`; `trim`, case mapping, number
parsing and the float cast are validated **only by the tie** (correspondence stream `strs`).

Core-only: linked into `nvdriver`.
-/
import NaijaVerif.Model.Bytes

namespace NaijaVerif.Strs
open NaijaVerif NaijaVerif.Bytes

/-! ### first occurrence (reference search; also the model of std's searcher used by `split`) -/

/-- Naive search: the least `i` such that `n` is a prefix of `h.drop i`. -/
def firstOcc : Bytes → Bytes → Option Nat
  | [], n => if n.isEmpty then some 0 else none
  | a :: h, n => if n.isPrefixOf (a :: h) then some 0 else (firstOcc h n).map (· + 1)

/-! ### characters -/

/-- `str::chars`, with a character represented by its encoding: the byte string is cut in front
of every non-continuation byte.  (On valid UTF-8 this is exactly the sequence of encoded
characters — `chars_of_valid` in `Lemmas/StrsUtf8.lean`; the real functions only ever see `&str`.) -/
def chars : Bytes → List Bytes
  | [] => []
  | b :: rest =>
    match chars rest with
    | (c :: g) :: gs => if isCont c then (b :: c :: g) :: gs else [b] :: (c :: g) :: gs
    | gs => [b] :: gs

/-- One well-formed encoded character (Unicode 15, Table 3-7; what `str::from_utf8` accepts). -/
def validChar : Bytes → Bool
  | [a] => a < 0x80
  | [a, b] => 0xC2 ≤ a && a ≤ 0xDF && isCont b
  | [a, b, c] =>
      isCont c &&
        ((a == 0xE0 && 0xA0 ≤ b && b ≤ 0xBF) || (0xE1 ≤ a && a ≤ 0xEC && isCont b) ||
         (a == 0xED && 0x80 ≤ b && b ≤ 0x9F) || (0xEE ≤ a && a ≤ 0xEF && isCont b))
  | [a, b, c, d] =>
      isCont c && isCont d &&
        ((a == 0xF0 && 0x90 ≤ b && b ≤ 0xBF) || (0xF1 ≤ a && a ≤ 0xF3 && isCont b) ||
         (a == 0xF4 && 0x80 ≤ b && b ≤ 0x8F))
  | _ => false

/-- `str::from_utf8(s).is_ok()`. -/
def validUtf8 (s : Bytes) : Bool := (chars s).all validChar

/-! ### split (std) and the code-point view used by `trim` and case mapping -/

/-- `str::split(pat)` for a non-empty pattern, with fuel `|s| + 1`. -/
def splitAux (p : Bytes) : Nat → Bytes → List Bytes
  | 0, s => [s]
  | fuel + 1, s =>
    match firstOcc s p with
    | none => [s]
    | some i => s.take i :: splitAux p fuel (s.drop (i + p.length))

/-- `s.split(p)` as std does it.  Empty pattern: a match at every character boundary, i.e. an
empty piece, every character, an empty piece. -/
def splitOn (s p : Bytes) : List Bytes :=
  if p.isEmpty then [] :: (chars s ++ [[]]) else splitAux p (s.length + 1) s

/-- Scalar value of one encoded character (no validation). -/
def decodeCp : Bytes → Nat
  | [a] => a
  | [a, b] => (a % 32) * 64 + b % 64
  | [a, b, c] => (a % 16) * 4096 + (b % 64) * 64 + c % 64
  | [a, b, c, d] => (a % 8) * 262144 + (b % 64) * 4096 + (c % 64) * 64 + d % 64
  | _ => 0xFFFD

def encodeCp (c : Nat) : Bytes :=
  if c < 0x80 then [c]
  else if c < 0x800 then [0xC0 + c / 64, 0x80 + c % 64]
  else if c < 0x10000 then [0xE0 + c / 4096, 0x80 + c / 64 % 64, 0x80 + c % 64]
  else [0xF0 + c / 262144, 0x80 + c / 4096 % 64, 0x80 + c / 64 % 64, 0x80 + c % 64]

/-- Unicode `White_Space` (what `char::is_whitespace` tests). -/
def isWhitespaceCp (c : Nat) : Bool :=
  (0x09 ≤ c && c ≤ 0x0D) || c == 0x20 || c == 0x85 || c == 0xA0 || c == 0x1680 ||
  (0x2000 ≤ c && c ≤ 0x200A) || c == 0x2028 || c == 0x2029 || c == 0x202F || c == 0x205F ||
  c == 0x3000

/-- `str::trim`. -/
def trim (s : Bytes) : Bytes :=
  let ws := fun g => isWhitespaceCp (decodeCp g)
  ((((chars s).dropWhile ws).reverse.dropWhile ws).reverse).flatten

/-- Case table for the non-ASCII cased characters the generator uses:
`(code point, to_uppercase, to_lowercase)`.  Everything else non-ASCII maps to itself. -/
def caseTable : List (Nat × List Nat × List Nat) :=
  [ (0xE9, [0xC9], [0xE9]), (0xC9, [0xC9], [0xE9]),       -- é É
    (0xF1, [0xD1], [0xF1]), (0xD1, [0xD1], [0xF1]),       -- ñ Ñ
    (0xFC, [0xDC], [0xFC]), (0xDC, [0xDC], [0xFC]),       -- ü Ü
    (0xDF, [0x53, 0x53], [0xDF]),                         -- ß → SS
    (0x3B1, [0x391], [0x3B1]), (0x391, [0x391], [0x3B1]), -- α Α
    (0x3C3, [0x3A3], [0x3C3]), (0x3C2, [0x3A3], [0x3C2]), (0x3A3, [0x3A3], [0x3C3]),  -- σ ς Σ
    (0x44F, [0x42F], [0x44F]), (0x42F, [0x42F], [0x44F]), -- я Я
    (0x130, [0x130], [0x69, 0x307]),                      -- İ → i + combining dot
    (0x1C6, [0x1C4], [0x1C6]), (0x1C5, [0x1C4], [0x1C6]), -- ǆ ǅ
    (0xFB01, [0x46, 0x49], [0xFB01]) ]                    -- ﬁ → FI

def upperCp (c : Nat) : List Nat :=
  if 0x61 ≤ c && c ≤ 0x7A then [c - 32]
  else match caseTable.find? (·.1 == c) with
    | some (_, u, _) => u
    | none => [c]

def lowerCp (c : Nat) : List Nat :=
  if 0x41 ≤ c && c ≤ 0x5A then [c + 32]
  else match caseTable.find? (·.1 == c) with
    | some (_, _, l) => l
    | none => [c]

/-- `s.chars().flat_map(char::to_uppercase)` re-encoded. -/
def toUpper (s : Bytes) : Bytes :=
  ((chars s).map (fun g => ((upperCp (decodeCp g)).map encodeCp).flatten)).flatten

def toLower (s : Bytes) : Bytes :=
  ((chars s).map (fun g => ((lowerCp (decodeCp g)).map encodeCp).flatten)).flatten

/-! ### `f64` bit patterns: `x.floor() as isize` and `str::parse::<f64>` -/

def isizeMax : Int := 2 ^ 63 - 1
def isizeMin : Int := -(2 ^ 63)

def saturate (x : Int) : Int := if x < isizeMin then isizeMin else if x > isizeMax then isizeMax else x

/-- `f64::from_bits(bits).floor() as isize`: exact floor, saturating, NaN ↦ 0. -/
def f64FloorToIsize (bits : Nat) : Int :=
  let neg := bits / 2 ^ 63 % 2 == 1
  let e := bits / 2 ^ 52 % 2048
  let m := bits % 2 ^ 52
  if e == 2047 then
    if m != 0 then 0 else if neg then isizeMin else isizeMax
  else if e == 0 then
    if m == 0 then 0 else if neg then -1 else 0
  else
    let mant := 2 ^ 52 + m
    if e ≥ 1075 + 12 then (if neg then isizeMin else isizeMax)
    else if e ≥ 1075 then
      let v : Int := (mant * 2 ^ (e - 1075) : Nat)
      saturate (if neg then -v else v)
    else
      let sh := 1075 - e
      if sh > 53 then (if neg then -1 else 0)
      else
        let q := mant / 2 ^ sh
        let r := mant % 2 ^ sh
        if neg then -((q + (if r == 0 then 0 else 1) : Nat) : Int) else (q : Int)

def nanToken : String := "nan"

def log2Nat (n : Nat) : Nat := Nat.log2 n

/-- Correctly rounded (half to even) binary64 bits of `num / den` (`num, den > 0`), sign excluded. -/
def roundRatio (num den : Nat) : Nat :=
  -- e2 = floor(log2(num/den))
  let est : Int := (log2Nat num : Int) - (log2Nat den : Int)
  let ge (e : Int) : Bool := -- 2^e ≤ num/den
    if e ≥ 0 then den * 2 ^ e.toNat ≤ num else den ≤ num * 2 ^ (-e).toNat
  let e2 : Int := if ge (est + 1) then est + 1 else if ge est then est else est - 1
  let e2c : Int := if e2 < -1022 then -1022 else e2
  -- q = floor(num / den * 2^(52 - e2c))
  let sh : Int := 52 - e2c
  let (n', d') := if sh ≥ 0 then (num * 2 ^ sh.toNat, den) else (num, den * 2 ^ (-sh).toNat)
  let q := n' / d'
  let r := n' % d'
  let q := if 2 * r > d' || (2 * r == d' && q % 2 == 1) then q + 1 else q
  -- q < 2^52: subnormal (field 0); q = 2^53 after rounding: next binade
  let (q, e2c) := if q ≥ 2 ^ 53 then (q / 2, e2c + 1) else (q, e2c)
  if q < 2 ^ 52 then q
  else
    let field := e2c + 1023
    if field ≥ 2047 then 2047 * 2 ^ 52
    else field.toNat * 2 ^ 52 + (q - 2 ^ 52)

def isDigit (b : Nat) : Bool := 48 ≤ b && b ≤ 57

def digitsVal (ds : Bytes) : Nat := ds.foldl (fun acc d => acc * 10 + (d - 48)) 0

def lowerAscii (b : Nat) : Nat := if 65 ≤ b && b ≤ 90 then b + 32 else b

/-- `s.parse::<f64>()`: `none` = parse error, `some none` = NaN, `some (some bits)`. -/
def parseF64 (s : Bytes) : Option (Option Nat) :=
  match s with
  | [] => none
  | c :: rest0 =>
    let neg := c == 45
    let rest := if c == 45 || c == 43 then rest0 else s
    if rest.isEmpty then none else
    let signBit := if neg then 2 ^ 63 else 0
    let intDs := rest.takeWhile isDigit
    let r1 := rest.dropWhile isDigit
    let (fracDs, r2, hadDot) :=
      match r1 with
      | 46 :: t => (t.takeWhile isDigit, t.dropWhile isDigit, true)
      | _ => ([], r1, false)
    let _ := hadDot
    if intDs.isEmpty && fracDs.isEmpty then
      -- specials (only if nothing numeric was consumed)
      let low := rest.map lowerAscii
      if low == b!"nan" then some none
      else if low == b!"inf" || low == b!"infinity" then some (some (signBit + 2047 * 2 ^ 52))
      else none
    else
      let expPart : Option Int :=
        match r2 with
        | [] => some 0
        | e :: t =>
          if e == 101 || e == 69 then
            let (eneg, t') := match t with
              | 45 :: u => (true, u)
              | 43 :: u => (false, u)
              | _ => (false, t)
            if t'.isEmpty || !(t'.all isDigit) then none
            else
              let v : Int := digitsVal t'
              some (if eneg then -v else v)
          else none
      match expPart with
      | none => none
      | some ex =>
        let m := digitsVal (intDs ++ fracDs)
        if m == 0 then some (some signBit) else
        let e10 : Int := ex - fracDs.length
        -- clamp absurd exponents (the result is already 0 or inf far inside these bounds)
        let nd := (intDs ++ fracDs).length
        if e10 > 400 then some (some (signBit + 2047 * 2 ^ 52))
        else if e10 + nd < -400 then some (some signBit)
        else
          let bits := if e10 ≥ 0 then roundRatio (m * 10 ^ e10.toNat) 1 else roundRatio m (10 ^ (-e10).toNat)
          some (some (signBit + bits))

end NaijaVerif.Strs
