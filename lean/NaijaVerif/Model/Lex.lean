import NaijaVerif.Model.Token
import NaijaVerif.Model.Diag
/-
`src/syntax/scanner.rs` — the lexer, byte for byte (with the D-07 fix applied, see
`/verif/proposed-fixes/D-07.diff`: after `1.` and after a backslash the cursor advances by a whole
character, and the invalid-number path `continue`s the loop of `next_token` instead of recursing).

The state of the Rust `Lexer` is `(src, pos)`; here it is a cursor `Cur = (pos, rest)` with
`rest = src.drop pos` (the not yet consumed suffix).  Every function takes the cursor where the Rust
function finds `self.pos` and returns the cursor where the Rust function leaves it.

Interface for the other models:

  `lex (src : Bytes) : List SpTok × List Diag`

the token stream *as the parser sees it* and the lexer's diagnostics in emission order.  The Rust
`Iterator::next` never yields `Token::EOF` (it returns `None` when `next_token` answers EOF), and the
parser then fabricates the EOF itself: `Parser::new` uses `unwrap_or_default()` (span `0..0`) and
`bump` uses `cur.span.end..cur.span.end`.  So the list ends with exactly one `eof` whose span is
`(h, h)`, `h` = `hi` of the last real token (`0` when there is none) — *not* the length of the text.
`lexIter` is the stream without that EOF.
-/
namespace NaijaVerif.Lex

/-! ## byte classes -/

/-- `u8::is_ascii_whitespace`: space, TAB, LF, FF, CR (not VT). -/
def isWs (b : Nat) : Bool := b == 32 || b == 9 || b == 10 || b == 12 || b == 13
/-- `u8::is_ascii_digit` -/
def isDigit (b : Nat) : Bool := decide (48 ≤ b) && decide (b ≤ 57)
/-- `Lexer::is_alpha_or_underscore` -/
def isAlpha (b : Nat) : Bool :=
  (decide (65 ≤ b) && decide (b ≤ 90)) || (decide (97 ≤ b) && decide (b ≤ 122)) || b == 95
/-- a byte `read_word` keeps reading over -/
def isWordCh (b : Nat) : Bool := isAlpha b || isDigit b
/-- not a line end: what `memchr2(b'\n', b'\r', …)` skips -/
def notNl (b : Nat) : Bool := b != 10 && b != 13
/-- what `memchr2(quote, b'\\', …)` skips -/
def notQuoteEsc (quote b : Nat) : Bool := b != quote && b != 92

/-- Length of the UTF-8 character whose first byte is `b` (`rest.chars().next().len_utf8()` for a
cursor on a character boundary of valid UTF-8). -/
def charLen (b : Nat) : Nat := if b < 128 then 1 else if b < 224 then 2 else if b < 240 then 3 else 4

/-! ## tables (closed forms; `Props/C07Lex.lean` proves them equal to the extracted `Gen.Lexical`) -/

/-- the single-word keywords: the `match word` arms of `scan_identifier_or_keyword` -/
def kwTable : List (Bytes × Tok) := [
  (b!"make", .make), (b!"get", .get), (b!"add", .add), (b!"minus", .minus), (b!"times", .times),
  (b!"divide", .divide), (b!"mod", .mod), (b!"and", .and), (b!"or", .or), (b!"not", .not),
  (b!"jasi", .jasi), (b!"start", .start), (b!"end", .end), (b!"comot", .comot), (b!"next", .next),
  (b!"na", .na), (b!"pass", .pass), (b!"true", .tru), (b!"false", .fals), (b!"null", .null),
  (b!"do", .do), (b!"return", .ret)]

/-- the multi-word keywords: first word ↦ alternatives (following words, token), in source order -/
def multiWord : List (Bytes × List (List Bytes × Tok)) := [
  (b!"if", [([b!"to", b!"say"], .ifToSay), ([b!"not", b!"so"], .ifNotSo)]),
  (b!"small", [([b!"pass"], .smallPass)])]

/-- `scan_punctuation` -/
def punctTable : List (Nat × Tok) :=
  [(40, .lparen), (41, .rparen), (91, .lbracket), (93, .rbracket), (44, .comma), (46, .dot)]

/-- the escape `match`: (escape byte, quote guard, produced byte) -/
def escTable : List (Nat × Option Nat × Nat) :=
  [(34, some 34, 34), (39, some 39, 39), (92, none, 92), (110, none, 10), (116, none, 9)]

/-- string delimiters -/
def quoteChars : List Nat := [34, 39]
/-- comment introducer -/
def commentChar : Nat := 35
/-- whitespace set -/
def wsBytes : List Nat := [9, 10, 12, 13, 32]

def punct (b : Nat) : Option Tok := punctTable.lookup b

def escapeOf (quote e : Nat) : Option Nat :=
  (escTable.find? fun (c, g, _) => c == e && (g == none || g == some quote)).map (·.2.2)

/-! ## cursor -/

/-- `(self.pos, &self.src[self.pos..])` -/
structure Cur where
  pos : Nat
  rest : Bytes
deriving Repr, DecidableEq, Inhabited

/-- `self.pos += k` -/
def Cur.adv (c : Cur) (k : Nat) : Cur := ⟨c.pos + k, c.rest.drop k⟩

/-- `while self.pos < self.len && p(self.src[self.pos]) { self.pos += 1 }` -/
def Cur.skipWhile (p : Nat → Bool) (c : Cur) : Cur :=
  ⟨c.pos + (c.rest.takeWhile p).length, c.rest.dropWhile p⟩

/-- every lexer diagnostic is an error with one label over the same span -/
def mkDiag (k : DiagKind) (lo hi : Nat) : Diag :=
  { sev := .error, kind := k, span := ⟨lo, hi⟩, labels := [⟨lo, hi⟩] }

/-- `skip_whitespace` -/
def skipWs (c : Cur) : Cur := c.skipWhile isWs

/-- `skip_comment` (cursor on the `#`): up to the first LF/CR, which is consumed as well -/
def skipComment (c : Cur) : Cur :=
  let c' := c.skipWhile notNl
  match c'.rest with
  | [] => c'
  | _ :: _ => c'.adv 1

/-! ## strings -/

structure StrRes where
  content : Bytes
  escaped : Bool
  cur : Cur
  diags : List Diag
deriving Repr, DecidableEq, Inhabited

/-- The `loop` of `scan_string`.  `c` is `self.pos`, `buf` the `buffer`, `esc` is `has_escape`.
While `has_escape` is false the Rust cursor still stands at `beg`, so `src[beg..x]` is `src[pos..x]`.
Each further iteration follows an escape of at least two bytes; fuel `|rest|` is enough. -/
def scanStrLoop (start quote : Nat) : Nat → Cur → Bytes → Bool → List Diag → StrRes
  | 0, c, buf, esc, ds => ⟨buf, esc, c, ds⟩
  | f+1, c, buf, esc, ds =>
    let qe := c.rest.takeWhile (notQuoteEsc quote)   -- memchr2(quote, '\\')
    let nl := c.rest.takeWhile notNl                 -- memchr2('\n', '\r')
    if nl.length < qe.length then
      -- a line end comes first: unterminated, the cursor stops *on* the line end
      let e := c.adv nl.length
      ⟨if esc then buf else nl, esc, e, ds ++ [mkDiag .unterminatedString start e.pos]⟩
    else
      match c.rest.dropWhile (notQuoteEsc quote) with
      | [] =>
        -- end of input: the cursor is NOT moved (stays after the last escape, or at `beg`)
        ⟨if esc then buf else [], esc, c, ds ++ [mkDiag .unterminatedString start c.pos]⟩
      | q :: after =>
        let p := c.pos + qe.length                   -- position of the quote / backslash
        if q == quote then
          ⟨if esc then buf ++ qe else qe, esc, ⟨p + 1, after⟩, ds⟩
        else
          let buf' := buf ++ qe
          match after with
          | [] =>
            -- backslash is the last byte: error, cursor not moved
            ⟨buf', true, c, ds ++ [mkDiag .unterminatedString start c.pos]⟩
          | e :: _ =>
            match escapeOf quote e with
            | some y => scanStrLoop start quote f ⟨p + 2, after.drop 1⟩ (buf' ++ [y]) true ds
            | none =>
              -- invalid escape: the whole character after the backslash is appended (fixed D-07b)
              let k := charLen e
              scanStrLoop start quote f ⟨p + 1 + k, after.drop k⟩ (buf' ++ after.take k) true
                (ds ++ [mkDiag .invalidStringEscape p (p + 1 + k)])

/-- `scan_string(start, quote)`; `c` is the cursor after the opening quote -/
def scanString (start quote : Nat) (c : Cur) : StrRes :=
  scanStrLoop start quote (c.rest.length + 1) c [] false []

/-! ## numbers -/

inductive NumRes where
  /-- `Token::Number(lexeme)`; the cursor may already be past a glued-on identifier -/
  | ok (lexeme : Bytes) (cur : Cur) (diags : List Diag)
  /-- no digit after the `.`: error, one character skipped, `next_token` goes round again -/
  | invalid (cur : Cur) (diags : List Diag)
deriving Repr, DecidableEq, Inhabited

/-- the tail of `scan_number`: a letter or `_` directly after the digits -/
def numFinish (start : Nat) (lexeme : Bytes) (c : Cur) : NumRes :=
  match c.rest with
  | [] => .ok lexeme c []
  | b :: _ =>
    if isAlpha b then
      let c' := c.skipWhile isWordCh
      .ok lexeme c' [mkDiag .invalidIdentifier start c'.pos]
    else .ok lexeme c []

/-- `scan_number(start)`; `c` is the cursor on the first digit (`c.pos = start`) -/
def scanNumber (start : Nat) (c : Cur) : NumRes :=
  let ip := c.rest.takeWhile isDigit
  let c1 := c.skipWhile isDigit
  match c1.rest with
  | 46 :: r2 =>
    let c2 : Cur := ⟨c1.pos + 1, r2⟩
    match r2 with
    | [] => .invalid c2 [mkDiag .invalidNumber start c2.pos]
    | d :: _ =>
      if isDigit d then
        let fp := r2.takeWhile isDigit
        numFinish start (ip ++ 46 :: fp) (c2.skipWhile isDigit)
      else
        -- fixed D-07a/c: skip the whole character after the dot, no recursion
        .invalid (c2.adv (charLen d)) [mkDiag .invalidNumber start c2.pos]
  | _ => numFinish start ip c1

/-! ## words -/

/-- `try_consume_word(word)`: skip whitespace (not comments), compare, require a following byte that
is not a letter/underscore (a digit is accepted — `if to say2`). `none` leaves the cursor alone. -/
def tryWord (w : Bytes) (c : Cur) : Option Cur :=
  let c1 := skipWs c
  if w.isPrefixOf c1.rest then
    let c2 := c1.adv w.length
    match c2.rest with
    | [] => some c2
    | b :: _ => if isAlpha b then none else some c2
  else none

/-- `try(w₁) && try(w₂) && …`: on failure the cursor stays after the words that did match. -/
def tryWords : List Bytes → Cur → Bool × Cur
  | [], c => (true, c)
  | w :: ws, c =>
    match tryWord w c with
    | some c' => tryWords ws c'
    | none => (false, c)

/-- The alternatives are tried one after the other **without** resetting the cursor in between
(`if to not so` is `IfNotSo`); only when all fail does the caller roll back. -/
def tryAlts : List (List Bytes × Tok) → Cur → Option (Tok × Cur)
  | [], _ => none
  | (ws, t) :: alts, c =>
    match tryWords ws c with
    | (true, c') => some (t, c')
    | (false, c') => tryAlts alts c'

/-- `scan_identifier_or_keyword` (its `InvalidIdentifier` branches are dead: `read_word` only
returns word characters and the caller checked the first byte). -/
def scanWord (c : Cur) : Tok × Cur :=
  let w := c.rest.takeWhile isWordCh
  let c1 := c.skipWhile isWordCh
  match multiWord.lookup w with
  | some alts =>
    match tryAlts alts c1 with
    | some (t, c') => (t, c')
    | none => (.ident w, c1)          -- rollback to `save`
  | none =>
    match kwTable.lookup w with
    | some t => (t, c1)
    | none => (.ident w, c1)

/-! ## `next_token` -/

/-- one turn of the `loop` in `next_token` -/
inductive Step where
  | eof (pos : Nat)
  | skip (cur : Cur) (diags : List Diag)
  | tok (t : SpTok) (cur : Cur) (diags : List Diag)
deriving Repr, DecidableEq, Inhabited

def step (c0 : Cur) : Step :=
  let c := skipWs c0
  let start := c.pos
  match c.rest with
  | [] => .eof start
  | b :: r =>
    let c1 : Cur := ⟨start + 1, r⟩
    if b == commentChar then .skip (skipComment c) []
    else if quoteChars.contains b then
      let s := scanString start b c1
      .tok ⟨.str s.content s.escaped, ⟨start, s.cur.pos⟩⟩ s.cur s.diags
    else match punct b with
    | some t => .tok ⟨t, ⟨start, start + 1⟩⟩ c1 []
    | none =>
      if isDigit b then
        match scanNumber start c with
        | .ok lx c' ds => .tok ⟨.num lx, ⟨start, c'.pos⟩⟩ c' ds
        | .invalid c' ds => .skip c' ds
      else if isAlpha b then
        let (t, c') := scanWord c
        .tok ⟨t, ⟨start, c'.pos⟩⟩ c' []
      else if 128 ≤ b then
        let k := charLen b
        .skip (c.adv k) [mkDiag .unexpectedChar start (start + k)]
      else
        -- unexpected ASCII byte: the span is empty (`start..self.pos` before the increment)
        .skip c1 [mkDiag .unexpectedChar start start]

/-- The loop of `next_token` iterated until EOF.  Every turn that is not EOF consumes at least one
byte, so fuel `|rest| + 1` is enough (`Props/C07Lex.lean`, `lexGo_fuel`). The third component is
`true` iff the fuel ran out before EOF. -/
def lexGo : Nat → Cur → List SpTok × List Diag × Bool
  | 0, _ => ([], [], true)
  | f+1, c =>
    match step c with
    | .eof _ => ([], [], false)
    | .skip c' ds =>
      let (ts, ds', o) := lexGo f c'
      (ts, ds ++ ds', o)
    | .tok t c' ds =>
      let (ts, ds', o) := lexGo f c'
      (t :: ts, ds ++ ds', o)

/-- what `Lexer::next` yields until it returns `None`, and `lexer.errors` -/
def lexIter (src : Bytes) : List SpTok × List Diag :=
  let r := lexGo (src.length + 1) ⟨0, src⟩
  (r.1, r.2.1)

/-- the EOF token the parser makes up when the iterator is exhausted -/
def eofTok (ts : List SpTok) : SpTok :=
  match ts.getLast? with
  | some t => ⟨.eof, ⟨t.span.hi, t.span.hi⟩⟩
  | none => ⟨.eof, ⟨0, 0⟩⟩

/-- Tokens as `Parser::new`/`bump` see them (real tokens, then one EOF) and lexer diagnostics. -/
def lex (src : Bytes) : List SpTok × List Diag :=
  let r := lexIter src
  (r.1 ++ [eofTok r.1], r.2)

end NaijaVerif.Lex
