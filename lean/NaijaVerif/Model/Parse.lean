import NaijaVerif.Model.Ast
import NaijaVerif.Model.Diag
import NaijaVerif.Gen.Pratt
/-
Model of `src/syntax/parser.rs`: recursive descent + Pratt, always returns a complete AST and a
diagnostics list.  Function by function the model follows the Rust code, including

* `bump` at the end of the token stream fabricates `EOF` at `cur.span.end..cur.span.end`;
* every `end` of a span is `cur.span.end` *after* consumption (so spans reach over the look-ahead token);
* `parse_expression` does `mem::take(&mut self.cur.token)`: in its fallback arm the current token has
  been **replaced by `EOF`** (same span) before the error is emitted and `synchronize` runs — so
  `synchronize` is a no-op there and everything after the offending token is silently dropped;
* every recovery path (placeholder `"_"` names, `Expr::Null(0..0)` statements, fabricated `Number "0"`);
* `parse_string_literal` / `parse_template_segments` (strings whose token is `escaped` are `Static`).

The table-like parts (binary binding powers, prefix operand power, statement-start / block-stop /
synchronisation sets) come from `Gen/Pratt.lean`, regenerated from the source on every check.

The token list is what the lexer *iterator* yields (`Parser::new`: first token or the default
`EOF 0..0`; the real lexer never yields `EOF`, the model accepts it anywhere).  All recursion is
structural: on a fuel argument for the mutually recursive descent (`Lemmas/ParseFuel.lean` proves
fuel monotonicity and adequacy of `fuelFor`), on the token list for `synchronize` and the parameter
list, and well-founded on `len - i` for the template scanner.
-/
namespace NaijaVerif.Parse
open NaijaVerif

/-! ### Tables -/

/-- Same token kind (payloads ignored). -/
def sameKind : Tok → Tok → Bool
  | .str _ _, .str _ _ => true
  | .ident _, .ident _ => true
  | .num _, .num _ => true
  | .str _ _, _ | .ident _, _ | .num _, _ => false
  | _, .str _ _ | _, .ident _ | _, .num _ => false
  | a, b => a == b

def kindIn (set : List Tok) (t : Tok) : Bool := set.any (sameKind t)

def isStmtStart (t : Tok) : Bool := kindIn Gen.Pratt.stmtStart t
def isBlockStop (t : Tok) : Bool := kindIn Gen.Pratt.blockStop t
def isSync (t : Tok) : Bool := kindIn Gen.Pratt.syncSet t

/-- The operator row of a token in `parse_expression_continuation`. -/
def binInfo (t : Tok) : Option (BinOp × Nat × Nat) :=
  match Gen.Pratt.binTable.find? (fun r => r.1 == t) with
  | some (_, op, l, r) => some (op, l, r)
  | none => none

/-- The prefix-operator arm of a token in `parse_expression`. -/
def unaryInfo (t : Tok) : Option (UnOp × Nat) :=
  match Gen.Pratt.unaryTable.find? (fun r => r.1 == t) with
  | some (_, op, bp) => some (op, bp)
  | none => none

/-! ### Parser state -/

structure PState where
  cur : SpTok
  rest : List SpTok
  /-- syntax diagnostics, most recent first -/
  errs : List Diag
deriving Repr, Inhabited

def eofAt (p : Nat) : SpTok := ⟨.eof, ⟨p, p⟩⟩

/-- `Parser::new`: `lexer.next().unwrap_or_default()`. -/
def PState.init : List SpTok → PState
  | [] => ⟨⟨.eof, ⟨0, 0⟩⟩, [], []⟩
  | t :: ts => ⟨t, ts, []⟩

/-- `bump`. -/
def PState.bump (st : PState) : PState :=
  match st.rest with
  | [] => { st with cur := eofAt st.cur.span.hi }
  | t :: ts => { st with cur := t, rest := ts }

/-- `emit_error(span, kind, labels)`. -/
def PState.err (st : PState) (k : DiagKind) (sp : Span) (labels : List Span) : PState :=
  { st with errs := ⟨.error, k, sp, labels⟩ :: st.errs }

/-- `emit_error(span, kind, vec![Label { span, .. }])`. -/
def PState.err1 (st : PState) (k : DiagKind) (sp : Span) : PState := st.err k sp [sp]

/-- `mem::take(&mut self.cur.token)`. -/
def PState.take (st : PState) : PState := { st with cur := ⟨.eof, st.cur.span⟩ }

/-- `if let Token::T = self.cur.token { self.bump() } else { emit_error(span, kind, [span]) }`. -/
def PState.expect (st : PState) (t : Tok) (k : DiagKind) (sp : Span) : PState :=
  if st.cur.tok == t then st.bump else st.err1 k sp

def syncGo (cur : SpTok) : List SpTok → SpTok × List SpTok
  | [] => if isSync cur.tok then (cur, []) else (eofAt cur.span.hi, [])
  | t :: ts => if isSync cur.tok then (cur, t :: ts) else syncGo t ts

/-- `synchronize`: bump until a synchronisation token. -/
def PState.sync (st : PState) : PState :=
  let r := syncGo st.cur st.rest
  { st with cur := r.1, rest := r.2 }

/-! ### String literals (`parse_string_literal`, `parse_template_segments`) -/

/-- Number of leading elements satisfying `p`. -/
def scanWhile (p : Nat → Bool) : Bytes → Nat
  | [] => 0
  | b :: bs => if p b then scanWhile p bs + 1 else 0

/-- `(b as char).is_whitespace()` for a byte. -/
def isWsByte (b : Nat) : Bool :=
  (9 ≤ b && b ≤ 13) || b == 32 || b == 0x85 || b == 0xA0

def isAlphaU (b : Nat) : Bool := (65 ≤ b && b ≤ 90) || (97 ≤ b && b ≤ 122) || b == 95
def isAlnumU (b : Nat) : Bool := isAlphaU b || (48 ≤ b && b ≤ 57)

def slice (bs : Bytes) (a b : Nat) : Bytes := (bs.drop a).take (b - a)

/-- `if i > beg { push Literal(beg..i) }`. -/
def pushLit (bs : Bytes) (beg i : Nat) (acc : List Seg) : List Seg :=
  if i > beg then .lit (slice bs beg i) :: acc else acc

def lbrace : Nat := 123
def rbrace : Nat := 125

theorem scanWhile_le (p : Nat → Bool) (bs : Bytes) : scanWhile p bs ≤ bs.length := by
  induction bs with
  | nil => simp [scanWhile]
  | cons b bs ih => simp only [scanWhile]; split <;> simp <;> omega

/-- The `while i < len` loop of `parse_template_segments`; `acc` is the buffer in reverse. -/
def tmplLoop (bs : Bytes) (i beg : Nat) (acc : List Seg) : List Seg :=
  let len := bs.length
  if h : i < len then
    -- `memchr2(b'{', b'}', bytes, i)`
    let ix := i + scanWhile (fun b => b != lbrace && b != rbrace) (bs.drop i)
    if hix : ix < len then
      let c := bs.getD ix 0
      if c == lbrace then
        if ix + 1 < len && bs.getD (ix + 1) 0 == lbrace then
          tmplLoop bs (ix + 2) (ix + 2) (.lit [lbrace] :: pushLit bs beg ix acc)
        else
          let j0 := ix + 1 + scanWhile isWsByte (bs.drop (ix + 1))
          let fallback : Unit → List Seg := fun _ =>
            -- literal up to and including the next `}`
            let e0 := ix + 1 + scanWhile (fun b => b != rbrace) (bs.drop (ix + 1))
            let e := min (e0 + 1) len   -- `if end < len { end += 1 }` (`e0 ≤ len`)
            tmplLoop bs e e (.lit (slice bs ix e) :: pushLit bs beg ix acc)
          if j0 < len && isAlphaU (bs.getD j0 0) then
            let j1 := j0 + 1 + scanWhile isAlnumU (bs.drop (j0 + 1))
            let j2 := j1 + scanWhile isWsByte (bs.drop j1)
            if j2 < len && bs.getD j2 0 == rbrace then
              tmplLoop bs (j2 + 1) (j2 + 1) (.var (slice bs j0 j1) none :: pushLit bs beg ix acc)
            else fallback ()
          else fallback ()
      else if c == rbrace then
        if ix + 1 < len && bs.getD (ix + 1) 0 == rbrace then
          tmplLoop bs (ix + 2) (ix + 2) (.lit [rbrace] :: pushLit bs beg ix acc)
        else tmplLoop bs (ix + 1) beg acc
      else tmplLoop bs (ix + 1) beg acc
    else (if beg < len then .lit (slice bs beg len) :: acc else acc)
  else (if beg < len then .lit (slice bs beg len) :: acc else acc)
termination_by bs.length - i
decreasing_by all_goals omega

/-- `parse_template_segments`. -/
def templateSegs (bs : Bytes) : List Seg := (tmplLoop bs 0 0 []).reverse

/-- `parse_string_literal`: the parts of a string token. -/
def strParts (content : Bytes) (escaped : Bool) : StrParts :=
  if !content.contains lbrace then .static content
  else if escaped then .static content
  else
    let segs := templateSegs content
    if segs.isEmpty then .static content else .interp segs

/-! ### Expressions -/

/-- The single-token arms of `parse_expression`. -/
def atomOf (t : SpTok) : Option Expr :=
  match t.tok with
  | .num n => some (.num n t.span)
  | .str c esc => some (.str (strParts c esc) t.span)
  | .tru => some (.bool true t.span)
  | .fals => some (.bool false t.span)
  | .null => some (.null t.span)
  | .ident v => some (.var v none t.span)
  | _ => none

def underscore : Bytes := [95]

/-- After `.`: the field name (with recovery), then `bump`. -/
def parseField (st : PState) : Bytes × Span × PState :=
  let sp := st.cur.span
  match st.cur.tok with
  | .ident name => (name, sp, st.bump)
  | t =>
    if t.isReserved then (underscore, sp, (st.err1 .synReservedKeyword sp).bump)
    else (underscore, sp, (st.err1 .expectedIdentifier sp).bump)

/-- `if let Token::RBracket = cur { end = cur.span.end; bump } else { error; cur.span.end }`. -/
def closeBracket (st : PState) : Nat × PState :=
  if st.cur.tok == .rbracket then (st.cur.span.hi, st.bump)
  else (st.cur.span.hi, st.err1 .expectedRBracket st.cur.span)

mutual
  /-- `parse_expression(min_bp)`. -/
  def parseExpr : Nat → Nat → PState → Option (Expr × PState)
    | 0, _, _ => none
    | f + 1, minBp, st =>
      let start := st.cur.span.lo
      match atomOf st.cur with
      | some e => parseCont f minBp e st.bump
      | none =>
        match unaryInfo st.cur.tok with
        | some (op, bp) =>
          match parseExpr f bp st.bump with
          | none => none
          | some (e, st1) => parseCont f minBp (.unary op e ⟨start, st1.cur.span.hi⟩) st1
        | none =>
          if st.cur.tok == .lparen then
            match parseExpr f 0 st.bump with
            | none => none
            | some (e, st1) =>
              parseCont f minBp e
                (st1.expect .rparen .expectedNumberOrVariableOrLParen st1.cur.span)
          else if st.cur.tok == .lbracket then
            let st1 := st.bump
            match (if st1.cur.tok == .rbracket then some ([], st1) else parseElems f .rbracket st1) with
            | none => none
            | some (es, st2) =>
              let (e, st3) := closeBracket st2
              parseCont f minBp (.array es ⟨start, e⟩) st3
          else
            -- `mem::take` has replaced the current token by EOF
            let st1 := (st.take.err1 .expectedNumberOrVariableOrLParen st.cur.span).sync
            parseCont f minBp (.num [48] st1.cur.span) st1

  /-- `parse_expression_continuation(lhs, min_bp)`: the Pratt loop. -/
  def parseCont : Nat → Nat → Expr → PState → Option (Expr × PState)
    | 0, _, _, _ => none
    | f + 1, minBp, lhs, st =>
      let start := lhs.span.lo
      if st.cur.tok == .dot then
        let (field, fsp, st1) := parseField st.bump
        parseCont f minBp (.member lhs field fsp ⟨start, st1.cur.span.hi⟩) st1
      else if st.cur.tok == .lparen then
        let st1 := st.bump
        match (if st1.cur.tok == .rparen then some ([], st1) else parseElems f .rparen st1) with
        | none => none
        | some (args, st2) =>
          let st3 := st2.expect .rparen .expectedRParen st2.cur.span
          parseCont f minBp (.call lhs args none ⟨start, st3.cur.span.hi⟩) st3
      else if st.cur.tok == .lbracket then
        let bracketStart := st.cur.span.lo
        match parseExpr f 0 st.bump with
        | none => none
        | some (ix, st1) =>
          let (e, st2) := closeBracket st1
          parseCont f minBp (.index lhs ix ⟨bracketStart, e⟩ ⟨start, e⟩) st2
      else
        match binInfo st.cur.tok with
        | none => some (lhs, st)
        | some (op, lbp, rbp) =>
          if lbp < minBp then some (lhs, st)
          else
            match parseExpr f rbp st.bump with
            | none => none
            | some (rhs, st1) => parseCont f minBp (.binary op lhs rhs ⟨start, st1.cur.span.hi⟩) st1

  /-- The argument / element loop: `loop { e = parse_expression(0); push; if Comma { bump; if cur is
      the closer { break } } else { break } }`. -/
  def parseElems : Nat → Tok → PState → Option (List Expr × PState)
    | 0, _, _ => none
    | f + 1, close, st =>
      match parseExpr f 0 st with
      | none => none
      | some (e, st1) =>
        if st1.cur.tok == .comma then
          let st2 := st1.bump
          if st2.cur.tok == close then some ([e], st2)
          else
            match parseElems f close st2 with
            | none => none
            | some (es, st3) => some (e :: es, st3)
        else some ([e], st1)
end

/-! ### Statements -/

/-- Name after `do` / `make` / `.`: identifier, or placeholder `_` with a diagnostic.
    `missSpan` is the span of the "missing identifier" diagnostic. -/
def nameOrPlaceholder (st : PState) (missSpan : Span) : Bytes × PState :=
  match st.cur.tok with
  | .ident n => (n, st)
  | t =>
    if t.isReserved then (underscore, st.err1 .synReservedKeyword st.cur.span)
    else (underscore, st.err1 .expectedIdentifier missSpan)

/-- One round of the parameter loop on the current token: `none` = `break` before consuming. -/
def paramStep (st : PState) : Option (Param × PState) :=
  match st.cur.tok with
  | .ident p => some ({ name := p, span := st.cur.span }, st)
  | t =>
    if t.isReserved then
      some ({ name := underscore, span := st.cur.span }, st.err1 .synReservedKeyword st.cur.span)
    else none

/-- The parameter loop of `parse_function_def`, structural on the remaining tokens:
    `cur` is examined; a parameter consumes `cur`; a following comma is consumed too. -/
def paramsGo (cur : SpTok) (errs : List Diag) : List SpTok → List Param × PState
  | [] =>
    match paramStep ⟨cur, [], errs⟩ with
    | none => ([], ⟨cur, [], errs⟩)
    | some (p, st) => ([p], st.bump)       -- bump gives EOF: neither comma nor parameter
  | [t] =>
    match paramStep ⟨cur, [t], errs⟩ with
    | none => ([], ⟨cur, [t], errs⟩)
    | some (p, st) =>
      let st1 := st.bump
      if st1.cur.tok == .comma then
        -- bump over the comma fabricates EOF, on which the loop breaks
        ([p], st1.bump)
      else ([p], st1)
  | t :: u :: us =>
    match paramStep ⟨cur, t :: u :: us, errs⟩ with
    | none => ([], ⟨cur, t :: u :: us, errs⟩)
    | some (p, st) =>
      if t.tok == .comma then
        let r := paramsGo u st.errs us
        (p :: r.1, r.2)
      else ([p], st.bump)

def parseParams (st : PState) : List Param × PState := paramsGo st.cur st.errs st.rest

structure FnHeader where
  name : Bytes
  doSpan : Span
  rparenSpan : Span
  startSpan : Span
  params : List Param

/-- `parse_function_def` up to (not including) the body. -/
def parseFnHeader (start : Nat) (st : PState) : FnHeader × PState :=
  let doSpan := st.cur.span
  let st := st.bump
  let nameSpan := st.cur.span
  let (name, st) := nameOrPlaceholder st doSpan
  let st := st.bump
  let lparenSpan := st.cur.span
  let st := st.expect .lparen .expectedLParen ⟨start, nameSpan.hi⟩
  let (params, st) := parseParams st
  let rparenSpan := st.cur.span
  let lastHi := match params.getLast? with | some p => p.span.hi | none => lparenSpan.hi
  let st := st.expect .rparen .expectedRParen ⟨start, lastHi⟩
  let startSpan := st.cur.span
  let st := st.expect .start .expectedStartBlock ⟨start, rparenSpan.hi⟩
  ({ name, doSpan, rparenSpan, startSpan, params }, st)

/-- `parse_assignment` up to the optional `get`: returns name, name span, state at `get`/after. -/
def parseMakeHeader (st : PState) : Bytes × Span × PState :=
  let makeSpan := st.cur.span
  let st := st.bump
  match st.cur.tok with
  | .ident n => (n, st.cur.span, st.bump)
  | t =>
    if t.isReserved then (underscore, st.cur.span, (st.err1 .synReservedKeyword st.cur.span).bump)
    else (underscore, ⟨0, 0⟩, (st.err1 .expectedIdentifier makeSpan).bump)

/-- `( cond ) start` of `if to say` / `jasi`, after the keyword: open paren. -/
def openCond (kwSpan : Span) (st : PState) : PState :=
  st.expect .lparen .expectedLParen kwSpan

/-- After the condition: `)` then `start`; returns the span of the token at `start` position too. -/
def closeCond (start : Nat) (cond : Expr) (st : PState) : Span × PState :=
  let rparenSpan := st.cur.span
  let st := st.expect .rparen .expectedRParen ⟨start, cond.span.hi⟩
  let startSpan := st.cur.span
  let st := st.expect .start .expectedStartBlock ⟨start, rparenSpan.hi⟩
  (startSpan, st)

/-- The tail of the identifier-led statement once the target and the value are known. -/
def finishAssign (start : Nat) (target value : Expr) (st : PState) : Stmt × PState :=
  let sp : Span := ⟨start, st.cur.span.hi⟩
  match target with
  | .var name _ vsp => (.assignExisting name vsp value none none sp, st)
  | .index .. => (.assignIndex target value none sp, st)
  | _ => (.expr (.null ⟨0, 0⟩) none ⟨0, 0⟩, st.err1 .invalidAssignmentTarget sp)

mutual
  /-- `parse_statement`. -/
  def parseStmt : Nat → PState → Option (Stmt × PState)
    | 0, _ => none
    | f + 1, st =>
      let start := st.cur.span.lo
      match st.cur.tok with
      | .do =>
        let (h, st1) := parseFnHeader start st
        match parseBlock f st1 with
        | none => none
        | some (body, st2) =>
          let st3 := st2.expect .end .unterminatedBlock ⟨start, h.startSpan.hi⟩
          some (.fnDef h.name ⟨h.doSpan.lo, h.rparenSpan.hi⟩ h.params body none none
                  ⟨start, st3.cur.span.hi⟩, st3)
      | .ret =>
        let st1 := st.bump
        if st1.cur.tok == .end || st1.cur.tok == .eof then
          some (.ret none none ⟨start, st1.cur.span.hi⟩, st1)
        else
          match parseExpr f 0 st1 with
          | none => none
          | some (e, st2) => some (.ret (some e) none ⟨start, st2.cur.span.hi⟩, st2)
      | .make =>
        let (name, nameSpan, st1) := parseMakeHeader st
        if st1.cur.tok == .get then
          match parseExpr f 0 st1.bump with
          | none => none
          | some (e, st2) => some (.assign name nameSpan e none none ⟨start, st2.cur.span.hi⟩, st2)
        else
          some (.assign name nameSpan (.null nameSpan) none none ⟨start, st1.cur.span.hi⟩, st1)
      | .ifToSay =>
        let st1 := openCond st.cur.span st.bump
        match parseExpr f 0 st1 with
        | none => none
        | some (cond, st2) =>
          let (_, st3) := closeCond start cond st2
          match parseBlock f st3 with
          | none => none
          | some (thenB, st4) =>
            let st5 := st4.expect .end .unterminatedBlock st4.cur.span
            if st5.cur.tok == .ifNotSo then
              let elseSpan := st5.cur.span
              let st6 := st5.bump
              let startSpan := st6.cur.span
              let st7 := st6.expect .start .expectedStartBlock elseSpan
              match parseBlock f st7 with
              | none => none
              | some (elseB, st8) =>
                let st9 := st8.expect .end .unterminatedBlock ⟨elseSpan.lo, startSpan.hi⟩
                some (.ifS cond thenB (some elseB) none ⟨start, st9.cur.span.hi⟩, st9)
            else some (.ifS cond thenB none none ⟨start, st5.cur.span.hi⟩, st5)
      | .jasi =>
        let st1 := openCond st.cur.span st.bump
        match parseExpr f 0 st1 with
        | none => none
        | some (cond, st2) =>
          let (startSpan, st3) := closeCond start cond st2
          match parseBlock f st3 with
          | none => none
          | some (body, st4) =>
            let st5 := st4.expect .end .unterminatedBlock ⟨start, startSpan.hi⟩
            some (.loop cond body none ⟨start, st5.cur.span.hi⟩, st5)
      | .comot =>
        let st1 := st.bump
        some (.brk none ⟨start, st1.cur.span.hi⟩, st1)
      | .next =>
        let st1 := st.bump
        some (.cont none ⟨start, st1.cur.span.hi⟩, st1)
      | .start =>
        match parseBlock f st.bump with
        | none => none
        | some (b, st1) =>
          let st2 := st1.expect .end .unterminatedBlock st1.cur.span
          some (.block b none ⟨start, st2.cur.span.hi⟩, st2)
      | .ident v =>
        match parseCont f 0 (.var v none st.cur.span) st.bump with
        | none => none
        | some (target, st1) =>
          if st1.cur.tok == .get then
            match parseExpr f 0 st1.bump with
            | none => none
            | some (value, st2) => some (finishAssign start target value st2)
          else some (.expr target none ⟨start, st1.cur.span.hi⟩, st1)
      | _ =>
        -- error recovery always makes progress: bump, then synchronize
        let st1 := ((st.err1 .expectedStatement st.cur.span).bump).sync
        some (.expr (.null ⟨0, 0⟩) none ⟨0, 0⟩, st1)

  /-- The statement loop of `parse_block_body`. -/
  def parseStmts : Nat → PState → Option (List Stmt × PState)
    | 0, _ => none
    | f + 1, st =>
      if isBlockStop st.cur.tok then some ([], st)
      else
        match parseStmt f st with
        | none => none
        | some (s, st1) =>
          match parseStmts f st1 with
          | none => none
          | some (ss, st2) => some (s :: ss, st2)

  /-- `parse_block_body`. -/
  def parseBlock : Nat → PState → Option (Block × PState)
    | 0, _ => none
    | f + 1, st =>
      match parseStmts f st with
      | none => none
      | some (ss, st1) => some (.mk ss ⟨st.cur.span.lo, st1.cur.span.hi⟩, st1)
end

/-- The statement loop of `parse_program_body`. -/
def parseTopStmts : Nat → PState → Option (List Stmt × PState)
  | 0, _ => none
  | f + 1, st =>
    if isStmtStart st.cur.tok then
      match parseStmt f st with
      | none => none
      | some (s, st1) =>
        match parseTopStmts f st1 with
        | none => none
        | some (ss, st2) => some (s :: ss, st2)
    else some ([], st)

/-- `parse_program` without the lexer-diagnostics merge, with explicit fuel. -/
def parseProgramFuel (fuel : Nat) (toks : List SpTok) : Option (Block × List Diag) :=
  let st := PState.init toks
  match parseTopStmts fuel st with
  | none => none
  | some (ss, st1) =>
    let st2 := if st1.cur.tok != .eof then st1.err .trailingTokens st1.cur.span [] else st1
    some (.mk ss ⟨st.cur.span.lo, st1.cur.span.hi⟩, st2.errs.reverse)

/-- Enough fuel for every token list (`Lemmas/ParseFuel.lean`: `parseProgramFuel_adequate`). -/
def fuelFor (toks : List SpTok) : Nat := 3 * toks.length + 10

/-- `Parser::parse_program` (syntax diagnostics only, in emission order). -/
def parseProgram (toks : List SpTok) : Block × List Diag :=
  match parseProgramFuel (fuelFor toks) toks with
  | some r => r
  | none => (.mk [] ⟨0, 0⟩, [])   -- unreachable: `parseProgramFuel_adequate`

end NaijaVerif.Parse
