import NaijaVerif.Model.Lex
import NaijaVerif.Model.Parse
import NaijaVerif.Model.Resolve
import NaijaVerif.Model.CfgCount
import NaijaVerif.Model.Limits
import NaijaVerif.Model.Analysis
import NaijaVerif.Model.Eval
/-
The whole shipped pipeline as ONE function of the source text, composed from the unit models:
`Lexer` → `Parser::parse_program` (stop on any diagnostic, as `cmd.rs::run_source` does) →
`Resolver::resolve` (stop on an error-level diagnostic) → limit preflight → analyses (warnings and
optimisation plan) → `Runtime::run_with_analysis` with that plan.

This is the object properties C01 (results), C10 (layout) and C14 (CLI = library) speak about; the
tie runs it against the real library pipeline on program TEXTS (family `pipe`).
-/
namespace NaijaVerif.Pipeline
open NaijaVerif

/-- Where a text stops, with what it produced there. -/
inductive Result (N : Type) where
  /-- lexical / syntax diagnostics (lexical first): nothing else runs -/
  | syntax (diags : List Diag)
  /-- resolver diagnostics holding at least one error: nothing runs -/
  | semantic (diags : List Diag)
  /-- accepted: analysis warnings (printed before the run) and the outcome of the run -/
  | ran (warnings : List Diag) (outcome : Eval.Outcome N)

/-- Everything up to the run: the annotated program, warnings and the plan the analyses hand to the
runtime (`none` when a limit tripped). -/
structure Accepted where
  root : Block
  facts : Facts
  warnings : List Diag
  plan : Option Eval.Plan

def warnDiag (w : Analysis.Warn) : Diag :=
  { sev := .warning, kind := w.kind.diag, span := w.span }

/-- Front end and analyses: `Except` the diagnostics that stop the pipeline. -/
def frontEnd (caps : Limits.Caps) (src : Bytes) : Except (Bool × List Diag) Accepted :=
  let l := Lex.lex src
  let p := Parse.parseProgram l.1
  let sd := l.2 ++ p.2
  if !sd.isEmpty then .error (true, sd)
  else
    let r := Resolve.resolve p.1
    if hasErrors r.diags then .error (false, r.diags)
    else
      let a := Analysis.analyse r.root r.facts
      let passW := a.warns.map warnDiag
      let planOf : Eval.Plan := { stmts := a.plan.stmts, fns := a.plan.fns }
      match CfgCount.countProgram r.root r.facts with
      | none => .ok { root := r.root, facts := r.facts, warnings := r.diags ++ passW, plan := some planOf }
      | some c =>
          let o := Limits.emitAnalysis caps c (p.1.span) planOf passW
          .ok { root := r.root, facts := r.facts, warnings := r.diags ++ o.warnings, plan := o.plan }

/-- The shipped pipeline. `cfg.plan` is overwritten by the analyses' plan. -/
def runSource {N : Type} [NumOps N] (caps : Limits.Caps) (cfg : Eval.RunCfg) (fuel : Nat) (src : Bytes) :
    Result N :=
  match frontEnd caps src with
  | .error (true, ds) => .syntax ds
  | .error (false, ds) => .semantic ds
  | .ok a => .ran a.warnings (Eval.run { cfg with plan := a.plan } fuel a.root)

/-- Exit status of `cmd.rs::run_source`: success iff nothing was rejected and the run ended without
a runtime error (a panic is not an exit status). -/
def exitOk {N : Type} : Result N → Bool
  | .ran _ (.ok _) => true
  | _ => false

end NaijaVerif.Pipeline
