import NaijaVerif.Model.Analysis
/-
Evaluator fragment for the C03 theorems (`src/runtime.rs` as far as the optimisation plan can
see it).  Everything the plan interacts with is modelled concretely and in the code's order:

* `exec_block_with_flow`: push a variable scope and a function scope, hoist the block's function
  definitions (`register_function` skips a definition the plan removes), run the statements in
  order, skip a statement the plan removes (`stmt_is_pruned`), stop at `return`/`comot`/`next`,
  pop the scopes;
* `exec_stmt`: `make`/assignment/index assignment, `if`, `jasi` (re-evaluating the condition,
  `comot` leaves, `next`/normal continue, `return` propagates), nested blocks, definitions (no-op),
  `return`, `comot`, `next`, expression statements;
* `eval_expr`: a variable is found by `LocalId` in the most recent instance of its declaring scope
  only (`local_scope_index` / `lookup_local`, the D-04 fix: every runtime scope is tagged with the
  resolver scope it instantiates; a miss is `Undefined variable`), `and`/`or` short-circuit, user calls are found by `FunctionId` in the dynamic stack of function
  scopes (`lookup_func_by_id`), arguments left to right, parameters in their own scope, the body
  as a block; `shout` appends to the output; mutating methods and index assignment write the root
  variable of their receiver.

What a primitive operation *computes* is abstract (`Prims`): values are any type `V`, and a node
whose meaning does not involve control flow (literals, arithmetic, comparison, indexing, array and
string construction, pure builtins and methods) is `Prims.node e children`, which may fail with any
error.  The theorems hold for every `Prims`, hence for the runtime's.  Two ghost fields record what
T1 and T3 talk about: the ids of the statements executed and of the functions looked up.

Errors do not discard the state (`Runtime.output` survives a runtime error): every function returns
`Except Err α × St`.  Fuel stands for the native stack / time budget; `Err.fuel` runs are excluded
from the comparisons, as the property says.
-/
namespace NaijaVerif.AEval
open NaijaVerif NaijaVerif.Analysis

inductive Err where
  | rt (kind : Nat)
  | panic
  /-- `Undefined variable`: a read of / store to a variable that has no slot (yet) -/
  | unbound
  | fuel
deriving DecidableEq, Repr

structure Slot (V : Type) where
  id : Nat
  val : V

/-- One entry of `Runtime::env` with its entry of `Runtime::scope_ids`. -/
structure Scope (V : Type) where
  /-- the resolver scope this runtime scope is an instance of (`None` for the root scope and for the
  parameter scope of a function without parameters) -/
  tag : Option Nat
  slots : List (Slot V)

structure FnDef where
  id : Nat
  params : List Param
  body : List Stmt

structure St (V : Type) where
  env : List (Scope V)
  fns : List (List FnDef)
  out : List V
  /-- ghost: statement ids executed, newest first -/
  trace : List Nat
  /-- ghost: function ids looked up by calls, newest first -/
  looked : List Nat

inductive Flow (V : Type) where
  | normal
  | ret (v : V)
  | brk
  | cont

/-- What the runtime consults the plan for. -/
structure Cfg where
  skip : Nat → Bool
  dropFn : Nat → Bool

def Cfg.ofPlan : Option Plan → Cfg
  | none => { skip := fun _ => false, dropFn := fun _ => false }
  | some p => { skip := fun i => p.stmts.contains i, dropFn := fun f => p.fns.contains f }

structure Prims (V : Type) where
  null : V
  /-- a node without control flow, from the values of its children (operands, elements, receiver
  and arguments, interpolated variables) -/
  node : Expr → List V → Except Err V
  /-- `and` stops on this left value -/
  falsy : V → Bool
  /-- `or` stops on this left value -/
  truthy : V → Bool
  /-- result of `and`/`or` from the right value (`unreachable!` on a non-boolean) -/
  logicRhs : V → Except Err V
  logicShort : BinOp → V
  /-- `if` / `jasi` condition -/
  cond : V → Except Err Bool
  isGlobal : Bytes → Bool
  isShout : Bytes → Bool
  global : Bytes → List V → Except Err V
  isMut : Bytes → Bool
  /-- non-mutating method on an evaluated receiver: the argument positions it reads, in order
  (`arg_at` of `eval_*_member_call`), or the error when the receiver has no such method -/
  memberSel : Bytes → V → Except Err (List Nat)
  /-- its result, from the call, the receiver and the values of the arguments read -/
  member : Expr → V → List V → Except Err V
  /-- an argument position past the end of the argument list (`arg_at`) -/
  argMissing : Err
  /-- mutating method (dispatched by name before the receiver is looked at): the argument positions it
  reads, in order, each with the check made on the value before the next position is evaluated -/
  mutSteps : Bytes → List (Nat × (V → Except Err V))
  /-- mutating method: receiver root value, index path, arguments ↦ new root value and result -/
  mutMember : Bytes → V → List V → List V → Except Err (V × V)
  /-- index assignment: root value, index path, new element ↦ new root value -/
  setPath : V → List V → V → Except Err V
  /-- check of an index value of a receiver / target path, made as soon as the value is computed
  (`eval_index_value`) -/
  idx : V → Except Err V
  /-- a receiver / assignment target that is not a variable or an index chain on a variable -/
  lvErr : Err
  /-- `facts.locals[l].declaring_scope` (what `local_scope_index` consults) -/
  dscope : Nat → Option Nat
  /-- `facts.stmt_effects[i].scope`; the scope of a block (`scope_of_block`) is the scope of its first
  statement — an empty block declares nothing, its tag is never looked for -/
  sscope : Nat → Option Nat

abbrev R (V α : Type) := Except Err α × St V

/-! ### Environment -/

def findSlot {V : Type} (id : Nat) : List (Slot V) → Option V
  | [] => none
  | s :: ss => if s.id == id then some s.val else findSlot id ss

/-- `local_scope_index`: the most recent scope that is an instance of resolver scope `tg`. -/
def findScope {V : Type} (tg : Nat) : List (Scope V) → Option (Scope V)
  | [] => none
  | sc :: scs => if sc.tag == some tg then some sc else findScope tg scs

/-- `lookup_local_env`: only the most recent instance of the declaring scope is searched. -/
def lookupEnv {V : Type} (ds : Nat → Option Nat) (id : Nat) (env : List (Scope V)) : Option V :=
  match ds id with
  | none => none
  | some tg =>
      match findScope tg env with
      | none => none
      | some sc => findSlot id sc.slots

def setSlot {V : Type} (id : Nat) (v : V) : List (Slot V) → Option (List (Slot V))
  | [] => none
  | s :: ss => if s.id == id then some ({ s with val := v } :: ss) else (setSlot id v ss).map (s :: ·)

/-- Store into the most recent instance of scope `tg`; `none` when there is no such instance or it
has no slot for `id` (the variable's `make` has not run in it). -/
def setIn {V : Type} (tg id : Nat) (v : V) : List (Scope V) → Option (List (Scope V))
  | [] => none
  | sc :: scs =>
      if sc.tag == some tg then (setSlot id v sc.slots).map (fun s => { sc with slots := s } :: scs)
      else (setIn tg id v scs).map (sc :: ·)

/-- `assign_local` / `lookup_local_mut`. -/
def assignEnv {V : Type} (ds : Nat → Option Nat) (id : Nat) (v : V) (env : List (Scope V)) : Option (List (Scope V)) :=
  match ds id with
  | none => none
  | some tg => setIn tg id v env

/-- `define`: a new slot in the innermost scope (there always is one: every block pushes its own;
with no scope at all the store is dropped). -/
def defineEnv {V : Type} (id : Nat) (v : V) : List (Scope V) → List (Scope V)
  | [] => []
  | sc :: scs => { sc with slots := ⟨id, v⟩ :: sc.slots } :: scs

/-- `scope_of_block`. -/
def blockTag (ss : Nat → Option Nat) : List Stmt → Option Nat
  | [] => none
  | s :: _ => s.sid.bind ss

/-- Tag of a parameter scope: the declaring scope of the first parameter. -/
def paramTag (ds : Nat → Option Nat) : List Param → Option Nat
  | [] => none
  | p :: _ => p.bind.bind ds

def findFn (id : Nat) : List (List FnDef) → Option FnDef
  | [] => none
  | sc :: scs => match sc.find? (fun f => f.id == id) with
    | some f => some f
    | none => findFn id scs

/-- `hoist_block_functions`: the definitions of this statement list.  `register_function` does not
register a definition the plan removes; functions are only ever found by id (`lookup_func_by_id`),
so "never registered" and "registered but invisible to the lookup" are the same thing
(`findFn_filter` below) and the model applies `dropFn` at the lookup (`findFnC`).  That keeps the
function scopes of a pruned and an unpruned run identical. -/
def hoist : List Stmt → List FnDef
  | [] => []
  | .fnDef _ _ ps (.mk body _) (some f) _ _ :: ss => { id := f, params := ps, body := body } :: hoist ss
  | _ :: ss => hoist ss

/-- `lookup_func_by_id` under a plan. -/
def findFnC (cfg : Cfg) (id : Nat) (fns : List (List FnDef)) : Option FnDef :=
  if cfg.dropFn id then none else findFn id fns

/-- Looking `id` up in scopes from which the dropped definitions were filtered out (what the runtime
does) is `findFnC`. -/
theorem findFn_filter (drop : Nat → Bool) (id : Nat) : ∀ fns : List (List FnDef),
    findFn id (fns.map (fun sc => sc.filter (fun f => !drop f.id))) =
      if drop id then none else findFn id fns
  | [] => by simp [findFn]
  | sc :: scs => by
      have ih := findFn_filter drop id scs
      simp only [List.map_cons, findFn, ih]
      have key : (sc.filter (fun f => !drop f.id)).find? (fun f => f.id == id) =
          if drop id then none else sc.find? (fun f => f.id == id) := by
        induction sc with
        | nil => simp
        | cons x xs ihx =>
          by_cases hx : x.id = id
          · subst hx
            cases hd : drop x.id <;> simp [List.filter, List.find?, hd, ihx]
          · have hx' : (x.id == id) = false := by simpa using hx
            cases hd : drop x.id <;> simp [List.filter, List.find?, hd, hx', ihx]
      rw [key]
      cases drop id <;> simp

/-- Root variable and index expressions of an l-value (`a`, `a[i]`, `a[i][j]`, …). -/
def lvalue : Expr → Option (Nat × List Expr)
  | .var _ (some id) _ => some (id, [])
  | .index a i _ _ => (lvalue a).map fun (r, p) => (r, p ++ [i])
  | _ => none

/-- Children of a node without control flow, in evaluation order.  A bare member expression and a
call whose callee is not a name fail at once (`Type mismatch`), without evaluating anything. -/
def children : Expr → List Expr
  | .index a i _ _ => [a, i]
  | .binary _ l r _ => [l, r]
  | .array es _ => es
  | .unary _ e _ => [e]
  | _ => []

def segIds : List Seg → List (Option Nat)
  | [] => []
  | .lit _ :: ss => segIds ss
  | .var _ b :: ss => b :: segIds ss

/-- Variables an interpolated string reads, in order. -/
def interpIds : Expr → List (Option Nat)
  | .str (.interp segs) _ => segIds segs
  | _ => []

def readAll {V : Type} (ds : Nat → Option Nat) (env : List (Scope V)) : List (Option Nat) → Option (List V)
  | [] => some []
  | none :: _ => none
  | some id :: ids => match lookupEnv ds id env, readAll ds env ids with
    | some v, some vs => some (v :: vs)
    | _, _ => none

def bindParams {V : Type} : List Param → List V → Option (List (Slot V))
  | [], [] => some []
  | p :: ps, v :: vs => match p.bind, bindParams ps vs with
    | some id, some r => some (⟨id, v⟩ :: r)
    | _, _ => none
  | _, _ => none

def isLogic : Expr → Bool
  | .binary .and _ _ _ | .binary .or _ _ _ => true
  | _ => false

variable {V : Type}

/-- A node without control flow, once its children are evaluated. -/
def finishNode (P : Prims V) (e : Expr) : R V (List V) → R V V
  | (.error er, st1) => (.error er, st1)
  | (.ok vs, st1) =>
      match readAll P.dscope st1.env (interpIds e) with
      | none => (.error .unbound, st1)
      | some rs => (P.node e (vs ++ rs), st1)

/-- Evaluate expressions in order with `ev`, checking (and replacing) each value as soon as it is
computed; a missing expression (an argument position past the end of the list) is the error `miss`
at that point. -/
def evalChecked (ev : Expr → St V → R V V) (miss : Err) : List (Option Expr × (V → Except Err V)) → St V → R V (List V)
  | [], st => (.ok [], st)
  | (none, _) :: _, st => (.error miss, st)
  | (some e, chk) :: rest, st =>
      match ev e st with
      | (.error er, st1) => (.error er, st1)
      | (.ok v, st1) =>
          match chk v with
          | .error er => (.error er, st1)
          | .ok v' =>
              match evalChecked ev miss rest st1 with
              | (.error er, st2) => (.error er, st2)
              | (.ok vs, st2) => (.ok (v' :: vs), st2)

/-- The argument expressions at the given positions. -/
def selArgs (args : List Expr) (idx : List Nat) : List (Option Expr × (V → Except Err V)) :=
  idx.map fun i => (args[i]?, Except.ok)

def stepArgs (args : List Expr) (steps : List (Nat × (V → Except Err V))) : List (Option Expr × (V → Except Err V)) :=
  steps.map fun q => (args[q.1]?, q.2)

def pathItems (chk : V → Except Err V) (path : List Expr) : List (Option Expr × (V → Except Err V)) :=
  path.map fun e => (some e, chk)

mutual
  def evalExpr (P : Prims V) (cfg : Cfg) : Nat → Expr → St V → R V V
    | 0, _, st => (.error .fuel, st)
    | _ + 1, .var _ b _, st =>
        match b.bind (fun id => lookupEnv P.dscope id st.env) with
        | some v => (.ok v, st)
        | none => (.error .unbound, st)
    | n + 1, .binary .and l r _, st =>
        match evalExpr P cfg n l st with
        | (.error e, st1) => (.error e, st1)
        | (.ok lv, st1) =>
            if P.falsy lv then (.ok (P.logicShort .and), st1) else
            match evalExpr P cfg n r st1 with
            | (.error e, st2) => (.error e, st2)
            | (.ok rv, st2) => (P.logicRhs rv, st2)
    | n + 1, .binary .or l r _, st =>
        match evalExpr P cfg n l st with
        | (.error e, st1) => (.error e, st1)
        | (.ok lv, st1) =>
            if P.truthy lv then (.ok (P.logicShort .or), st1) else
            match evalExpr P cfg n r st1 with
            | (.error e, st2) => (.error e, st2)
            | (.ok rv, st2) => (P.logicRhs rv, st2)
    | n + 1, .call (.var name _ _) args fn _, st =>
        if P.isGlobal name then
          match evalList P cfg n args st with
          | (.error e, st1) => (.error e, st1)
          | (.ok vs, st1) =>
              if P.isShout name then
                match vs with
                | [v] => (.ok P.null, { st1 with out := v :: st1.out })
                | _ => (.error .panic, st1)
              else (P.global name vs, st1)
        else
          match fn with
          | none => (.error .panic, st)
          | some f =>
              let st0 := { st with looked := f :: st.looked }
              match findFnC cfg f st0.fns with
              | none => (.error .panic, st0)
              | some fd =>
                  match evalList P cfg n args st0 with
                  | (.error e, st1) => (.error e, st1)
                  | (.ok vs, st1) =>
                      match bindParams fd.params vs with
                      | none => (.error .panic, st1)
                      | some slots =>
                          let st2 := { st1 with env := ⟨paramTag P.dscope fd.params, slots⟩ :: st1.env, fns := [] :: st1.fns }
                          match execBlock P cfg n fd.body st2 with
                          | (.error e, st3) => (.error e, { st3 with env := st3.env.drop 1, fns := st3.fns.drop 1 })
                          | (.ok fl, st3) =>
                              let st4 := { st3 with env := st3.env.drop 1, fns := st3.fns.drop 1 }
                              match fl with
                              | .normal => (.ok P.null, st4)
                              | .ret v => (.ok v, st4)
                              | _ => (.error .panic, st4)
    | n + 1, .call (.member o field fs sp) args fn sp2, st =>
        if P.isMut field then
          match evalChecked (evalExpr P cfg n) P.argMissing (stepArgs args (P.mutSteps field)) st with
          | (.error e, st1) => (.error e, st1)
          | (.ok vs, st1) =>
              match lvalue o with
              | none => (.error P.lvErr, st1)
              | some (root, path) =>
                  match evalChecked (evalExpr P cfg n) P.argMissing (pathItems P.idx path) st1 with
                  | (.error e, st2) => (.error e, st2)
                  | (.ok pvs, st2) =>
                      match lookupEnv P.dscope root st2.env with
                      | none => (.error .unbound, st2)
                      | some old =>
                          match P.mutMember field old pvs vs with
                          | .error e => (.error e, st2)
                          | .ok (new, res) =>
                              match assignEnv P.dscope root new st2.env with
                              | none => (.error .panic, st2)
                              | some env' => (.ok res, { st2 with env := env' })
        else
          match evalExpr P cfg n o st with
          | (.error e, st1) => (.error e, st1)
          | (.ok recv, st1) =>
              match P.memberSel field recv with
              | .error e => (.error e, st1)
              | .ok idx =>
                  match evalChecked (evalExpr P cfg n) P.argMissing (selArgs args idx) st1 with
                  | (.error e, st2) => (.error e, st2)
                  | (.ok vs, st2) => (P.member (.call (.member o field fs sp) args fn sp2) recv vs, st2)
    | n + 1, e, st => finishNode P e (evalList P cfg n (children e) st)

  def evalList (P : Prims V) (cfg : Cfg) : Nat → List Expr → St V → R V (List V)
    | 0, _, st => (.error .fuel, st)
    | _ + 1, [], st => (.ok [], st)
    | n + 1, e :: es, st =>
        match evalExpr P cfg n e st with
        | (.error er, st1) => (.error er, st1)
        | (.ok v, st1) =>
            match evalList P cfg n es st1 with
            | (.error er, st2) => (.error er, st2)
            | (.ok vs, st2) => (.ok (v :: vs), st2)

  /-- `exec_block_with_flow`. -/
  def execBlock (P : Prims V) (cfg : Cfg) : Nat → List Stmt → St V → R V (Flow V)
    | 0, _, st => (.error .fuel, st)
    | n + 1, ss, st =>
        let st1 := { st with env := ⟨blockTag P.sscope ss, []⟩ :: st.env, fns := hoist ss :: st.fns }
        match execStmts P cfg n ss st1 with
        | (r, st2) => (r, { st2 with env := st2.env.drop 1, fns := st2.fns.drop 1 })

  /-- The statement loop of `exec_block_with_flow`. -/
  def execStmts (P : Prims V) (cfg : Cfg) : Nat → List Stmt → St V → R V (Flow V)
    | 0, _, st => (.error .fuel, st)
    | _ + 1, [], st => (.ok .normal, st)
    | n + 1, s :: ss, st =>
        match s.sid with
        | none => (.error .panic, st)
        | some i =>
            if cfg.skip i then execStmts P cfg n ss st else
            match execStmt P cfg n s { st with trace := i :: st.trace } with
            | (.error e, st1) => (.error e, st1)
            | (.ok .normal, st1) => execStmts P cfg n ss st1
            | (.ok fl, st1) => (.ok fl, st1)

  def execStmt (P : Prims V) (cfg : Cfg) : Nat → Stmt → St V → R V (Flow V)
    | 0, _, st => (.error .fuel, st)
    | n + 1, .assign _ _ e b _ _, st =>
        match evalExpr P cfg n e st with
        | (.error er, st1) => (.error er, st1)
        | (.ok v, st1) =>
            match b with
            | some id => (.ok .normal, { st1 with env := defineEnv id v st1.env })
            | none => (.error .panic, st1)
    | n + 1, .assignExisting _ _ e b _ _, st =>
        match evalExpr P cfg n e st with
        | (.error er, st1) => (.error er, st1)
        | (.ok v, st1) =>
            match b.bind (fun id => assignEnv P.dscope id v st1.env) with
            | some env' => (.ok .normal, { st1 with env := env' })
            | none => (.error .unbound, st1)
    | n + 1, .assignIndex t e _ _, st =>
        match evalExpr P cfg n e st with
        | (.error er, st1) => (.error er, st1)
        | (.ok v, st1) =>
            match lvalue t with
            | none => (.error P.lvErr, st1)
            | some (root, path) =>
                match evalChecked (evalExpr P cfg n) P.argMissing (pathItems P.idx path) st1 with
                | (.error er, st2) => (.error er, st2)
                | (.ok pvs, st2) =>
                    match lookupEnv P.dscope root st2.env with
                    | none => (.error .unbound, st2)
                    | some old =>
                        match P.setPath old pvs v with
                        | .error er => (.error er, st2)
                        | .ok new =>
                            match assignEnv P.dscope root new st2.env with
                            | none => (.error .panic, st2)
                            | some env' => (.ok .normal, { st2 with env := env' })
    | n + 1, .ifS c (.mk t _) els _ _, st =>
        match evalExpr P cfg n c st with
        | (.error er, st1) => (.error er, st1)
        | (.ok v, st1) =>
            match P.cond v with
            | .error er => (.error er, st1)
            | .ok true => execBlock P cfg n t st1
            | .ok false =>
                match els with
                | some (.mk e _) => execBlock P cfg n e st1
                | none => (.ok .normal, st1)
    | n + 1, .loop c (.mk b _) _ _, st => execLoop P cfg n c b st
    | n + 1, .block (.mk b _) _ _, st => execBlock P cfg n b st
    | _ + 1, .fnDef _ _ _ _ _ _ _, st => (.ok .normal, st)
    | n + 1, .ret (some e) _ _, st =>
        match evalExpr P cfg n e st with
        | (.error er, st1) => (.error er, st1)
        | (.ok v, st1) => (.ok (.ret v), st1)
    | _ + 1, .ret none _ _, st => (.ok (.ret P.null), st)
    | _ + 1, .brk _ _, st => (.ok .brk, st)
    | _ + 1, .cont _ _, st => (.ok .cont, st)
    | n + 1, .expr e _ _, st =>
        match evalExpr P cfg n e st with
        | (.error er, st1) => (.error er, st1)
        | (.ok _, st1) => (.ok .normal, st1)

  /-- The `loop { … }` of `Stmt::Loop`. -/
  def execLoop (P : Prims V) (cfg : Cfg) : Nat → Expr → List Stmt → St V → R V (Flow V)
    | 0, _, _, st => (.error .fuel, st)
    | n + 1, c, b, st =>
        match evalExpr P cfg n c st with
        | (.error er, st1) => (.error er, st1)
        | (.ok v, st1) =>
            match P.cond v with
            | .error er => (.error er, st1)
            | .ok false => (.ok .normal, st1)
            | .ok true =>
                match execBlock P cfg n b st1 with
                | (.error er, st2) => (.error er, st2)
                | (.ok .brk, st2) => (.ok .normal, st2)
                | (.ok (.ret v), st2) => (.ok (.ret v), st2)
                | (.ok _, st2) => execLoop P cfg n c b st2
end

def St.init (V : Type) : St V := { env := [⟨none, []⟩], fns := [[]], out := [], trace := [], looked := [] }

/-- `Runtime::run_with_analysis`: the outer scope of `run_inner`, then the root block. -/
def run (P : Prims V) (plan : Option Plan) (fuel : Nat) (root : Block) : R V (Flow V) :=
  execBlock P (Cfg.ofPlan plan) fuel root.stmts (St.init V)

/-- What the property compares: printed values and the ending. -/
def observable (r : R V (Flow V)) : List V × Option Err :=
  (r.2.out, match r.1 with | .ok _ => none | .error e => some e)

end NaijaVerif.AEval
