import NaijaVerif.Model.Facts
/-
Static types of the resolver (`helpers.rs` `ValueType`), the static operator rules of
`resolver.rs::{check_expr, infer_expr_type}` and the builtin tables of `src/builtins/*` and
`analysis/effects.rs`, as the *model* uses them.  `Gen/TypeRules.lean` (probed from the real
checker) and `Gen/Builtins.lean` (dumped through the `pub` trait methods) are compared with these
closed forms by `decide` in `Props/C09.lean`.  Core-only.
-/
namespace NaijaVerif

/-- `ValueType`. -/
inductive VType where
  | number | string | bool | array | processCommand | processResult | dynamic | null
deriving DecidableEq, Repr, Inhabited

namespace VType

def all : List VType :=
  [.number, .string, .bool, .array, .processCommand, .processResult, .dynamic, .null]

/-- Name used in the line protocols and in the generated tables. -/
def name : VType → String
  | .number => "number" | .string => "string" | .bool => "boolean" | .array => "array"
  | .processCommand => "process_command" | .processResult => "process_result"
  | .dynamic => "dynamic" | .null => "null"

end VType

/-! ### Operators (`check_expr` works on `Option ValueType`, `infer_expr_type` on `ValueType`) -/

/-- `check_expr`, arm `Expr::Binary`: is the operator application accepted (no `TypeMismatch`)?
`none` = the operand's type could not be inferred. -/
def binaryOk (op : BinOp) (l r : Option VType) : Bool :=
  match op with
  | .add =>
      match l, r with
      | some .string, some .string | some .string, some .number | some .string, some .dynamic
      | some .number, some .string | some .number, some .number | some .number, some .dynamic
      | some .dynamic, some .string | some .dynamic, some .number | some .dynamic, some .dynamic => true
      | _, _ => false
  | .minus | .times | .divide | .mod =>
      match l, r with
      | some .number, some .number | some .number, some .dynamic
      | some .dynamic, some .number | some .dynamic, some .dynamic => true
      | _, _ => false
  | .eq | .gt | .lt =>
      match l, r with
      | some .number, some .number | some .string, some .string | some .bool, some .bool => true
      | some .null, _ | some .dynamic, _ => true
      | _, some .null | _, some .dynamic => true
      | _, _ => false
  | .and | .or =>
      match l, r with
      | some .bool, some .bool | some .bool, some .null | some .bool, some .dynamic
      | some .null, some .bool | some .null, some .null | some .null, some .dynamic
      | some .dynamic, some .bool | some .dynamic, some .null | some .dynamic, some .dynamic => true
      | _, _ => false

/-- `infer_expr_type`, arm `Expr::Binary` (both operand types known). -/
def inferBinary (op : BinOp) (l r : VType) : Option VType :=
  match op with
  | .add =>
      match l, r with
      | .string, _ => some .string
      | _, .string => some .string
      | .number, .number => some .number
      | .dynamic, _ => some .dynamic
      | _, .dynamic => some .dynamic
      | _, _ => none
  | .minus | .times | .divide | .mod =>
      match l, r with
      | .number, .number => some .number
      | .dynamic, _ => some .number
      | _, .dynamic => some .number
      | _, _ => none
  | .eq | .gt | .lt =>
      match l, r with
      | .number, .number | .string, .string | .bool, .bool => some .bool
      | .null, _ | .dynamic, _ => some .bool
      | _, .null | _, .dynamic => some .bool
      | _, _ => none
  | .and | .or =>
      match l, r with
      | .bool, .bool => some .bool
      | .null, _ | .dynamic, _ => some .bool
      | _, .null | _, .dynamic => some .bool
      | _, _ => none

/-- `Resolver::literal_expr_type`, binary arm: the operator has a run-time case on literals of these
types. -/
def literalMeaning (op : BinOp) (l r : VType) : Option VType :=
  match op with
  | .add =>
      match l, r with
      | .number, .number => some .number
      | .string, .string | .string, .number | .number, .string => some .string
      | _, _ => none
  | .minus | .times | .divide | .mod =>
      match l, r with
      | .number, .number => some .number
      | _, _ => none
  | .eq | .gt | .lt =>
      match l, r with
      | .number, .number | .string, .string | .bool, .bool => some .bool
      | .null, _ | _, .null => some .bool
      | _, _ => none
  | .and | .or =>
      match l, r with
      | .bool, .bool | .bool, .null | .null, .bool | .null, .null => some .bool
      | _, _ => none

/-- `literal_expr_type`, unary arm. -/
def literalUnary (op : UnOp) (t : VType) : Option VType :=
  match op, t with
  | .not, .bool | .not, .null => some .bool
  | .neg, .number => some .number
  | _, _ => none

/-- `check_expr`, arm `Expr::Unary`. -/
def unaryOk (op : UnOp) (t : Option VType) : Bool :=
  match op with
  | .not => t = some .bool || t = some .null || t = some .dynamic
  | .neg => t = some .number || t = some .dynamic

/-- `infer_expr_type`, arm `Expr::Unary`. -/
def inferUnary (op : UnOp) (t : VType) : Option VType :=
  match op with
  | .not => if t = .bool || t = .null || t = .dynamic then some .bool else none
  | .neg => if t = .number || t = .dynamic then some .number else none

/-- `check_boolean_expr`: an `if`/`jasi` condition is accepted. -/
def condOk (t : Option VType) : Bool :=
  match t with
  | none => true
  | some t => t = .bool || t = .null || t = .dynamic

/-- Indexed expression must be an array or dynamic. -/
def indexBaseOk (t : Option VType) : Bool := t = some .array || t = some .dynamic
/-- Index must be a number or dynamic. -/
def indexIdxOk (t : Option VType) : Bool := t = some .number || t = some .dynamic

/-- `expect_member_string_arg` / the `command` argument check. -/
def stringArgOk (t : Option VType) : Bool :=
  match t with
  | none => true
  | some t => t = .string || t = .dynamic

/-- `expect_member_number_arg`. -/
def numberArgOk (t : Option VType) : Bool :=
  match t with
  | none => true
  | some t => t = .number || t = .dynamic

/-! ### Builtins -/

inductive GlobalB where
  | shout | typeOf | readLine | toStr | command
deriving DecidableEq, Repr, Inhabited

namespace GlobalB

def nameOf : GlobalB → Bytes
  | .shout => b!"shout" | .typeOf => b!"typeof" | .readLine => b!"read_line"
  | .toStr => b!"to_string" | .command => b!"command"

def all : List GlobalB := [.shout, .typeOf, .readLine, .toStr, .command]

/-- `GlobalBuiltin::from_name`. -/
def ofName (n : Bytes) : Option GlobalB := all.find? (fun g => g.nameOf == n)

def arity : GlobalB → Nat
  | _ => 1

def retType : GlobalB → VType
  | .shout => .null
  | .typeOf | .readLine | .toStr => .string
  | .command => .processCommand

/-- `effects::global_builtin_class`. -/
def cls : GlobalB → ExprClass
  | .typeOf | .toStr | .command => .pureNoTrap
  | .readLine | .shout => .impure

end GlobalB

/-- Is the name a global builtin (such names cannot be declared)? -/
def isReservedName (n : Bytes) : Bool := (GlobalB.ofName n).isSome

/-- Receiver kinds with methods; in the order `MemberBuiltin::from_name` tries them. -/
inductive MemberKind where
  | string | array | number | processCommand | processResult
deriving DecidableEq, Repr, Inhabited

def MemberKind.name : MemberKind → String
  | .string => "string" | .array => "array" | .number => "number"
  | .processCommand => "process_command" | .processResult => "process_result"

/-- The receiver kind of a static type (`None` for `Bool | Null | Dynamic`). -/
def MemberKind.ofType : VType → Option MemberKind
  | .string => some .string | .array => some .array | .number => some .number
  | .processCommand => some .processCommand | .processResult => some .processResult
  | .bool | .null | .dynamic => none

/-- One method: `arity`, `return_type`, `requires_mut_receiver`, `member_builtin_class`. -/
structure MemberB where
  kind : MemberKind
  name : Bytes
  arity : Nat
  ret : VType
  mutRecv : Bool
  cls : ExprClass
deriving DecidableEq, Repr, Inhabited

/-- All methods, grouped in `MemberBuiltin::from_name` order (string, array, number, process
command, process result), each group in the order of its `from_name` match arms. -/
def memberTable : List MemberB := [
  ⟨.string, b!"len", 0, .number, false, .pureNoTrap⟩,
  ⟨.string, b!"slice", 2, .string, false, .pureNoTrap⟩,
  ⟨.string, b!"to_uppercase", 0, .string, false, .pureNoTrap⟩,
  ⟨.string, b!"to_lowercase", 0, .string, false, .pureNoTrap⟩,
  ⟨.string, b!"find", 1, .number, false, .pureNoTrap⟩,
  ⟨.string, b!"replace", 2, .string, false, .pureNoTrap⟩,
  ⟨.string, b!"trim", 0, .string, false, .pureNoTrap⟩,
  ⟨.string, b!"to_number", 0, .number, false, .pureNoTrap⟩,
  ⟨.string, b!"split", 1, .array, false, .pureNoTrap⟩,
  ⟨.array, b!"len", 0, .number, false, .pureNoTrap⟩,
  ⟨.array, b!"push", 1, .null, true, .impure⟩,
  ⟨.array, b!"pop", 0, .dynamic, true, .impure⟩,
  ⟨.array, b!"reverse", 0, .null, true, .impure⟩,
  ⟨.array, b!"join", 1, .string, false, .pureNoTrap⟩,
  ⟨.number, b!"abs", 0, .number, false, .pureNoTrap⟩,
  ⟨.number, b!"sqrt", 0, .number, false, .pureNoTrap⟩,
  ⟨.number, b!"floor", 0, .number, false, .pureNoTrap⟩,
  ⟨.number, b!"ceil", 0, .number, false, .pureNoTrap⟩,
  ⟨.number, b!"round", 0, .number, false, .pureNoTrap⟩,
  ⟨.processCommand, b!"arg", 1, .null, true, .impure⟩,
  ⟨.processCommand, b!"cwd", 1, .null, true, .impure⟩,
  ⟨.processCommand, b!"env", 2, .null, true, .impure⟩,
  ⟨.processCommand, b!"stdin_text", 1, .null, true, .impure⟩,
  ⟨.processCommand, b!"stdin_inherit", 0, .null, true, .impure⟩,
  ⟨.processCommand, b!"stdin_null", 0, .null, true, .impure⟩,
  ⟨.processCommand, b!"stdout_capture", 0, .null, true, .impure⟩,
  ⟨.processCommand, b!"stdout_inherit", 0, .null, true, .impure⟩,
  ⟨.processCommand, b!"stdout_null", 0, .null, true, .impure⟩,
  ⟨.processCommand, b!"stderr_capture", 0, .null, true, .impure⟩,
  ⟨.processCommand, b!"stderr_inherit", 0, .null, true, .impure⟩,
  ⟨.processCommand, b!"stderr_null", 0, .null, true, .impure⟩,
  ⟨.processCommand, b!"timeout_ms", 1, .null, true, .impure⟩,
  ⟨.processCommand, b!"run", 0, .processResult, false, .impure⟩,
  ⟨.processResult, b!"success", 0, .bool, false, .pureNoTrap⟩,
  ⟨.processResult, b!"exit_code", 0, .dynamic, false, .pureNoTrap⟩,
  ⟨.processResult, b!"stdout", 0, .dynamic, false, .pureNoTrap⟩,
  ⟨.processResult, b!"stderr", 0, .dynamic, false, .pureNoTrap⟩]

/-- `<Kind>Builtin::from_name`. -/
def memberOf (k : MemberKind) (n : Bytes) : Option MemberB :=
  memberTable.find? (fun m => m.kind == k && m.name == n)

/-- `MemberBuiltin::from_name` (first kind that knows the name). -/
def memberAny (n : Bytes) : Option MemberB :=
  memberTable.find? (fun m => m.name == n)

/-- Which argument checks `check_expr` performs for a statically resolved method
(`expect_member_string_arg` / `expect_member_number_arg` on argument 0). -/
inductive ArgCheck where
  | none | string0 | string0If2 | number0
  /-- the first two arguments are strings / numbers (`replace`, `slice`) -/
  | strings2 | numbers2
deriving DecidableEq, Repr, Inhabited

def MemberB.argCheck (m : MemberB) : ArgCheck :=
  if m.kind = .processCommand && m.name = b!"cwd" then .string0
  else if m.kind = .array && m.name = b!"join" then .string0
  else if m.kind = .string && (m.name = b!"find" || m.name = b!"split") then .string0
  else if m.kind = .string && m.name = b!"replace" then .strings2
  else if m.kind = .string && m.name = b!"slice" then .numbers2
  else if m.kind = .processCommand && m.name = b!"env" then .string0If2
  else if m.kind = .processCommand && m.name = b!"timeout_ms" then .number0
  else .none

end NaijaVerif
